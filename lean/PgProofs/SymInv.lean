/-
  The value-free primitives keep the ids distinct and the payloads well-shaped; the combined
  invariant `Inv` (ids distinct and bounded, shapes) is preserved by every step.
-/
import PgProofs.SymShape
namespace Pg.Sym

/-! ### ids: helpers -/

theorem NB.of_count_le {f g : Forest} (hn : NB f) (hnext : g.nextId = f.nextId)
    (h : ∀ i, g.ids.count i ≤ f.ids.count i) : NB g := by
  apply hn.of_bounds (by rw [hnext]; exact Nat.le_refl _)
  · intro i _; exact h i
  · intro i hi; have := h i; have := hn.bound i hi; omega
  · intro i hi; rw [hnext] at hi; have := h i; have := hn.bound i hi; omega

theorem getKey_positional : (n : Nat) → (its : Items) → positional n (keysOf its) = true → ∀ j : Nat,
    getKey its (Key.i ((n + j : Nat) : Int)) = (its[j]?).map Prod.snd
  | _, [], _, j => by simp [getKey]
  | n, (k, c) :: r, h, j => by
    simp only [keysOf_cons, positional, Bool.and_eq_true, beq_iff_eq] at h
    rw [getKey_cons]
    cases j with
    | zero => simp [h.1]
    | succ j =>
      have hne : ¬ k = Key.i ((n + (j + 1) : Nat) : Int) := by
        rw [h.1]; intro he; injection he with he; omega
      rw [if_neg hne]
      have := getKey_positional (n + 1) r h.2 j
      have he : n + 1 + j = n + (j + 1) := by omega
      rw [he] at this
      simpa using this

theorem removeAt_count : (pos : Nat) → (its : Items) → ∀ i,
    (idsItems (its.take pos ++ its.drop (pos + 1))).count i +
      (((its[pos]?).map Prod.snd).getD (Tree.leaf Atom.none)).ids.count i = (idsItems its).count i
  | _, [], i => by simp [idsItems, Tree.ids]
  | 0, (k, c) :: r, i => by simp [idsItems, List.count_append]; omega
  | pos + 1, (k, c) :: r, i => by
    have := removeAt_count pos r i
    simp only [List.take_succ_cons, List.drop_succ_cons, List.cons_append, idsItems, List.count_append,
      List.getElem?_cons_succ] at this ⊢
    omega

theorem idsRoots_vals (d : Tree → Tree) (hd : ∀ t, (d t).ids = t.ids) (i : Nat) : (its : Items) →
    (idsRoots (((its.map (·.2)).filter Tree.isNode).map d)).count i = (idsItems its).count i
  | [] => rfl
  | (k, c) :: r => by
    simp only [List.map_cons, List.filter_cons, idsItems, List.count_append]
    cases c with
    | leaf a => simp [Tree.isNode, Tree.ids, idsRoots_vals d hd i r]
    | node m xs =>
      simp only [Tree.isNode, if_true, List.map_cons, idsRoots_cons, List.count_append, hd]
      rw [idsRoots_vals d hd i r]

theorem rawDelList_nb (cfg : Cfg) (f : Forest) (m : Meta) (its : Items) (pos : Nat) (hn : NB f)
    (hfind : f.find? m.id = some (.node m its)) (hpos : positional 0 (keysOf its) = true) :
    NB (rawDelList cfg f m its pos) := by
  unfold rawDelList
  simp only
  apply hn.of_count_le (by rw [addRoot_nextId]; rfl)
  intro i
  rw [addRoot_count]
  have h1 := mapAt_count f m.id (fun m' xs => if cfg.reindexOnMutate = true then reindex m' (removeAt pos xs) else removeAt pos xs)
    (hn.nodup m.id) m its hfind i
  have h2 : (idsItems (if cfg.reindexOnMutate = true then reindex m (removeAt pos its) else removeAt pos its)).count i =
      (idsItems (its.take pos ++ its.drop (pos + 1))).count i := by
    split
    · rw [reindex_count]; unfold removeAt; rw [renumber_count]
    · unfold removeAt; rw [renumber_count]
  have h3 := removeAt_count pos its i
  have h4 := getKey_positional 0 its hpos pos
  rw [Nat.zero_add] at h4
  have h5 : (if cfg.detachOnRemove = true then detachFrom Kind.list ((getKey its (Key.i ↑pos)).getD (Tree.leaf Atom.none))
      else (getKey its (Key.i ↑pos)).getD (Tree.leaf Atom.none)).ids = (((its[pos]?).map Prod.snd).getD (Tree.leaf Atom.none)).ids := by
    rw [h4]; split
    · rw [detachFrom_ids]
    · rfl
  rw [h5]
  omega

theorem delMany_nb (cfg : Cfg) (f : Forest) (m : Meta) (its : Items) (q : Key × Tree → Bool) (hn : NB f)
    (hfind : f.find? m.id = some (.node m its)) :
    NB (addRoots
      (f.mapAt m.id (fun m' xs => if cfg.reindexOnMutate = true then
        reindex m' (renumber (xs.filter (fun kv => !q kv))) else renumber (xs.filter (fun kv => !q kv))))
      ((((its.filter q).map (·.2)).filter Tree.isNode).map
        (fun c => if cfg.detachOnRemove = true then detachFrom .list c else c))) := by
  apply hn.of_count_le (by rw [addRoots_nextId]; rfl)
  intro i
  rw [addRoots_count]
  have h1 := mapAt_count f m.id (fun m' xs => if cfg.reindexOnMutate = true then
      reindex m' (renumber (xs.filter (fun kv => !q kv))) else renumber (xs.filter (fun kv => !q kv)))
    (hn.nodup m.id) m its hfind i
  have h2 : (idsItems (if cfg.reindexOnMutate = true then
      reindex m (renumber (its.filter (fun kv => !q kv))) else renumber (its.filter (fun kv => !q kv)))).count i =
      (idsItems (its.filter (fun kv => !q kv))).count i := by
    split
    · rw [reindex_count, renumber_count]
    · rw [renumber_count]
  have h3 := filter_partition_count q its i
  have h4 := idsRoots_vals (fun c => if cfg.detachOnRemove = true then detachFrom .list c else c)
    (by intro t; split; exact detachFrom_ids _ _; rfl) i (its.filter q)
  omega

theorem rawDelMany_nb (cfg : Cfg) (f : Forest) (m : Meta) (its : Items) (ps : List Nat) (hn : NB f)
    (hfind : f.find? m.id = some (.node m its)) : NB (rawDelMany cfg f m its ps) := by
  unfold rawDelMany
  exact delMany_nb cfg f m its (fun kv => (ps.map (fun (n : Nat) => Key.i (Int.ofNat n))).contains kv.1) hn hfind

theorem dropAll_nb (cfg : Cfg) (f : Forest) (t : Nat) (m : Meta) (its : Items) (hn : NB f)
    (hfind : f.find? t = some (.node m its)) : NB (dropAll cfg f t m its) := by
  unfold dropAll
  apply hn.of_count_le (by rw [addRoots_nextId]; rfl)
  intro i
  rw [addRoots_count]
  have h1 := mapAt_count f t (fun _ _ => []) (hn.nodup t) m its hfind i
  have h4 := idsRoots_vals (fun c => if cfg.detachOnRemove = true then detachFrom m.kind c else c)
    (by intro t; split; exact detachFrom_ids _ _; rfl) i its
  simp only [idsItems, List.count_nil] at h1
  unfold childNodes
  omega

theorem insertByRank_perm {α : Type} (x : Int × α) : (l : List (Int × α)) → (insertByRank x l).Perm (x :: l)
  | [] => List.Perm.refl _
  | y :: ys => by
    unfold insertByRank
    split
    · exact List.Perm.refl _
    · exact ((insertByRank_perm x ys).cons y).trans (List.Perm.swap x y ys)

theorem sortByRank_perm {α : Type} : (l : List (Int × α)) → (sortByRank l).Perm l
  | [] => List.Perm.refl _
  | x :: xs => (insertByRank_perm x (sortByRank xs)).trans ((sortByRank_perm xs).cons x)

theorem zip_snd_sublist {α β : Type} : (l1 : List α) → (l2 : List β) → ((l1.zip l2).map (·.2)).Sublist l2
  | [], l2 => by simp
  | _ :: _, [] => by simp
  | a :: l1, b :: l2 => by simp only [List.zip_cons_cons, List.map_cons]; exact (zip_snd_sublist l1 l2).cons_cons b

theorem pySort_count (ranks : List Int) (rev : Bool) (its : Items) (i : Nat) :
    (idsItems (pySort ranks rev its)).count i ≤ (idsItems its).count i := by
  have hp : (pySort ranks rev its).Perm ((ranks.zip its).map (·.2)) := by
    unfold pySort
    cases rev with
    | false => simp only [Bool.false_eq_true, if_false]; exact (sortByRank_perm _).map _
    | true =>
      simp only [if_true]
      exact (((List.reverse_perm _).trans (sortByRank_perm _)).trans (List.reverse_perm _)).map _
  rw [idsItems_perm hp i]
  exact idsItems_sublist (zip_snd_sublist ranks its) i

theorem permute_nb (cfg : Cfg) (f : Forest) (t : Nat) (g : Items → Items)
    (hg : ∀ xs i, (idsItems (g xs)).count i ≤ (idsItems xs).count i) (hn : NB f) : NB (permute cfg f t g) := by
  unfold permute
  apply hn.mapAt_le
  intro m its i
  simp only
  split
  · rw [reindex_count, renumber_count]; exact hg its i
  · rw [renumber_count]; exact hg its i

theorem reverse_count (xs : Items) (i : Nat) : (idsItems xs.reverse).count i ≤ (idsItems xs).count i := by
  rw [idsItems_perm (List.reverse_perm xs) i]; exact Nat.le_refl _

theorem getKey_last : (its : Items) → nodupKeys (keysOf its) = true → ∀ k c, its.getLast? = some (k, c) →
    getKey its k = some c
  | [], _, k, c, h => by simp at h
  | [(k', c')], _, k, c, h => by
    simp at h
    rw [getKey_cons, if_pos h.1, h.2]
  | (k', c') :: x :: r, hnd, k, c, h => by
    rw [List.getLast?_cons_cons] at h
    simp only [keysOf_cons, nodupKeys, Bool.and_eq_true, Bool.not_eq_true', List.contains_eq_mem,
      decide_eq_false_iff_not] at hnd
    have ih := getKey_last (x :: r) hnd.2 k c h
    have hmem : k ∈ keysOf (x :: r) := mem_keysOf_of_getKey ih
    rw [getKey_cons, if_neg]
    · exact ih
    · intro he; subst he; exact hnd.1 hmem

theorem popItem_nb (cfg : Cfg) (f : Forest) (t : Nat) (m : Meta) (its : Items) (k : Key) (c : Tree) (hn : NB f)
    (hfind : f.find? t = some (.node m its)) (hnd : nodupKeys (keysOf its) = true) (hlast : its.getLast? = some (k, c)) :
    NB ((f.mapAt t (fun _ xs => eraseKey k xs)).addRoot (if cfg.detachOnRemove = true then detachFrom .dict c else c)) := by
  apply hn.of_count_le (by rw [addRoot_nextId]; rfl)
  intro i
  rw [addRoot_count]
  have h1 := mapAt_count f t (fun _ xs => eraseKey k xs) (hn.nodup t) m its hfind i
  have h2 := eraseKey_count k i its
  rw [slotIds_of_getKey (getKey_last its hnd k c hlast)] at h2
  have h3 : (if cfg.detachOnRemove = true then detachFrom .dict c else c).ids = c.ids := by
    split
    · exact detachFrom_ids _ _
    · rfl
  rw [h3]
  omega

mutual
  theorem mapSubtree_seal_ids (t : Nat) (s : Bool) : (tr : Tree) → (tr.mapSubtree t (Tree.seal s)).ids = tr.ids
    | .leaf _ => rfl
    | .node m its => by
      unfold Tree.mapSubtree
      split
      · exact seal_ids s _
      · simp only [Tree.ids, mapSubtreeItems_seal_ids t s its]
  theorem mapSubtreeItems_seal_ids (t : Nat) (s : Bool) : (its : Items) →
      idsItems (mapSubtreeItems t (Tree.seal s) its) = idsItems its
    | [] => rfl
    | (k, c) :: r => by
      simp only [mapSubtreeItems, idsItems, mapSubtree_seal_ids t s c, mapSubtreeItems_seal_ids t s r]
end

theorem setSeal_ids (f : Forest) (t : Nat) (s : Bool) :
    ({ f with roots := f.roots.map (Tree.mapSubtree t (Tree.seal s)) } : Forest).ids = f.ids := by
  simp only [Forest.ids]
  induction f.roots with
  | nil => rfl
  | cons r rs ih => simp only [List.map_cons, List.flatMap_cons, mapSubtree_seal_ids, ih]

theorem setSeal_nb (f : Forest) (t : Nat) (s : Bool) (hn : NB f) :
    NB { f with roots := f.roots.map (Tree.mapSubtree t (Tree.seal s)) } :=
  hn.of_count_le rfl (fun i => by rw [setSeal_ids]; exact Nat.le_refl _)

theorem cloneStep_nb (cfg : Cfg) (f : Forest) (tr : Tree) (deep : Bool) (hn : NB f) :
    NB { f with roots := f.roots ++ [(tr.clone cfg deep f.nextId none []).1], nextId := (tr.clone cfg deep f.nextId none []).2 } := by
  have hc := clone_count cfg deep f.nextId none [] tr
  have hids : ∀ i, ({ f with roots := f.roots ++ [(tr.clone cfg deep f.nextId none []).1], nextId := (tr.clone cfg deep f.nextId none []).2 } : Forest).ids.count i =
      f.ids.count i + (tr.clone cfg deep f.nextId none []).1.ids.count i := by
    intro i
    simp [Forest.ids, List.count_append]
  apply hn.of_bounds hc.1
  · intro i hi; rw [hids]; have := (hc.2 i).2.1 hi; omega
  · intro i hi; rw [hids]; have := (hc.2 i).1; have := hn.bound i hi; omega
  · intro i hi
    rw [hids]
    have := (hc.2 i).2.2 hi
    have := hn.bound i (Nat.le_trans hc.1 hi)
    omega

theorem newStep_nb (cfg : Cfg) (f : Forest) (v : VE) (hn : NB f)
    (hal : (evalVE cfg f none none false false [] v).1.aliased = false) :
    NB ((evalVE cfg f none none false false [] v).1.addRoot (evalVE cfg f none none false false [] v).2) := by
  have hm := evalVE_mono cfg none v f none false false []
  have he := evalVE_ids cfg none [] v f none false false [] hn (pendOk_none f) hal
  refine nb_of_eval f _ _ _ hn hm he (addRoot_nextId _ _) ?_
  intro i; rw [addRoot_count]; exact Nat.le_refl _

/-! ### shapes: the value-free primitives -/

theorem rearrange_localShape (b : Bool) (g : Items → Items) (hg : NoNewValues g) :
    LocalShape (fun m xs => if b = true then reindex m (renumber (g xs)) else renumber (g xs)) := by
  intro m its _ hs
  have h1 : keysOk m.kind (renumber (g its)) = true := keysOk_renumber _ _
  have h2 : shapeOkItems (renumber (g its)) = true := shapeOkItems_renumber (shapeOkItems_of_vals hs (hg its))
  split
  · exact ⟨by rw [keysOk_congr _ (keysOf_reindex _ _)]; exact h1, by rw [reindex_shape]; exact h2⟩
  · exact ⟨h1, h2⟩

theorem detachIf_shape (b : Bool) (kind : Kind) (c : Tree) (h : c.shapeOk = true) :
    (if b = true then detachFrom kind c else c).shapeOk = true := by
  split
  · rw [detachFrom_shape]; exact h
  · exact h

theorem rawDelList_shape (cfg : Cfg) (f : Forest) (m : Meta) (its : Items) (pos : Nat) (hs : ShapeF f)
    (hfind : f.find? m.id = some (.node m its)) : ShapeF (rawDelList cfg f m its pos) := by
  unfold rawDelList
  simp only
  have hnode := hs.node m.id m its hfind
  apply ShapeF.addRoot
  · apply hs.mapAt
    intro m' xs hk hx
    unfold removeAt
    exact rearrange_localShape cfg.reindexOnMutate _ (noNew_removeAt pos) m' xs hk hx
  · exact detachIf_shape _ _ _ (getKey_shape hnode.2 _)

theorem vals_shape {its : Items} (hs : shapeOkItems its = true) (d : Tree → Tree) (hd : ∀ c, c.shapeOk = true → (d c).shapeOk = true) :
    ∀ t ∈ ((its.map (·.2)).filter Tree.isNode).map d, t.shapeOk = true := by
  intro t ht
  simp only [List.mem_map, List.mem_filter] at ht
  obtain ⟨c, ⟨⟨kv, hkv, rfl⟩, _⟩, rfl⟩ := ht
  exact hd _ ((shapeOkItems_iff its).mp hs kv hkv)

theorem rawDelMany_shape (cfg : Cfg) (f : Forest) (m : Meta) (its : Items) (ps : List Nat) (hs : ShapeF f)
    (hfind : f.find? m.id = some (.node m its)) : ShapeF (rawDelMany cfg f m its ps) := by
  unfold rawDelMany
  simp only
  have hnode := hs.node m.id m its hfind
  apply ShapeF.addRoots
  · apply hs.mapAt
    exact rearrange_localShape cfg.reindexOnMutate _ (noNew_filter _)
  · exact vals_shape (shapeOkItems_sublist List.filter_sublist hnode.2) _ (fun c hc => detachIf_shape _ _ c hc)

theorem dropAll_shape (cfg : Cfg) (f : Forest) (t : Nat) (m : Meta) (its : Items) (hs : ShapeF f)
    (hfind : f.find? t = some (.node m its)) : ShapeF (dropAll cfg f t m its) := by
  unfold dropAll
  have hnode := hs.node t m its hfind
  apply ShapeF.addRoots
  · apply hs.mapAt
    intro m' xs _ _
    exact ⟨by cases m'.kind <;> rfl, rfl⟩
  · exact vals_shape hnode.2 _ (fun c hc => detachIf_shape _ _ c hc)

theorem permute_shape (cfg : Cfg) (f : Forest) (t : Nat) (g : Items → Items) (hg : NoNewValues g) (hs : ShapeF f) :
    ShapeF (permute cfg f t g) := by
  unfold permute
  simp only
  exact hs.mapAt t _ (rearrange_localShape cfg.reindexOnReorder g hg)

theorem keysOf_onChangeReindex (m : Meta) : (its : Items) → keysOf (onChangeReindex m its) = keysOf its
  | [] => rfl
  | (k, c) :: r => by simp only [onChangeReindex, keysOf_cons, keysOf_onChangeReindex m r]

theorem onChangeReindex_shape (m : Meta) : (its : Items) → shapeOkItems (onChangeReindex m its) = shapeOkItems its
  | [] => rfl
  | (k, c) :: r => by
    simp only [onChangeReindex, shapeOkItems]
    rw [onChangeReindex_shape m r]
    cases c with
    | leaf a => rfl
    | node cm cits =>
      simp only
      split
      · rfl
      · rw [setPath_shape]

theorem onChange_localShape : LocalShape (fun m its => if m.kind = .list then listOnChange m its else its) := by
  intro m its hk hs
  simp only
  split
  · unfold listOnChange
    refine ⟨?_, ?_⟩
    · rw [keysOk_congr _ (keysOf_onChangeReindex m _)]; exact keysOk_renumber _ _
    · rw [onChangeReindex_shape]
      exact shapeOkItems_renumber (shapeOkItems_sublist List.filter_sublist hs)
  · exact ⟨hk, hs⟩

theorem notify_shape {f : Forest} (hs : ShapeF f) (targets : List Nat) : ShapeF (notify f targets) := by
  unfold notify
  generalize ((targets.flatMap (chainFrom f (f.ids.length + 1))).eraseDups) = chain
  induction chain generalizing f with
  | nil => exact hs
  | cons c cs ih => exact ih (hs.mapAt c _ onChange_localShape)

theorem popItem_shape (cfg : Cfg) (f : Forest) (t : Nat) (m : Meta) (its : Items) (k : Key) (c : Tree) (hn : NB f)
    (hs : ShapeF f) (hfind : f.find? t = some (.node m its)) (hkind : m.kind ≠ .list) (hlast : its.getLast? = some (k, c)) :
    ShapeF ((f.mapAt t (fun _ xs => eraseKey k xs)).addRoot (if cfg.detachOnRemove = true then detachFrom .dict c else c)) := by
  have hnode := hs.node t m its hfind
  apply ShapeF.addRoot
  · apply hs.mapAt_at hn t _ m its hfind
    · rw [keysOk_nonlist hkind] at hnode ⊢
      exact nodupKeys_sublist (eraseKey_sublist k its) hnode.1
    · exact shapeOkItems_sublist (eraseKey_sublist k its) hnode.2
  · exact detachIf_shape _ _ _ ((shapeOkItems_iff its).mp hnode.2 (k, c) (List.mem_of_getLast? hlast))

theorem keysOf_mapSubtreeItems (t : Nat) (g : Tree → Tree) : (its : Items) → keysOf (mapSubtreeItems t g its) = keysOf its
  | [] => rfl
  | (k, c) :: r => by simp only [mapSubtreeItems, keysOf_cons, keysOf_mapSubtreeItems t g r]

mutual
  theorem mapSubtree_seal_shape (t : Nat) (s : Bool) : (tr : Tree) → (tr.mapSubtree t (Tree.seal s)).shapeOk = tr.shapeOk
    | .leaf _ => rfl
    | .node m its => by
      unfold Tree.mapSubtree
      split
      · exact seal_shape s _
      · simp only [Tree.shapeOk]
        rw [mapSubtreeItems_seal_shape t s its, keysOk_congr _ (keysOf_mapSubtreeItems t _ its)]
  theorem mapSubtreeItems_seal_shape (t : Nat) (s : Bool) : (its : Items) →
      shapeOkItems (mapSubtreeItems t (Tree.seal s) its) = shapeOkItems its
    | [] => rfl
    | (k, c) :: r => by
      simp only [mapSubtreeItems, shapeOkItems, mapSubtree_seal_shape t s c, mapSubtreeItems_seal_shape t s r]
end

theorem setSeal_shape (f : Forest) (t : Nat) (s : Bool) (hs : ShapeF f) :
    ShapeF { f with roots := f.roots.map (Tree.mapSubtree t (Tree.seal s)) } := by
  constructor
  · intro r hr
    simp only [List.mem_map] at hr
    obtain ⟨r0, hr0, rfl⟩ := hr
    rw [mapSubtree_seal_shape]; exact hs.roots r0 hr0
  · exact hs.pool

theorem cloneStep_shape (cfg : Cfg) (f : Forest) (t : Nat) (tr : Tree) (deep : Bool) (hs : ShapeF f) (hfind : f.find? t = some tr) :
    ShapeF { f with roots := f.roots ++ [(tr.clone cfg deep f.nextId none []).1], nextId := (tr.clone cfg deep f.nextId none []).2 } := by
  constructor
  · intro r hr
    simp only [List.mem_append, List.mem_singleton] at hr
    rcases hr with hr | rfl
    · exact hs.roots r hr
    · exact clone_shape _ _ _ _ _ _ (hs.find t tr hfind)
  · exact hs.pool

/-! ### the `aliased` mark only rises -/

theorem unal_of_rise {f g : Forest} (h : f.aliased = true → g.aliased = true) (hg : g.aliased = false) :
    f.aliased = false := by
  cases hf : f.aliased with
  | false => rfl
  | true => rw [h hf] at hg; cases hg

theorem listReplace_rise (cfg : Cfg) (f : Forest) (m : Meta) (index : Int) (pos : Nat) (old : Tree) (ve : VE) :
    ∀ g, listReplace cfg f m index pos old ve = some g → f.aliased = true → g.aliased = true := by
  intro g hg ha
  unfold listReplace at hg
  simp only at hg
  split at hg
  · cases hg
  · cases hg
    rw [addRoot_aliased]
    exact (evalVE_mono cfg none ve f (some m.id) false m.part (m.path ++ [Key.i index])).aliased ha

theorem listInsert_rise (cfg : Cfg) (f : Forest) (m : Meta) (its : Items) (index : Int) (len : Nat) (ve : VE) :
    ∀ g, listInsert cfg f m its index len ve = some g → f.aliased = true → g.aliased = true := by
  intro g hg ha
  unfold listInsert at hg
  simp only at hg
  split at hg
  · split at hg
    · cases hg
    · cases hg; exact ha
  · split at hg
    · cases hg
    · cases hg
      exact (evalVE_mono cfg none ve f (some m.id) false m.part (m.path ++ [Key.i index])).aliased ha

theorem listAppend_rise (cfg : Cfg) (f : Forest) (m : Meta) (index : Int) (ve : VE) :
    ∀ g, listAppend cfg f m index ve = some g → f.aliased = true → g.aliased = true := by
  intro g hg ha
  unfold listAppend at hg
  simp only at hg
  split at hg
  · cases hg
  · cases hg
    exact (evalVE_mono cfg none ve f (some m.id) false m.part (m.path ++ [Key.i index])).aliased ha

theorem rawSetList_rise (cfg : Cfg) (f : Forest) (m : Meta) (its : Items) (key : Int) (ins : Bool) (ve : VE) :
    ∀ r, rawSetList cfg f m its key ins ve = .ok r → f.aliased = true → r.1.aliased = true := by
  intro r hr ha
  rcases rawSetList_cases cfg f m its key ins ve r hr with rfl | ⟨i, p, old, _, h⟩ | ⟨i, l, h⟩ | h
  · exact ha
  · exact listReplace_rise cfg f m i p old ve _ h ha
  · exact listInsert_rise cfg f m its i l ve _ h ha
  · exact listAppend_rise cfg f m _ ve _ h ha

theorem dictErase_aliased (f : Forest) (m : Meta) (its : Items) (key : Key) : (dictErase f m its key).aliased = f.aliased := by
  unfold dictErase; rw [addRoots_aliased]; rfl

theorem dictStore_rise (cfg : Cfg) (f : Forest) (m : Meta) (its : Items) (key : Key) (ve : VE) :
    ∀ g, dictStore cfg f m its key ve = some g → f.aliased = true → g.aliased = true := by
  intro g hg ha
  unfold dictStore dictStoreCore at hg
  simp only at hg
  split at hg
  · cases hg
  · cases hg
    have := (evalVE_mono cfg ((dictDetached its key).bind Tree.id?) ve f.clearConsumed (some m.id) (isObjKind m.kind) m.part
      (m.path ++ [key])).aliased ha
    split
    · exact this
    · rw [addRoots_aliased]; exact this

theorem rawSetDict_rise (cfg : Cfg) (f : Forest) (m : Meta) (its : Items) (key : Key) (ve : VE) :
    ∀ r, rawSetDict cfg f m its key ve = .ok r → f.aliased = true → r.1.aliased = true := by
  intro r hr ha
  rcases rawSetDict_cases cfg f m its key ve r hr with rfl | rfl | h
  · exact ha
  · rw [dictErase_aliased]; exact ha
  · exact dictStore_rise cfg f m its key _ _ h ha

theorem rawSet_rise (cfg : Cfg) (f : Forest) (t : Nat) (key : Key) (ins : Bool) (ve : VE) :
    ∀ r, rawSet cfg f t key ins ve = .ok r → f.aliased = true → r.1.aliased = true := by
  intro r hr ha
  unfold rawSet at hr
  split at hr
  · split at hr
    · exact rawSetList_rise cfg f _ _ _ ins ve r hr ha
    · cases hr
    · exact rawSetDict_rise cfg f _ _ _ ve r hr ha
  · cases hr

/-! ### the combined invariant -/

/-- ids distinct and below the counter; every payload well-shaped. -/
structure Inv (f : Forest) : Prop where
  nb : NB f
  shape : ShapeF f

theorem Inv.notify {f : Forest} (h : Inv f) (targets : List Nat) : Inv (notify f targets) :=
  ⟨notify_nb h.nb targets, notify_shape h.shape targets⟩

theorem find_self {f : Forest} {t : Nat} {m : Meta} {its : Items} (h : f.find? t = some (.node m its)) :
    f.find? m.id = some (.node m its) := by
  rw [Forest.find?_id f t m its h]; exact h

theorem rawSetList_inv (cfg : Cfg) (f : Forest) (m : Meta) (its : Items) (key : Int) (ins : Bool) (ve : VE)
    (hi : Inv f) (hfind : f.find? m.id = some (.node m its)) (hk : ve.keysDistinct = true) :
    ∀ r, rawSetList cfg f m its key ins ve = .ok r → r.1.aliased = false → Inv r.1 :=
  fun r hr hal =>
    ⟨rawSetList_nb cfg f m its key ins ve hi.nb hfind r hr hal (unal_of_rise (rawSetList_rise cfg f m its key ins ve r hr) hal),
     rawSetList_shape cfg f m its key ins ve hi.nb hi.shape hfind hk r hr⟩

theorem rawSetDict_inv (cfg : Cfg) (f : Forest) (m : Meta) (its : Items) (key : Key) (ve : VE)
    (hi : Inv f) (hfind : f.find? m.id = some (.node m its)) (hkind : m.kind ≠ .list) (hk : ve.keysDistinct = true) :
    ∀ r, rawSetDict cfg f m its key ve = .ok r → r.1.aliased = false → Inv r.1 :=
  fun r hr hal =>
    ⟨rawSetDict_nb cfg f m its key ve hi.nb hfind r hr hal,
     rawSetDict_shape cfg f m its key ve hi.nb hi.shape hfind hkind hk r hr⟩

theorem rawSet_inv (cfg : Cfg) (f : Forest) (t : Nat) (key : Key) (ins : Bool) (ve : VE)
    (hi : Inv f) (hk : ve.keysDistinct = true) :
    ∀ r, rawSet cfg f t key ins ve = .ok r → r.1.aliased = false → Inv r.1 :=
  fun r hr hal =>
    ⟨rawSet_nb cfg f t key ins ve hi.nb r hr hal (unal_of_rise (rawSet_rise cfg f t key ins ve r hr) hal),
     rawSet_shape cfg f t key ins ve hi.nb hi.shape hk r hr⟩

theorem finish_inv (f : Forest) (n : Bool) (r : Except Err (Forest × Bool)) (targets : List Nat) (hi : Inv f)
    (hr : ∀ x, r = .ok x → x.1.aliased = false → Inv x.1) (hal : (finish f n r targets).forest.aliased = false) :
    Inv (finish f n r targets).forest := by
  unfold finish at hal ⊢
  split
  · exact hi
  · next f' upd =>
    simp only at hal ⊢
    split
    · next hc =>
      rw [if_pos hc, notify_aliased] at hal
      exact (hr (f', upd) rfl hal).notify _
    · next hc =>
      rw [if_neg hc] at hal
      exact hr (f', upd) rfl hal

theorem finish_rise (f : Forest) (n : Bool) (r : Except Err (Forest × Bool)) (targets : List Nat)
    (hr : ∀ x, r = .ok x → f.aliased = true → x.1.aliased = true) (ha : f.aliased = true) :
    (finish f n r targets).forest.aliased = true := by
  unfold finish
  split
  · exact ha
  · next f' upd =>
    have := hr (f', upd) rfl ha
    simp only
    split
    · rw [notify_aliased]; exact this
    · exact this

/-! ### the loops -/

theorem extendLoop_rise (cfg : Cfg) (t : Nat) : (vs : List VE) → ∀ (f : Forest) (upd : Bool) r,
    extendLoop cfg t f vs upd = .ok r → f.aliased = true → r.1.aliased = true
  | [], f, upd, r, hr, ha => by simp only [extendLoop] at hr; cases hr; exact ha
  | v :: vs, f, upd, r, hr, ha => by
    simp only [extendLoop] at hr
    split at hr
    · next m its hfind =>
      split at hr
      · cases hr
      · next f' u heq =>
        exact extendLoop_rise cfg t vs f' _ r hr (rawSetList_rise cfg f m its _ false v (f', u) heq ha)
    · cases hr

theorem extendLoop_inv (cfg : Cfg) (t : Nat) : (vs : List VE) → ∀ (f : Forest) (upd : Bool), Inv f →
    (∀ v ∈ vs, v.keysDistinct = true) → ∀ r, extendLoop cfg t f vs upd = .ok r → r.1.aliased = false → Inv r.1
  | [], f, upd, hi, _, r, hr, _ => by simp only [extendLoop] at hr; cases hr; exact hi
  | v :: vs, f, upd, hi, hk, r, hr, hal => by
    simp only [extendLoop] at hr
    split at hr
    · next m its hfind =>
      split at hr
      · cases hr
      · next f' u heq =>
        have hal' : f'.aliased = false := unal_of_rise (extendLoop_rise cfg t vs f' _ r hr) hal
        have hi' := rawSetList_inv cfg f m its _ false v hi (find_self hfind) (hk v (by simp)) (f', u) heq hal'
        exact extendLoop_inv cfg t vs f' _ hi' (fun x hx => hk x (by simp [hx])) r hr hal
    · cases hr

theorem sliceLoop_rise (cfg : Cfg) (t : Nat) (start step : Int) : (vs : List (Bool × VE)) → ∀ (f : Forest) (i : Nat) (upd : Bool) r,
    sliceLoop cfg t start step f i vs upd = .ok r → f.aliased = true → r.1.aliased = true
  | [], f, i, upd, r, hr, ha => by simp only [sliceLoop] at hr; cases hr; exact ha
  | (ins, v) :: vs, f, i, upd, r, hr, ha => by
    simp only [sliceLoop] at hr
    split at hr
    · next m its hfind =>
      split at hr
      · cases hr
      · next f' u heq =>
        exact sliceLoop_rise cfg t start step vs f' _ _ r hr (rawSetList_rise cfg f m its _ ins v (f', u) heq ha)
    · cases hr

theorem sliceLoop_inv (cfg : Cfg) (t : Nat) (start step : Int) : (vs : List (Bool × VE)) → ∀ (f : Forest) (i : Nat) (upd : Bool),
    Inv f → (∀ x ∈ vs, x.2.keysDistinct = true) →
    ∀ r, sliceLoop cfg t start step f i vs upd = .ok r → r.1.aliased = false → Inv r.1
  | [], f, i, upd, hi, _, r, hr, _ => by simp only [sliceLoop] at hr; cases hr; exact hi
  | (ins, v) :: vs, f, i, upd, hi, hk, r, hr, hal => by
    simp only [sliceLoop] at hr
    split at hr
    · next m its hfind =>
      split at hr
      · cases hr
      · next f' u heq =>
        have hal' : f'.aliased = false := unal_of_rise (sliceLoop_rise cfg t start step vs f' _ _ r hr) hal
        have hi' := rawSetList_inv cfg f m its _ ins v hi (find_self hfind) (hk (ins, v) (by simp)) (f', u) heq hal'
        exact sliceLoop_inv cfg t start step vs f' _ _ hi' (fun x hx => hk x (by simp [hx])) r hr hal
    · cases hr

theorem rebindOne_rise (cfg : Cfg) (f : Forest) (t : Nat) (path : List Key) (ins : Bool) (v : VE) :
    ∀ r, rebindOne cfg f t path ins v = .ok r → f.aliased = true → r.1.aliased = true := by
  intro r hr ha
  unfold rebindOne at hr
  split at hr
  · cases hr
  · cases hr
  · split at hr
    · split at hr
      · cases hr
      · split at hr
        · cases hr
        · next f' upd heq =>
          cases hr
          exact rawSet_rise cfg f _ _ _ v (f', upd) heq ha
    · split at hr <;> cases hr

theorem rebindOne_inv (cfg : Cfg) (f : Forest) (t : Nat) (path : List Key) (ins : Bool) (v : VE) (hi : Inv f)
    (hk : v.keysDistinct = true) :
    ∀ r, rebindOne cfg f t path ins v = .ok r → r.1.aliased = false → Inv r.1 := by
  intro r hr hal
  unfold rebindOne at hr
  split at hr
  · cases hr
  · cases hr
  · split at hr
    · split at hr
      · cases hr
      · split at hr
        · cases hr
        · next f' upd heq =>
          cases hr
          exact rawSet_inv cfg f _ _ _ v hi hk (f', upd) heq hal
    · split at hr <;> cases hr

theorem rebindLoop_rise (cfg : Cfg) (t : Nat) : (pairs : List (List Key × Bool × VE)) → ∀ (f : Forest) (acc : List Nat),
    f.aliased = true → (rebindLoop cfg t f pairs acc).1.aliased = true
  | [], f, acc, ha => by simp only [rebindLoop]; exact ha
  | (p, ins, v) :: rest, f, acc, ha => by
    simp only [rebindLoop]
    split
    · exact ha
    · next f' u heq =>
      exact rebindLoop_rise cfg t rest f' _ (rebindOne_rise cfg f t p ins v (f', u) heq ha)

theorem rebindLoop_inv (cfg : Cfg) (t : Nat) : (pairs : List (List Key × Bool × VE)) → ∀ (f : Forest) (acc : List Nat),
    Inv f → (∀ x ∈ pairs, x.2.2.keysDistinct = true) → (rebindLoop cfg t f pairs acc).1.aliased = false →
    Inv (rebindLoop cfg t f pairs acc).1
  | [], f, acc, hi, _, _ => by simp only [rebindLoop]; exact hi
  | (p, ins, v) :: rest, f, acc, hi, hk, hal => by
    simp only [rebindLoop] at hal ⊢
    split
    · exact hi
    · next f' u heq =>
      rw [heq] at hal
      simp only at hal
      have hal' : f'.aliased = false := unal_of_rise (rebindLoop_rise cfg t rest f' _) hal
      have hi' := rebindOne_inv cfg f t p ins v hi (hk (p, ins, v) (by simp)) (f', u) heq hal'
      exact rebindLoop_inv cfg t rest f' _ hi' (fun x hx => hk x (by simp [hx])) hal

/-! ### rebind, slices, item access -/

theorem mem_insertPair (x : List Key × Bool × VE) : (l : List (List Key × Bool × VE)) → ∀ y, y ∈ insertPair x l → y = x ∨ y ∈ l
  | [], y, h => by simp [insertPair] at h; exact Or.inl h
  | z :: zs, y, h => by
    unfold insertPair at h
    split at h
    · simp only [List.mem_cons] at h ⊢; exact h
    · simp only [List.mem_cons] at h ⊢
      rcases h with h | h
      · exact Or.inr (Or.inl h)
      · rcases mem_insertPair x zs y h with h | h
        · exact Or.inl h
        · exact Or.inr (Or.inr h)

theorem mem_sortPairsDesc : (l : List (List Key × Bool × VE)) → ∀ y, y ∈ sortPairsDesc l → y ∈ l
  | [], y, h => by simp [sortPairsDesc] at h
  | x :: xs, y, h => by
    simp only [sortPairsDesc] at h
    rcases mem_insertPair x _ y h with h | h
    · simp [h]
    · simp [mem_sortPairsDesc xs y h]

theorem doRebind_inv (cfg : Cfg) (f : Forest) (n : Bool) (t : Nat) (m : Meta) (pairs : List (List Key × Bool × VE))
    (skip : Option Bool) (raise : Bool) (hi : Inv f) (hk : ∀ x ∈ pairs, x.2.2.keysDistinct = true)
    (hal : (doRebind cfg f n t m pairs skip raise).forest.aliased = false) :
    Inv (doRebind cfg f n t m pairs skip raise).forest := by
  unfold doRebind at hal ⊢
  split; · exact hi
  split; · exact hi
  split
  · exact hi
  · next hpre =>
    rw [if_neg (by assumption), if_neg (by assumption), hpre] at hal
    simp only at hal ⊢
    have hk' : ∀ x ∈ (if m.kind = Kind.list then sortPairsDesc pairs else pairs), x.2.2.keysDistinct = true := by
      intro x hx
      split at hx
      · exact hk x (mem_sortPairsDesc pairs x hx)
      · exact hk x hx
    have h := fun hh => rebindLoop_inv cfg t (if m.kind = Kind.list then sortPairsDesc pairs else pairs) f [] hi hk' hh
    generalize rebindLoop cfg t f (if m.kind = Kind.list then sortPairsDesc pairs else pairs) [] = x at h hal ⊢
    obtain ⟨f', targets, e⟩ := x
    cases e with
    | some e => simp only at hal ⊢; exact h hal
    | none =>
      simp only at hal ⊢
      split
      · next hc => rw [if_pos hc] at hal; exact h hal
      · next hc => rw [if_neg hc, notify_aliased] at hal; exact (h hal).notify _

theorem doRebind_rise (cfg : Cfg) (f : Forest) (n : Bool) (t : Nat) (m : Meta) (pairs : List (List Key × Bool × VE))
    (skip : Option Bool) (raise : Bool) (ha : f.aliased = true) :
    (doRebind cfg f n t m pairs skip raise).forest.aliased = true := by
  unfold doRebind
  split; · exact ha
  split; · exact ha
  split
  · exact ha
  · simp only
    have h := rebindLoop_rise cfg t (if m.kind = Kind.list then sortPairsDesc pairs else pairs) f [] ha
    generalize rebindLoop cfg t f (if m.kind = Kind.list then sortPairsDesc pairs else pairs) [] = x at h ⊢
    obtain ⟨f', targets, e⟩ := x
    cases e with
    | some e => exact h
    | none =>
      simp only
      split
      · exact h
      · rw [notify_aliased]; exact h

theorem slicePrepare_rise (cfg : Cfg) (m : Meta) (ix : Nat → Int) : (vs : List VE) → ∀ (f : Forest) (i : Nat), f.aliased = true →
    (slicePrepare cfg m ix f i vs).1.aliased = true
  | [], f, i, ha => by simp only [slicePrepare]; exact ha
  | v :: vs, f, i, ha => by
    simp only [slicePrepare]
    by_cases hin : sliceInPlace f m (ix i) v = true
    · rw [if_pos hin]; exact slicePrepare_rise cfg m ix vs f (i + 1) ha
    · rw [if_neg hin]
      have hm := (evalVE_mono cfg none v f (some m.id) false m.part (m.path ++ [Key.i (ix i)])).aliased ha
      split
      · exact slicePrepare_rise cfg m ix vs _ (i + 1) hm
      · exact slicePrepare_rise cfg m ix vs _ (i + 1) hm

theorem slicePrepare_inv (cfg : Cfg) (m : Meta) (ix : Nat → Int) : (vs : List VE) → ∀ (f : Forest) (i : Nat), Inv f →
    (∀ v ∈ vs, v.keysDistinct = true) → (slicePrepare cfg m ix f i vs).1.aliased = false →
    Inv (slicePrepare cfg m ix f i vs).1 ∧ ∀ v ∈ (slicePrepare cfg m ix f i vs).2, v.keysDistinct = true
  | [], f, i, hi, _, _ => by simp only [slicePrepare]; exact ⟨hi, by simp⟩
  | v :: vs, f, i, hi, hk, hal => by
    simp only [slicePrepare] at hal ⊢
    by_cases hin : sliceInPlace f m (ix i) v = true
    · rw [if_pos hin] at hal ⊢
      have ih := slicePrepare_inv cfg m ix vs f (i + 1) hi (fun x hx => hk x (by simp [hx])) hal
      refine ⟨ih.1, ?_⟩
      intro x hx
      simp only [List.mem_cons] at hx
      rcases hx with rfl | hx
      · exact hk _ (by simp)
      · exact ih.2 x hx
    · rw [if_neg hin] at hal ⊢
      have hm := evalVE_mono cfg none v f (some m.id) false m.part (m.path ++ [Key.i (ix i)])
      have hv := evalVE_shape cfg none v f (some m.id) false m.part (m.path ++ [Key.i (ix i)]) hi.shape (hk v (by simp))
      have he := fun h => evalVE_ids cfg none [] v f (some m.id) false m.part (m.path ++ [Key.i (ix i)]) hi.nb (pendOk_none f) h
      generalize evalVE cfg f none (some m.id) false m.part (m.path ++ [Key.i (ix i)]) v = r at hal hm hv he ⊢
      obtain ⟨r1, r2⟩ := r
      cases r2 with
      | leaf a =>
        simp only at hal hm hv he ⊢
        have ih := slicePrepare_inv cfg m ix vs r1 (i + 1) ⟨hi.nb.of_mono hm, hv.1⟩ (fun x hx => hk x (by simp [hx])) hal
        refine ⟨ih.1, ?_⟩
        intro x hx
        simp only [List.mem_cons] at hx
        rcases hx with rfl | hx
        · rfl
        · exact ih.2 x hx
      | node nm nits =>
        simp only at hal hm hv he ⊢
        have hal1 : r1.aliased = false :=
          unal_of_rise (f := { r1 with roots := r1.roots ++ [Tree.node nm nits] }) (g := _)
            (slicePrepare_rise cfg m ix vs _ (i + 1)) hal
        have hnb : NB { r1 with roots := r1.roots ++ [Tree.node nm nits] } := by
          refine nb_of_eval f r1 _ _ hi.nb hm (he hal1) rfl ?_
          intro j
          simp [Forest.ids, List.count_append]
        have hsh : ShapeF { r1 with roots := r1.roots ++ [Tree.node nm nits] } := by
          constructor
          · intro x hx
            simp only [List.mem_append, List.mem_singleton] at hx
            rcases hx with hx | rfl
            · exact hv.1.roots x hx
            · exact hv.2
          · exact hv.1.pool
        have ih := slicePrepare_inv cfg m ix vs _ (i + 1) ⟨hnb, hsh⟩ (fun x hx => hk x (by simp [hx])) hal
        refine ⟨ih.1, ?_⟩
        intro x hx
        simp only [List.mem_cons] at hx
        rcases hx with rfl | hx
        · rfl
        · exact ih.2 x hx

theorem setItem_inv (cfg : Cfg) (f : Forest) (n : Bool) (m : Meta) (its : Items) (k : Key) (v : VE) (hi : Inv f)
    (hfind : f.find? m.id = some (.node m its)) (hk : v.keysDistinct = true)
    (hal : (setItem cfg f n m its k v).forest.aliased = false) : Inv (setItem cfg f n m its k v).forest := by
  unfold setItem at hal ⊢
  split; · exact hi
  split; · exact hi
  rw [if_neg (by assumption), if_neg (by assumption)] at hal
  cases hkind : m.kind with
  | list =>
    cases k with
    | i idx =>
      simp only [hkind] at hal ⊢
      split
      · exact hi
      · rw [if_neg (by assumption)] at hal
        exact finish_inv f n _ _ hi (rawSetList_inv cfg f m its _ false v hi hfind hk) hal
    | s x => exact hi
  | dict =>
    simp only [hkind] at hal ⊢
    exact finish_inv f n _ _ hi (rawSetDict_inv cfg f m its _ v hi hfind (by rw [hkind]; exact fun h => Kind.noConfusion h) hk) hal
  | obj c =>
    simp only [hkind] at hal ⊢
    exact finish_inv f n _ _ hi (rawSetDict_inv cfg f m its _ v hi hfind (by rw [hkind]; exact fun h => Kind.noConfusion h) hk) hal

theorem setItem_rise (cfg : Cfg) (f : Forest) (n : Bool) (m : Meta) (its : Items) (k : Key) (v : VE)
    (ha : f.aliased = true) : (setItem cfg f n m its k v).forest.aliased = true := by
  unfold setItem
  split; · exact ha
  split; · exact ha
  split
  · simp only
    split
    · exact ha
    · exact finish_rise f n _ _ (rawSetList_rise cfg f m its _ false v) ha
  · exact ha
  · exact finish_rise f n _ _ (rawSetDict_rise cfg f m its _ v) ha

theorem delItemList_inv (cfg : Cfg) (f : Forest) (n : Bool) (m : Meta) (its : Items) (idx : Int) (acc : Bool) (hi : Inv f)
    (hfind : f.find? m.id = some (.node m its)) : Inv (delItemList cfg f n m its idx acc).forest := by
  unfold delItemList
  simp only
  split; · exact hi
  next hkind =>
  split; · exact hi
  split; · exact hi
  split; · exact hi
  have hkind' : m.kind = .list := Decidable.of_not_not hkind
  have hnode := hi.shape.node m.id m its hfind
  have hpos : positional 0 (keysOf its) = true := by
    have := hnode.1; rw [hkind'] at this; exact this
  have h1 : Inv (rawDelList cfg f m its (if idx < 0 then idx + (its.length : Int) else idx).toNat) :=
    ⟨rawDelList_nb cfg f m its _ hi.nb hfind hpos, rawDelList_shape cfg f m its _ hi.shape hfind⟩
  split
  · exact h1.notify _
  · exact h1

theorem delItemList_aliased (cfg : Cfg) (f : Forest) (n : Bool) (m : Meta) (its : Items) (idx : Int) (acc : Bool) :
    (delItemList cfg f n m its idx acc).forest.aliased = f.aliased := by
  unfold delItemList
  simp only
  split; · rfl
  split; · rfl
  split; · rfl
  split; · rfl
  have : (rawDelList cfg f m its (if idx < 0 then idx + (its.length : Int) else idx).toNat).aliased = f.aliased := by
    unfold rawDelList; simp only; rw [addRoot_aliased]; rfl
  split
  · rw [notify_aliased]; exact this
  · exact this

theorem delItemDict_inv (cfg : Cfg) (f : Forest) (n : Bool) (m : Meta) (its : Items) (k : Key) (acc : Bool) (hi : Inv f)
    (hfind : f.find? m.id = some (.node m its)) (hkind : m.kind ≠ .list)
    (hal : (delItemDict cfg f n m its k acc).forest.aliased = false) : Inv (delItemDict cfg f n m its k acc).forest := by
  unfold delItemDict at hal ⊢
  split; · exact hi
  split; · exact hi
  split; · exact hi
  rw [if_neg (by assumption), if_neg (by assumption), if_neg (by assumption)] at hal
  exact finish_inv f n _ _ hi (rawSetDict_inv cfg f m its k _ hi hfind hkind rfl) hal

theorem delItemDict_rise (cfg : Cfg) (f : Forest) (n : Bool) (m : Meta) (its : Items) (k : Key) (acc : Bool)
    (ha : f.aliased = true) : (delItemDict cfg f n m its k acc).forest.aliased = true := by
  unfold delItemDict
  split; · exact ha
  split; · exact ha
  split; · exact ha
  exact finish_rise f n _ _ (rawSetDict_rise cfg f m its k _) ha

theorem clearAndNotify_inv (cfg : Cfg) (f : Forest) (n : Bool) (t : Nat) (m : Meta) (its : Items) (hi : Inv f)
    (hfind : f.find? t = some (.node m its)) : Inv (clearAndNotify cfg f n t m its) := by
  unfold clearAndNotify
  simp only
  have h1 : Inv (dropAll cfg f t m its) := ⟨dropAll_nb cfg f t m its hi.nb hfind, dropAll_shape cfg f t m its hi.shape hfind⟩
  split
  · exact h1.notify _
  · exact h1

theorem clearAndNotify_aliased (cfg : Cfg) (f : Forest) (n : Bool) (t : Nat) (m : Meta) (its : Items) :
    (clearAndNotify cfg f n t m its).aliased = f.aliased := by
  unfold clearAndNotify
  simp only
  have : (dropAll cfg f t m its).aliased = f.aliased := by unfold dropAll; rw [addRoots_aliased]; rfl
  split
  · rw [notify_aliased]; exact this
  · exact this

theorem permuteAndNotify_inv (cfg : Cfg) (f : Forest) (n : Bool) (t : Nat) (its : Items) (g : Items → Items)
    (hg : NoNewValues g) (hc : ∀ xs i, (idsItems (g xs)).count i ≤ (idsItems xs).count i) (hi : Inv f) :
    Inv (permuteAndNotify cfg f n t its g) := by
  unfold permuteAndNotify
  simp only
  have h1 : Inv (permute cfg f t g) := ⟨permute_nb cfg f t g hc hi.nb, permute_shape cfg f t g hg hi.shape⟩
  split
  · exact h1.notify _
  · exact h1

theorem permuteAndNotify_aliased (cfg : Cfg) (f : Forest) (n : Bool) (t : Nat) (its : Items) (g : Items → Items) :
    (permuteAndNotify cfg f n t its g).aliased = f.aliased := by
  unfold permuteAndNotify
  simp only
  split
  · rw [notify_aliased]; rfl
  · rfl

end Pg.Sym
