/-
  C02: the admissibility predicate of list steps, the step theorem assembled from the per-operation
  lemmas, and preservation of the state invariant.
-/
import PgProofs.ContainerDict
namespace Pg.C02

def Arg.val : Arg → Val
  | .plain v => v
  | .ins v => v

/-- For a step-1 slice assignment: no slot is left to be purged (`len(replacements) ≥ slice size`). -/
def noShrink (xs : List Val) (s : Slice) (vs : List Val) : Bool :=
  match sliceIndices s xs.length with
  | .ok (a, b, c) => c != 1 || decide ((pyRange a b 1).length ≤ vs.length)
  | .error _ => true

/-- The domain of the list refinement theorem, as an explicit decidable predicate.
* every value argument is free of *nested* `MISSING` (the constructors of `pg.List`/`pg.Dict` drop
  those, a plain `list` keeps them) — `missingFree`;
* while change notification is off, the step must not put a `MISSING` placeholder into the list
  (finding F03: the purge lives in `_on_change`): no `MISSING` argument, no shrinking step-1 slice
  assignment;
* `rebind` indices are non-negative (negative ones are outside the documented API). -/
def admissibleL (xs : List Val) (st : LStep) : Bool :=
  match st.op with
  | .set _ v => missingFree v && (st.notify || !v.isMissing)
  | .insert _ v => missingFree v && (st.notify || !v.isMissing)
  | .append v => missingFree v
  | .extend vs => vs.all missingFree
  | .iadd vs => vs.all missingFree
  | .add vs => vs.all missingFree
  | .setSlice s vs =>
    vs.all missingFree && (st.notify || (vs.all (fun v => !v.isMissing) && noShrink xs s vs))
  | .rebind pairs =>
    pairs.all (fun p => missingFree p.2.val && decide (0 ≤ p.1)) &&
      (st.notify || pairs.all (fun p => !p.2.val.isMissing))
  | _ => true

theorem argOk_of_val {a : Arg} (h : missingFree a.val = true) : ArgOk a := by
  cases a <;> exact h

theorem notMissing_of_val {a : Arg} (h : a.val.isMissing = false) : a.notMissing := by
  cases a <;> exact h

/-- Impl step = Spec step (state, result, error class) on every admissible step from a good state. -/
theorem step_list (xs : List Val) (st : LStep) (hg : Good xs) (ha : admissibleL xs st = true) :
    implL xs st = specL xs st := by
  obtain ⟨op, nt⟩ := st
  have hx := hg.clean
  cases op with
  | get i => simp only [implL, specL, getItem_eq]
  | getSlice s => simp only [implL, specL, getSlice_eq]
  | len => rfl
  | contains v => rfl
  | index v => rfl
  | count v => rfl
  | indexIn v a b => rfl
  | radd vs => rfl
  | getBad => rfl
  | setBad => rfl
  | delBad => rfl
  | set i v =>
    simp only [admissibleL, Bool.and_eq_true, Bool.or_eq_true, Bool.not_eq_true'] at ha
    exact step_set xs i v nt hx ha.1 ha.2
  | setSlice s vs =>
    simp only [admissibleL, Bool.and_eq_true, Bool.or_eq_true, List.all_eq_true, Bool.not_eq_true'] at ha
    obtain ⟨hv, hn⟩ := ha
    cases hs : sliceIndices s xs.length with
    | error e => simp only [implL, specL, PyList.setSlice, hs]
    | ok t =>
      obtain ⟨a, b, c⟩ := t
      by_cases hc : c = 1
      · subst hc
        apply step_setSlice_one hs hx hv
        rcases hn with hn | hn
        · exact Or.inl hn
        · right
          refine ⟨hn.1, ?_⟩
          have := hn.2
          simp only [noShrink, hs] at this
          simpa using this
      · apply step_setSlice_ext hs hc hx hv
        rcases hn with hn | hn
        · exact Or.inl hn
        · exact Or.inr hn.1
  | del i => exact step_del xs i nt hx
  | delSlice s => exact step_delSlice xs s nt hx
  | append v => exact step_append xs v nt hx (by simpa [admissibleL] using ha)
  | insert i v =>
    simp only [admissibleL, Bool.and_eq_true, Bool.or_eq_true, Bool.not_eq_true'] at ha
    exact step_insert xs i v nt hx ha.1 ha.2
  | extend vs => exact step_extend xs vs nt hx (by simpa [admissibleL] using ha)
  | pop i => exact step_pop xs i nt hx
  | remove v => exact step_remove xs v nt hx
  | clear => rfl
  | sort rev key => exact step_sort xs rev key nt hx
  | reverse => exact step_reverse xs nt hx
  | iadd vs => exact step_iadd xs vs nt hx (by simpa [admissibleL] using ha)
  | imul n => exact step_imul xs n nt hg
  | add vs => exact step_add xs vs nt hg (by simpa [admissibleL] using ha)
  | mul n => exact step_mul xs n nt hg
  | copy => exact step_copy xs nt hg
  | rebind pairs =>
    simp only [admissibleL, Bool.and_eq_true, Bool.or_eq_true, List.all_eq_true, Bool.not_eq_true',
      decide_eq_true_eq] at ha
    apply step_rebind xs pairs nt hx
    · exact fun p hp => argOk_of_val (ha.1 p hp).1
    · rcases ha.2 with h | h
      · exact Or.inl h
      · exact Or.inr (fun p hp => notMissing_of_val (h p hp))

/-- Decidable form of `Good` (for concrete witnesses). -/
def goodB (xs : List Val) : Bool := xs.all (fun x => !x.isMissing && missingFree x)

theorem good_of_goodB {xs : List Val} (h : goodB xs = true) : Good xs := by
  intro x hx
  simp only [goodB, List.all_eq_true, Bool.and_eq_true, Bool.not_eq_true'] at h
  exact h x hx

/-! ### Preservation of the list invariant by the Spec step -/

/-- No nested `MISSING` in any element (elements themselves may be the marker). -/
def MF (ys : List Val) : Prop := ∀ x ∈ ys, missingFree x = true

theorem Good.mf {xs : List Val} (h : Good xs) : MF xs := fun x hx => (h x hx).2

theorem good_purge {ys : List Val} (h : MF ys) : Good (purge ys) := by
  intro x hx
  have hm := purge_clean ys x hx
  simp only [purge, List.mem_filter] at hx
  exact ⟨hm, h x hx.1⟩

theorem MF.of_mem {xs ys : List Val} (h : MF xs) (hs : ∀ x ∈ ys, x ∈ xs) : MF ys :=
  fun x hx => h x (hs x hx)

theorem MF.append {xs ys : List Val} (h1 : MF xs) (h2 : MF ys) : MF (xs ++ ys) := by
  intro x hx
  rcases List.mem_append.mp hx with h | h
  · exact h1 x h
  · exact h2 x h

theorem MF.set {xs : List Val} {j : Nat} {v : Val} (h : MF xs) (hv : missingFree v = true) :
    MF (xs.set j v) := by
  intro x hx
  rcases List.mem_or_eq_of_mem_set hx with h' | h'
  · exact h x h'
  · subst h'; exact hv

theorem MF.setAt {xs : List Val} {p : Int} {v : Val} (h : MF xs) (hv : missingFree v = true) :
    MF (setAt xs p v) := by
  unfold Pg.C02.setAt; split
  · exact h
  · exact h.set hv

theorem MF.pyInsert {xs : List Val} {i : Int} {v : Val} (h : MF xs) (hv : missingFree v = true) :
    MF (pyInsert xs i v) := by
  obtain ⟨j, _, he⟩ := pyInsert_eq xs i v
  rw [he]
  apply MF.append (h.of_mem (fun x hx => (List.take_sublist j xs).subset hx))
  intro x hx
  rcases List.mem_cons.mp hx with h' | h'
  · subst h'; exact hv
  · exact h x ((List.drop_sublist j xs).subset h')

theorem MF.assignAll {xs : List Val} {ps : List Int} {vs : List Val} (h : MF xs) (hv : MF vs) :
    MF (PyList.assignAll xs ps vs) := by
  induction ps generalizing xs vs with
  | nil => simpa [PyList.assignAll] using h
  | cons q qs ih =>
    cases vs with
    | nil => simpa [PyList.assignAll] using h
    | cons w ws =>
      simp only [PyList.assignAll]
      exact ih (h.setAt (hv w List.mem_cons_self)) (fun v hv' => hv v (List.mem_cons_of_mem _ hv'))

theorem mem_dropIdxsFrom {ps : List Int} {k : Nat} {xs : List Val} {x : Val}
    (h : x ∈ dropIdxsFrom ps k xs) : x ∈ xs := by
  induction xs generalizing k with
  | nil => cases h
  | cons y ys ih =>
    unfold dropIdxsFrom at h
    split at h
    · exact List.mem_cons_of_mem _ (ih h)
    · rcases List.mem_cons.mp h with h' | h'
      · subst h'; exact List.mem_cons_self
      · exact List.mem_cons_of_mem _ (ih h')

theorem mem_repeatList {xs : List Val} {k : Nat} {x : Val} (h : x ∈ repeatList k xs) : x ∈ xs := by
  induction k with
  | zero => cases h
  | succ k ih =>
    simp only [repeatList] at h
    rcases List.mem_append.mp h with h | h
    · exact h
    · exact ih h

theorem MF.rebindOne {xs ys : List Val} {k : Int} {a : Arg} (h : MF xs) (ha : missingFree a.val = true)
    (hr : PyList.rebindOne xs k a = .ok ys) : MF ys := by
  cases a with
  | ins v =>
    unfold PyList.rebindOne at hr
    simp only [] at hr
    split at hr
    · injection hr with hr; subst hr; exact h.pyInsert ha
    · injection hr with hr; subst hr
      exact h.append (by intro x hx; simp at hx; subst hx; exact ha)
  | plain v =>
    unfold PyList.rebindOne at hr
    simp only [] at hr
    split at hr
    · unfold PyList.setItem at hr
      split at hr
      · injection hr with hr; subst hr; exact h.set ha
      · cases hr
    · split at hr
      · injection hr with hr; subst hr; exact h
      · injection hr with hr; subst hr
        exact h.append (by intro x hx; simp at hx; subst hx; exact ha)

theorem rebindOne_ok {xs : List Val} {k : Int} {a : Arg} (hk : 0 ≤ k) :
    ∃ ys, PyList.rebindOne xs k a = .ok ys := by
  cases a with
  | ins v => unfold PyList.rebindOne; simp only []; split <;> exact ⟨_, rfl⟩
  | plain v =>
    unfold PyList.rebindOne
    simp only []
    split
    · rename_i h
      unfold PyList.setItem
      rw [normIndex_nonneg hk h]
      exact ⟨_, rfl⟩
    · split <;> exact ⟨_, rfl⟩

theorem rebindAll_ok {xs : List Val} {ps : List (Int × Arg)} (h : MF xs)
    (hp : ∀ p ∈ ps, missingFree p.2.val = true ∧ 0 ≤ p.1) :
    ∃ ys, PyList.rebindAll xs ps = (ys, .ok .none) ∧ MF ys := by
  induction ps generalizing xs with
  | nil => exact ⟨xs, rfl, h⟩
  | cons p ps ih =>
    obtain ⟨k, a⟩ := p
    have hka := hp (k, a) List.mem_cons_self
    obtain ⟨zs, hz⟩ := rebindOne_ok (xs := xs) (a := a) hka.2
    unfold PyList.rebindAll
    rw [hz]
    exact ih (h.rebindOne hka.1 hz) (fun q hq => hp q (List.mem_cons_of_mem _ hq))

/-- The Spec step keeps the state invariant (so the step theorem applies again). -/
theorem specL_good (xs : List Val) (st : LStep) (hg : Good xs) (ha : admissibleL xs st = true) :
    Good (specL xs st).st := by
  obtain ⟨op, nt⟩ := st
  have hm := hg.mf
  -- every mutating branch has the shape `lift r`: unchanged on error, purged on success
  have lift : ∀ r : Except Err (List Val), (∀ ys, r = .ok ys → MF ys) →
      Good (match r with | .ok ys => okNone (purge ys) | .error e => fail xs e).st := by
    intro r hr
    cases r with
    | error e => exact hg
    | ok ys => exact good_purge (hr ys rfl)
  cases op with
  | get i => exact hg
  | getSlice s => exact hg
  | len => exact hg
  | contains v => exact hg
  | index v => exact hg
  | count v => exact hg
  | indexIn v a b => exact hg
  | radd vs => exact hg
  | getBad => exact hg
  | setBad => exact hg
  | delBad => exact hg
  | set i v =>
    simp only [admissibleL, Bool.and_eq_true] at ha
    apply lift
    intro ys hy
    unfold PyList.setItem at hy
    split at hy
    · injection hy with hy; subst hy; exact hm.set ha.1
    · cases hy
  | setSlice s vs =>
    simp only [admissibleL, Bool.and_eq_true, List.all_eq_true] at ha
    have hv : MF vs := ha.1
    apply lift
    intro ys hy
    unfold PyList.setSlice at hy
    split at hy
    · cases hy
    · split at hy
      · injection hy with hy; subst hy
        exact ((hm.of_mem (fun x hx => (List.take_sublist _ xs).subset hx)).append hv).append
          (hm.of_mem (fun x hx => (List.drop_sublist _ xs).subset hx))
      · simp only [] at hy
        split at hy
        · cases hy
        · injection hy with hy; subst hy; exact hm.assignAll hv
  | del i =>
    apply lift
    intro ys hy
    unfold PyList.delItem at hy
    split at hy
    · injection hy with hy; subst hy
      exact hm.of_mem (fun x hx => (List.eraseIdx_sublist xs _).subset hx)
    · cases hy
  | delSlice s =>
    apply lift
    intro ys hy
    unfold PyList.delSlice at hy
    split at hy
    · cases hy
    · injection hy with hy; subst hy
      exact hm.of_mem (fun x hx => mem_dropIdxsFrom hx)
  | append v =>
    show Good (purge (xs ++ [v]))
    exact good_purge (hm.append (by intro x hx; simp at hx; subst hx; simpa [admissibleL] using ha))
  | insert i v =>
    simp only [admissibleL, Bool.and_eq_true] at ha
    show Good (purge (pyInsert xs i v))
    exact good_purge (hm.pyInsert ha.1)
  | extend vs =>
    show Good (purge (xs ++ vs))
    exact good_purge (hm.append (by simpa [admissibleL, MF] using ha))
  | pop i =>
    simp only [specL]
    cases h : PyList.pop xs i with
    | error e => exact hg
    | ok t =>
      obtain ⟨v, ys⟩ := t
      simp only []
      unfold PyList.pop at h
      split at h
      · split at h
        · injection h with h
          injection h with h1 h2
          subst h2
          exact good_purge (hm.of_mem (fun x hx => (List.eraseIdx_sublist xs _).subset hx))
        · cases h
      · cases h
  | remove v =>
    apply lift
    intro ys hy
    unfold PyList.remove at hy
    split at hy
    · injection hy with hy; subst hy
      exact hm.of_mem (fun x hx => (List.eraseIdx_sublist xs _).subset hx)
    · cases hy
  | clear => exact Good.nil
  | sort rev key =>
    apply lift
    intro ys hy
    exact hm.of_mem (mem_pySort hy)
  | reverse =>
    show Good (purge xs.reverse)
    exact good_purge (hm.of_mem (fun x hx => List.mem_reverse.mp hx))
  | iadd vs =>
    show Good (purge (xs ++ vs))
    exact good_purge (hm.append (by simpa [admissibleL, MF] using ha))
  | imul n =>
    show Good (purge (PyList.mul xs n))
    exact good_purge (hm.of_mem (fun x hx => mem_repeatList hx))
  | add vs => exact hg
  | mul n => exact hg
  | copy => exact hg
  | rebind pairs =>
    simp only [admissibleL, Bool.and_eq_true, List.all_eq_true, decide_eq_true_eq] at ha
    simp only [specL]
    split
    · exact hg
    · obtain ⟨ys, hy, hmy⟩ := rebindAll_ok (xs := xs) (ps := sortDesc pairs) hm
        (fun p hp => ha.1 p (mem_sortDesc hp))
      rw [hy]
      exact good_purge hmy

end Pg.C02
