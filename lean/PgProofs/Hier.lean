/-
  C10 — helper lemmas about traversal and lookup on plain nested values.
-/
import PgModel.Hier
import PgProofs.KeyPathSet
namespace Pg.C10
namespace Val

mutual
  /-- Every dict below the value has pairwise distinct keys (always true of Python dicts). -/
  def nodupVal : Val → Bool
    | .leaf _ => true
    | .dict items => nodupItems items
    | .list items => nodupList items
  def nodupItems : Items → Bool
    | [] => true
    | (k, v) :: rest => !Assoc.hasKey rest k && nodupVal v && nodupItems rest
  def nodupList : List Val → Bool
    | [] => true
    | v :: rest => nodupVal v && nodupList rest
end

theorem query_dict (items : Items) (k : Key) (c : Val) (r : Path) (h : Assoc.lookup items k = some c) :
    query (.dict items) (k :: r) = query c r := by
  simp [query, h]

theorem query_list (items : List Val) (j : Nat) (c : Val) (r : Path) (h : items[j]? = some c) :
    query (.list items) (.i (Int.ofNat j) :: r) = query c r := by
  have hj : j < items.length := by
    rcases Nat.lt_or_ge j items.length with hlt | hge
    · exact hlt
    · rw [List.getElem?_eq_none hge] at h; cases h
  have h1 : (Int.ofNat j < (items.length : Int)) := by
    show ((j : Nat) : Int) < _
    omega
  have h2 : (0 : Int) ≤ Int.ofNat j := by
    show (0 : Int) ≤ ((j : Nat) : Int)
    omega
  have h3 : (Int.ofNat j).toNat = j := rfl
  simp only [query, h1, if_true, pyIndex, h2, h3, h]

theorem lookup_cons_of_rest {α : Type} (k : Key) (v : α) (rest : List (Key × α)) (k' : Key) (c : α)
    (hn : Assoc.hasKey rest k = false) (h : Assoc.lookup rest k' = some c) :
    Assoc.lookup ((k, v) :: rest) k' = some c := by
  simp only [Assoc.lookup]
  by_cases hk : k = k'
  · subst hk
    unfold Assoc.hasKey at hn
    rw [h] at hn
    simp at hn
  · simp [hk, h]

mutual
  /-- Every visit of the pre-order walk reports a path that, looked up from the root of the walk,
  returns the visited node. -/
  theorem visitsPre_query : ∀ (v : Val) (pre q : Path) (x : Val), nodupVal v = true →
      (q, x) ∈ visitsPre v pre → ∃ r, q = pre ++ r ∧ query v r = .ok x
    | .leaf a, pre, q, x, _, h => by
      simp only [visitsPre, List.mem_singleton, Prod.mk.injEq] at h
      exact ⟨[], by simp [h.1], by simp [query, h.2]⟩
    | .dict items, pre, q, x, hn, h => by
      simp only [visitsPre, List.mem_cons, Prod.mk.injEq] at h
      rcases h with h | h
      · exact ⟨[], by simp [h.1], by simp [query, h.2]⟩
      · obtain ⟨k, c, r, hl, hq, hx⟩ := visitsPreItems_query items pre q x hn h
        exact ⟨k :: r, hq, by rw [query_dict items k c r hl]; exact hx⟩
    | .list items, pre, q, x, hn, h => by
      simp only [visitsPre, List.mem_cons, Prod.mk.injEq] at h
      rcases h with h | h
      · exact ⟨[], by simp [h.1], by simp [query, h.2]⟩
      · obtain ⟨j, c, r, hl, hq, hx⟩ := visitsPreList_query items pre 0 q x hn h
        refine ⟨.i (Int.ofNat j) :: r, by simpa using hq, ?_⟩
        rw [query_list items j c r hl]; exact hx
  theorem visitsPreItems_query : ∀ (items : Items) (pre q : Path) (x : Val), nodupItems items = true →
      (q, x) ∈ visitsPreItems items pre →
      ∃ k c r, Assoc.lookup items k = some c ∧ q = pre ++ k :: r ∧ query c r = .ok x
    | [], _, _, _, _, h => by simp [visitsPreItems] at h
    | (k, v) :: rest, pre, q, x, hn, h => by
      simp only [nodupItems, Bool.and_eq_true, Bool.not_eq_true'] at hn
      simp only [visitsPreItems, List.mem_append] at h
      rcases h with h | h
      · obtain ⟨r, hq, hx⟩ := visitsPre_query v (pre ++ [k]) q x hn.1.2 h
        exact ⟨k, v, r, by simp [Assoc.lookup], by simp [hq], hx⟩
      · obtain ⟨k', c, r, hl, hq, hx⟩ := visitsPreItems_query rest pre q x hn.2 h
        exact ⟨k', c, r, lookup_cons_of_rest k v rest k' c hn.1.1 hl, hq, hx⟩
  theorem visitsPreList_query : ∀ (items : List Val) (pre : Path) (i : Nat) (q : Path) (x : Val),
      nodupList items = true → (q, x) ∈ visitsPreList items pre i →
      ∃ j c r, items[j]? = some c ∧ q = pre ++ .i (Int.ofNat (i + j)) :: r ∧ query c r = .ok x
    | [], _, _, _, _, _, h => by simp [visitsPreList] at h
    | v :: rest, pre, i, q, x, hn, h => by
      simp only [nodupList, Bool.and_eq_true] at hn
      simp only [visitsPreList, List.mem_append] at h
      rcases h with h | h
      · obtain ⟨r, hq, hx⟩ := visitsPre_query v (pre ++ [.i i]) q x hn.1 h
        exact ⟨0, v, r, by simp, by simpa using hq, hx⟩
      · obtain ⟨j, c, r, hl, hq, hx⟩ := visitsPreList_query rest pre (i + 1) q x hn.2 h
        refine ⟨j + 1, c, r, by simpa using hl, ?_, hx⟩
        rw [hq]
        have : i + 1 + j = i + (j + 1) := by omega
        rw [this]
end

/-- position-based lookup (the specification of "the node at path `r`"). -/
def subAt : Val → Path → Option Val
  | v, [] => some v
  | .dict items, k :: r =>
    match Assoc.lookup items k with
    | some c => subAt c r
    | none => none
  | .list items, .i z :: r =>
    if 0 ≤ z then
      match items[z.toNat]? with
      | some c => subAt c r
      | none => none
    else none
  | _, _ => none

mutual
  /-- Every node (every position reachable by `subAt`) is visited, with its own path. -/
  theorem visitsPre_complete : ∀ (v : Val) (pre r : Path) (x : Val),
      subAt v r = some x → (pre ++ r, x) ∈ visitsPre v pre
    | .leaf a, pre, r, x, h => by
      cases r with
      | nil => simp only [subAt, Option.some.injEq] at h; subst h; simp [visitsPre]
      | cons k r => simp [subAt] at h
    | .dict items, pre, r, x, h => by
      cases r with
      | nil => simp only [subAt, Option.some.injEq] at h; subst h; simp [visitsPre]
      | cons k r =>
        simp only [subAt] at h
        cases hl : Assoc.lookup items k with
        | none => rw [hl] at h; cases h
        | some c =>
          rw [hl] at h
          simp only [visitsPre, List.mem_cons]
          right
          exact visitsPreItems_complete items pre k c r x hl h
    | .list items, pre, r, x, h => by
      cases r with
      | nil => simp only [subAt, Option.some.injEq] at h; subst h; simp [visitsPre]
      | cons k r =>
        cases k with
        | s _ => simp [subAt] at h
        | i z =>
          simp only [subAt] at h
          split at h
          · rename_i hz
            cases hl : items[z.toNat]? with
            | none => rw [hl] at h; cases h
            | some c =>
              rw [hl] at h
              simp only [visitsPre, List.mem_cons]
              right
              have := visitsPreList_complete items pre 0 z.toNat c r x hl h
              have hz' : Int.ofNat (0 + z.toNat) = z := by
                show ((0 + z.toNat : Nat) : Int) = z
                omega
              rw [hz'] at this
              exact this
          · cases h
  theorem visitsPreItems_complete : ∀ (items : Items) (pre : Path) (k : Key) (c : Val) (r : Path) (x : Val),
      Assoc.lookup items k = some c → subAt c r = some x →
      (pre ++ k :: r, x) ∈ visitsPreItems items pre
    | [], _, _, _, _, _, hl, _ => by simp [Assoc.lookup] at hl
    | (k0, v0) :: rest, pre, k, c, r, x, hl, h => by
      simp only [Assoc.lookup] at hl
      simp only [visitsPreItems, List.mem_append]
      by_cases hk : k0 = k
      · subst hk
        simp only [if_true, Option.some.injEq] at hl
        subst hl
        left
        have := visitsPre_complete v0 (pre ++ [k0]) r x h
        simpa using this
      · simp only [hk, if_false] at hl
        right
        exact visitsPreItems_complete rest pre k c r x hl h
  theorem visitsPreList_complete : ∀ (items : List Val) (pre : Path) (i j : Nat) (c : Val) (r : Path) (x : Val),
      items[j]? = some c → subAt c r = some x →
      (pre ++ .i (Int.ofNat (i + j)) :: r, x) ∈ visitsPreList items pre i
    | [], _, _, _, _, _, _, hl, _ => by simp at hl
    | v :: rest, pre, i, j, c, r, x, hl, h => by
      simp only [visitsPreList, List.mem_append]
      cases j with
      | zero =>
        simp only [List.getElem?_cons_zero, Option.some.injEq] at hl
        subst hl
        left
        have := visitsPre_complete v (pre ++ [.i i]) r x h
        simpa using this
      | succ j =>
        right
        simp only [List.getElem?_cons_succ] at hl
        have := visitsPreList_complete rest pre (i + 1) j c r x hl h
        have e : i + 1 + j = i + (j + 1) := by omega
        rw [e] at this
        exact this
end

/-- `flatten` is the printed-path dictionary of the leaf-like nodes of the post-order walk
(specification of the model's `flatten`; definitional). -/
theorem flatten_spec (fck : Bool) (v : Val) (h : isLeafLike v = false) :
    flatten fck v = .dict (((visitsPost v []).filter (fun pv => !pv.1.isEmpty && isLeafLike pv.2)).foldl
      (fun acc pv => Assoc.set acc (.s (pathStrPc (!fck) pv.1)) pv.2) []) := by
  simp [flatten, h]

end Val
end Pg.C10
