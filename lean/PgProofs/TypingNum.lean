/-
  C04 helper lemmas: the exact dyadic order of `Pg.Typing.Num` (range checks of `Float` specs).
-/
import PgModel.Typing
import Mathlib.Tactic.Linarith
import Mathlib.Tactic.Positivity
import Mathlib.Tactic.Ring
namespace Pg.Typing

private theorem pw_pos (e : Nat) : (0 : Int) < (2 : Int) ^ e := by positivity

theorem Num.lt_false_iff (a b : Num) :
    Num.lt a b = false ↔ b.m * (2 : Int) ^ a.e ≤ a.m * (2 : Int) ^ b.e := by
  simp [Num.lt]

theorem Num.lt_true_iff (a b : Num) :
    Num.lt a b = true ↔ a.m * (2 : Int) ^ b.e < b.m * (2 : Int) ^ a.e := by
  simp [Num.lt]

/-- `a ≤ b`, `b ≤ c` ⇒ `a ≤ c`, in the shape the range checks use (`¬ b < a`). -/
theorem Num.not_lt_trans {a b c : Num} (h1 : Num.lt b a = false) (h2 : Num.lt c b = false) :
    Num.lt c a = false := by
  rw [Num.lt_false_iff] at *
  have hA := pw_pos a.e; have hB := pw_pos b.e; have hC := pw_pos c.e
  have h3 : (a.m * (2 : Int) ^ b.e) * (2 : Int) ^ c.e ≤ (b.m * (2 : Int) ^ a.e) * (2 : Int) ^ c.e :=
    mul_le_mul_of_nonneg_right h1 (le_of_lt hC)
  have h4 : (b.m * (2 : Int) ^ c.e) * (2 : Int) ^ a.e ≤ (c.m * (2 : Int) ^ b.e) * (2 : Int) ^ a.e :=
    mul_le_mul_of_nonneg_right h2 (le_of_lt hA)
  have : (2 : Int) ^ b.e * (a.m * (2 : Int) ^ c.e) ≤ (2 : Int) ^ b.e * (c.m * (2 : Int) ^ a.e) := by
    nlinarith
  exact le_of_mul_le_mul_left this hB

/-- `a < b`, `b ≤ c` ⇒ `a < c`. -/
theorem Num.lt_of_lt_of_not_lt {a b c : Num} (h1 : Num.lt a b = true) (h2 : Num.lt c b = false) :
    Num.lt a c = true := by
  rw [Num.lt_false_iff] at h2
  rw [Num.lt_true_iff] at *
  have hA := pw_pos a.e; have hB := pw_pos b.e; have hC := pw_pos c.e
  have h3 : (a.m * (2 : Int) ^ b.e) * (2 : Int) ^ c.e < (b.m * (2 : Int) ^ a.e) * (2 : Int) ^ c.e :=
    mul_lt_mul_of_pos_right h1 hC
  have h4 : (b.m * (2 : Int) ^ c.e) * (2 : Int) ^ a.e ≤ (c.m * (2 : Int) ^ b.e) * (2 : Int) ^ a.e :=
    mul_le_mul_of_nonneg_right h2 (le_of_lt hA)
  have : (2 : Int) ^ b.e * (a.m * (2 : Int) ^ c.e) < (2 : Int) ^ b.e * (c.m * (2 : Int) ^ a.e) := by
    nlinarith
  exact lt_of_mul_lt_mul_left this (le_of_lt hB)

theorem Num.eq_true_iff (a b : Num) :
    Num.eq a b = true ↔ a.m * (2 : Int) ^ b.e = b.m * (2 : Int) ^ a.e := by
  simp [Num.eq]

theorem Num.eq_symm (a b : Num) : Num.eq a b = Num.eq b a := by
  simp only [Num.eq, eq_comm]

theorem Num.eq_trans {a b c : Num} (h1 : Num.eq a b = true) (h2 : Num.eq b c = true) :
    Num.eq a c = true := by
  rw [Num.eq_true_iff] at *
  have hB := pw_pos b.e
  have : (2 : Int) ^ b.e * (a.m * (2 : Int) ^ c.e) = (2 : Int) ^ b.e * (c.m * (2 : Int) ^ a.e) := by
    calc (2 : Int) ^ b.e * (a.m * (2 : Int) ^ c.e)
        = (a.m * (2 : Int) ^ b.e) * (2 : Int) ^ c.e := by ring
      _ = (b.m * (2 : Int) ^ a.e) * (2 : Int) ^ c.e := by rw [h1]
      _ = (b.m * (2 : Int) ^ c.e) * (2 : Int) ^ a.e := by ring
      _ = (c.m * (2 : Int) ^ b.e) * (2 : Int) ^ a.e := by rw [h2]
      _ = (2 : Int) ^ b.e * (c.m * (2 : Int) ^ a.e) := by ring
  exact mul_left_cancel₀ (ne_of_gt hB) this

end Pg.Typing
