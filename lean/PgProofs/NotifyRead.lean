/-
  C09 — reads of the derived facts (`readAll`, `readAt`): on a fresh tree every read answers what a
  fresh computation on the current contents gives, and reading keeps the tree fresh.
-/
import PgProofs.NotifyEdit
namespace Pg.C09
open T
open Pg.C08 (Atom Key)

theorem sv_node (m : Meta) (kd : Kind) (items : List (Key × T)) :
    (T.node m kd items).sv = S.node kd m.cls m.sch (T.svItems items) := by simp [T.sv]

theorem derive_node_typed {m : Meta} {kd : Kind} {items : List (Key × T)} {sch : Schema} (h : m.sch = some sch) :
    derive (.node m kd items) = typedItems sch (T.svItems items) := by
  simp [derive, T.sv, h, deriveS]

theorem derive_node_plain {m : Meta} {kd : Kind} {items : List (Key × T)} (h : m.sch = none) :
    derive (.node m kd items) = deriveItemsS (T.svItems items) := by
  simp [derive, T.sv, h, deriveS]

theorem deriveMiss_node (m : Meta) (kd : Kind) (items : List (Key × T)) :
    deriveMiss (.node m kd items) = missItemsS m.sch.isSome (T.svItems items) := by
  simp [deriveMiss, T.sv, missS]

/-- `derive` / `deriveMiss` of a node see its class, its schema and the `sv` of its items only. -/
theorem derive_congr {m m' : Meta} {kd kd' : Kind} {items items' : List (Key × T)}
    (hc : m'.cls = m.cls) (hs : m'.sch = m.sch) (hk : kd' = kd) (hi : T.svItems items' = T.svItems items) :
    derive (.node m' kd' items') = derive (.node m kd items) ∧
      deriveMiss (.node m' kd' items') = deriveMiss (.node m kd items) := by
  simp [derive, deriveMiss, T.sv, hc, hs, hk, hi]

mutual
  theorem readND_spec : (t : T) → Fresh t →
      (readND t).2 = derive t ∧ Fresh (readND t).1 ∧ (readND t).1.sv = t.sv
    | .leaf a, _ => by simp [readND, derive, T.sv, deriveS, Fresh]
    | .node ⟨id, sub, cache, miss, cls, sch⟩ kd items, h => by
      simp only [Fresh] at h
      obtain ⟨⟨hc, hm⟩, hi⟩ := h
      simp only [readND]
      cases cache with
      | some d =>
        simp only []
        have hd : d = derive (.node ⟨id, sub, some d, miss, cls, sch⟩ kd items) := by
          rcases hc with hc | hc
          · cases hc
          · exact Option.some.inj hc
        refine ⟨hd, ?_, trivial⟩
        simp only [Fresh]
        exact ⟨⟨Or.inr (by rw [← hd]), hm⟩, hi⟩
      | none =>
        simp only []
        cases sch with
        | some sc =>
          simp only []
          refine ⟨by simp [derive, T.sv, deriveS], ?_, by simp [T.sv]⟩
          simp only [Fresh]
          refine ⟨⟨Or.inr (by simp [derive, T.sv, deriveS]), ?_⟩, hi⟩
          simpa [deriveMiss, T.sv] using hm
        | none =>
          simp only []
          obtain ⟨i1, i2, i3⟩ := readNDItems_spec items hi
          refine ⟨by simp [derive, T.sv, deriveS, i1], ?_, by simp [T.sv, i3]⟩
          simp only [Fresh]
          refine ⟨⟨Or.inr (by simp [derive, T.sv, deriveS, i1, i3]), ?_⟩, i2⟩
          simpa [deriveMiss, T.sv, i3] using hm
  theorem readNDItems_spec : (items : List (Key × T)) → FreshItems items →
      (readNDItems items).2 = deriveItemsS (T.svItems items) ∧ FreshItems (readNDItems items).1 ∧
        T.svItems (readNDItems items).1 = T.svItems items
    | [], _ => by simp [readNDItems, T.svItems, deriveItemsS, FreshItems]
    | (k, .leaf a) :: rest, h => by
      simp only [FreshItems] at h
      obtain ⟨h1, h2, h3⟩ := readNDItems_spec rest h.2
      simp [readNDItems, T.svItems, T.sv, deriveItemsS, FreshItems, h1, h2, h3, Fresh]
    | (k, .node m kd its) :: rest, h => by
      simp only [FreshItems] at h
      obtain ⟨h1, h2, h3⟩ := readNDItems_spec rest h.2
      obtain ⟨g1, g2, g3⟩ := readND_spec (.node m kd its) h.1
      simp only [readNDItems, T.svItems, FreshItems, g2, h2, and_self, g3, h3, and_true]
      rw [g1, h1]
      simp [derive, T.sv, deriveItemsS]
end

mutual
  theorem readMiss_spec : (t : T) → Fresh t →
      (readMiss t).2 = deriveMiss t ∧ Fresh (readMiss t).1 ∧ (readMiss t).1.sv = t.sv
    | .leaf a, _ => by simp [readMiss, deriveMiss, T.sv, missS, Fresh]
    | .node ⟨id, sub, cache, miss, cls, sch⟩ kd items, h => by
      simp only [Fresh] at h
      obtain ⟨⟨hc, hm⟩, hi⟩ := h
      simp only [readMiss]
      cases miss with
      | some d =>
        simp only []
        have hd : d = deriveMiss (.node ⟨id, sub, cache, some d, cls, sch⟩ kd items) := by
          rcases hm with hm | hm
          · cases hm
          · exact Option.some.inj hm
        refine ⟨hd, ?_, trivial⟩
        simp only [Fresh]
        exact ⟨⟨hc, Or.inr (by rw [← hd])⟩, hi⟩
      | none =>
        simp only []
        obtain ⟨i1, i2, i3⟩ := readMissItems_spec sch.isSome items hi
        refine ⟨by simp [deriveMiss, T.sv, missS, i1], ?_, by simp [T.sv, i3]⟩
        simp only [Fresh]
        refine ⟨⟨?_, Or.inr (by simp [deriveMiss, T.sv, missS, i1, i3])⟩, i2⟩
        simpa [derive, T.sv, i3] using hc
  theorem readMissItems_spec (typed : Bool) : (items : List (Key × T)) → FreshItems items →
      (readMissItems typed items).2 = missItemsS typed (T.svItems items) ∧ FreshItems (readMissItems typed items).1 ∧
        T.svItems (readMissItems typed items).1 = T.svItems items
    | [], _ => by simp [readMissItems, T.svItems, missItemsS, FreshItems]
    | (k, .leaf a) :: rest, h => by
      simp only [FreshItems] at h
      obtain ⟨h1, h2, h3⟩ := readMissItems_spec typed rest h.2
      simp [readMissItems, T.svItems, T.sv, missItemsS, FreshItems, h1, h2, h3, Fresh]
    | (k, .node m kd its) :: rest, h => by
      simp only [FreshItems] at h
      obtain ⟨h1, h2, h3⟩ := readMissItems_spec typed rest h.2
      obtain ⟨g1, g2, g3⟩ := readMiss_spec (.node m kd its) h.1
      simp only [readMissItems, T.svItems, FreshItems, g2, h2, and_self, g3, h3, and_true]
      rw [g1, h1]
      simp [deriveMiss, T.sv, missItemsS]
end

theorem svItems_setKv {k : Key} {c c' : T} :
    (items : List (Key × T)) → lookup k items = some c → c'.sv = c.sv →
      T.svItems (setKv k c' items) = T.svItems items
  | [], h, _ => by simp [lookup] at h
  | (k0, v0) :: rest, h, hs => by
    simp only [lookup] at h
    simp only [setKv]
    by_cases h0 : k0 = k
    · subst h0
      simp only [if_true, Option.some.injEq] at h
      subst h
      simp [T.svItems, hs]
    · simp only [h0, if_false] at h ⊢
      simp [T.svItems, svItems_setKv rest h hs]

/-- Replacing the node at `p` by a fresh node with the same contents and specs keeps the tree fresh. -/
theorem mapAt_fresh_same : (p : Path) → (root n n' : T) → Fresh root → getAt root p = some n →
    Fresh n' → n'.sv = n.sv →
    Fresh (mapAt (fun _ => n') root p) ∧ (mapAt (fun _ => n') root p).sv = root.sv
  | [], root, n, n', _, hg, hn, hs => by
    simp only [getAt, Option.some.injEq] at hg; subst hg
    exact ⟨hn, hs⟩
  | k :: rest, .leaf a, n, n', _, hg, _, _ => by simp [getAt, child] at hg
  | k :: rest, .node m kd items, n, n', hf, hg, hn, hs => by
    simp only [getAt, child] at hg
    cases hc : lookup k items with
    | none => simp [hc] at hg
    | some c =>
      simp only [hc] at hg
      simp only [Fresh] at hf
      obtain ⟨i1, i2⟩ := mapAt_fresh_same rest c n n' (freshItems_lookup items hf.2 hc) hg hn hs
      have hsv := svItems_setKv (c' := mapAt (fun _ => n') c rest) items hc i2
      have hd := derive_congr (m := m) (m' := m) (kd := kd) (kd' := kd) (items := items)
        (items' := setKv k (mapAt (fun _ => n') c rest) items) rfl rfl rfl hsv
      simp only [mapAt, child, hc, setChild, Fresh]
      refine ⟨⟨⟨?_, ?_⟩, freshItems_setKv i1 items hf.2⟩, by simp [T.sv, hsv]⟩
      · rw [hd.1]; exact hf.1.1
      · rw [hd.2]; exact hf.1.2

/-- READS: on a fresh tree, a read of any of the facts at `p` answers exactly the fresh computation
(against the value specs) on the current contents of that node, and leaves the tree fresh (whatever
it memoised, and wherever). -/
theorem readAt_spec (root : T) (p : Path) (f : Facts) (hf : Fresh root) :
    (readAt root p f).2 = (getAt root p).map (fun n =>
        (if f.nd then derive n else [], if f.miss then deriveMiss n else [])) ∧
      Fresh (readAt root p f).1 := by
  unfold readAt
  cases hg : getAt root p with
  | none => exact ⟨rfl, hf⟩
  | some n =>
    have hn := fresh_getAt p root n hf hg
    simp only [Option.map_some]
    have h1 : (if f.nd then readND n else (n, [])).2 = (if f.nd then derive n else []) ∧
        Fresh (if f.nd then readND n else (n, [])).1 ∧ (if f.nd then readND n else (n, [])).1.sv = n.sv := by
      cases f.nd
      · exact ⟨rfl, hn, rfl⟩
      · simpa using readND_spec n hn
    obtain ⟨a1, a2, a3⟩ := h1
    have h2 : (if f.miss then readMiss (if f.nd then readND n else (n, [])).1 else ((if f.nd then readND n else (n, [])).1, [])).2
          = (if f.miss then deriveMiss n else []) ∧
        Fresh (if f.miss then readMiss (if f.nd then readND n else (n, [])).1 else ((if f.nd then readND n else (n, [])).1, [])).1 ∧
        (if f.miss then readMiss (if f.nd then readND n else (n, [])).1 else ((if f.nd then readND n else (n, [])).1, [])).1.sv = n.sv := by
      cases f.miss
      · exact ⟨rfl, a2, a3⟩
      · obtain ⟨b1, b2, b3⟩ := readMiss_spec _ a2
        refine ⟨?_, b2, b3.trans a3⟩
        simp only [if_true]
        rw [b1]; simp [deriveMiss, a3]
    obtain ⟨b1, b2, b3⟩ := h2
    refine ⟨by rw [a1, b1], ?_⟩
    exact (mapAt_fresh_same p root n _ hf hg b2 b3).1

/-- One step of a history: a public call, or a read of the derived facts of one node. -/
inductive HStep where
  | call (recv : Path) (notifyOn : Bool) (op : Op)
  | read (p : Path) (f : Facts)

/-- The values a step hands in satisfy `P` (instantiated with "carry no stale memo"). -/
def HStep.Admissible (P : Op → Prop) : HStep → Prop
  | .call _ _ op => P op
  | .read _ _ => True

def runH : T → List HStep → T
  | t, [] => t
  | t, .call recv n op :: rest => runH (step t recv n op).tree rest
  | t, .read p f :: rest => runH (readAt t p f).1 rest


end Pg.C09
