/-
  C09 — reads of the derived facts (`readAll`, `readAt`): on a fresh tree every read answers what a
  fresh computation on the current contents gives, and reading keeps the tree fresh.
-/
import PgProofs.NotifyEdit
namespace Pg.C09
open T
open Pg.C08 (Atom Key)

/-- Same contents as far as `derive` of a parent can see: both leaves with the same atom, or both nodes. -/
def SameKind : T → T → Prop
  | .leaf a, .leaf b => a = b
  | .node _ _ _, .node _ _ _ => True
  | _, _ => False

mutual
  theorem readAll_spec (here : Path) : (t : T) → Fresh t →
      (readAll here t).2.1 = derive t ∧ Fresh (readAll here t).1 ∧ derive (readAll here t).1 = derive t ∧
        SameKind t (readAll here t).1
    | .leaf a, _ => by simp [readAll, derive, Fresh, SameKind]
    | .node m kd items, h => by
      simp only [Fresh] at h
      obtain ⟨h1, h2, h3⟩ := readItems_spec here items h.2
      have hown : (match m.cache with
          | some d => d
          | none => (readItems here items).2.1) = deriveItems items := by
        rcases h.1 with hc | hc
        · simp [hc, h1]
        · simp [hc]
      simp only [readAll, derive, Fresh, SameKind, h3, h2, and_self, and_true]
      refine ⟨hown, Or.inr ?_⟩
      rcases h.1 with hc | hc <;> simp [hc, h1]
  theorem readItems_spec (here : Path) : (items : List (Key × T)) → FreshItems items →
      (readItems here items).2.1 = deriveItems items ∧ FreshItems (readItems here items).1 ∧
        deriveItems (readItems here items).1 = deriveItems items
    | [], _ => by simp [readItems, deriveItems, FreshItems]
    | (k, .leaf a) :: rest, h => by
      simp only [FreshItems] at h
      obtain ⟨h1, h2, h3⟩ := readItems_spec here rest h.2
      simp [readItems, deriveItems, FreshItems, h1, h2, h3, Fresh]
    | (k, .node m kd its) :: rest, h => by
      simp only [FreshItems] at h
      obtain ⟨h1, h2, h3⟩ := readItems_spec here rest h.2
      obtain ⟨g1, g2, g3, g4⟩ := readAll_spec (here ++ [k]) (.node m kd its) h.1
      simp only [readItems, deriveItems, FreshItems, h1, g1, h2, g2, and_self, true_and]
      -- the child read is again a node with the same derived value
      cases hr : (readAll (here ++ [k]) (.node m kd its)).1 with
      | leaf a => rw [hr] at g4; simp [SameKind] at g4
      | node m' kd' its' =>
        rw [hr] at g3
        simp only [deriveItems, g3, h3]
end

theorem deriveItems_setKv {k : Key} {c c' : T} :
    (items : List (Key × T)) → lookup k items = some c → SameKind c c' → derive c' = derive c →
      deriveItems (setKv k c' items) = deriveItems items
  | [], h, _, _ => by simp [lookup] at h
  | (k0, v0) :: rest, h, hs, hd => by
    simp only [lookup] at h
    simp only [setKv]
    by_cases h0 : k0 = k
    · subst h0
      simp only [if_true, Option.some.injEq] at h
      subst h
      simp only [if_true]
      cases v0 with
      | leaf a =>
        cases c' with
        | leaf b => simp only [SameKind] at hs; subst hs; rfl
        | node _ _ _ => simp [SameKind] at hs
      | node m kd its =>
        cases c' with
        | leaf b => simp [SameKind] at hs
        | node m' kd' its' => simp only [deriveItems, hd]
    · simp only [h0, if_false] at h ⊢
      have ih := deriveItems_setKv rest h hs hd
      cases v0 with
      | leaf a => simp only [deriveItems, ih]
      | node m kd its => simp only [deriveItems, ih]

/-- Replacing the node at `p` by a fresh node with the same derived value keeps the tree fresh. -/
theorem mapAt_fresh_same : (p : Path) → (root n n' : T) → Fresh root → getAt root p = some n →
    Fresh n' → derive n' = derive n → SameKind n n' →
    Fresh (mapAt (fun _ => n') root p) ∧ derive (mapAt (fun _ => n') root p) = derive root ∧
      SameKind root (mapAt (fun _ => n') root p)
  | [], root, n, n', _, hg, hn, hd, hs => by
    simp only [getAt, Option.some.injEq] at hg; subst hg
    exact ⟨hn, hd, hs⟩
  | k :: rest, .leaf a, n, n', _, hg, _, _, _ => by simp [getAt, child] at hg
  | k :: rest, .node m kd items, n, n', hf, hg, hn, hd, hs => by
    simp only [getAt, child] at hg
    cases hc : lookup k items with
    | none => simp [hc] at hg
    | some c =>
      simp only [hc] at hg
      simp only [Fresh] at hf
      obtain ⟨i1, i2, i3⟩ := mapAt_fresh_same rest c n n' (freshItems_lookup items hf.2 hc) hg hn hd hs
      have hdi := deriveItems_setKv (c' := mapAt (fun _ => n') c rest) items hc i3 i2
      simp only [mapAt, child, hc, setChild, Fresh, derive, SameKind, hdi, and_true]
      exact ⟨hf.1, freshItems_setKv i1 items hf.2⟩

/-- READS: on a fresh tree, a read at `p` answers exactly the fresh computation on the current
contents of that node, and leaves the tree fresh (whatever it memoised on the way). -/
theorem readAt_spec (root : T) (p : Path) (hf : Fresh root) :
    (readAt root p).2 = (getAt root p).map derive ∧ Fresh (readAt root p).1 := by
  unfold readAt
  cases hg : getAt root p with
  | none => exact ⟨rfl, hf⟩
  | some n =>
    obtain ⟨g1, g2, g3, g4⟩ := readAll_spec p n (fresh_getAt p root n hf hg)
    simp only [Option.map_some, g1, true_and]
    exact (mapAt_fresh_same p root n _ hf hg g2 g3 g4).1

/-- One step of a history: a public call, or a read of the derived facts of one node. -/
inductive HStep where
  | call (recv : Path) (notifyOn : Bool) (op : Op)
  | read (p : Path)

/-- The values a step hands in satisfy `P` (instantiated with "carry no stale memo"). -/
def HStep.Admissible (P : Op → Prop) : HStep → Prop
  | .call _ _ op => P op
  | .read _ => True

def runH : T → List HStep → T
  | t, [] => t
  | t, .call recv n op :: rest => runH (step t recv n op).tree rest
  | t, .read p :: rest => runH (readAt t p).1 rest


end Pg.C09
