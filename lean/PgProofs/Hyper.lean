/-
  C13 — helper lemmas about the hyper model (PgModel/Hyper.lean, PgModel/HyperSpec.lean).
-/
import PgModel.HyperSpec
namespace Pg.C13

/-! ### Induction over templates (nested inductive) -/

section Induct
variable {P : Tmpl → Prop}
  (hconst : ∀ a, P (.const a))
  (hnode : ∀ l kids, (∀ k ∈ kids, P k) → P (.node l kids))
  (hchoice : ∀ tag one k cands ds so, (∀ c ∈ cands, P c) → P (.choice tag one k cands ds so))
  (hfloat : ∀ tag lo hi, P (.floatv tag lo hi))
  (hcustom : ∀ tag cid, P (.custom tag cid))

set_option linter.unusedSectionVars false in
include hconst hnode hchoice hfloat hcustom in
mutual
  theorem Tmpl.ind_t : (t : Tmpl) → P t
    | .const a => hconst a
    | .node l kids => hnode l kids (Tmpl.ind_l kids)
    | .choice tag one k cands ds so => hchoice tag one k cands ds so (Tmpl.ind_l cands)
    | .floatv tag lo hi => hfloat tag lo hi
    | .custom tag cid => hcustom tag cid
  theorem Tmpl.ind_l : (ts : List Tmpl) → ∀ k ∈ ts, P k
    | [] => fun _ h => by cases h
    | t :: ts => fun k h => by
      rcases List.mem_cons.mp h with h1 | h'
      · exact h1 ▸ Tmpl.ind_t t
      · exact Tmpl.ind_l ts k h'
end
end Induct

section
variable (W : Cfg)

/-! ### The list helpers of the mutual blocks are maps -/

theorem candFns_eq (cs : List Tmpl) : candFns W cs = cs.map (decode W) := by
  induction cs with
  | nil => simp [candFns]
  | cons c cs ih => simp only [candFns, List.map_cons, ih]; rfl

theorem encFns_eq (cs : List Tmpl) : encFns W cs = cs.map (encode W) := by
  induction cs with
  | nil => simp [encFns]
  | cons c cs ih => simp only [encFns, List.map_cons, ih]; rfl

theorem candSpecs_eq (cs : List Tmpl) : candSpecs W cs = cs.map (dnaSpec W) := by
  induction cs with
  | nil => simp [candSpecs]
  | cons c cs ih => simp only [candSpecs, List.map_cons, ih]; rfl

theorem candV_eq (gs : List GSpec) : candV W.dom gs = gs.map (fun g => (g.isConstSpace, validG W.dom g)) := by
  induction gs with
  | nil => simp [candV]
  | cons c cs ih => simp only [candV, List.map_cons, ih]

theorem wfL_iff (ts : List Tmpl) : wfL ts = true ↔ ∀ t ∈ ts, wfT t = true := by
  induction ts with
  | nil => simp [wfL]
  | cons c cs ih => simp [wfL, ih]

theorem detL_iff (ts : List Tmpl) : detL W ts = true ↔ ∀ t ∈ ts, detT W t = true := by
  induction ts with
  | nil => simp [detL]
  | cons c cs ih => simp [detL, ih]

theorem DistL_iff (ts : List Tmpl) : DistL W ts ↔ ∀ t ∈ ts, DistT W t := by
  induction ts with
  | nil => simp [DistL]
  | cons c cs ih => simp [DistL, ih]

theorem nfL_iff (ds : List DNA) : nfL ds = true ↔ ∀ d ∈ ds, nfD d = true := by
  induction ds with
  | nil => simp [nfL]
  | cons c cs ih => simp [nfL, ih]

theorem nfL_append (a b : List DNA) : nfL (a ++ b) = true ↔ nfL a = true ∧ nfL b = true := by
  simp only [nfL_iff, List.mem_append]
  constructor
  · intro h; exact ⟨fun d hd => h d (Or.inl hd), fun d hd => h d (Or.inr hd)⟩
  · rintro ⟨h1, h2⟩ d (hd | hd)
    · exact h1 d hd
    · exact h2 d hd

/-! ### DNA normalisation -/

theorem norm_none_single_some (x : DVal) (cs : List DNA) :
    DNA.norm none [.mk (some x) cs] = .mk (some x) cs := by
  simp [DNA.norm, DNA.splice]

theorem nfD_children {v : Option DVal} {cs : List DNA} (h : nfD (.mk v cs) = true) : nfL cs = true := by
  simp only [nfD, Bool.and_eq_true] at h; exact h.2

/-- Re-rooting the children of a DNA object and wrapping the result again under the same value
gives the DNA object back (`DNA(i, [DNA(None, children)]) == DNA(i, children)`). -/
theorem norm_reroot (x : DVal) (cs : List DNA) (h : nfD (.mk (some x) cs) = true) :
    DNA.norm (some x) [DNA.norm none cs] = .mk (some x) cs := by
  match cs, h with
  | [], _ => simp [DNA.norm, DNA.splice]
  | [.mk none gcs], h => simp [nfD] at h
  | [.mk (some y) gcs], _ => simp [DNA.norm, DNA.splice]
  | c1 :: c2 :: rest, _ => simp [DNA.norm, DNA.splice]

/-- The re-rooted children of a DNA object form a DNA object. -/
theorem nfD_reroot (v : Option DVal) (cs : List DNA) (h : nfD (.mk v cs) = true) :
    nfD (DNA.norm none cs) = true := by
  match cs, h with
  | [], _ => simp [DNA.norm, DNA.splice, nfD, nfL]
  | [.mk none gcs], h => simp [nfD] at h
  | [.mk (some y) gcs], h =>
    simp only [DNA.norm, DNA.splice]
    have := nfD_children h
    simp only [nfL, Bool.and_eq_true] at this
    exact this.1
  | c1 :: c2 :: rest, h =>
    have hc := nfD_children h
    simp only [DNA.norm, DNA.splice, nfD, hc, Bool.and_true]

/-- Splitting a DNA object among `n` decision points and re-assembling gives it back, provided a
node that passes its children on carries no value of its own. -/
theorem norm_split (n : Nat) (d : DNA) (ds : List DNA) (hs : splitDna n d = some ds)
    (hnf : nfD d = true) (hv : n < 2 ∨ d.value = none) :
    DNA.norm none ds = d ∧ nfL ds = true := by
  unfold splitDna at hs
  split at hs
  · -- n = 0
    split at hs
    · cases hs; simp [DNA.norm, DNA.splice, nfL]
    · cases hs
  · split at hs
    · -- n = 1
      cases hs
      refine ⟨?_, by simp [nfL, hnf]⟩
      match d, hnf with
      | .mk (some x) cs, _ => simp [DNA.norm, DNA.splice]
      | .mk none [], _ => simp [DNA.norm, DNA.splice]
      | .mk none [c], h => simp [nfD] at h
      | .mk none (c1 :: c2 :: rest), _ => simp [DNA.norm, DNA.splice]
    · split at hs
      · cases hs
        rename_i h0 h1 hl
        have hn : 2 ≤ n := by omega
        match d, hnf, hv, hl with
        | .mk v cs, hnf, hv, hl =>
          simp only [DNA.children] at hl
          have hv' : v = none := by
            rcases hv with hv | hv
            · omega
            · simpa [DNA.value] using hv
          subst hv'
          refine ⟨?_, nfD_children hnf⟩
          match cs, hl with
          | [], hl => simp at hl; omega
          | [c], hl => simp at hl; omega
          | c1 :: c2 :: rest, _ => simp [DNA.norm, DNA.splice, DNA.children]
      · cases hs


/-! ### Validity of a list of decision points -/

theorem validL_nil (ds : List DNA) (h : validL W.dom [] ds = true) : ds = [] := by
  cases ds with
  | nil => rfl
  | cons d ds => simp [validL] at h

theorem validL_single (g : GSpec) (ds : List DNA) (h : validL W.dom [g] ds = true) :
    ∃ d, ds = [d] ∧ validG W.dom g d = true := by
  match ds, h with
  | [], h => simp [validL] at h
  | [d], h => simp [validL] at h; exact ⟨d, rfl, h⟩
  | d :: d' :: ds, h => simp [validL] at h

theorem validL_append (a b : List GSpec) (ds : List DNA) (h : validL W.dom (a ++ b) ds = true) :
    ∃ d1 d2, ds = d1 ++ d2 ∧ validL W.dom a d1 = true ∧ validL W.dom b d2 = true := by
  induction a generalizing ds with
  | nil => exact ⟨[], ds, rfl, by simp [validL], h⟩
  | cons g gs ih =>
    cases ds with
    | nil => simp [validL] at h
    | cons d ds =>
      simp only [List.cons_append, validL, Bool.and_eq_true] at h
      obtain ⟨d1, d2, rfl, h1, h2⟩ := ih ds h.2
      exact ⟨d :: d1, d2, rfl, by simp [validL, h.1, h1], h2⟩

/-! ### Atoms -/

theorem Num.le_refl (x : Num) : Num.le x x = true := by simp [Num.le]

theorem Atom.pyEq_refl (a : Atom) : Atom.pyEq a a = true := by
  cases a <;> simp [Atom.pyEq, Num.le_refl]

/-! ### First matching candidate -/

theorem firstMatch_spec (cands : List Tmpl) (v : Tmpl) (i : Nat) (c : Tmpl) (d0 : DNA) (n : Nat)
    (hi : cands[i]? = some c) (henc : encode W c v = .ok d0)
    (hearlier : ∀ j cj, j < i → cands[j]? = some cj → ∀ d', encode W cj v ≠ .ok d') :
    firstMatch (cands.map (encode W)) v n = some (n + i, d0) := by
  induction cands generalizing i n with
  | nil => simp at hi
  | cons c0 rest ih =>
    cases i with
    | zero =>
      simp only [List.getElem?_cons_zero, Option.some.injEq] at hi
      subst hi
      simp [firstMatch, henc]
    | succ i' =>
      simp only [List.getElem?_cons_succ] at hi
      have h0 := hearlier 0 c0 (Nat.succ_pos _) (by simp)
      simp only [List.map_cons, firstMatch]
      cases hc0 : encode W c0 v with
      | ok d' => exact absurd hc0 (h0 d')
      | error e =>
        simp only
        rw [ih i' (n + 1) hi (fun j cj hj hcj => hearlier (j + 1) cj (Nat.succ_lt_succ hj) (by simpa using hcj))]
        congr 2
        omega

/-! ### The central lemma: totality of decode and `encode ∘ decode = id`, per template -/

/-- Traversal level: the DNAs of the active placeholders of `t` are consumed exactly, and merging
the result with the template gives them back. -/
def StT (t : Tmpl) : Prop :=
  ∀ ds rest, validL W.dom (specT W t) ds = true →
    ∃ v, goT W t (ds ++ rest) = .ok (v, rest) ∧
      (wfT t = true → DistT W t → nfL ds = true → egoT W t v = .ok ds)

def StL (ts : List Tmpl) : Prop :=
  ∀ ds rest, validL W.dom (specL W ts) ds = true →
    ∃ vs, goL W ts (ds ++ rest) = .ok (vs, rest) ∧
      (wfL ts = true → DistL W ts → nfL ds = true → egoL W ts vs = .ok ds)

/-- Template level (`ObjectTemplate.decode` / `.encode`). -/
def StD (c : Tmpl) : Prop :=
  ∀ d, validG W.dom (dnaSpec W c) d = true →
    ∃ v, decode W c d = .ok v ∧
      (wfT c = true → DistT W c → nfD d = true → encode W c v = .ok d)

theorem StD_of_StT (c : Tmpl) (h : StT W c) : StD W c := by
  intro d hv
  simp only [dnaSpec, validG] at hv
  split at hv
  · cases hv
  · rename_i ds hsplit
    simp only [Bool.and_eq_true] at hv
    obtain ⟨v, hgo, henc⟩ := h ds [] hv.2
    simp only [List.append_nil] at hgo
    refine ⟨v, by simp [decode, hsplit, hgo], ?_⟩
    intro hwf hdist hnf
    have hcond : (specT W c).length < 2 ∨ d.value = none := by
      have := hv.1
      simp only [Bool.or_eq_true, decide_eq_true_eq, Option.isNone_iff_eq_none] at this
      exact this
    obtain ⟨hnorm, hnfl⟩ := norm_split _ d ds hsplit hnf hcond
    simp [encode, henc hwf hdist hnfl, hnorm]

theorem StL_of_mem (ts : List Tmpl) (h : ∀ t ∈ ts, StT W t) : StL W ts := by
  induction ts with
  | nil =>
    intro ds rest hv
    simp only [specL] at hv
    have := validL_nil W ds hv
    subst this
    exact ⟨[], by simp [goL], fun _ _ _ => by simp [egoL]⟩
  | cons t ts ih =>
    intro ds rest hv
    simp only [specL] at hv
    obtain ⟨d1, d2, rfl, h1, h2⟩ := validL_append W _ _ ds hv
    obtain ⟨v, hgo, henc⟩ := h t (List.mem_cons_self ..) d1 (d2 ++ rest) h1
    obtain ⟨vs, hgoL, hencL⟩ := ih (fun t' ht' => h t' (List.mem_cons_of_mem _ ht')) d2 rest h2
    refine ⟨v :: vs, by simp [goL, List.append_assoc, hgo, hgoL], ?_⟩
    intro hwf hdist hnf
    simp only [wfL, Bool.and_eq_true] at hwf
    simp only [DistL] at hdist
    rw [nfL_append] at hnf
    simp [egoL, henc hwf.1 hdist.1 hnf.1, hencL hwf.2 hdist.2 hnf.2]

/-- The pairwise clause of `DistT` for one choice. -/
def CandsDist (cands : List Tmpl) : Prop :=
  ∀ (i j : Nat) ci cj, j < i → cands[i]? = some ci → cands[j]? = some cj →
    ∀ d v, decode W ci d = .ok v → ∀ d', encode W cj v ≠ .ok d'

theorem sub_ok (cands : List Tmpl) (hIH : ∀ c ∈ cands, StD W c) (chk : Bool) (sd : DNA)
    (hv : validSub (candV W.dom (candSpecs W cands)) chk sd = true) :
    ∃ v, decodeSub (candFns W cands) sd = .ok v ∧
      (wfL cands = true → DistL W cands → CandsDist W cands → nfD sd = true →
        ∃ i child, firstMatch (encFns W cands) v 0 = some (i, child) ∧
          DNA.norm (some (.idx i)) [child] = sd) := by
  match sd, hv with
  | .mk (some (.idx i)) cs, hv =>
    simp only [validSub, candV_eq, candSpecs_eq, List.getElem?_map] at hv
    cases hc : cands[i]? with
    | none => simp [hc] at hv
    | some c =>
      simp only [hc, Option.map_some, Bool.and_eq_true] at hv
      have hmem : c ∈ cands := List.mem_of_getElem? hc
      obtain ⟨v, hdec, henc⟩ := hIH c hmem (DNA.norm none cs) hv.2
      refine ⟨v, by simp [decodeSub, candFns_eq, hc, hdec], ?_⟩
      intro hwf hdist hcd hnf
      have hwfc := (wfL_iff cands).mp hwf c hmem
      have hdc := (DistL_iff W cands).mp hdist c hmem
      have henc' := henc hwfc hdc (nfD_reroot _ cs hnf)
      refine ⟨i, DNA.norm none cs, ?_, norm_reroot _ cs hnf⟩
      rw [encFns_eq, firstMatch_spec W cands v i c _ 0 hc henc'
        (fun j cj hj hcj d' => hcd i j c cj hj hc hcj _ v hdec d')]
      simp
  | .mk none cs, hv => simp [validSub] at hv
  | .mk (some (.flt x)) cs, hv => simp [validSub] at hv

theorem subs_ok (cands : List Tmpl) (hIH : ∀ c ∈ cands, StD W c) (sds : List DNA)
    (hv : sds.all (validSub (candV W.dom (candSpecs W cands)) false) = true) :
    ∃ vs, decodeSubs (candFns W cands) sds = .ok vs ∧ vs.length = sds.length ∧
      (wfL cands = true → DistL W cands → CandsDist W cands → nfL sds = true →
        encodeItems (encFns W cands) vs = .ok sds) := by
  induction sds with
  | nil => exact ⟨[], by simp [decodeSubs], rfl, fun _ _ _ => by simp [encodeItems]⟩
  | cons sd sds ih =>
    simp only [List.all_cons, Bool.and_eq_true] at hv
    obtain ⟨v, hdec, henc⟩ := sub_ok W cands hIH false sd hv.1
    obtain ⟨vs, hdecs, hlen, hencs⟩ := ih hv.2
    refine ⟨v :: vs, by simp [decodeSubs, hdec, hdecs], by simp [hlen], ?_⟩
    intro hwf hdist hcd hnf
    simp only [nfL, Bool.and_eq_true] at hnf
    obtain ⟨i, child, hfm, hnorm⟩ := henc hwf hdist hcd hnf.1
    simp [encodeItems, hfm, hencs hwf hdist hcd hnf.2, hnorm]


theorem StT_choice_active (tag : Nat) (one : Bool) (k : Nat) (cands : List Tmpl) (dst so : Bool)
    (hW : W tag = true) (hIH : ∀ c ∈ cands, StD W c) : StT W (.choice tag one k cands dst so) := by
  intro ds rest hv
  simp only [specT, hW, if_true] at hv
  obtain ⟨d, rfl, hvd⟩ := validL_single W _ ds hv
  simp only [validG] at hvd
  by_cases hk : k = 1
  · -- single choice
    subst hk
    simp only [if_true] at hvd
    obtain ⟨v, hdec, henc⟩ := sub_ok W cands hIH true d hvd
    refine ⟨if one then v else .node .list [v], by simp [goT, hW, decodeChoice, hdec], ?_⟩
    intro hwf hdist hnf
    simp only [wfT, Bool.and_eq_true] at hwf
    simp only [DistT] at hdist
    simp only [nfL, Bool.and_eq_true] at hnf
    obtain ⟨i, child, hfm, hnorm⟩ := henc hwf.2 hdist.1 (hdist.2 hW) hnf.1
    have hd : DNA.norm none [d] = d := by
      match d, hvd with
      | .mk (some x) cs, _ => exact norm_none_single_some x cs
      | .mk none cs, hvd => simp [validSub] at hvd
    cases one with
    | true => simp [egoT, hW, encodeChoice, encodeItems, hfm, hnorm, hd]
    | false => simp [egoT, hW, encodeChoice, encodeItems, hfm, hnorm, hd]
  · -- multi choice
    simp only [hk, if_false, Bool.and_eq_true, decide_eq_true_eq] at hvd
    obtain ⟨⟨⟨hstrict, hlen⟩, hidx⟩, hall⟩ := hvd
    obtain ⟨vs, hdecs, hvlen, hencs⟩ := subs_ok W cands hIH d.children hall
    cases hai : allIdx d.children with
    | none => simp [hai] at hidx
    | some is =>
      simp only [hai] at hidx
      refine ⟨if one then (vs.head?.getD (.const .none)) else .node .list vs, ?_, ?_⟩
      · simp [goT, hW, decodeChoice, hk, hlen, hai, hidx, hdecs]
      · intro hwf hdist hnf
        simp only [wfT, Bool.and_eq_true] at hwf
        simp only [DistT] at hdist
        simp only [nfL, Bool.and_eq_true] at hnf
        have hone : one = false := by
          cases one with
          | false => rfl
          | true => simp at hwf; exact absurd hwf.1 hk
        subst hone
        simp only [Bool.false_eq_true, if_false, decide_eq_true_eq] at hwf
        have hk2 : 2 ≤ k := by omega
        match d, hstrict, hlen, hnf, hencs with
        | .mk dv cs, hstrict, hlen, hnf, hencs =>
          simp only [DNA.children] at hlen hencs hvlen
          have hdv : dv = none := by
            simpa [DNA.value] using hstrict
          subst hdv
          have hcs := hencs hwf.2 hdist.1 (hdist.2 hW) (nfD_children hnf.1)
          have hnorm : DNA.norm none cs = .mk none cs := by
            match cs, hlen with
            | [], hlen => simp at hlen; omega
            | [c], hlen => simp at hlen; omega
            | c1 :: c2 :: rest, _ => simp [DNA.norm, DNA.splice]
          simp [egoT, hW, encodeChoice, hvlen, hlen, hcs, hnorm]

theorem StT_all (hL : HooksLawful W) (t : Tmpl) : StT W t := by
  induction t using Tmpl.ind_t with
  | hconst a =>
    intro ds rest hv
    simp only [specT] at hv
    have := validL_nil W ds hv
    subst this
    exact ⟨.const a, by simp [goT], fun _ _ _ => by simp [egoT, Atom.pyEq_refl]⟩
  | hnode l kids ih =>
    intro ds rest hv
    simp only [specT] at hv
    obtain ⟨vs, hgo, henc⟩ := StL_of_mem W kids ih ds rest hv
    refine ⟨.node l vs, by simp [goT, hgo], ?_⟩
    intro hwf hdist hnf
    simp only [wfT] at hwf
    simp only [DistT] at hdist
    simp [egoT, henc hwf hdist hnf]
  | hchoice tag one k cands dst so ih =>
    by_cases hW : W tag = true
    · exact StT_choice_active W tag one k cands dst so hW (fun c hc => StD_of_StT W c (ih c hc))
    · intro ds rest hv
      simp only [specT, hW, Bool.false_eq_true, if_false] at hv
      obtain ⟨vs, hgo, henc⟩ := StL_of_mem W cands ih ds rest hv
      refine ⟨.choice tag one k vs dst so, by simp [goT, hW, hgo], ?_⟩
      intro hwf hdist hnf
      simp only [wfT, Bool.and_eq_true] at hwf
      simp only [DistT] at hdist
      simp [egoT, hW, henc hwf.2 hdist.1 hnf]
  | hfloat tag lo hi =>
    intro ds rest hv
    by_cases hW : W tag = true
    · simp only [specT, hW, if_true] at hv
      obtain ⟨d, rfl, hvd⟩ := validL_single W _ ds hv
      simp only [validG] at hvd
      split at hvd
      · rename_i x
        refine ⟨.const (.flt x), by simp [goT, hW, DNA.value, hvd], ?_⟩
        intro _ _ _
        simp [egoT, hW, hvd]
      · cases hvd
    · simp only [specT, hW, Bool.false_eq_true, if_false] at hv
      have := validL_nil W ds hv
      subst this
      exact ⟨.floatv tag lo hi, by simp [goT, hW], fun _ _ _ => by simp [egoT, hW]⟩
  | hcustom tag cid =>
    intro ds rest hv
    by_cases hW : W tag = true
    · simp only [specT, hW, if_true] at hv
      obtain ⟨d, rfl, hvd⟩ := validL_single W _ ds hv
      simp only [validG] at hvd
      split at hvd
      · rename_i g hval
        obtain ⟨v, hdec, _, henc⟩ := hL cid d hvd
        refine ⟨v, by simp [goT, hW, hval, hdec], ?_⟩
        intro _ _ _
        simp [egoT, hW, henc]
      · cases hvd
    · simp only [specT, hW, Bool.false_eq_true, if_false] at hv
      have := validL_nil W ds hv
      subst this
      exact ⟨.custom tag cid, by simp [goT, hW], fun _ _ _ => by simp [egoT, hW]⟩

theorem StD_all (hL : HooksLawful W) (t : Tmpl) : StD W t := StD_of_StT W t (StT_all W hL t)


/-! ### Every successful decode is placeholder-free (modulo filter) and has the template's shape -/

def DsT (t : Tmpl) : Prop :=
  wfT t = true → ∀ ds v rest, goT W t ds = .ok (v, rest) → detT W v = true ∧ shapeT W t v = true

def DsL (ts : List Tmpl) : Prop :=
  wfL ts = true → ∀ ds vs rest, goL W ts ds = .ok (vs, rest) → detL W vs = true ∧ shapeL W ts vs = true

def DsD (c : Tmpl) : Prop :=
  wfT c = true → ∀ d v, decode W c d = .ok v → detT W v = true ∧ shapeT W c v = true

theorem DsD_of_DsT (c : Tmpl) (h : DsT W c) : DsD W c := by
  intro hwf d v hdec
  simp only [decode] at hdec
  split at hdec
  · cases hdec
  · rename_i ds _
    split at hdec
    · cases hdec
    · rename_i v' rest hgo
      cases hdec
      exact h hwf ds v _ hgo

theorem DsL_of_mem (ts : List Tmpl) (h : ∀ t ∈ ts, DsT W t) : DsL W ts := by
  induction ts with
  | nil =>
    intro _ ds vs rest hgo
    simp only [goL, Except.ok.injEq, Prod.mk.injEq] at hgo
    obtain ⟨rfl, _⟩ := hgo
    simp [detL, shapeL]
  | cons t ts ih =>
    intro hwf ds vs rest hgo
    simp only [wfL, Bool.and_eq_true] at hwf
    simp only [goL] at hgo
    split at hgo
    · cases hgo
    · rename_i v r1 hgoT
      split at hgo
      · cases hgo
      · rename_i vs' r2 hgoL
        cases hgo
        have h1 := h t (List.mem_cons_self ..) hwf.1 ds v r1 hgoT
        have h2 := ih (fun t' ht' => h t' (List.mem_cons_of_mem _ ht')) hwf.2 r1 vs' _ hgoL
        simp [detL, shapeL, h1, h2]

theorem anyShape_of_mem (cands : List Tmpl) (c v : Tmpl) (hc : c ∈ cands) (h : shapeT W c v = true) :
    anyShape W cands v = true := by
  induction cands with
  | nil => cases hc
  | cons c0 rest ih =>
    simp only [anyShape, Bool.or_eq_true]
    rcases List.mem_cons.mp hc with rfl | h'
    · exact Or.inl h
    · exact Or.inr (ih h')

theorem decodeSub_ds (cands : List Tmpl) (hIH : ∀ c ∈ cands, DsD W c) (hwf : wfL cands = true)
    (sd : DNA) (v : Tmpl) (h : decodeSub (candFns W cands) sd = .ok v) :
    detT W v = true ∧ anyShape W cands v = true := by
  match sd, h with
  | .mk (some (.idx i)) cs, h =>
    simp only [decodeSub, candFns_eq, List.getElem?_map] at h
    cases hc : cands[i]? with
    | none => simp [hc] at h
    | some c =>
      simp only [hc, Option.map_some] at h
      have hmem : c ∈ cands := List.mem_of_getElem? hc
      have := hIH c hmem ((wfL_iff cands).mp hwf c hmem) _ v h
      exact ⟨this.1, anyShape_of_mem W cands c v hmem this.2⟩
  | .mk none cs, h => simp [decodeSub] at h
  | .mk (some (.flt x)) cs, h => simp [decodeSub] at h

theorem decodeSubs_ds (cands : List Tmpl) (hIH : ∀ c ∈ cands, DsD W c) (hwf : wfL cands = true)
    (sds : List DNA) (vs : List Tmpl) (h : decodeSubs (candFns W cands) sds = .ok vs) :
    detL W vs = true ∧ vs.all (fun x => anyShape W cands x) = true ∧ vs.length = sds.length := by
  induction sds generalizing vs with
  | nil =>
    simp only [decodeSubs, Except.ok.injEq] at h
    subst h
    simp [detL]
  | cons sd sds ih =>
    simp only [decodeSubs] at h
    split at h
    · cases h
    · rename_i v hv
      split at h
      · cases h
      · rename_i vs' hvs
        cases h
        have h1 := decodeSub_ds W cands hIH hwf sd v hv
        have h2 := ih vs' hvs
        simp [detL, h1, h2]

theorem plain_det (v : Tmpl) : plainT v = true → detT W v = true := by
  induction v using Tmpl.ind_t with
  | hconst a => intro _; simp [detT]
  | hnode l kids ih =>
    intro h
    simp only [plainT] at h
    simp only [detT]
    rw [detL_iff]
    intro k hk
    have : ∀ ks, plainL ks = true → ∀ k ∈ ks, plainT k = true := by
      intro ks
      induction ks with
      | nil => intro _ k hk; cases hk
      | cons a as iha =>
        intro hp k hk
        simp only [plainL, Bool.and_eq_true] at hp
        rcases List.mem_cons.mp hk with rfl | hk'
        · exact hp.1
        · exact iha hp.2 k hk'
    exact ih k hk (this kids h k hk)
  | hchoice tag one k cands dst so _ => intro h; simp [plainT] at h
  | hfloat tag lo hi => intro h; simp [plainT] at h
  | hcustom tag cid => intro h; simp [plainT] at h

theorem DsT_all (hP : HooksPlain W) (t : Tmpl) : DsT W t := by
  induction t using Tmpl.ind_t with
  | hconst a =>
    intro _ ds v rest hgo
    simp only [goT, Except.ok.injEq, Prod.mk.injEq] at hgo
    obtain ⟨rfl, _⟩ := hgo
    simp [detT, shapeT]
  | hnode l kids ih =>
    intro hwf ds v rest hgo
    simp only [wfT] at hwf
    simp only [goT] at hgo
    split at hgo
    · cases hgo
    · rename_i vs r hgoL
      cases hgo
      have := DsL_of_mem W kids ih hwf ds vs _ hgoL
      simp [detT, shapeT, this]
  | hchoice tag one k cands dst so ih =>
    intro hwf ds v rest hgo
    simp only [wfT, Bool.and_eq_true] at hwf
    by_cases hW : W tag = true
    · simp only [goT, hW, if_true] at hgo
      split at hgo
      · cases hgo
      · rename_i d rest'
        split at hgo
        · cases hgo
        · rename_i v' hdc
          cases hgo
          have hIH : ∀ c ∈ cands, DsD W c := fun c hc => DsD_of_DsT W c (ih c hc)
          simp only [decodeChoice] at hdc
          split at hdc
          · -- k = 1
            rename_i hk
            subst hk
            split at hdc
            · cases hdc
            · rename_i v0 hv0
              cases hdc
              have h1 := decodeSub_ds W cands hIH hwf.2 d v0 hv0
              cases one with
              | true => simp [shapeT, hW, h1]
              | false => simp [detT, detL, shapeT, hW, h1]
          · rename_i hk
            split at hdc
            · cases hdc
            · rename_i hlen
              split at hdc
              · cases hdc
              · split at hdc
                · cases hdc
                · split at hdc
                  · cases hdc
                  · rename_i vs hvs
                    cases hdc
                    have hone : one = false := by
                      cases one with
                      | false => rfl
                      | true => simp at hwf; exact absurd hwf.1 hk
                    subst hone
                    have h1 := decodeSubs_ds W cands hIH hwf.2 d.children vs hvs
                    have hl' : d.children.length = k := by simpa using hlen
                    simp [detT, shapeT, hW, h1, hl']
    · simp only [goT, hW, Bool.false_eq_true, if_false] at hgo
      split at hgo
      · cases hgo
      · rename_i vs r hgoL
        cases hgo
        have := DsL_of_mem W cands ih hwf.2 ds vs _ hgoL
        simp [detT, shapeT, hW, this]
  | hfloat tag lo hi =>
    intro _ ds v rest hgo
    by_cases hW : W tag = true
    · simp only [goT, hW, if_true] at hgo
      split at hgo
      · cases hgo
      · split at hgo
        · split at hgo
          · rename_i hr
            cases hgo
            simp only [Bool.and_eq_true] at hr
            simp [detT, shapeT, hW, hr]
          · cases hgo
        · cases hgo
    · simp only [goT, hW, Bool.false_eq_true, if_false, Except.ok.injEq, Prod.mk.injEq] at hgo
      obtain ⟨rfl, _⟩ := hgo
      simp [detT, shapeT, hW]
  | hcustom tag cid =>
    intro _ ds v rest hgo
    by_cases hW : W tag = true
    · simp only [goT, hW, if_true] at hgo
      split at hgo
      · cases hgo
      · split at hgo
        · split at hgo
          · rename_i v' hdec
            cases hgo
            have hp := hP cid _ v hdec
            exact ⟨plain_det W v hp, by simp [shapeT, hW, hp]⟩
          · cases hgo
        · cases hgo
    · simp only [goT, hW, Bool.false_eq_true, if_false, Except.ok.injEq, Prod.mk.injEq] at hgo
      obtain ⟨rfl, _⟩ := hgo
      simp [detT, shapeT, hW]

theorem DsD_all (hP : HooksPlain W) (t : Tmpl) : DsD W t := DsD_of_DsT W t (DsT_all W hP t)

end

end Pg.C13
