/-
  `#audit_module M`: for every theorem declared in module `M` (auxiliary / internal names
  excluded) print one line `AUDIT <name> : <axioms it depends on>`. The check CLI parses these
  lines: the number of lines is `obligations`, the number whose axioms are within
  {propext, Classical.choice, Quot.sound} is `discharged`.
-/
import Lean
open Lean Elab Command

private def isUserTheoremName (n : Name) : Bool :=
  !n.isInternalDetail && !n.isInternal && !(n.components.any fun c =>
    let s := c.toString
    s.startsWith "_" || s.startsWith "match_" || s.startsWith "proof_" || s == "eq_def" ||
    s.startsWith "eq_" && (s.drop 3).all Char.isDigit)

elab "#audit_module " id:ident : command => do
  let env ← getEnv
  let modName := id.getId
  let some modIdx := env.getModuleIdx? modName
    | throwError "unknown module {modName}"
  let mut names : Array Name := #[]
  for (name, ci) in env.constants.map₁.toList do
    if env.getModuleIdxFor? name == some modIdx then
      if let .thmInfo _ := ci then
        if isUserTheoremName name then
          names := names.push name
  let sorted := names.qsort (fun a b => a.toString < b.toString)
  for name in sorted do
    let axs ← liftCoreM <| collectAxioms name
    let axs := axs.qsort (fun a b => a.toString < b.toString)
    logInfo m!"AUDIT {name} : {axs.toList}"
  logInfo m!"AUDIT-COUNT {sorted.size}"
