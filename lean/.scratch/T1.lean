import PgModel.Hyper
open Pg.C13
def W1 : Nat → Bool := fun _ => true
def t1 : Tmpl := .node (.dict ["a","b"]) [.choice 1 true 1 [.const (.int 1), .choice 2 false 2 [.const (.int 4), .const (.int 5), .const (.int 6)] true false] true false, .floatv 3 ⟨0,0⟩ ⟨1,0⟩]
#eval repr (dnaSpec W1 t1)
def d1 : DNA := .mk none [.mk (some (.idx 1)) [.mk (some (.idx 0)) [], .mk (some (.idx 2)) []], .mk (some (.flt ⟨1,1⟩)) []]
#eval validG (dnaSpec W1 t1) d1
#eval repr (decode W1 t1 d1)
#eval match decode W1 t1 d1 with | .ok v => repr (encode W1 t1 v) | .error _ => "err"
example : validG (dnaSpec W1 t1) d1 = true := by decide
