import PgProofs.Hyper
namespace Pg.C13
variable (W : Nat → Bool)
theorem egoT_const_inv (b : Atom) (v : Tmpl) (ds : List DNA) (h : egoT W (.const b) v = .ok ds) :
    ∃ c, v = .const c ∧ Atom.pyEq b c = true := by
  cases v with
  | const c =>
    simp only [egoT] at h
    split at h
    · rename_i hp; exact ⟨c, rfl, hp⟩
    · cases h
  | node l vs => simp [egoT] at h
  | choice tag one k cs d s => simp [egoT] at h
  | floatv tag lo hi => simp [egoT] at h

theorem egoT_node_inv (l : Label) (kids : List Tmpl) (v : Tmpl) (ds : List DNA) (h : egoT W (.node l kids) v = .ok ds) :
    ∃ vs, v = .node l vs ∧ egoL W kids vs = .ok ds := by
  cases v with
  | node l' vs =>
    simp only [egoT] at h
    split at h
    · rename_i hp; subst hp; exact ⟨vs, rfl, h⟩
    · cases h
  | const c => simp [egoT] at h
  | choice tag one k cs d s => simp [egoT] at h
  | floatv tag lo hi => simp [egoT] at h
end Pg.C13
