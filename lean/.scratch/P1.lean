import PgModel.HyperSpec
namespace Pg.C13

section Induct
variable {P : Tmpl → Prop}
  (hconst : ∀ a, P (.const a))
  (hnode : ∀ l kids, (∀ k ∈ kids, P k) → P (.node l kids))
  (hchoice : ∀ tag one k cands ds so, (∀ c ∈ cands, P c) → P (.choice tag one k cands ds so))
  (hfloat : ∀ tag lo hi, P (.floatv tag lo hi))

include hconst hnode hchoice hfloat in
mutual
  theorem Tmpl.ind_t : (t : Tmpl) → P t
    | .const a => hconst a
    | .node l kids => hnode l kids (Tmpl.ind_l kids)
    | .choice tag one k cands ds so => hchoice tag one k cands ds so (Tmpl.ind_l cands)
    | .floatv tag lo hi => hfloat tag lo hi
  theorem Tmpl.ind_l : (ts : List Tmpl) → ∀ k ∈ ts, P k
    | [] => fun _ h => by cases h
    | t :: ts => fun k h => by
      rcases List.mem_cons.mp h with h1 | h'
      · exact h1 ▸ Tmpl.ind_t t
      · exact Tmpl.ind_l ts k h'
end
end Induct

#check @Tmpl.ind_t
end Pg.C13
