import Mathlib.Tactic.Linarith
example (A B C p q r : Int) (hp : 0 < p) (hq : 0 < q) (hr : 0 < r) (h1 : A * q ≤ B * p) (h2 : B * r ≤ C * q) : A * r ≤ C * p := by
  have h3 : A * q * r ≤ B * p * r := Int.mul_le_mul_of_nonneg_right h1 (Int.le_of_lt hr)
  have h4 : B * r * p ≤ C * q * p := Int.mul_le_mul_of_nonneg_right h2 (Int.le_of_lt hp)
  have h5 : (A * r) * q ≤ (C * p) * q := by nlinarith
  exact Int.le_of_mul_le_mul_right h5 hq
