import PgModel.HyperSpec
namespace Pg.C13
variable (W : Nat → Bool) (s : Bool)

theorem candFns_eq (cs : List Tmpl) : candFns W cs = cs.map (decode W) := by
  induction cs with
  | nil => simp [candFns]
  | cons c cs ih => simp only [candFns, List.map_cons, ih]; rfl

theorem encFns_eq (cs : List Tmpl) : encFns W cs = cs.map (encode W) := by
  induction cs with
  | nil => simp [encFns]
  | cons c cs ih => simp only [encFns, List.map_cons, ih]; rfl

theorem candSpecs_eq (cs : List Tmpl) : candSpecs W cs = cs.map (dnaSpec W) := by
  induction cs with
  | nil => simp [candSpecs]
  | cons c cs ih => simp only [candSpecs, List.map_cons, ih]; rfl

theorem candV_eq (gs : List GSpec) : candV s gs = gs.map (fun g => (g.isConstSpace, validG s g)) := by
  induction gs with
  | nil => simp [candV]
  | cons c cs ih => simp only [candV, List.map_cons, ih]

theorem specL_eq (ts : List Tmpl) : specL W ts = ts.flatMap (specT W) := by
  induction ts with
  | nil => simp [specL]
  | cons c cs ih => simp only [specL, List.flatMap_cons, ih]
end Pg.C13
