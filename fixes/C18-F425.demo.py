import sys
import os; sys.path.insert(0, os.environ.get('VERIF_REPO', '/repo'))
import pyglove as pg
def f(a, opts={'verbose': False, 'n': 1}): return dict(a=a, opts=dict(opts))
F = pg.functor(f)
x = F(1)
print('init args', x.sym_init_args, x.specified_args)
x.rebind({'opts.verbose': True})
print('after nested rebind', x.sym_init_args, x.specified_args, x.default_args, x.non_default_args)
print('call', x())
print('plain with reported', f(1, {'verbose': True, 'n': 1}))
y = F(2)
print('other instance', y.sym_init_args, y())
z = F(1, opts={'verbose': False, 'n': 2}); z.rebind({'opts.verbose': True}); print('explicitly bound then nested rebind', z())
