"""tools/seed_test.py <seed_dir> <Cxx> [--thorough]: apply a seeded change to /repo, run the demo and the check,
undo it straight afterwards. Prints a JSON summary. Never leaves /repo modified."""
import json, os, subprocess, sys, time

seed, prop = sys.argv[1], sys.argv[2]
thorough = '--thorough' in sys.argv
# --repo PATH: a scratch worktree of /repo to patch instead of /repo itself (so that checks other
# people are running against /repo are not disturbed); the check then runs with VERIF_REPO=PATH.
REPO = sys.argv[sys.argv.index('--repo') + 1] if '--repo' in sys.argv else '/repo'
VERIF = os.path.dirname(os.path.dirname(os.path.abspath(__file__)))


def sh(cmd, cwd=None, timeout=3000, env=None):
  p = subprocess.run(cmd, shell=True, cwd=cwd, capture_output=True, text=True, timeout=timeout, env=env)
  return p.returncode, (p.stdout + p.stderr)


assert sh('git -C %s status --porcelain' % REPO)[1].strip() == '', REPO + ' is dirty'
res = {'seed': seed, 'property': prop}
env = dict(os.environ, PYTHONPATH=REPO, VERIF_REPO=REPO)
res['demo_clean_exit'] = sh('timeout 300 /venv/bin/python %s/demo.py' % seed, cwd=REPO, env=env)[0]
rc, out = sh('git -C %s apply %s/patch.diff' % (REPO, os.path.abspath(seed)))
if rc != 0:   # the repository moved on since the patch was made: try a 3-way merge
  rc, out = sh('git -C %s apply --3way %s/patch.diff' % (REPO, os.path.abspath(seed)))
  if rc == 0:
    sh('git -C %s reset -q' % REPO)
    res['applied_with'] = '3way'
  else:
    sh('git -C %s checkout -q -- . ; git -C %s reset -q --hard' % (REPO, REPO))
if rc != 0:
  res['apply'] = 'FAILED: ' + out[-300:]
  print(json.dumps(res, indent=1))
  sys.exit(2)
try:
  res['demo_patched_exit'] = sh('timeout 300 /venv/bin/python %s/demo.py' % seed, cwd=REPO, env=env)[0]
  t = time.time()
  rc, out = sh('./check %s --tier %s' % (prop, 'thorough' if thorough else 'quick'), cwd=VERIF, env=env)
  res['check_exit'] = rc
  res['check_wall_s'] = round(time.time() - t, 1)
  lines = [l for l in out.split('\n') if l.startswith(('VIOLATION', 'BROKEN', 'FAIL', 'OK ', 'INFRA'))]
  res['check_lines'] = [l[:260] for l in lines[:8]]
  replays = [l.split('replay=')[1].split()[0] for l in lines if l.startswith('VIOLATION')]
  res['replays'] = []
  for r in replays[:3]:
    try:
      rep = json.load(open(os.path.join(VERIF, r)))
      res['replays'].append({'file': r, 'kind': rep.get('kind'), 'signature': rep.get('signature'),
                             'what': str((rep.get('failure') or {}).get('what'))[:300],
                             'broken': [b['kind'] + ':' + b['name'] for b in rep.get('broken', [])][:4]})
    except Exception as e:
      res['replays'].append({'file': r, 'error': str(e)})
finally:
  sh('git -C %s checkout -- .' % REPO)
  sh('git -C %s clean -fdq pyglove' % REPO)
# replays on the clean tree must pass
res['replay_on_clean'] = []
for r in res.get('replays', [])[:2]:
  if 'file' in r and r.get('kind') == 'failing-input':
    rc, out = sh('./check %s --replay %s' % (prop, r['file']), cwd=VERIF, env=env)
    res['replay_on_clean'].append(rc)
print(json.dumps(res, indent=1))
