#!/venv/bin/python
"""Move findings/<Cxx>.json entries into findings/known_findings.json (replace entries with the same
property+id); optional `id=commit` pairs mark entries fixed with that /repo commit."""
import json, os, sys
root = os.path.dirname(os.path.dirname(os.path.abspath(__file__)))
kf = os.path.join(root, 'findings', 'known_findings.json')
known = json.load(open(kf))
commits = dict(a.split('=') for a in sys.argv[2:])
src = os.path.join(root, 'findings', sys.argv[1] + '.json')
new = json.load(open(src))['findings']
for e in new:
  if e['id'] in commits:
    e['status'] = 'fixed'; e['commit'] = commits[e['id']]
  known['findings'] = [k for k in known['findings'] if not (k['id'] == e['id'] and k['property'] == e['property'])]
  known['findings'].append(e)
  print('moved', e['property'], e['id'], e['status'], e.get('commit', ''))
json.dump(known, open(kf, 'w'), indent=1)
os.remove(src)
