"""Ad-hoc: list model/implementation disagreements and oracle failures of C03 for a seed (not part of the check)."""
import json, os, sys
sys.path.insert(0, os.path.dirname(os.path.dirname(os.path.abspath(__file__))))
from harness.common import framework, prng
from harness import c03
prop = c03.PROP
seed = int(sys.argv[1]) if len(sys.argv) > 1 else 0
tier = sys.argv[2] if len(sys.argv) > 2 else 'quick'
rng = prng.Rng(seed)
cases = prop.corpus() + list(prop.generate(rng.fork(), tier))
outs = framework.run_impl(prop, cases, 8)
reqs, idx = [], []
for i, c in enumerate(cases):
  r = prop.model_request(c)
  if r is not None:
    reqs.append(r); idx.append(i)
mo = dict(zip(idx, framework.Driver(prop.driver).run(reqs)))
nd, sigs = 0, {}
for i, (c, o) in enumerate(zip(cases, outs)):
  if 'harness_exception' in o:
    print('HARNESS', o['harness_exception'], o['trace']); break
  if i in mo and 'model' in o:
    d = prop.compare(c, o, mo[i])
    if d:
      nd += 1
      if nd <= int(os.environ.get('SHOW', 5)):
        import copy as _copy
        a, b = o['model'], _copy.deepcopy(mo[i])
        if c.get('kind', 'list') != 'list':
          if isinstance(b.get('construct'), list):
            b['construct'] = sorted([[k, c03.canon(v)] for k, v in b['construct']])
          for st in b.get('steps', []):
            st['items'] = sorted([[k, c03.canon(v)] for k, v in st['items']])
        print('DISAGREE kind=%s spec=%s partial=%s' % (c.get('kind'), json.dumps(o['state'])[:600], c.get('partial')))
        print('   items', json.dumps(c['items'])[:300])
        if a['construct'] != b['construct']:
          print('   construct impl=%s model=%s' % (json.dumps(a['construct'])[:300], json.dumps(b['construct'])[:300]))
        else:
          for j, (x, y) in enumerate(zip(a['steps'], b['steps'])):
            if x != y:
              print('   step %d op=%s\n      impl =%s\n      model=%s' % (j, json.dumps(c['ops'][j])[:300], json.dumps(x)[:400], json.dumps(y)[:400]))
              print('      before=%s' % json.dumps(a['steps'][j-1]['items'] if j else a['construct'])[:300])
              break
  f = prop.oracle(c, o) if 'model' in o else {'signature': 'impl-exception', 'what': json.dumps(o)[:300] + json.dumps(c)[:600]}
  if f:
    sigs.setdefault(f['signature'], []).append(f['what'])
print('disagreements', nd, 'of', len(cases))
for s, w in sorted(sigs.items()):
  print('SIG', s, len(w)); print('    ', w[0][:600])
for i, (c, o) in enumerate(zip(cases, outs)):
  f = prop.oracle(c, o) if 'model' in o else None
  d = prop.compare(c, o, mo[i]) if (i in mo and 'model' in o) else None
  if f or d:
    print('CASE', json.dumps(c)); print('   compare:', (d or '')[:300])
