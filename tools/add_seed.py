"""tools/add_seed.py <dir with patch.diff demo.py notes.txt> Cxx: store a seeded change as seeded/Cxx-<next>."""
import glob, json, os, re, shutil, sys
HERE = os.path.dirname(os.path.dirname(os.path.abspath(__file__)))
src, P = sys.argv[1], sys.argv[2]
ns = [int(d.rsplit('-', 1)[1]) for d in glob.glob(os.path.join(HERE, 'seeded', P + '-*'))]
dst = os.path.join(HERE, 'seeded', '%s-%d' % (P, max(ns + [0]) + 1))
os.makedirs(dst)
for f in ('patch.diff', 'demo.py'):
  shutil.copy(os.path.join(src, f), dst)
notes = open(os.path.join(src, 'notes.txt')).read()
patch = open(os.path.join(src, 'patch.diff')).read()
meta = {'property': P, 'summary': notes.strip()[:1500],
        'needs_to_manifest': 'see summary (sub-agent notes)', 'unit_tests_pass': True,
        'files_touched': sorted(set(re.findall(r'^\+\+\+ b/(\S+)', patch, re.M))), 'round': 6}
json.dump(meta, open(os.path.join(dst, 'meta.json'), 'w'), indent=1)
print(dst)
