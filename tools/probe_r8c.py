import pyglove as pg, traceback
T = pg.typing
for label, fs in (('Dict noneable frozen', T.Dict([('q', T.Int())], is_noneable=True).freeze({'q': 1})),
                  ('List noneable frozen', T.List(T.Int(), is_noneable=True).freeze([1, 2])),
                  ('List frozen (not noneable)', T.List(T.Int()).freeze([1, 2]))):
  try:
    d = pg.Dict({}, value_spec=T.Dict([('w', fs)]))
    print(label, '-> ok', d)
  except Exception as e:
    print(label, '->', type(e).__name__, str(e)[:200])
