"""tools/manifest_sync.py: make the leading theorem count of every level text in MANIFEST.json equal to the number of
audited obligations measured by the last run (evidence/Cxx.json coverage.obligations). Text only; claims unchanged."""
import json, re
m = json.load(open('MANIFEST.json'))
for c in m['checks']:
  ev = json.load(open(c['evidence_file']))
  n = ev['coverage'].get('obligations')
  t = c['level_claimed']['text']
  if n and re.match(r'^\d+ ', t):
    new = re.sub(r'^\d+ ', '%d ' % n, t)
    if new != t:
      print(c['property_id'], t.split(' ')[0], '->', n)
      c['level_claimed']['text'] = new
json.dump(m, open('MANIFEST.json', 'w'), indent=1)
