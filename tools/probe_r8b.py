import pyglove as pg
T = pg.typing
M = pg.MISSING_VALUE
sd = T.Dict([('x', T.Int())])
ch = pg.Dict({'x': 1}, value_spec=sd)
par = pg.Dict({'c': ch}, value_spec=T.Dict([('c', sd)]))
print('par.c is ch', par.c is ch, ch._allow_partial)
oth = pg.Dict({}, value_spec=T.Dict([('c', sd)]), allow_partial=True)
oth.c = ch
print('after oth.c = ch (oth partial): oth.c is ch', oth.c is ch, 'ch._allow_partial', ch._allow_partial, 'oth.c._allow_partial', oth.c._allow_partial)
try:
  ch.x = M; print('ch.x = MISSING accepted; par =', par, 'par.is_partial', par.is_partial, 'par.allow_partial', par._allow_partial)
except Exception as e: print('ch.x = MISSING ->', type(e).__name__)
# list variant
sl = T.List(T.Int(), min_size=1)
lc = pg.List([1], value_spec=sl)
lp = pg.Dict({'c': lc}, value_spec=T.Dict([('c', sl)]))
lo = pg.Dict({}, value_spec=T.Dict([('c', sl)]), allow_partial=True)
lo.c = lc
print('list: lc._allow_partial', lc._allow_partial)
