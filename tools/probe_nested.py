import sys
sys.path.insert(0, '/repo')
import pyglove as pg
T = pg.typing
def t(label, f, show=None):
    try:
        r = f(); print(label, '-> ok', show() if show else '')
    except Exception as e:
        print(label, 'EXC', type(e).__name__, str(e)[:80], show() if show else '')
spec = T.Dict([('z', T.Dict([('y', T.Int(min_value=0)), ('d', T.Str(default='a')), (T.StrKey('p.*'), T.Int())])),
               ('w', T.List(T.Int(min_value=0), min_size=1, max_size=3)),
               ('fz', T.Dict([('q', T.Int())]).freeze({'q': 1})),
               ('fl', T.List(T.Int()).freeze([1, 2]))])
d = pg.Dict({'z': {'y': 1}, 'w': [1, 2]}, value_spec=spec)
S = lambda: repr(d.sym_jsonify()) if hasattr(d, 'sym_jsonify') else d
t('z.y=5', lambda: d.rebind({'z.y': 5}, raise_on_no_change=False), S)
t('z.y=-1', lambda: d.rebind({'z.y': -1}, raise_on_no_change=False), S)
t('z.q=1 unknown', lambda: d.rebind({'z.q': 1}, raise_on_no_change=False), S)
t('z.p1=3 dyn', lambda: d.rebind({'z.p1': 3}, raise_on_no_change=False), S)
t('z.p1=MISSING', lambda: d.rebind({'z.p1': pg.MISSING_VALUE}, raise_on_no_change=False), S)
t('z.y=MISSING', lambda: d.rebind({'z.y': pg.MISSING_VALUE}, raise_on_no_change=False), S)
t('z.d=MISSING', lambda: d.rebind({'z.d': pg.MISSING_VALUE}, raise_on_no_change=False), S)
t('w[0]=9', lambda: d.rebind({'w[0]': 9}, raise_on_no_change=False), S)
t('w[0]=-9', lambda: d.rebind({'w[0]': -9}, raise_on_no_change=False), S)
t('w[5]=7 append', lambda: d.rebind({'w[5]': 7}, raise_on_no_change=False), S)
t('w[9]=7 over max', lambda: d.rebind({'w[9]': 7}, raise_on_no_change=False), S)
t('w[0]=Insertion over max', lambda: d.rebind({'w[0]': pg.Insertion(4)}, raise_on_no_change=False), S)
t('w[0]=MISSING', lambda: d.rebind({'w[0]': pg.MISSING_VALUE}, raise_on_no_change=False), S)
t('nope.y=1', lambda: d.rebind({'nope.y': 1}, raise_on_no_change=False), S)
t('z.y.k=1 through atom', lambda: d.rebind({'z.y.k': 1}, raise_on_no_change=False), S)
t('fz.q=7 frozen dict', lambda: d.rebind({'fz.q': 7}, raise_on_no_change=False), S)
t('fl[0]=7 frozen list', lambda: d.rebind({'fl[0]': 7}, raise_on_no_change=False), S)
t('batch z.y=2,w[0]=-1', lambda: d.rebind({'z.y': 2, 'w[0]': -1}, raise_on_no_change=False), S)
t('direct child write d.z.y = 3', lambda: d.z.rebind(y=3), S)
t('direct d.fz[q]=9', lambda: d.fz.__setitem__('q', 9), S)
print(d.fz.value_spec, d.fz.value_spec.frozen if d.fz.value_spec else None)
