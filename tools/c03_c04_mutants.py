"""Self-test of the C03 / C04 checks: applies realistic mutants to a scratch worktree of /repo, runs the
check and replays the reported input on the mutant and on the clean tree (not part of the check).

usage: git -C /repo worktree add /work/repo-c04m HEAD; python tools/c03_c04_mutants.py [name prefix ...]
       python tools/c03_c04_mutants.py --seeds [C03-1 ...]   (all stored seeded regressions, quick seeds 0 and 1)
MUT_PATCHES: comma-separated fix patches applied to the scratch tree before each mutant (not yet in /repo);
CLEAN_REPO: the tree the reported input is replayed on as "clean" (default: the check's default /repo).
"""
import json, os, re, subprocess, sys
R = os.environ.get('MUT_REPO', '/work/repo-c04m')
PATCHES = [x for x in os.environ.get('MUT_PATCHES', '').split(',') if x]
CLEAN = os.environ.get('CLEAN_REPO', '')
BP = 'pyglove/core/symbolic/base.py'
V = os.path.dirname(os.path.dirname(os.path.abspath(__file__)))
VS, KS, CS = 'pyglove/core/typing/value_specs.py', 'pyglove/core/typing/key_specs.py', 'pyglove/core/typing/class_schema.py'
LP, DP, OP = 'pyglove/core/symbolic/list.py', 'pyglove/core/symbolic/dict.py', 'pyglove/core/symbolic/object.py'
FROZEN_GUARD = """    if base.frozen and (not self.frozen or self.default != base.default):
      raise TypeError(f'{self!r} cannot extend a frozen value spec: {base!r}')
"""
ENUM_CASE = """    # Special handling for extending enum.
    if self.frozen and isinstance(base, Enum):
      if self.default in base.values:
        return Enum(MISSING_VALUE, base.values).freeze(self.default)
      else:
        raise TypeError(
            f'{self!r} cannot extend {base!r} with incompatible '
            f'frozen value: {self.default!r} '
        )
"""
FROZEN_APPLY = """    if self.frozen and self.default is not _FROZEN_VALUE_PLACEHOLDER:
      # Always return the default value if a field is frozen."""
M = [
 ('C04', 'M1 Number._is_compatible: < -> <= on the min bound', VS, "      if other.min_value is None or other.min_value < self._min_value:", "      if other.min_value is None or other.min_value <= self._min_value:"),
 ('C04', 'M2 Tuple._extend fixed/variable: drop the max_size test', VS, "      if base.max_size is not None and base.max_size < len(self):\n        raise TypeError(", "      if False:\n        raise TypeError("),
 ('C04', 'M3 Union.is_compatible: all -> any over the other union candidates', VS, "      for oc in other.candidates:\n        if not self.is_compatible(oc):\n          return False\n      return True", "      return any(self.is_compatible(oc) for oc in other.candidates)"),
 ('C04', 'M4 Number._validate: value > max -> value >= max', VS, "        (self._max_value is not None and value > self._max_value)):", "        (self._max_value is not None and value >= self._max_value)):"),
 ('C04', 'M5 ListKey.extend: drop the min_value comparison', KS, "    if self.min_value < base.min_value:", "    if False:"),
 ('C04', 'M6 Enum._is_compatible: always True', VS, "    for v in other.values:\n      if v not in self.values:\n        return False\n    return True", "    return True"),
 ('C04', 'S3 extend: frozen-child-over-Enum special case before the frozen-base guard', VS, FROZEN_GUARD + "\n" + ENUM_CASE, ENUM_CASE + "\n" + FROZEN_GUARD),
 ('C04', 'S4 List._validate: `if self.max_size and len(value) > self.max_size`', VS, "    if self.max_size is not None:\n      if len(value) > self.max_size:\n        raise ValueError(\n            utils.message_on_path(\n                f'Length of list {value!r} is greater than '", "    if self.max_size:\n      if len(value) > self.max_size:\n        raise ValueError(\n            utils.message_on_path(\n                f'Length of list {value!r} is greater than '"),
 ('C03', 'S1 apply: None handled before the frozen check', VS, FROZEN_APPLY, "    if value is None and self.is_noneable:\n      return None\n\n" + FROZEN_APPLY),
 ('C03', 'S2 Object._sym_missing: memoised missing values of the attribute Dict not reset', OP, "    setattr(self._sym_attributes, '_sym_missing_values', None)\n    return self._sym_attributes.sym_missing(flatten=False)", "    return self._sym_attributes.sym_missing(flatten=False)"),
 ('C03', 'R1 List.custom_apply: compat check only when the destination is a pg.typing.List', LP, "      if value_spec and not value_spec.is_compatible(self._value_spec):\n        raise ValueError(\n            utils.message_on_path(\n                f'List (spec=", "      if isinstance(value_spec, pg_typing.List) and not value_spec.is_compatible(self._value_spec):\n        raise ValueError(\n            utils.message_on_path(\n                f'List (spec="),
 ('C03', 'R2 Schema.is_compatible: only const keys of the other schema must exist', CS, "    for key_spec in other.keys():\n      if key_spec not in self:\n        return False", "    for key_spec in other.keys():\n      if key_spec.is_const and key_spec not in self:\n        return False"),
 ('C03', 'R3 List.extend: size pre-check before materialising the iterable', LP, "    other = list(iter_other)\n    if self.max_size is not None and len(self) + len(other) > self.max_size:", "    n_new = len(other) if hasattr(other, '__len__') else 0\n    other = list(iter_other)\n    if self.max_size is not None and len(self) + n_new > self.max_size:"),
 ('C03', 'M8 List._formalized_value: skip element.apply', LP, "    if self._value_spec and flags.is_type_check_enabled():\n      value = self._value_spec.element.apply(", "    if False:\n      value = self._value_spec.element.apply("),
 ('C03', 'M9 List.clear: drop the min_size test', LP, "    if self._value_spec and self._value_spec.min_size > 0:", "    if False:"),
 ('C03', 'M11 List write primitive: drop the max_size test', LP, "    if ((should_insert or index >= len(self))\n        and self.max_size is not None and len(self) >= self.max_size):", "    if False:"),
 ('C03', 'M12 Dict write primitive: undeclared keys stored untyped', DP, "      field = self._value_spec.schema.get_field(key)\n      if not field:", "      field = self._value_spec.schema.get_field(key)\n      if False:"),
 ('C03', 'M13 Schema.apply: unknown keys tolerated when the dict is non-empty', CS, "    if unmatched_keys:\n      raise KeyError(\n          f'Keys {unmatched_keys} are not allowed in Schema. '", "    if unmatched_keys and not dict_obj:\n      raise KeyError(\n          f'Keys {unmatched_keys} are not allowed in Schema. '"),
 ('C03', 'M14 __delitem__: drop the min_size test', LP, "    if (self._value_spec\n        and len(self) - len(indices) < self._value_spec.min_size):", "    if False:"),
 ('C03', 'M16 Dict._formalized_value: a nested (parented) Dict no longer applies the field spec', DP, "    if field and flags.is_type_check_enabled():\n      value = field.apply(", "    if field and flags.is_type_check_enabled() and self.sym_parent is None:\n      value = field.apply("),
 ('C03', 'M15 Dict.custom_apply: adopt the partial mode before checking (F75 reverted)', DP, "        if not allow_partial and self.is_partial:", "        if False:"),
 ('C03', 'N1 symbolic_transform_fn: seal only for a frozen FIELD (frozen Union candidate forgotten)', BP, "    if field.value.frozen or (value_spec is not None and value_spec.frozen):", "    if field.value.frozen:"),
 ('C03', 'N2 symbolic_transform_fn: only a frozen List is sealed', BP, "    if field.value.frozen or (value_spec is not None and value_spec.frozen):", "    if isinstance(value, list) and (field.value.frozen or (value_spec is not None and value_spec.frozen)):"),
 ('C03', 'N3 rebind pre-check: only the first target is examined', BP, "      if isinstance(parent_node, Symbolic) and treats_as_sealed(parent_node):\n        raise WritePermissionError(\n            f'Cannot rebind key {path.key!r} of '", "      if isinstance(parent_node, Symbolic) and treats_as_sealed(parent_node) and path is next(iter(path_value_pairs)):\n        raise WritePermissionError(\n            f'Cannot rebind key {path.key!r} of '"),
 ('C03', 'N4 List write primitive: TypeError for a key of the wrong type', LP, "    if not isinstance(key, numbers.Integral):\n      raise KeyError(", "    if not isinstance(key, numbers.Integral):\n      raise TypeError("),
]


def reset():
  sh('git -C %s checkout -q .' % R)
  for pt in PATCHES:
    r = sh('git -C %s apply %s' % (R, pt))
    assert r.returncode == 0, (pt, r.stderr)


def sh(cmd):
  return subprocess.run(cmd, shell=True, capture_output=True, text=True)


def main(only):
  reset()
  for prop, name, f, old, new in M:
    if only and not any(name.startswith(o) for o in only):
      continue
    reset()
    src = open(os.path.join(R, f)).read()
    if src.count(old) != 1:
      print(name, '| PATTERN NOT FOUND', src.count(old), flush=True)
      continue
    open(os.path.join(R, f), 'w').write(src.replace(old, new))
    imp = sh("cd %s && timeout 60 /venv/bin/python -c 'import pyglove'" % R)
    r = sh("cd %s && VERIF_REPO=%s ./check %s 2>&1 | grep -v 'conda\\|KNOWN\\|NOTICE'" % (V, R, prop))
    lines = r.stdout.strip().split('\n')
    viol = [l for l in lines if l.startswith('VIOLATION')]
    rc = ''
    if viol:
      rp = re.search(r'replay=(\S+)', viol[0]).group(1)
      info = json.load(open(os.path.join(V, rp)))
      sig = info.get('signature') or info.get('kind')
      r1 = sh("cd %s && VERIF_REPO=%s ./check %s --replay %s >/dev/null 2>&1; echo $?" % (V, R, prop, rp))
      r2 = sh("cd %s && %s ./check %s --replay %s >/dev/null 2>&1; echo $?" % (V, ('VERIF_REPO=' + CLEAN) if CLEAN else '', prop, rp))
      rc = 'sig=%s replay: mutant exit %s, clean exit %s%s' % (
          sig, r1.stdout.strip(), r2.stdout.strip(), ' (no-failing-input-found)' if 'no-failing' in viol[0] else '')
    print('%s | importable=%s | %s | %s' % (name, imp.returncode == 0, lines[-1][:125], rc), flush=True)
  sh('git -C %s checkout -q .' % R)


def seeds(only):
  """Every stored seeded regression (seeded/C03-*/patch.diff, seeded/C04-*/patch.diff) that still applies
  to the scratch tree: is it caught at quick seeds 0 and 1, with a failing input that passes on the clean tree?"""
  import glob
  rows = []
  dirs = sorted(glob.glob(os.path.join(V, 'seeded', 'C0[34]-*')), key=lambda d: (d.split('/')[-1][:3], int(d.split('-')[-1])))
  for d in dirs:
    name = os.path.basename(d)
    if only and name not in only:
      continue
    prop = name.split('-')[0]
    patch = os.path.join(d, 'patch.diff')
    reset()
    if sh('git -C %s apply --check %s' % (R, patch)).returncode != 0:
      rows.append((name, 'does not apply', '', ''))
      continue
    sh('git -C %s apply %s' % (R, patch))
    cells = []
    for seed in (0, 1):
      r = sh("cd %s && VERIF_SEED=%d VERIF_REPO=%s ./check %s --tier quick 2>&1 | grep -v 'conda\\|KNOWN\\|NOTICE'" % (V, seed, R, prop))
      lines = r.stdout.strip().split('\n')
      viol = [l for l in lines if l.startswith('VIOLATION')]
      if not viol:
        cells.append('MISSED')
        continue
      rp = re.search(r'replay=(\S+)', viol[0]).group(1)
      info = json.load(open(os.path.join(V, rp)))
      sig = info.get('signature') or info.get('kind')
      if 'no-failing' in viol[0]:
        cells.append('flagged, no failing input (%s)' % sig)
        continue
      r2 = sh("cd %s && %s ./check %s --replay %s >/dev/null 2>&1; echo $?" % (V, ('VERIF_REPO=' + CLEAN) if CLEAN else '', prop, rp))
      cells.append('caught %s (clean replay exit %s)' % (sig, r2.stdout.strip()))
    rows.append((name, 'applies', cells[0], cells[1]))
    print('%-7s | %-8s | seed0: %s | seed1: %s' % rows[-1], flush=True)
  reset()
  return rows


if __name__ == '__main__':
  if sys.argv[1:2] == ['--seeds']:
    seeds(sys.argv[2:])
  else:
    main(sys.argv[1:])
