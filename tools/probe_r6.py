import pyglove as pg
T = pg.typing
# (2a) failed use_value_spec
d = pg.Dict(x=1)
try:
  d.use_value_spec(T.Dict([('x', T.Str())]))
except Exception as e:
  print('use_value_spec raised', type(e).__name__)
print('d.value_spec after failure:', d.value_spec, 'content', dict(d))
l = pg.List([1, 2])
try:
  l.use_value_spec(T.List(T.Str()))
except Exception as e:
  print('list use_value_spec raised', type(e).__name__)
print('l.value_spec after failure:', l.value_spec, list(l))
# (2b) failed typed assignment: an untyped pg.Dict assigned to a typed field that rejects it
parent = pg.Dict({}, value_spec=T.Dict([('c', T.Dict([('x', T.Str())]).noneable())]))
child = pg.Dict(x=1)
try:
  parent.c = child
except Exception as e:
  print('assign raised', type(e).__name__, str(e)[:80])
print('child.value_spec after failed assignment:', child.value_spec, dict(child), 'parent of child', child.sym_parent is not None)
lchild = pg.List([1])
parent2 = pg.Dict({}, value_spec=T.Dict([('c', T.List(T.Str()).noneable())]))
try:
  parent2.c = lchild
except Exception as e:
  print('assign raised', type(e).__name__)
print('lchild.value_spec:', lchild.value_spec, list(lchild))
# subsequent write on child: is it checked against the (violated) spec?
try:
  child.x = 2
  print('child.x = 2 accepted', dict(child))
except Exception as e:
  print('child.x = 2 raised', type(e).__name__, str(e)[:80])
# (1)
A = T.Dict([('x', T.Dict())]); B = T.Dict([('x', T.Dict([(pg.typing.StrKey(), T.Bool())]))])
print('A.is_compatible(B)', A.is_compatible(B))
for s in (A, B):
  try: print('apply {}:', s.apply({}))
  except Exception as e: print('apply {} raised', type(e).__name__)
