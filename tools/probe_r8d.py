import pyglove as pg
T = pg.typing
for label, fs, v in (('Dict noneable (not frozen)', T.Dict([('q', T.Int())]).noneable(), {'q': 1}),
                  ('List noneable (not frozen)', T.List(T.Int()).noneable(), [1]),
                  ('Dict noneable frozen, value given', T.Dict([('q', T.Int())]).noneable().freeze({'q': 1}), {'q': 1})):
  try:
    d = pg.Dict({'w': v}, value_spec=T.Dict([('w', fs)]))
    print(label, '-> ok', d.w)
  except Exception as e:
    print(label, '->', type(e).__name__, str(e)[:120])
