"""tools/rerun_seeds.py Cxx [i ...] [--thorough]: re-run the stored seeded changes seeded/Cxx-i of a property in the
isolated environment (/work/verif-seedtest + /work/repo-seedtest, both at the current HEADs) and record
the outcome (and the previous outcome as history) in seeded/Cxx-i/meta.json of THIS checkout."""
import glob, json, os, subprocess, sys
HERE = os.path.dirname(os.path.dirname(os.path.abspath(__file__)))
LANE = os.environ.get('SEED_LANE', '')
ST, RT = '/work/verif-seedtest' + LANE, '/work/repo-seedtest' + LANE
P = sys.argv[1]
thorough = '--thorough' in sys.argv
ids = [a for a in sys.argv[2:] if a.isdigit()]
dirs = sorted(glob.glob(os.path.join(HERE, 'seeded', P + '-*')))
for d in dirs:
  i = d.rsplit('-', 1)[1]
  if ids and i not in ids:
    continue
  p = subprocess.run(['/venv/bin/python', 'tools/seed_test.py', d, P, '--repo', RT] + (['--thorough'] if thorough else []),
                     cwd=ST, capture_output=True, text=True)
  try:
    res = json.loads(p.stdout[p.stdout.index('{'):])
  except Exception:
    print(P, i, 'seed_test failed:', (p.stdout + p.stderr)[-300:]); continue
  mp = os.path.join(d, 'meta.json')
  meta = json.load(open(mp))
  prev = meta.get('confirmed_by_coordinator') or {}
  hist = prev.pop('history', [])
  if prev and prev.get('check_exit_on_patched_tree') is not None:
    hist.append({k: prev.get(k) for k in ('repo_head', 'check_exit_on_patched_tree', 'detected', 'replays', 'tier')})
  head = os.popen('git -C %s rev-parse --short HEAD' % RT).read().strip()
  new = {
      'repo_head': head, 'verif_head': os.popen('git -C %s rev-parse --short HEAD' % ST).read().strip(),
      'tier': 'thorough' if thorough else 'quick',
      'applies_cleanly': 'apply' not in res, 'applied_with': res.get('applied_with', 'git apply'),
      'demo_exit_clean_tree': res.get('demo_clean_exit'), 'demo_exit_patched_tree': res.get('demo_patched_exit'),
      'ran': 'tools/rerun_seeds.py %s (apply to a scratch worktree of /repo, demo, ./check %s with VERIF_REPO=<scratch>, undo, replay on the clean tree)' % (P, P),
      'check_exit_on_patched_tree': res.get('check_exit'),
      'replays': res.get('replays'), 'replay_exit_on_clean_tree': res.get('replay_on_clean'),
      'check_lines': res.get('check_lines'),
      'detected': res.get('check_exit') == 1 and bool(res.get('replays')),
      'history': hist}
  meta['confirmed_by_coordinator'] = new
  json.dump(meta, open(mp, 'w'), indent=1)
  print('%s-%s' % (P, i), 'demo', res.get('demo_clean_exit'), res.get('demo_patched_exit'), 'check', res.get('check_exit'),
        res.get('check_wall_s'), [(x.get('kind'), x.get('signature')) for x in res.get('replays', [])],
        'clean-replay', res.get('replay_on_clean'), res.get('apply', '')[:80],
        [l[:140] for l in res.get('check_lines', []) if l.startswith('BROKEN')][:2], flush=True)
