"""tools/store_seed.py Cxx : copy /tmp/seed-cxx-out/{1,2,3} (patch.diff, demo.py, meta.json + result.json) to seeded/Cxx-i/."""
import json, os, shutil, sys
P = sys.argv[1]
l = P.lower()
ROUND2 = '--round2' in sys.argv     # /tmp/s2-cxx-out/{1,2,3} -> seeded/Cxx-{4,5,6}
ROUND3 = '--round3' in sys.argv     # /tmp/s3-cxx-out/{1,2,3} -> seeded/Cxx-{7,8,9}
ROUND4 = '--round4' in sys.argv     # /tmp/s4-cxx-out/{1,2,3} -> seeded/Cxx-{10,11,12}
ROUND5 = '--round5' in sys.argv     # /tmp/s5-cxx-out/{1,2,3} -> seeded/Cxx-{13,14,15}
for i in (1, 2, 3):
  src = ('/tmp/s5-%s-out/%d' if ROUND5 else '/tmp/s4-%s-out/%d' if ROUND4 else '/tmp/s3-%s-out/%d' if ROUND3 else '/tmp/s2-%s-out/%d' if ROUND2 else '/tmp/seed-%s-out/%d') % (l, i)
  if not os.path.exists(os.path.join(src, 'patch.diff')):
    continue
  dst = 'seeded/%s-%d' % (P, i + (12 if ROUND5 else 9 if ROUND4 else 6 if ROUND3 else 3 if ROUND2 else 0))
  os.makedirs(dst, exist_ok=True)
  for f in ('patch.diff', 'demo.py'):
    shutil.copy(os.path.join(src, f), os.path.join(dst, f))
  meta = json.load(open(os.path.join(src, 'meta.json')))
  prev = None
  if os.path.exists(os.path.join(dst, 'meta.json')):
    try:
      prev = json.load(open(os.path.join(dst, 'meta.json'))).get('confirmed_by_coordinator')
    except Exception:
      prev = None
  res = {}
  if os.path.exists(os.path.join(src, 'result.json')):
    try:
      res = json.load(open(os.path.join(src, 'result.json')))
    except Exception:
      res = {}
  meta['confirmed_by_coordinator'] = {
      'repo_head': os.popen('git -C /repo rev-parse --short HEAD').read().strip(),
      'applies_cleanly': 'apply' not in res, 'applied_with': res.get('applied_with', 'git apply'),
      'demo_exit_clean_tree': res.get('demo_clean_exit'), 'demo_exit_patched_tree': res.get('demo_patched_exit'),
      'ran': 'tools/seed_test.py %s %s --repo <scratch worktree of /repo> (apply, demo, ./check %s --tier quick with VERIF_REPO=<scratch>, undo, replay on clean tree)' % (src, P, P),
      'check_exit_on_patched_tree': res.get('check_exit'),
      'replays': res.get('replays'), 'replay_exit_on_clean_tree': res.get('replay_on_clean'),
      'check_lines': res.get('check_lines'),
      'detected': res.get('check_exit') == 1 and bool(res.get('replays')),
  }
  if prev:
    hist = prev.pop('history', [])
    if prev.get('repo_head') != meta['confirmed_by_coordinator']['repo_head']:
      hist.append({k: prev.get(k) for k in ('repo_head', 'check_exit_on_patched_tree', 'detected', 'replays')})
    meta['confirmed_by_coordinator']['history'] = hist
  json.dump(meta, open(os.path.join(dst, 'meta.json'), 'w'), indent=1)
  print(dst, 'detected' if meta['confirmed_by_coordinator']['detected'] else 'NOT DETECTED (exit %s)' % res.get('check_exit'))
