"""tools/seed_summary.py: one line per stored seeded change with the outcome of its last run (from meta.json)."""
import glob, json, os, re
HERE = os.path.dirname(os.path.dirname(os.path.abspath(__file__)))
rows = []
for d in sorted(glob.glob(os.path.join(HERE, 'seeded', 'C*-*')), key=lambda p: (p.split('/')[-1].split('-')[0], int(p.rsplit('-', 1)[1]))):
  m = json.load(open(os.path.join(d, 'meta.json')))
  c = m.get('confirmed_by_coordinator') or {}
  reps = c.get('replays') or []
  kinds = sorted({r.get('kind') for r in reps if r.get('kind')})
  sigs = [r.get('signature') for r in reps if r.get('signature')]
  if c.get('check_exit_on_patched_tree') == 1 and 'failing-input' in kinds:
    st = 'failing-input'
  elif c.get('check_exit_on_patched_tree') == 1:
    st = 'flagged:' + ','.join(kinds)
  elif c.get('check_exit_on_patched_tree') == 0:
    st = 'MISSED' if c.get('demo_exit_patched_tree') else 'not-a-violation-any-more(demo passes)'
  else:
    st = 'not-run/does-not-apply'
  rows.append((os.path.basename(d), st, c.get('repo_head'), (sigs[:2]), c.get('replay_exit_on_clean_tree')))
for r in rows:
  print('%-7s %-40s %-8s %s clean-replay=%s' % r)
from collections import Counter
print(Counter(r[1].split(':')[0] for r in rows))
