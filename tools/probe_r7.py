import pyglove as pg
d = pg.Dict(a=1)
d['x'] = pg.MISSING_VALUE
print('untyped: keys after d[x]=MISSING:', list(d.keys()))
t = pg.Dict({'a': 1}, value_spec=pg.typing.Dict([('a', pg.typing.Int()), ('x', pg.typing.Int())]), allow_partial=True)
print('typed partial: keys:', list(t.keys()), 'x =', t.sym_getattr('x'))
# how Schema.apply writes into the container it is given
import inspect
from pyglove.core.typing import class_schema
src = inspect.getsource(class_schema.Schema.apply)
print([l.strip() for l in src.split('\n') if 'dict_obj[' in l])
