"""Ad-hoc: list model/implementation disagreements and oracle failures for a seed (not part of the check)."""
import json, os, sys
sys.path.insert(0, os.path.dirname(os.path.dirname(os.path.abspath(__file__))))
from harness.common import framework, prng
from harness import c04
prop = c04.PROP
seed = int(sys.argv[1]) if len(sys.argv) > 1 else 0
tier = sys.argv[2] if len(sys.argv) > 2 else 'quick'
rng = prng.Rng(seed)
cases = prop.corpus() + list(prop.generate(rng.fork(), tier))
outs = framework.run_impl(prop, cases, 8)
reqs, idx = [], []
for i, c in enumerate(cases):
  r = prop.model_request(c)
  if r is not None:
    reqs.append(r); idx.append(i)
mouts = framework.Driver(prop.driver).run(reqs)
mo = dict(zip(idx, mouts))
nd, sigs = 0, {}
for i, (c, o) in enumerate(zip(cases, outs)):
  if 'harness_exception' in o:
    print('HARNESS', o['harness_exception'], o['trace']); break
  if i in mo:
    d = prop.compare(c, o, mo[i])
    if d:
      nd += 1
      if nd <= int(os.environ.get('SHOW', 6)):
        print('DISAGREE', d)
        print('   a =', json.dumps(o.get('state_a'))); print('   b =', json.dumps(o.get('state_b')))
        print('   case a=', json.dumps(c['a'])); print('   case b=', json.dumps(c['b']))
  f = prop.oracle(c, o)
  if f:
    sigs.setdefault(f['signature'], []).append(f['what'])
print('disagreements', nd, 'of', len(cases))
for s, w in sorted(sigs.items()):
  print('SIG', s, len(w)); print('    ', w[0][:700])
