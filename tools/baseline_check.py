"""Runs the repository's pinned suite (guard off) and checks that every test of
/root/.vp/BASELINE.json's stable_pass list still passes. Usage: baseline_check.py [repo_dir]"""
import json, os, subprocess, sys, tempfile
import xml.etree.ElementTree as ET

repo = sys.argv[1] if len(sys.argv) > 1 else '/repo'
base = json.load(open('/root/.vp/BASELINE.json'))
out = tempfile.mktemp(suffix='.xml')
env = dict(os.environ)
env.pop('PYGLOVE_VERIF', None)
subprocess.run(['/venv/bin/python', '-m', 'pytest', '-ra', '-q', '-p', 'no:cacheprovider', '--timeout=900',
                '--continue-on-collection-errors', '-n', os.environ.get('SUITE_JOBS', '6'), '--junitxml=' + out],
               cwd=repo, env=env, stdout=subprocess.DEVNULL, stderr=subprocess.DEVNULL)
passed = set()
for tc in ET.parse(out).getroot().iter('testcase'):
  if not any(ch.tag in ('failure', 'error', 'skipped') for ch in tc):
    passed.add('%s::%s' % (tc.get('classname'), tc.get('name')))
os.remove(out)
missing = [t for t in base['stable_pass'] if t not in passed]
print('stable_pass: %d, passing now: %d, missing: %d' % (len(base['stable_pass']), len(passed), len(missing)))
for t in missing[:40]:
  print('  NOT PASSING:', t)
sys.exit(1 if missing else 0)
