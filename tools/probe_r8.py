import pyglove as pg
T = pg.typing
M = pg.MISSING_VALUE
def tryit(label, f):
  try:
    r = f(); print(label, '-> ok', r if r is not None else '')
  except Exception as e:
    print(label, '->', type(e).__name__, str(e)[:90])

# (1) typed empty list into min_size=2 field
d = pg.Dict({'w': [1, 2]}, value_spec=T.Dict([('w', T.List(T.Int(), min_size=2))]))
tryit('(1) d.w = pg.List([], value_spec=List(Int()))', lambda: d.__setitem__('w', pg.List([], value_spec=T.List(T.Int()))))
print('    d =', dict(d))

# (2) custom_apply flips the original child's _allow_partial
@pg.members([('x', T.Int())])
class C(pg.Object): pass
@pg.members([('c', T.Object(C))])
class P(pg.Object): pass
child = C(x=1)
parent = P(c=child)                       # child sits in a non-partial tree
other = P.partial(c=child)                # assigned into a partial tree (cloned?)
print('(2) child is parent.c:', parent.c is child, ' other.c is child:', other.c is child, ' child.allow_partial:', child.allow_partial)
tryit('    child.rebind(x=MISSING)', lambda: child.rebind(x=M))
print('    parent.is_partial', parent.is_partial)
# with Dict child
sd = T.Dict([('x', T.Int())])
ch = pg.Dict({'x': 1}, value_spec=sd)
par = pg.Dict({'c': ch}, value_spec=T.Dict([('c', sd)]))
oth = pg.Dict({'c': ch}, value_spec=T.Dict([('c', sd)]), allow_partial=True)
print('    dict: par.c is ch', par.c is ch, 'oth.c is ch', oth.c is ch, 'ch._allow_partial', ch._allow_partial)
tryit('    ch.x = MISSING', lambda: ch.__setitem__('x', M))
print('    par', par, 'par.is_partial', par.is_partial)

# (3) frozen subclass override vs inherited bounds
@pg.members([('x', T.Int(min_value=0))])
class A(pg.Object): pass
def sub():
  @pg.members([('x', T.Int().freeze(-5))])
  class B(A): pass
  return B().x
tryit('(3) class B(A) x: Int().freeze(-5) over Int(min_value=0); B().x', sub)
tryit('    Int().freeze(-5).extend(Int(min_value=0))', lambda: T.Int().freeze(-5).extend(T.Int(min_value=0)))

# (4) nested dicts created inside an allow_partial scope
spec = T.Dict([('n', T.Dict([('q', T.Int())]))])
with pg.allow_partial(True):
  e = pg.Dict({'n': {'q': 1}}, value_spec=spec)
print('(4) e.allow_partial?', e._allow_partial, ' e.n._allow_partial', e.n._allow_partial)
tryit('    e.n.q = MISSING (after the scope)', lambda: e.n.__setitem__('q', M))
print('    e =', e, 'is_partial', e.is_partial)
e2 = pg.Dict({'n': {'q': 1}}, value_spec=spec)
with pg.allow_partial(True):
  e2.n = {'q': 2}
tryit('    (write in scope) e2.n.q = MISSING after the scope', lambda: e2.n.__setitem__('q', M))
# C03-10 analogue on clean tree
with pg.allow_partial(True):
  o = C(x=1)
tryit('(C03-10 clean) o.rebind(x=MISSING) after scope', lambda: o.rebind(x=M))
