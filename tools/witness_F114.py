"""Replay of finding F114 (fixed by 0a369b8): exits 1 if a rejected write orphans the old child."""
import sys
sys.path.insert(0, '/repo')
import pyglove as pg
d = pg.Dict(a=pg.Dict(x=1), value_spec=pg.typing.Dict([('a', pg.typing.Dict([('x', pg.typing.Int())]))]))
c = d.a
try:
  d.a = 5
except TypeError:
  pass
ok = d.a is c and c.sym_parent is d and str(c.sym_path) == 'a'
print('F114', 'holds' if ok else 'REGRESSION')
sys.exit(0 if ok else 1)
