#!/bin/bash
# Bring the isolated seed-testing environment (/work/verif-seedtest, /work/repo-seedtest) to the current HEADs.
set -e
L=${SEED_LANE:-}
cd /work/repo-seedtest$L && git checkout -q -- . && git checkout -q --detach $(git -C /repo rev-parse HEAD)
cd /work/verif-seedtest$L && git checkout -q -- . && git clean -fdq -e lean/.lake
git merge -q main >/dev/null 2>&1 || { git status --short | grep "^UU\|^AA" | awk '{print $2}' | xargs -r git checkout --theirs; git add -A; git commit -qm "merge main"; }
git log --oneline -1
./check --setup 2>&1 | grep -v conda | tail -1
