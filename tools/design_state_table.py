"""tools/design_state_table.py: markdown table of the end state per property (from MANIFEST.json, evidence/*.json,
findings/known_findings.json, seeded/*/meta.json)."""
import glob, json, os, collections
H = os.path.dirname(os.path.dirname(os.path.abspath(__file__)))
m = json.load(open(os.path.join(H, 'MANIFEST.json')))
kf = json.load(open(os.path.join(H, 'findings', 'known_findings.json')))['findings']
fx = collections.Counter((f['property'], f['status']) for f in kf)
seeds = collections.defaultdict(lambda: [0, 0, 0])
for d in glob.glob(os.path.join(H, 'seeded', 'C*-*')):
  p = os.path.basename(d).split('-')[0]
  c = (json.load(open(os.path.join(d, 'meta.json'))).get('confirmed_by_coordinator') or {})
  reps = c.get('replays') or []
  seeds[p][0] += 1
  if c.get('check_exit_on_patched_tree') == 1 and any(r.get('kind') == 'failing-input' for r in reps):
    seeds[p][1] += 1
  elif c.get('check_exit_on_patched_tree') == 1:
    seeds[p][2] += 1
print('| prop | audited theorems / generated obligations | cases per quick run (compared with the model) | translators | findings fixed / known | seeded changes: stored / failing input / flagged only |')
print('|------|---|---|---|---|---|')
for c in m['checks']:
  p = c['property_id']
  ev = json.load(open(os.path.join(H, c['evidence_file'])))['coverage']
  import importlib, sys
  sys.path.insert(0, H)
  mod = importlib.import_module('harness.' + p.lower())
  tr = ', '.join(t.__module__.split('.')[-1] for t in mod.PROP.translators) or '—'
  print('| %s | %s | %s (%s) | %s | %d / %d | %d / %d / %d |' % (
      p, ev.get('obligations'), ev.get('evaluations'), ev.get('disagreements_checked'), tr,
      fx[(p, 'fixed')], fx[(p, 'known')], *seeds[p]))
