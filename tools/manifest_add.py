"""tools/manifest_add.py Cxx "<level text>" "<level note>" "<technique>" — claim a property in MANIFEST.json."""
import json, sys
pid, text, note, tech = sys.argv[1:5]
m = json.load(open('MANIFEST.json'))
m['checks'] = [c for c in m['checks'] if c['property_id'] != pid]
m['checks'].append({
    "property_id": pid, "quick_cmd": "./check %s --tier quick" % pid, "thorough_cmd": "./check %s --tier thorough" % pid,
    "evidence_file": "evidence/%s.json" % pid, "replay_cmd_template": "./check %s --replay {path}" % pid,
    "engine": "lean4-proof+correspondence",
    "level_claimed": {"category": "proof", "text": text, "design_ref": "DESIGN.md §6 %s and Appendix C" % pid},
    "level_note": note, "technique": tech})
m['checks'].sort(key=lambda c: c['property_id'])
m['not_applicable'] = [n for n in m.get('not_applicable', []) if n['property_id'] != pid]
for e in m['engines']:
  e['serves_properties'] = sorted(c['property_id'] for c in m['checks'])
json.dump(m, open('MANIFEST.json', 'w'), indent=1)
print('claimed', pid, '; not_applicable:', [n['property_id'] for n in m['not_applicable']])
