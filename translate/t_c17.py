"""T-SCOPE: regenerate lean/PgGen/C17Registry.lean — the registry of scoped-setting managers —
from the source text of pyglove (pure `ast`; pyglove is never imported).

For every context manager the library offers for scoped behaviour the translator determines
  name, primitive kind, TLS key, initial value handed to the primitive, default returned by the
  getter, storage (threading.local vs module global / process-wide singleton)
and it checks the `try/finally` shape of every primitive against the shapes the Lean model
(`PgModel/Scope.lean`) mirrors.  Shapes are compared after alpha-renaming of local variables and
with docstrings/comments removed, so renames and re-wording do not break the tie; any other
difference is an *unknown shape* and raises TranslatorError (= broken tie, never silent success).
A few known-bad shapes (the Appendix-B mutants) are recognised and reported as named shape facts,
so that the generated Lean obligation that fails says what was lost.

The translator also closes the world: every `@contextlib.contextmanager` function and every class
with `__enter__` under pyglove/core (tests excluded) must be either a registered manager or in
the explicit NOT_SCOPED list below; a new one raises TranslatorError.
"""

import ast
import os

from . import common
from .common import TranslatorError

CORE = 'pyglove/core'
F_TL = CORE + '/utils/thread_local.py'
F_FLAGS = CORE + '/symbolic/flags.py'
F_CTX = CORE + '/utils/contextual.py'
F_CTXOBJ = CORE + '/symbolic/contextual_object.py'
F_FMT = CORE + '/utils/formatting.py'
F_VIEWS = CORE + '/views/base.py'
F_PERM = CORE + '/coding/permissions.py'
F_EXEC = CORE + '/coding/execution.py'
F_CALL = CORE + '/typing/callable_ext.py'
F_DETOUR = CORE + '/detouring/class_detour.py'
F_WRAP = CORE + '/symbolic/class_wrapper.py'
F_TIMING = CORE + '/utils/timing.py'
F_JSON = CORE + '/utils/json_conversion.py'
F_HBASE = CORE + '/hyper/base.py'
F_DYN = CORE + '/hyper/dynamic_evaluation.py'
F_FUNCTOR = CORE + '/symbolic/functor.py'

# Context managers that are not scoped *settings* (resources, error capture, internal rendering
# bookkeeping, or compositions of registered managers). Closed list: anything new must be triaged.
NOT_SCOPED = {
    (CORE + '/utils/error_utils.py', 'catch_errors'): 'error capture, no setting',
    (CORE + '/io/file_system.py', 'File'): 'resource (file handle)',
    (CORE + '/io/sequence.py', 'Sequence'): 'resource (record file)',
    (CORE + '/tuning/protocols.py', 'ignore_race_condition'): 'backend hook, yields only',
    (CORE + '/views/base.py', '_track_rendering'): 'internal rendering bookkeeping (private)',
    (CORE + '/views/html/controls/base.py', 'track_scripts'): 'internal script collection (private)',
    (F_DYN, 'collect'): 'composition: dynamic_evaluate + context stack',
    (F_DYN, 'apply'): 'composition: dynamic_evaluate + context stack',
    (F_DYN, 'dynamic_evaluate'): 'wrapper around base.dynamic_evaluate_fn_scope (shape checked)',
    (F_TL, 'thread_local_value_scope'): 'primitive (shape checked)',
    (F_TL, 'thread_local_arg_scope'): 'primitive (shape checked)',
    (F_CTX, 'contextual_scope'): 'primitive (shape checked)',
}


# ------------------------------------------------------------------------------------------
# canonical text of a function (alpha-renamed locals, docstrings dropped)
# ------------------------------------------------------------------------------------------

class _Renamer(ast.NodeTransformer):
  def __init__(self, mapping):
    self.m = mapping

  def visit_Name(self, node):
    if node.id in self.m:
      return ast.copy_location(ast.Name(self.m[node.id], node.ctx), node)
    return node

  def visit_arg(self, node):
    if node.arg in self.m:
      node.arg = self.m[node.arg]
    node.annotation = None
    return node


def _strip_doc(body):
  if body and isinstance(body[0], ast.Expr) and isinstance(body[0].value, ast.Constant) \
      and isinstance(body[0].value.value, str):
    return body[1:]
  return body


def canon(fn):
  """Canonical text of a function body: locals renamed in order of first binding."""
  import copy
  fn = copy.deepcopy(fn)
  names = []
  a = fn.args
  for x in a.posonlyargs + a.args + ([a.vararg] if a.vararg else []) + a.kwonlyargs + ([a.kwarg] if a.kwarg else []):
    if x.arg not in ('self', 'cls'):
      names.append(x.arg)
  globals_ = set()
  for n in ast.walk(fn):
    if isinstance(n, ast.Global):
      globals_.update(n.names)
  for n in ast.walk(fn):
    if isinstance(n, ast.Name) and isinstance(n.ctx, ast.Store) and n.id not in names and n.id not in globals_:
      names.append(n.id)
  mapping = {n: 'v%d' % i for i, n in enumerate(names)}
  fn.body = _strip_doc(fn.body)
  fn.returns = None
  fn.decorator_list = []
  fn = _Renamer(mapping).visit(fn)
  for n in ast.walk(fn):
    if isinstance(n, ast.AnnAssign):
      n.annotation = ast.Constant(0)
  ast.fix_missing_locations(fn)
  return '\n'.join(ast.unparse(s) for s in fn.body)


def expect_shape(rel, fn, table, what):
  """table: {canonical text: label}. Returns the label or raises."""
  c = canon(fn)
  if c in table:
    return table[c]
  raise TranslatorError('%s: %s has an unknown shape (line %d):\n%s' % (rel, what, fn.lineno, c))


def module_consts(tree):
  out = {}
  for s in tree.body:
    if isinstance(s, ast.Assign) and len(s.targets) == 1 and isinstance(s.targets[0], ast.Name):
      out[s.targets[0].id] = s.value
  return out


def const_str(consts, node, rel):
  if isinstance(node, ast.Constant) and isinstance(node.value, str):
    return node.value
  if isinstance(node, ast.Name) and node.id in consts:
    return const_str(consts, consts[node.id], rel)
  if isinstance(node, ast.Attribute) and node.attr in consts:     # Functor._TLS_...
    return const_str(consts, consts[node.attr], rel)
  raise TranslatorError('%s: TLS key expression %s is not a string constant' % (rel, ast.unparse(node)))


def literal(node, rel):
  if isinstance(node, ast.Constant) and (node.value is None or isinstance(node.value, (bool, int, str))):
    return node.value
  raise TranslatorError('%s: %s is not a None/bool/int/str literal' % (rel, ast.unparse(node)))


def is_threading_local(node):
  return (isinstance(node, ast.Call) and isinstance(node.func, ast.Attribute)
          and node.func.attr == 'local' and isinstance(node.func.value, ast.Name)
          and node.func.value.id == 'threading' and not node.args and not node.keywords)


def is_call(node, qual):
  """node is a call of `a.b.c` / `c` (qual: dotted name suffix)."""
  if not isinstance(node, ast.Call):
    return False
  try:
    txt = ast.unparse(node.func)
  except Exception:   # pylint: disable=broad-except
    return False
  return txt == qual or txt.endswith('.' + qual)


def only_return(fn, rel):
  body = _strip_doc(fn.body)
  if len(body) == 1 and isinstance(body[0], ast.Return) and body[0].value is not None:
    return body[0].value
  raise TranslatorError('%s: %s is expected to consist of a single return' % (rel, fn.name))


# ------------------------------------------------------------------------------------------
# Expected shapes (canonical texts). GOOD labels are what PgModel/Scope.lean mirrors.
# ------------------------------------------------------------------------------------------

VALUE_SCOPE = {
    # thread_local.py:25-40
    'v3 = thread_local_has(v0)\n'
    'v4 = thread_local_get(v0, v2)\n'
    'try:\n    thread_local_set(v0, v1)\n    yield\n'
    'finally:\n    if v3:\n        thread_local_set(v0, v4)\n    else:\n        thread_local_del(v0)':
        ('previous', True, True),
    # mutant: restores the initial value instead of the saved one
    'v3 = thread_local_has(v0)\n'
    'v4 = thread_local_get(v0, v2)\n'
    'try:\n    thread_local_set(v0, v1)\n    yield\n'
    'finally:\n    if v3:\n        thread_local_set(v0, v2)\n    else:\n        thread_local_del(v0)':
        ('initial', True, True),
    # mutant: restoration only on normal exit
    'v3 = thread_local_has(v0)\n'
    'v4 = thread_local_get(v0, v2)\n'
    'thread_local_set(v0, v1)\nyield\n'
    'if v3:\n    thread_local_set(v0, v4)\nelse:\n    thread_local_del(v0)':
        ('previous', False, True),
    'v3 = thread_local_has(v0)\n'
    'v4 = thread_local_get(v0, v2)\n'
    'try:\n    thread_local_set(v0, v1)\n    yield\n'
    'except Exception:\n    raise\n'
    'else:\n    if v3:\n        thread_local_set(v0, v4)\n    else:\n        thread_local_del(v0)':
        ('previous', False, True),
    # mutant: always writes back (never deletes)
    'v3 = thread_local_has(v0)\n'
    'v4 = thread_local_get(v0, v2)\n'
    'try:\n    thread_local_set(v0, v1)\n    yield\n'
    'finally:\n    thread_local_set(v0, v4)':
        ('previous', True, False),
}

ARG_SCOPE = {
    'v2 = thread_local_peek(v0, {})\n'
    'v3 = v2.copy()\n'
    'v3.update(v1)\n'
    'try:\n    thread_local_push(v0, v3)\n    yield v3\n'
    'finally:\n    thread_local_pop(v0)': 'pushMergedPop',
}

TL_ACCESSORS = {
    'thread_local_has': {'return hasattr(_thread_local_state, v0)': 'ok'},
    'thread_local_set': {'setattr(_thread_local_state, v0, v1)': 'ok'},
    'thread_local_get': {
        'v2 = getattr(_thread_local_state, v0, v1)\n'
        'if v2 is _RAISE_IF_NOT_FOUND:\n'
        "    raise ValueError(f'Key {v0!r} does not exist in thread-local storage.')\n"
        'return v2': 'ok'},
    'thread_local_del': {'delattr(_thread_local_state, v0)': 'ok'},
    'thread_local_kwargs': {'return thread_local_peek(v0, {})': 'ok'},
    'thread_local_push': {
        'thread_local_map(v0, lambda x: x.append(v1) or x, default_initial_value=[])': 'ok'},
    'thread_local_peek': {
        'v2 = thread_local_get(v0, _MISSING)\n'
        'if v2 is _MISSING or not v2:\n'
        '    if v1 is _RAISE_IF_NOT_FOUND:\n'
        "        raise ValueError(f'Stack associated with key {v0!r} does not exist in thread-local storage or is empty.')\n"
        '    return v1\n'
        'return v2[-1]': 'ok'},
    'thread_local_pop': {
        'v2 = thread_local_get(v0, _MISSING)\n'
        'if v2 is _MISSING:\n'
        '    if v1 is _RAISE_IF_NOT_FOUND:\n'
        "        raise ValueError(f'Key {v0!r} does not exist in thread-local storage.')\n"
        '    return v1\n'
        'if not isinstance(v2, list):\n'
        "    raise TypeError(f'Key {v0!r} from thread-local storage is not a list: {v2}')\n"
        'if not v2 and v1 is not _RAISE_IF_NOT_FOUND:\n'
        '    return v1\n'
        'return v2.pop()': 'ok'},
}

PERMISSION = {
    'v1 = utils.thread_local_get(_TLS_CODE_RUN_PERMISSION, None)\n'
    'if v1 is not None:\n    v0 = v1\n'
    'utils.thread_local_set(_TLS_CODE_RUN_PERMISSION, v0)\n'
    'try:\n    yield v0\n'
    'finally:\n    if v1 is None:\n        utils.thread_local_del(_TLS_CODE_RUN_PERMISSION)': 'deleteIfNoOuter',
    # mutant: deletes the key unconditionally on exit
    'v1 = utils.thread_local_get(_TLS_CODE_RUN_PERMISSION, None)\n'
    'if v1 is not None:\n    v0 = v1\n'
    'utils.thread_local_set(_TLS_CODE_RUN_PERMISSION, v0)\n'
    'try:\n    yield v0\n'
    'finally:\n    utils.thread_local_del(_TLS_CODE_RUN_PERMISSION)': 'deleteAlways',
}

CONTEXTUAL_SCOPE = {
    'v2 = getattr(v0, _TLS_KEY_CONTEXTUAL_OVERRIDES, {})\n'
    'v3 = dict(v2)\n'
    'for v4, v5 in v1.items():\n'
    '    v6 = v3.get(v4, None)\n'
    '    if v6 and v6.cascade:\n'
    '        v5 = v6\n'
    '    v3[v4] = v5\n'
    'try:\n    setattr(v0, _TLS_KEY_CONTEXTUAL_OVERRIDES, v3)\n    yield v3\n'
    'finally:\n    setattr(v0, _TLS_KEY_CONTEXTUAL_OVERRIDES, v2)': 'copyCascadeRestore',
}

CONTEXTUAL_OVERRIDE = {
    'v3 = {}\n'
    'for v4, v5 in v2.items():\n'
    '    if not isinstance(v5, ContextualOverride):\n'
    '        v5 = ContextualOverride(v5, v0, v1)\n'
    '    v3[v4] = v5\n'
    'return contextual_scope(_global_contextual_overrides, **v3)': 'ok',
}

GET_SCOPED_VALUE = {
    'v3 = getattr(v0, _TLS_KEY_CONTEXTUAL_OVERRIDES, {})\n'
    'return v3.get(v1, v2)': 'ok',
}

CODE_CONTEXT = {
    'v1 = get_context()\n'
    'v1.update(v0)\n'
    'utils.thread_local_push(_TLS_CODE_RUN_CONTEXT, v1)\n'
    'try:\n    yield v1\n'
    'finally:\n    utils.thread_local_pop(_TLS_CODE_RUN_CONTEXT)': 'update',
}

GET_CONTEXT = {
    'v0 = utils.thread_local_get(_TLS_CODE_RUN_CONTEXT, None)\n'
    'return dict(v0[-1]) if v0 else {}': 'ok',
}

VIEW_OPTIONS = {
    'v1 = utils.thread_local_peek(_TLS_KEY_VIEW_OPTIONS, {})\n'
    'v2 = utils.merge([v1, v0])\n'
    'utils.thread_local_push(_TLS_KEY_VIEW_OPTIONS, v2)\n'
    'try:\n    yield v2\n'
    'finally:\n    utils.thread_local_pop(_TLS_KEY_VIEW_OPTIONS)': 'deepMerge',
}

PRESET_ARGS = {
    'v3 = utils.thread_local_peek(_TLS_KEY_PRESET_KWARGS, _ArgPresets())\n'
    'v4 = v3.derive(v0, v1, v2)\n'
    'utils.thread_local_push(_TLS_KEY_PRESET_KWARGS, v4)\n'
    'try:\n    yield v4\n'
    'finally:\n    utils.thread_local_pop(_TLS_KEY_PRESET_KWARGS, None)': 'preset',
}

PRESET_DERIVE = {
    'v3 = self._presets.copy()\n'
    'if isinstance(v2, bool) and v2:\n    v2 = v1\n'
    'if v2 and v2 in v3:\n'
    '    v4 = v3[v2].copy()\n'
    '    v4.update(v0)\n'
    'else:\n    v4 = v0\n'
    'v3[v1] = v4\n'
    'return _ArgPresets(v3)': 'ok',
}

DETOUR = {
    'for v1, v2 in v0:\n'
    '    if not inspect.isclass(v1):\n'
    "        raise TypeError(f'Detour source {v1!r} is not a class.')\n"
    '    if not inspect.isclass(v2) and (not inspect.isfunction(v2)):\n'
    "        raise TypeError(f'Detour destination {v2!r} is not a class or a function.')\n"
    'try:\n    yield _global_detour_context.enter_scope(v0)\n'
    'finally:\n    _global_detour_context.leave_scope()': ('detour', False),   # finding F350
    'for v2, v3 in v0:\n'
    '    if not inspect.isclass(v2):\n'
    "        raise TypeError(f'Detour source {v2!r} is not a class.')\n"
    '    if not inspect.isclass(v3) and (not inspect.isfunction(v3)):\n'
    "        raise TypeError(f'Detour destination {v3!r} is not a class or a function.')\n"
    'v1 = _global_detour_context.enter_scope(v0)\n'
    'try:\n    yield v1\n'
    'finally:\n    _global_detour_context.leave_scope()': ('detour', True),
}

DETOUR_ENTER = {
    'v1 = dict(self.current_mappings)\n'
    'v2 = []\n'
    'for v3, v4 in v0:\n'
    '    if v3 not in v1:\n'
    '        if v4 in v1:\n'
    '            v2.append((v3, v1[v4]))\n'
    '        else:\n'
    '            v2.append((v3, v4))\n'
    'for v3, v4 in v2:\n'
    '    if v3 not in self._original_new:\n'
    '        self._original_new[v3] = v3.__new__\n'
    "        setattr(v3, '__new__', _maybe_detoured_new)\n"
    '    v1[v3] = v4\n'
    'self._detour_stack.append(v1)\n'
    'return v1': 'recordsBeforePatch',      # a failed setattr leaves a stale _original_new entry (F350)
    'v1 = dict(self.current_mappings)\n'
    'v2 = []\n'
    'for v3, v4 in v0:\n'
    '    if v3 not in v1:\n'
    '        if v4 in v1:\n'
    '            v2.append((v3, v1[v4]))\n'
    '        else:\n'
    '            v2.append((v3, v4))\n'
    'for v3, v4 in v2:\n'
    '    if v3 not in self._original_new:\n'
    '        v5 = v3.__new__\n'
    "        setattr(v3, '__new__', _maybe_detoured_new)\n"
    '        self._original_new[v3] = v5\n'
    '    v1[v3] = v4\n'
    'self._detour_stack.append(v1)\n'
    'return v1': 'recordsAfterPatch',
}
DETOUR_LEAVE = {'assert self._detour_stack\nself._detour_stack.pop(-1)': 'ok'}
DETOUR_STACK = {
    'v0 = getattr(self._tls, self._DETOUR_STACK_KEY, None)\n'
    'if v0 is None:\n'
    '    v0 = []\n'
    '    setattr(self._tls, self._DETOUR_STACK_KEY, v0)\n'
    'return v0': 'ok',
}
DETOUR_CURRENT = {
    'if self._detour_stack:\n    return self._detour_stack[-1]\nreturn dict()': 'ok',
}

TIMING_ENTER = {
    "v0 = thread_local.thread_local_get('__timing_context__', None)\n"
    'if v0 is not None:\n'
    '    v0.add(self)\n'
    '    self._parent = v0\n'
    "thread_local.thread_local_set('__timing_context__', self)\n"
    'self.start()\n'
    'return self': 'keepsStaleParent',       # finding F80: a re-used TimeIt restores the parent of its first use
    "v0 = thread_local.thread_local_get('__timing_context__', None)\n"
    'self._parent = v0\n'
    'if v0 is not None:\n'
    '    v0.add(self)\n'
    "thread_local.thread_local_set('__timing_context__', self)\n"
    'self.start()\n'
    'return self': 'recordsParent',
}
TIMING_EXIT = {
    'del v0, v2\n'
    'self.end(v1)\n'
    'if self._parent is None:\n'
    "    thread_local.thread_local_del('__timing_context__')\n"
    'else:\n'
    "    thread_local.thread_local_set('__timing_context__', self._parent)": 'ok',
}

LOAD_TYPES = {
    'if self._ondemand_registry_stack:\n'
    '    v1 = dict(self._ondemand_registry_stack[-1])\n'
    'else:\n    v1 = {}\n'
    'v1.update({v2.__name__: v2 for v2 in v0})\n'
    'try:\n    self._ondemand_registry_stack.append(v1)\n    yield v1\n'
    'finally:\n    self._ondemand_registry_stack.pop()': 'update',
}

DYN_SCOPE = {
    'global _global_dynamic_evaluate_fn\n'
    'if v1:\n'
    '    assert _global_dynamic_evaluate_fn is None, _global_dynamic_evaluate_fn\n'
    '    with utils.thread_local_value_scope(_TLS_KEY_DYNAMIC_EVALUATE_FN, v0, None):\n'
    '        yield\n'
    'else:\n'
    '    v2 = _global_dynamic_evaluate_fn\n'
    '    _global_dynamic_evaluate_fn = v0\n'
    '    try:\n        yield\n'
    '    finally:\n        _global_dynamic_evaluate_fn = v2': 'perLevelRestore',
}
DYN_GET = {
    'return utils.thread_local_get(_TLS_KEY_DYNAMIC_EVALUATE_FN, _global_dynamic_evaluate_fn)': 'ok',
}
DYN_EVALUATE_TAIL = (
    'v4 = False\n'
    'try:\n'
    '    with base.dynamic_evaluate_fn_scope(v0, v3):\n'
    '        yield v1\n'
    'except Exception:\n'
    '    v4 = True\n'
    '    raise\n'
    'finally:\n'
    '    if not v4 and v2 is not None:\n'
    '        v2()')

FUNCTOR_OVERRIDES = {
    'assert self._tls is not None\n'
    'v1 = getattr(self._tls, Functor._TLS_OVERRIDE_MEMBERS_KEY, None)\n'
    'setattr(self._tls, Functor._TLS_OVERRIDE_MEMBERS_KEY, v0)\n'
    'try:\n    yield\n'
    'finally:\n'
    '    if v1 is None:\n'
    '        delattr(self._tls, Functor._TLS_OVERRIDE_MEMBERS_KEY)\n'
    '    else:\n'
    '        setattr(self._tls, Functor._TLS_OVERRIDE_MEMBERS_KEY, v1)': 'restoreOrDelete',
    'assert self._tls is not None\n'
    'setattr(self._tls, Functor._TLS_OVERRIDE_MEMBERS_KEY, v0)\n'
    'try:\n    yield\n'
    'finally:\n    delattr(self._tls, Functor._TLS_OVERRIDE_MEMBERS_KEY)': 'deleteAlways',
}


# ------------------------------------------------------------------------------------------
# Extraction
# ------------------------------------------------------------------------------------------

def _mgr(name, kind, key, initial, default, storage, src, line, extra=None):
  d = {'name': name, 'kind': kind, 'key': key, 'initial': initial, 'default': default,
       'storage': storage, 'file': src, 'line': line}
  if extra:
    d.update(extra)
  return d


def extract_thread_local(facts):
  _, tree = common.parse_source(F_TL)
  consts = module_consts(tree)
  if not ('_thread_local_state' in consts and is_threading_local(consts['_thread_local_state'])):
    raise TranslatorError(F_TL + ': `_thread_local_state = threading.local()` not found '
                          '(the key/value store is no longer a threading.local)')
  for fname, table in TL_ACCESSORS.items():
    expect_shape(F_TL, common.find_func(tree, fname), table, fname)
  vs = expect_shape(F_TL, common.find_func(tree, 'thread_local_value_scope'), VALUE_SCOPE,
                    'thread_local_value_scope')
  facts['valueScopeRestores'] = vs[0]
  facts['valueScopeFinally'] = vs[1]
  facts['valueScopeDeletes'] = vs[2]
  facts['argScopeShape'] = expect_shape(F_TL, common.find_func(tree, 'thread_local_arg_scope'),
                                        ARG_SCOPE, 'thread_local_arg_scope')


def _global_scope_shape(fn, consts, rel):
  """Recognises a flag kept in a module global:
       global X; old = X; [try:] X = param; yield; finally: X = old
     Returns (global name, in_finally) or None."""
  gl = [n for n in fn.body if isinstance(n, ast.Global)]
  if len(gl) != 1 or len(gl[0].names) != 1:
    return None
  g = gl[0].names[0]
  if g not in consts:
    raise TranslatorError('%s: %s uses global %s which has no module-level literal value' % (rel, fn.name, g))
  tries = [n for n in ast.walk(fn) if isinstance(n, ast.Try)]
  restores = False
  if len(tries) == 1 and tries[0].finalbody:
    for s in tries[0].finalbody:
      if isinstance(s, ast.Assign) and isinstance(s.targets[0], ast.Name) and s.targets[0].id == g:
        restores = True
  return g, restores


def extract_flags(mgrs, facts):
  _, tree = common.parse_source(F_FLAGS)
  consts = module_consts(tree)
  scopes, getters = {}, {}
  for fn in tree.body:
    if not isinstance(fn, ast.FunctionDef):
      continue
    uses_tl = any(isinstance(n, ast.Attribute) and isinstance(n.value, ast.Name)
                  and n.value.id == 'thread_local' for n in ast.walk(fn))
    has_global_stmt = any(isinstance(n, ast.Global) for n in ast.walk(fn))
    is_cm = any('contextmanager' in ast.unparse(d) for d in fn.decorator_list)
    if is_cm:
      # a hand-rolled manager inside flags.py: only the module-global shape is recognised
      g = _global_scope_shape(fn, consts, F_FLAGS)
      if g is None:
        raise TranslatorError('%s: context manager %s has an unknown shape' % (F_FLAGS, fn.name))
      gname, restores = g
      if not restores:
        raise TranslatorError('%s: %s does not restore global %s in a finally' % (F_FLAGS, fn.name, gname))
      init = literal(consts[gname], F_FLAGS)
      scopes[gname] = (fn.name, init, fn.lineno, 'processWide')
      continue
    if not uses_tl:
      if has_global_stmt or fn.name in ('set_origin_stacktrace_limit', 'get_origin_stacktrace_limit',
                                        'set_load_handler', 'get_load_handler', 'set_save_handler',
                                        'get_save_handler'):
        continue      # plain process-wide setters (not context managers)
      ret = _strip_doc(fn.body)
      if len(ret) == 1 and isinstance(ret[0], ast.Return) and isinstance(ret[0].value, ast.Name) \
          and ret[0].value.id in consts:
        getters[ret[0].value.id] = (fn.name, literal(consts[ret[0].value.id], F_FLAGS), fn.lineno, 'processWide')
        continue
      raise TranslatorError('%s: function %s is neither a scope, a getter nor a known global setter'
                            % (F_FLAGS, fn.name))
    call = only_return(fn, F_FLAGS)
    if is_call(call, 'thread_local.thread_local_value_scope'):
      if len(call.args) != 3 or call.keywords:
        raise TranslatorError('%s: %s: value scope call shape' % (F_FLAGS, fn.name))
      key = const_str(consts, call.args[0], F_FLAGS)
      if not (isinstance(call.args[1], ast.Name) and call.args[1].id == fn.args.args[0].arg):
        raise TranslatorError('%s: %s does not pass its argument as the value in scope' % (F_FLAGS, fn.name))
      if key in scopes:
        raise TranslatorError('%s: TLS key %r is used by two scopes' % (F_FLAGS, key))
      scopes[key] = (fn.name, literal(call.args[2], F_FLAGS), fn.lineno, 'threadLocal')
    elif is_call(call, 'thread_local.thread_local_get'):
      if len(call.args) != 2 or call.keywords:
        raise TranslatorError('%s: %s: getter call shape' % (F_FLAGS, fn.name))
      key = const_str(consts, call.args[0], F_FLAGS)
      if key in getters:
        raise TranslatorError('%s: TLS key %r has two getters' % (F_FLAGS, key))
      getters[key] = (fn.name, literal(call.args[1], F_FLAGS), fn.lineno, 'threadLocal')
    else:
      raise TranslatorError('%s: %s uses thread_local in an unknown way' % (F_FLAGS, fn.name))
  # getters of plain process-wide switches (set by ordinary setter functions, no scope) are not managers
  getters = {k: v for k, v in getters.items() if k in scopes or v[3] == 'threadLocal'}
  if set(scopes) != set(getters):
    raise TranslatorError('%s: scopes and getters do not pair up: %s vs %s'
                          % (F_FLAGS, sorted(scopes), sorted(getters)))
  for key in sorted(scopes):
    name, init, line, st = scopes[key]
    gname, default, _, gst = getters[key]
    if st != gst:
      raise TranslatorError('%s: %s and its getter %s use different storage' % (F_FLAGS, name, gname))
    mgrs.append(_mgr(name, 'valueScope', key, init, default, st, F_FLAGS, line, {'getter': gname}))


def extract_formatting(mgrs):
  _, tree = common.parse_source(F_FMT)
  consts = module_consts(tree)
  src = common.read_source(F_FMT)
  for name, const, hook in (('str_format', '_TLS_STR_FORMAT_KWARGS', '__str_kwargs__'),
                            ('repr_format', '_TLS_REPR_FORMAT_KWARGS', '__repr_kwargs__')):
    fn = common.find_func(tree, name)
    call = only_return(fn, F_FMT)
    if not (is_call(call, 'thread_local.thread_local_arg_scope') and len(call.args) == 1
            and isinstance(call.args[0], ast.Name) and call.args[0].id == const
            and len(call.keywords) == 1 and call.keywords[0].arg is None):
      raise TranslatorError('%s: %s is not `thread_local_arg_scope(%s, **kwargs)`' % (F_FMT, name, const))
    cls = common.find_class(tree, 'Formattable')
    hk = common.find_func(cls, hook)
    if 'kwargs.update(thread_local.thread_local_kwargs(%s))' % const not in ast.unparse(hk):
      raise TranslatorError('%s: %s no longer reads thread_local_kwargs(%s)' % (F_FMT, hook, const))
    mgrs.append(_mgr(name, 'argScope', const_str(consts, ast.Name(const, ast.Load()), F_FMT), None, None,
                     'threadLocal', F_FMT, fn.lineno, {'getter': 'Formattable.' + hook}))
  del src


def extract_contextual(mgrs, facts):
  _, tree = common.parse_source(F_CTX)
  consts = module_consts(tree)
  if not ('_global_contextual_overrides' in consts and is_threading_local(consts['_global_contextual_overrides'])):
    raise TranslatorError(F_CTX + ': `_global_contextual_overrides = threading.local()` not found')
  facts['cascadeShape'] = expect_shape(F_CTX, common.find_func(tree, 'contextual_scope'), CONTEXTUAL_SCOPE,
                                       'contextual_scope')
  fn = common.find_func(tree, 'contextual_override')
  expect_shape(F_CTX, fn, CONTEXTUAL_OVERRIDE, 'contextual_override')
  expect_shape(F_CTX, common.find_func(tree, 'get_scoped_value'), GET_SCOPED_VALUE, 'get_scoped_value')
  g = only_return(common.find_func(tree, 'get_contextual_override'), F_CTX)
  if ast.unparse(g) != 'get_scoped_value(_global_contextual_overrides, var_name)':
    raise TranslatorError(F_CTX + ': get_contextual_override does not read _global_contextual_overrides')
  key = const_str(consts, ast.Name('_TLS_KEY_CONTEXTUAL_OVERRIDES', ast.Load()), F_CTX)
  mgrs.append(_mgr('contextual_override', 'cascadeMap', key, None, None, 'threadLocal', F_CTX, fn.lineno,
                   {'getter': 'get_contextual_override'}))
  # ContextualObject.override: same primitive on a per-object threading.local
  _, otree = common.parse_source(F_CTXOBJ)
  cls = common.find_class(otree, 'ContextualObject')
  ob = common.find_func(cls, '_on_bound')
  if not any(isinstance(s, ast.Assign) and ast.unparse(s.targets[0]) == 'self._contextual_overrides'
             and is_threading_local(s.value) for s in ob.body):
    raise TranslatorError(F_CTXOBJ + ': `self._contextual_overrides = threading.local()` not found in _on_bound')
  ov = common.find_func(cls, 'override')
  ret = [s for s in ov.body if isinstance(s, ast.Return)]
  if not (len(ret) == 1 and ast.unparse(ret[0].value) ==
          'pg_utils.contextual.contextual_scope(self._contextual_overrides, **vs)'):
    raise TranslatorError(F_CTXOBJ + ': ContextualObject.override is not contextual_scope(self._contextual_overrides, **vs)')
  mgrs.append(_mgr('ContextualObject.override', 'cascadeMap', 'object:' + key, None, None, 'threadLocal',
                   F_CTXOBJ, ov.lineno, {'getter': 'attribute access'}))


def extract_permission(mgrs, facts):
  _, tree = common.parse_source(F_PERM)
  consts = module_consts(tree)
  fn = common.find_func(tree, 'permission')
  facts['permissionShape'] = expect_shape(F_PERM, fn, PERMISSION, 'permission')
  g = only_return(common.find_func(tree, 'get_permission'), F_PERM)
  if ast.unparse(g) != 'utils.thread_local_get(_TLS_CODE_RUN_PERMISSION, None)':
    raise TranslatorError(F_PERM + ': get_permission shape')
  mgrs.append(_mgr('permission', 'outermostWins', const_str(consts, ast.Name('_TLS_CODE_RUN_PERMISSION', ast.Load()), F_PERM),
                   None, None, 'threadLocal', F_PERM, fn.lineno, {'getter': 'get_permission'}))


def extract_stacks(mgrs, facts):
  # coding.context
  _, tree = common.parse_source(F_EXEC)
  consts = module_consts(tree)
  fn = common.find_func(tree, 'context')
  rule = expect_shape(F_EXEC, fn, CODE_CONTEXT, 'context')
  expect_shape(F_EXEC, common.find_func(tree, 'get_context'), GET_CONTEXT, 'get_context')
  mgrs.append(_mgr('context', 'stack:' + rule, const_str(consts, ast.Name('_TLS_CODE_RUN_CONTEXT', ast.Load()), F_EXEC),
                   None, None, 'threadLocal', F_EXEC, fn.lineno, {'getter': 'get_context'}))
  # view_options
  _, tree = common.parse_source(F_VIEWS)
  consts = module_consts(tree)
  fn = common.find_func(tree, 'view_options')
  rule = expect_shape(F_VIEWS, fn, VIEW_OPTIONS, 'view_options')
  mgrs.append(_mgr('view_options', 'stack:' + rule, const_str(consts, ast.Name('_TLS_KEY_VIEW_OPTIONS', ast.Load()), F_VIEWS),
                   None, None, 'threadLocal', F_VIEWS, fn.lineno, {'getter': 'value yielded by view_options()'}))
  vf = common.find_func(tree, 'view')
  withs = [n for n in ast.walk(vf) if isinstance(n, ast.With)]
  if not (len(withs) == 1 and len(withs[0].items) == 1
          and ast.unparse(withs[0].items[0].context_expr) == 'view_options(**kwargs)'):
    raise TranslatorError(F_VIEWS + ': view() no longer renders inside `with view_options(**kwargs)`')
  mgrs.append(_mgr('view', 'stack:' + rule, const_str(consts, ast.Name('_TLS_KEY_VIEW_OPTIONS', ast.Load()), F_VIEWS),
                   None, None, 'threadLocal', F_VIEWS, vf.lineno,
                   {'getter': 'value yielded by view_options()', 'shares_cell_with': 'view_options'}))
  # preset_args
  _, tree = common.parse_source(F_CALL)
  consts = module_consts(tree)
  fn = common.find_func(tree, 'preset_args')
  rule = expect_shape(F_CALL, fn, PRESET_ARGS, 'preset_args')
  expect_shape(F_CALL, common.find_func(common.find_class(tree, '_ArgPresets'), 'derive'), PRESET_DERIVE,
               '_ArgPresets.derive')
  mgrs.append(_mgr('preset_args', 'stack:' + rule, const_str(consts, ast.Name('_TLS_KEY_PRESET_KWARGS', ast.Load()), F_CALL),
                   None, None, 'threadLocal', F_CALL, fn.lineno, {'getter': 'enable_preset_args functions'}))
  # detour
  _, tree = common.parse_source(F_DETOUR)
  fn = common.find_func(tree, 'detour')
  rule, facts['detourEntryBeforeTry'] = expect_shape(F_DETOUR, fn, DETOUR, 'detour')
  cls = common.find_class(tree, '_DetourContext')
  init = common.find_func(cls, '__init__')
  if not any(isinstance(s, ast.Assign) and ast.unparse(s.targets[0]) == 'self._tls' and is_threading_local(s.value)
             for s in init.body):
    raise TranslatorError(F_DETOUR + ': `self._tls = threading.local()` not found in _DetourContext.__init__')
  facts['detourRecordsAfterPatch'] = expect_shape(
      F_DETOUR, common.find_func(cls, 'enter_scope'), DETOUR_ENTER, '_DetourContext.enter_scope') == 'recordsAfterPatch'
  # The `__new__` patch is shared by all threads while the mapping is per thread: nothing but
  # enter_scope may write a class's `__new__` or drop an `_original_new` entry (another thread may
  # still be inside a detour of that class).
  unpatch = []
  for f2 in ast.walk(tree):
    if not isinstance(f2, ast.FunctionDef) or f2.name == 'enter_scope':
      continue
    for n in ast.walk(f2):
      if isinstance(n, ast.Call) and isinstance(n.func, ast.Name) and n.func.id in ('setattr', 'delattr') \
          and len(n.args) >= 2 and isinstance(n.args[1], ast.Constant) and n.args[1].value == '__new__':
        unpatch.append('%s:%d %s' % (f2.name, n.lineno, ast.unparse(n)))
      if isinstance(n, ast.Delete) and any('_original_new' in ast.unparse(t) for t in n.targets):
        unpatch.append('%s:%d %s' % (f2.name, n.lineno, ast.unparse(n)))
      if isinstance(n, ast.Call) and isinstance(n.func, ast.Attribute) and n.func.attr in ('pop', 'clear', 'popitem') \
          and '_original_new' in ast.unparse(n.func.value):
        unpatch.append('%s:%d %s' % (f2.name, n.lineno, ast.unparse(n)))
  # _maybe_detoured_new, destination FUNCTION branch: the temporary `mappings[cls] = cls` entry must
  # be replaced by the real destination in a `finally` (the function may raise).
  mdn = common.find_func(tree, '_maybe_detoured_new')

  def sub_assign(n, want_cls):
    return (isinstance(n, ast.Assign) and len(n.targets) == 1 and isinstance(n.targets[0], ast.Subscript)
            and isinstance(n.targets[0].slice, ast.Name) and n.targets[0].slice.id == 'cls'
            and isinstance(n.value, ast.Name) and (n.value.id == 'cls') == want_cls)
  temps = [n for n in ast.walk(mdn) if sub_assign(n, True)]
  if len(temps) != 1:
    raise TranslatorError(F_DETOUR + ': _maybe_detoured_new: the temporary `mappings[cls] = cls` write was not found')
  in_finally = False
  for t in ast.walk(mdn):
    if isinstance(t, ast.Try) and any(sub_assign(x, False) for f in t.finalbody for x in ast.walk(f)) \
        and any(x is temps[0] for b in t.body for x in ast.walk(b)) \
        and any(isinstance(x, ast.Return) for b in t.body for x in ast.walk(b)):
      in_finally = True
  facts['detourCallRestoresInFinally'] = in_finally
  facts['detourNeverUnpatches'] = not unpatch
  facts['detourUnpatchSites'] = unpatch
  if not unpatch:
    expect_shape(F_DETOUR, common.find_func(cls, 'leave_scope'), DETOUR_LEAVE, '_DetourContext.leave_scope')
  expect_shape(F_DETOUR, common.find_func(cls, '_detour_stack'), DETOUR_STACK, '_DetourContext._detour_stack')
  expect_shape(F_DETOUR, common.find_func(cls, 'current_mappings'), DETOUR_CURRENT, '_DetourContext.current_mappings')
  ckey = None
  for s in cls.body:
    if isinstance(s, ast.Assign) and ast.unparse(s.targets[0]) == '_DETOUR_STACK_KEY':
      ckey = literal(s.value, F_DETOUR)
  if not isinstance(ckey, str):
    raise TranslatorError(F_DETOUR + ': _DETOUR_STACK_KEY not found')
  g = only_return(common.find_func(tree, 'current_mappings'), F_DETOUR)
  if ast.unparse(g) != '_global_detour_context.current_mappings':
    raise TranslatorError(F_DETOUR + ': current_mappings() shape')
  mgrs.append(_mgr('detour', 'stack:' + rule, 'detour:' + ckey, None, None, 'threadLocal', F_DETOUR, fn.lineno,
                   {'getter': 'current_mappings'}))
  # apply_wrappers -> detour
  _, tree = common.parse_source(F_WRAP)
  fn = common.find_func(tree, 'apply_wrappers')
  ret = [s for s in fn.body if isinstance(s, ast.Return)]
  if not (len(ret) == 1 and ast.unparse(ret[0].value) ==
          'detouring.detour([(c.sym_wrapped_cls, c) for c in wrapper_classes])'):
    raise TranslatorError(F_WRAP + ': apply_wrappers no longer returns detouring.detour([...])')
  mgrs.append(_mgr('apply_wrappers', 'stack:detour', 'detour:' + ckey, None, None, 'threadLocal', F_WRAP, fn.lineno,
                   {'getter': 'current_mappings', 'shares_cell_with': 'detour'}))
  # load_types_for_deserialization: process-wide singleton
  _, tree = common.parse_source(F_JSON)
  cls = common.find_class(tree, '_TypeRegistry')
  fn = common.find_func(cls, 'load_types_for_deserialization')
  rule = expect_shape(F_JSON, fn, LOAD_TYPES, '_TypeRegistry.load_types_for_deserialization')
  init = common.find_func(cls, '__init__')
  if 'self._ondemand_registry_stack = []' not in ast.unparse(init):
    raise TranslatorError(F_JSON + ': _ondemand_registry_stack is not an instance list')
  jc = common.find_class(tree, 'JSONConvertible')
  if not any(isinstance(s, ast.Assign) and ast.unparse(s) == '_TYPE_REGISTRY = _TypeRegistry()' for s in jc.body):
    raise TranslatorError(F_JSON + ': JSONConvertible._TYPE_REGISTRY singleton not found')
  storage = 'processWide'
  if any(is_threading_local(n) for n in ast.walk(cls)):
    storage = 'threadLocal'
  mgrs.append(_mgr('load_types_for_deserialization', 'stack:' + rule, 'ondemand_registry_stack', None, None,
                   storage, F_JSON, fn.lineno, {'getter': 'JSONConvertible.class_from_typename'}))


def extract_timing(mgrs, facts):
  _, tree = common.parse_source(F_TIMING)
  cls = common.find_class(tree, 'TimeIt')
  facts['timingEnterShape'] = expect_shape(F_TIMING, common.find_func(cls, '__enter__'), TIMING_ENTER,
                                           'TimeIt.__enter__')
  ex = common.find_func(cls, '__exit__')
  expect_shape(F_TIMING, ex, TIMING_EXIT, 'TimeIt.__exit__')
  mgrs.append(_mgr('timeit', 'enterExit', '__timing_context__', None, None, 'threadLocal', F_TIMING, ex.lineno,
                   {'getter': "thread_local_get('__timing_context__', None)"}))


def extract_dyn(mgrs, facts):
  _, tree = common.parse_source(F_HBASE)
  consts = module_consts(tree)
  try:
    fn = common.find_func(tree, 'dynamic_evaluate_fn_scope')
  except TranslatorError:
    raise TranslatorError(
        F_HBASE + ': dynamic_evaluate_fn_scope not found — dynamic_evaluate still saves the *effective* '
        'function and writes it back at the level selected by per_thread (finding F50)')
  facts['dynShape'] = expect_shape(F_HBASE, fn, DYN_SCOPE, 'dynamic_evaluate_fn_scope')
  expect_shape(F_HBASE, common.find_func(tree, 'get_dynamic_evaluate_fn'), DYN_GET, 'get_dynamic_evaluate_fn')
  if literal(consts.get('_global_dynamic_evaluate_fn'), F_HBASE) is not None:
    raise TranslatorError(F_HBASE + ': _global_dynamic_evaluate_fn does not start as None')
  key = const_str(consts, ast.Name('_TLS_KEY_DYNAMIC_EVALUATE_FN', ast.Load()), F_HBASE)
  _, dtree = common.parse_source(F_DYN)
  de = common.find_func(dtree, 'dynamic_evaluate')
  if not canon(de).endswith(DYN_EVALUATE_TAIL):
    raise TranslatorError(F_DYN + ': dynamic_evaluate has an unknown shape:\n' + canon(de))
  mgrs.append(_mgr('dynamic_evaluate', 'dynEval', key, None, None, 'perArg', F_DYN, de.lineno,
                   {'getter': 'get_dynamic_evaluate_fn'}))


def extract_functor(mgrs, facts):
  _, tree = common.parse_source(F_FUNCTOR)
  cls = common.find_class(tree, 'Functor')
  consts = {}
  for s in cls.body:
    if isinstance(s, ast.Assign) and isinstance(s.targets[0], ast.Name):
      consts[s.targets[0].id] = s.value
  fn = common.find_func(cls, '_apply_call_time_overrides_to_members')
  facts['frameScopeShape'] = expect_shape(F_FUNCTOR, fn, FUNCTOR_OVERRIDES,
                                          'Functor._apply_call_time_overrides_to_members')
  init = common.find_func(cls, '__init__')
  if 'self._tls = threading.local() if self.is_subclassed_functor else None' not in ast.unparse(init):
    raise TranslatorError(F_FUNCTOR + ': `self._tls = threading.local() if ...` not found')
  key = const_str(consts, ast.Name('_TLS_OVERRIDE_MEMBERS_KEY', ast.Load()), F_FUNCTOR)
  mgrs.append(_mgr('Functor.__call__', 'frameScope', 'object:' + key, None, None, 'threadLocal', F_FUNCTOR,
                   fn.lineno, {'getter': 'member access inside _call'}))


def close_world(mgrs):
  """Every context manager under pyglove/core is registered or explicitly not a scoped setting."""
  known = {(m['file'], m['name'].split('.')[-1]) for m in mgrs}
  known |= {(F_TIMING, 'TimeIt'), (F_FUNCTOR, '_apply_call_time_overrides_to_members'),
            (F_HBASE, 'dynamic_evaluate_fn_scope'), (F_JSON, 'load_types_for_deserialization'),
            (F_CTXOBJ, 'override')}
  found = []
  root = common.repo_path(CORE)
  for d, _, files in sorted(os.walk(root)):
    for f in sorted(files):
      if not f.endswith('.py') or f.endswith('_test.py'):
        continue
      rel = os.path.relpath(os.path.join(d, f), common.REPO)
      _, tree = common.parse_source(rel)
      for n in ast.walk(tree):
        if isinstance(n, (ast.FunctionDef, ast.AsyncFunctionDef)):
          if any('contextmanager' in ast.unparse(x) for x in n.decorator_list):
            found.append((rel, n.name, n.lineno))
        elif isinstance(n, ast.ClassDef):
          if any(isinstance(b, ast.FunctionDef) and b.name == '__enter__' for b in n.body):
            found.append((rel, n.name, n.lineno))
  unknown = [(r, n, l) for r, n, l in found if (r, n) not in known and (r, n) not in NOT_SCOPED]
  if unknown:
    raise TranslatorError('context managers that are neither registered nor triaged as not-scoped: %s'
                          % ', '.join('%s:%d %s' % (r, l, n) for r, n, l in unknown))
  return found


# ------------------------------------------------------------------------------------------
# Lean output
# ------------------------------------------------------------------------------------------

def lean_atom(v):
  if v is None:
    return '.none'
  if v is True:
    return '(.bool true)'
  if v is False:
    return '(.bool false)'
  if isinstance(v, int):
    return '(.int %d)' % v
  return '(.str %s)' % common.lean_str(v)


KIND_LEAN = {
    'valueScope': '.valueScope', 'argScope': '.argScope', 'outermostWins': '.outermostWins',
    'cascadeMap': '.cascadeMap', 'enterExit': '.enterExit', 'frameScope': '.frameScope',
    'dynEval': '.dynEval', 'stack:update': '(.stack .update)', 'stack:deepMerge': '(.stack .deepMerge)',
    'stack:preset': '(.stack .preset)', 'stack:detour': '(.stack .detour)',
}


def run():
  mgrs, facts = [], {}
  extract_thread_local(facts)
  extract_flags(mgrs, facts)
  extract_formatting(mgrs)
  extract_permission(mgrs, facts)
  extract_contextual(mgrs, facts)
  extract_stacks(mgrs, facts)
  extract_timing(mgrs, facts)
  extract_dyn(mgrs, facts)
  extract_functor(mgrs, facts)
  found = close_world(mgrs)

  L = []
  L.append('/- GENERATED by translate/t_c17.py (T-SCOPE) from the pyglove sources. Do not edit. -/')
  L.append('import PgModel.Scope')
  L.append('namespace Pg.C17')
  L.append('')
  L.append('/-- The scoped-setting managers of the library. -/')
  L.append('def registry : List Mgr := [')
  rows = []
  for m in mgrs:
    rows.append('  { name := %s, kind := %s, key := %s, initial := %s, getterDefault := %s, storage := .%s }' % (
        common.lean_str(m['name']), KIND_LEAN[m['kind']], common.lean_str(m['key']),
        lean_atom(m['initial']), lean_atom(m['default']), m['storage']))
  L.append(',\n'.join(rows))
  L.append(']')
  L.append('')
  L.append('/-- Shape of `thread_local_value_scope`: what the exit writes back, whether that happens in a')
  L.append('`finally`, whether an absent key is deleted again. -/')
  L.append('inductive Restores where | previous | initial deriving DecidableEq, Repr')
  L.append('def valueScopeRestores : Restores := .%s' % facts['valueScopeRestores'])
  L.append('def valueScopeFinally : Bool := %s' % common.lean_bool(facts['valueScopeFinally']))
  L.append('def valueScopeDeletes : Bool := %s' % common.lean_bool(facts['valueScopeDeletes']))
  L.append('')
  L.append('inductive DeleteRule where | deleteIfNoOuter | deleteAlways | restoreOrDelete deriving DecidableEq, Repr')
  L.append('def permissionShape : DeleteRule := .%s' % facts['permissionShape'])
  L.append('def frameScopeShape : DeleteRule := .%s' % facts['frameScopeShape'])
  L.append('')
  L.append('/-- `TimeIt.__enter__`: is the context found on entry recorded on every entry (also `None`)? -/')
  L.append('inductive ParentRule where | recordsParent | keepsStaleParent deriving DecidableEq, Repr')
  L.append('def timingEnterShape : ParentRule := .%s' % facts['timingEnterShape'])
  L.append('')
  L.append('/-- No function of class_detour.py other than `enter_scope` writes a class\'s `__new__` or drops an')
  L.append('`_original_new` entry (the patch is process-wide, the mapping per thread). -/')
  L.append('def detourNeverUnpatches : Bool := %s' % common.lean_bool(facts['detourNeverUnpatches']))
  L.append('')
  L.append('/-- `_maybe_detoured_new`: the temporary `cls -> cls` entry written before calling a destination')
  L.append('function is replaced by the destination in a `finally`. -/')
  L.append('def detourCallRestoresInFinally : Bool := %s' % common.lean_bool(facts['detourCallRestoresInFinally']))
  L.append('')
  L.append('/-- `detour()` enters its scope before the `try` whose `finally` leaves it (a failing entry must not')
  L.append('pop the enclosing scope); `enter_scope` records a class as patched only after the patch succeeded. -/')
  L.append('def detourEntryBeforeTry : Bool := %s' % common.lean_bool(facts['detourEntryBeforeTry']))
  L.append('def detourRecordsAfterPatch : Bool := %s' % common.lean_bool(facts['detourRecordsAfterPatch']))
  L.append('')
  L.append('end Pg.C17')
  L.append('')
  srcs = sorted({m['file'] for m in mgrs} | {F_TL, F_HBASE})
  sidecar = {
      'sources': {s: common.sha(s) for s in srcs},
      'managers': mgrs,
      'facts': facts,
      'context_managers_seen': ['%s:%d %s' % (r, l, n) for r, n, l in found],
  }
  changed = common.write_gen('C17Registry', '\n'.join(L), sidecar)
  return {'changed': changed, 'sidecar': sidecar}


if __name__ == '__main__':
  import json
  import sys
  if len(sys.argv) > 1 and sys.argv[1] == '--canon':
    # developer aid: print the canonical text of a function `file:qualname`
    rel, qual = sys.argv[2].split(':')
    _, t = common.parse_source(rel)
    node = t
    for part in qual.split('.'):
      node = [n for n in node.body if isinstance(n, (ast.FunctionDef, ast.ClassDef)) and n.name == part][0]
    print(canon(node))
  else:
    print(json.dumps(run()['sidecar'], indent=1))
