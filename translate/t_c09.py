"""T-GUARD facts used by C09: which entry points notify (and under which flag), and whether
`Symbolic.sym_rebind` resets the memoised facts when it skips the notification.
Writes lean/PgGen/C09Facts.lean. Pure `ast`; pyglove is never imported."""

import ast

from . import common
from . import t_c08
from .common import TranslatorError

BASE_PY = t_c08.BASE_PY

# model op -> the entry points of the source it stands for
OPS = {
    'setKey': ['l_setitem', 'd_setitem'],
    'delKey': ['d_delitem'],
    'append': ['l_append'],
    'extend': ['l_extend', 'l_iadd', 'l_imul'],
    'rebind': ['l_rebind', 'd_rebind', 'o_rebind'],
    'update': ['d_update'],
    'clear': ['l_clear', 'd_clear'],
    'reverse': ['l_reverse'],
    'popitem': ['d_popitem'],
    'sort': ['l_sort'],
    'insert': ['l_insert'],
    'delIdx': ['l_delitem', 'l_pop'],
    'remove': ['l_remove'],
    'setSlice': ['l_setitem'],
    'delSlice': ['l_delitem'],
    'imul': ['l_imul'],
}


def reset_on_skip(btree):
  sym = common.find_class(btree, 'Symbolic')
  fn = common.find_func(sym, 'sym_rebind')
  for n in ast.walk(fn):
    if (isinstance(n, ast.If) and isinstance(n.test, ast.UnaryOp) and isinstance(n.test.op, ast.Not)
        and isinstance(n.test.operand, ast.Name) and n.test.operand.id == 'skip_notification'):
      notifies = any(t_c08._is_call_attr(m, '_notify_field_updates') for b in n.body for m in ast.walk(b))
      if not notifies:
        continue
      resets = [m for b in n.orelse for m in ast.walk(b) if t_c08._is_call_attr(m, '_reset_content_caches')]
      if not resets:
        return False
      helper = common.find_func_opt(sym, '_reset_content_caches')
      if helper is None:
        raise TranslatorError('sym_rebind calls _reset_content_caches but the helper is missing')
      src = ast.unparse(helper)
      if 'update.target._invalidate_content_caches()' in src:
        return True          # delegates to the chain walk checked by invalidate_on_write()
      for attr in ('_sym_puresymbolic', '_sym_missing_values', '_sym_nondefault_values'):
        if attr not in src:
          raise TranslatorError(f'_reset_content_caches does not reset {attr}')
      if 'sym_parent' not in src:
        raise TranslatorError('_reset_content_caches does not walk the parent chain')
      return True
  raise TranslatorError('sym_rebind: `if not skip_notification: self._notify_field_updates(...)` not found')


def notify_resets_caches(btree):
  sym = common.find_class(btree, 'Symbolic')
  fn = common.find_func(sym, '_notify_field_updates')
  src = ast.unparse(fn)
  for attr in ('_sym_puresymbolic', '_sym_missing_values', '_sym_nondefault_values'):
    if f"target._set_raw_attr('{attr}', None)" not in src:
      raise TranslatorError(f'_notify_field_updates no longer resets {attr} of the notified target')
  if 'reverse=True' not in src or 'sym_path' not in src:
    raise TranslatorError('_notify_field_updates: dispatch sorted by sym_path descending not found')
  return True


def invalidate_on_write(ltree, dtree, btree):
  """Every site that changes the contents of a node calls `self._invalidate_content_caches()`
  right after the raw mutation: both write primitives, List.__delitem__, List.clear/sort/reverse,
  Dict.clear/popitem; and the helper walks the parent chain resetting the three memoised facts."""
  sym = common.find_class(btree, 'Symbolic')
  helper = common.find_func_opt(sym, '_invalidate_content_caches')
  if helper is None:
    return False, ['Symbolic._invalidate_content_caches missing']
  src = ast.unparse(helper)
  for attr in ('_sym_puresymbolic', '_sym_missing_values', '_sym_nondefault_values', 'sym_parent'):
    if attr not in src:
      raise TranslatorError(f'_invalidate_content_caches does not mention {attr}')
  missing = []
  sites = [(ltree, 'List', m, t_c08.LIST_MUTATORS) for m in
           ('_set_item_without_permission_check', '__delitem__', 'clear', 'sort', 'reverse')]
  sites += [(dtree, 'Dict', m, t_c08.DICT_MUTATORS) for m in
            ('_set_item_without_permission_check', 'clear', 'popitem')]
  for tree, cname, m, muts in sites:
    fn = common.find_func(common.find_class(tree, cname), m)
    raw_lines = []
    for n in ast.walk(fn):
      sm = t_c08._super_call(n)
      um = t_c08._unbound_builtin_call(n, cname.lower())
      if (sm in muts) or (um in muts):
        raw_lines.append(n.lineno)
    inv_lines = [n.lineno for n in ast.walk(fn)
                 if t_c08._is_call_attr(n, '_invalidate_content_caches') and t_c08._is_name(n.func.value, 'self')]
    if not raw_lines:
      raise TranslatorError(f'{cname}.{m}: no raw mutation found')
    if not inv_lines or max(raw_lines) > max(inv_lines):
      missing.append(f'{cname}.{m}')
  return not missing, missing


def del_index_normalized(ltree):
  """`List.__delitem__` reports a negative index as the position (fix C09-F112):
  `indices = [index + len(self) if index < 0 else index]`."""
  fn = common.find_func(common.find_class(ltree, 'List'), '__delitem__')
  src = ast.unparse(fn)
  if 'indices = [index]' in src:
    return False
  if 'indices = [index + len(self) if index < 0 else index]' in src:
    return True
  raise TranslatorError('List.__delitem__: the construction of `indices` for an int index was not recognised')


def run():
  info = t_c08.run()
  table = info['sidecar']['table']
  _, btree = common.parse_source(BASE_PY)
  ros = reset_on_skip(btree)
  notify_resets_caches(btree)
  _, ltree = common.parse_source(t_c08.LIST_PY)
  _, dtree = common.parse_source(t_c08.DICT_PY)
  inv, inv_missing = invalidate_on_write(ltree, dtree, btree)
  deln = del_index_normalized(ltree)
  L = ['/- GENERATED by translate/t_c09.py from pyglove/core/symbolic/{base,list,dict,object}.py. Do not edit. -/',
       'import PgModel.Notify', 'namespace Pg.C09', '',
       '/-- Notification kind of the entry points behind each model operation. -/',
       'def genNotify : OpKind → List Pg.C08.NotifyKind']
  for op, eps in OPS.items():
    L.append(f'  | .{op} => [' + ', '.join('.' + table[e]['notify'] for e in eps) + ']')
  L += ['', '/-- `sym_rebind` resets the memoised facts of the updated nodes and their ancestors when it',
        'skips the notification. -/',
        f'def genResetOnSkip : Bool := {common.lean_bool(ros)}', '',
        '/-- Every write to the contents of a node (write primitives, `del`, `clear`, `sort`, `reverse`,',
        '`popitem`) invalidates the memoised facts of the node and of its ancestors. -/',
        f'def genInvalidateOnWrite : Bool := {common.lean_bool(inv)}', '',
        '/-- `del l[i]` with a negative `i` reports the position `i + len`, not the key `i`. -/',
        f'def genDelIndexNormalized : Bool := {common.lean_bool(deln)}', '', 'end Pg.C09', '']
  sidecar = {'sources': info['sidecar']['sources'], 'reset_on_skip': ros, 'invalidate_on_write': inv,
             'invalidate_missing_at': inv_missing, 'del_index_normalized': deln,
             'notify': {op: [table[e]['notify'] for e in eps] for op, eps in OPS.items()}}
  changed = common.write_gen('C09Facts', '\n'.join(L), sidecar)
  return {'changed': changed, 'sidecar': sidecar}


if __name__ == '__main__':
  import json
  print(json.dumps(run()['sidecar'], indent=1))
