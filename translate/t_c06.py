"""T-ORDER: regenerate lean/PgGen/C06Order.lean from pyglove/core/symbolic/{base,dict,list,object}.py
(pure `ast` matching; pyglove is never imported).

Extracted facts
  * rankOf        : the isinstance chain of `_type_order` -> `str(type_order)` per builtin row
                    (missing marker, None, numbers, str, list, tuple, set, dict), and that every other
                    value is ranked by `type(value).__qualname__`
  * ltHead        : `lt` starts with the type-order comparison (`tol != tor -> tol < tor`)
  * ltDispatch    : the isinstance / hasattr chain of `lt` after the head, as a list of branch kinds
                    ("prim", "point" = None / missing marker are single points, "list", "dict",
                    "sym_lt", "native")
  * ltPrimTypes   : the types of the "prim" branch
  * ltDictKeyCmp  : how two different dict keys are ordered ("lt" = symbolic order, "native" = `<`)
  * ltDictKeys    : how the dict branch enumerates keys ("position" = list(d.keys()), "sorted")
  * gtIsSwappedLt, neIsNotEq
  * dictHashComb  : how `Dict.sym_hash` combines the items ("frozenset" | "tuple")
  * listHashComb, objectHashShape, objectEqExactType, objectLtSameClassOnly
  * objectOperators : `Object.__eq__` / `__ne__` / `__hash__` are `sym_eq` / its negation / `sym_hash`
                    when the class has `use_symbolic_comparison`
Any unexpected shape raises TranslatorError (= broken tie).
"""

import ast

from . import common
from .common import TranslatorError

BASE = 'pyglove/core/symbolic/base.py'
DICT = 'pyglove/core/symbolic/dict.py'
LIST = 'pyglove/core/symbolic/list.py'
OBJECT = 'pyglove/core/symbolic/object.py'

ROWS = ['missing', 'none', 'num', 'str', 'list', 'tuple', 'set', 'dict']


def _strip_doc(body):
  return [s for s in body if not (isinstance(s, ast.Expr) and isinstance(s.value, ast.Constant)
                                  and isinstance(s.value.value, str))]


def _name(n):
  if isinstance(n, ast.Name):
    return n.id
  if isinstance(n, ast.Attribute):
    return (_name(n.value) or '?') + '.' + n.attr
  return None


def _isinstance_types(test, var):
  """`isinstance(var, T)` / `isinstance(var, (T1, T2))` -> sorted type names, else None."""
  if (isinstance(test, ast.Call) and _name(test.func) == 'isinstance' and len(test.args) == 2
      and _name(test.args[0]) == var):
    t = test.args[1]
    elts = t.elts if isinstance(t, ast.Tuple) else [t]
    names = [_name(e) for e in elts]
    if all(names):
      return sorted(names)
  return None


def _is_none_test(test, var):
  return (isinstance(test, ast.Compare) and _name(test.left) == var and len(test.ops) == 1
          and isinstance(test.ops[0], ast.Is) and isinstance(test.comparators[0], ast.Constant)
          and test.comparators[0].value is None)


def _row_of_test(test, var):
  if _is_none_test(test, var):
    return 'none'
  ts = _isinstance_types(test, var)
  if ts is None:
    raise TranslatorError(f'_type_order: unrecognised test at line {test.lineno}')
  if ts == ['utils.MissingValue']:
    return 'missing'
  if ts == ['bool', 'float', 'int']:
    return 'num'
  if len(ts) == 1 and ts[0] in ('str', 'list', 'tuple', 'set', 'dict'):
    return ts[0]
  raise TranslatorError(f'_type_order: unexpected types {ts} at line {test.lineno}')


def extract_type_order(tree):
  fn = common.find_func(tree, '_type_order')
  var = fn.args.args[0].arg
  body = _strip_doc(fn.body)
  if len(body) != 2 or not isinstance(body[0], ast.If) or not isinstance(body[1], ast.Return):
    raise TranslatorError('_type_order: expected one if-chain followed by a return')
  ret = body[1].value
  if not (isinstance(ret, ast.Call) and _name(ret.func) == 'str' and len(ret.args) == 1
          and isinstance(ret.args[0], ast.Name)):
    raise TranslatorError('_type_order: does not return str(<variable>)')
  out_var = ret.args[0].id
  rows = []
  node = body[0]
  while True:
    row = _row_of_test(node.test, var)
    if (len(node.body) != 1 or not isinstance(node.body[0], ast.Assign)
        or _name(node.body[0].targets[0]) != out_var
        or not isinstance(node.body[0].value, ast.Constant)
        or not isinstance(node.body[0].value.value, int)
        or isinstance(node.body[0].value.value, bool)):
      raise TranslatorError(f'_type_order: branch at line {node.lineno} does not assign an int constant')
    rows.append((row, str(node.body[0].value.value), node.lineno))
    if len(node.orelse) == 1 and isinstance(node.orelse[0], ast.If):
      node = node.orelse[0]
      continue
    els = node.orelse
    break
  # else: the order key of a user class
  #   unpatched: `type_order = type(value).__qualname__`                       -> "qualname"
  #   fix F286 : `cls = type(value); type_order = f'{cls.__qualname__}\x00{id(cls)}'` -> "qualname-nul-id"
  src = [ast.unparse(x) for x in els]
  if src == [f'{out_var} = type({var}).__qualname__']:
    class_key = 'qualname'
  elif src == [f'cls = type({var})', out_var + " = f'{cls.__qualname__}\\x00{id(cls)}'"]:
    class_key = 'qualname-nul-id'
  else:
    raise TranslatorError('_type_order: the else branch is neither `type(value).__qualname__` nor '
                          "`cls = type(value); f'{cls.__qualname__}\\x00{id(cls)}'`")
  seen = [r for r, _, _ in rows]
  if sorted(seen) != sorted(ROWS):
    raise TranslatorError(f'_type_order: rows {seen} differ from the expected {ROWS}')
  return rows, class_key


def _returns(stmt):
  return stmt.value if isinstance(stmt, ast.Return) else None


def _is_native_lt(e, a, b):
  return (isinstance(e, ast.Compare) and len(e.ops) == 1 and isinstance(e.ops[0], ast.Lt)
          and _name(e.left) == a and _name(e.comparators[0]) == b)


def extract_lt(tree):
  fn = common.find_func(tree, 'lt')
  l, r = fn.args.args[0].arg, fn.args.args[1].arg
  body = _strip_doc(fn.body)
  if len(body) != 3:
    raise TranslatorError(f'lt: expected head, dispatch chain and final return, found {len(body)} statements')
  head, chain, last = body
  # -- head -------------------------------------------------------------------------------
  head_ok = False
  if isinstance(head, ast.If) and not head.orelse:
    t = head.test
    type_test = (isinstance(t, ast.Compare) and len(t.ops) == 1 and isinstance(t.ops[0], ast.IsNot)
                 and isinstance(t.left, ast.Call) and _name(t.left.func) == 'type'
                 and isinstance(t.comparators[0], ast.Call) and _name(t.comparators[0].func) == 'type')
    hb = head.body
    if type_test and len(hb) == 3 and all(isinstance(s, ast.Assign) for s in hb[:2]):
      a1, a2 = hb[0], hb[1]
      calls = [(isinstance(a.value, ast.Call) and _name(a.value.func) == '_type_order') for a in (a1, a2)]
      args = [_name(a.value.args[0]) if c else None for a, c in zip((a1, a2), calls)]
      tl, tr = _name(a1.targets[0]), _name(a2.targets[0])
      inner = hb[2]
      if (all(calls) and args == [l, r] and isinstance(inner, ast.If) and not inner.orelse
          and isinstance(inner.test, ast.Compare) and isinstance(inner.test.ops[0], ast.NotEq)
          and _name(inner.test.left) == tl and _name(inner.test.comparators[0]) == tr
          and len(inner.body) == 1 and _returns(inner.body[0]) is not None
          and _is_native_lt(_returns(inner.body[0]), tl, tr)):
        head_ok = True
  if not head_ok:
    raise TranslatorError('lt: head is not `if type(l) is not type(r): tol, tor = ...; if tol != tor: return tol < tor`')
  # -- dispatch chain ---------------------------------------------------------------------
  dispatch, prim_types = [], []
  dict_key_cmp, dict_keys = None, None
  node = chain
  if not isinstance(node, ast.If):
    raise TranslatorError('lt: dispatch chain is not an if statement')
  while True:
    t = node.test
    ts = _isinstance_types(t, l)
    kind = None
    if ts is not None:
      if ts == ['dict']:
        kind = 'dict'
        dict_key_cmp, dict_keys = _dict_branch(node, l, r)
      elif ts == ['list']:
        kind = 'list'
      elif set(ts) <= {'bool', 'int', 'float', 'str'}:
        kind = 'prim'
        prim_types = ts
        if not (len(node.body) == 1 and _returns(node.body[0]) is not None
                and _is_native_lt(_returns(node.body[0]), l, r)):
          raise TranslatorError('lt: primitive branch is not `return left < right`')
      else:
        raise TranslatorError(f'lt: unexpected isinstance types {ts} at line {t.lineno}')
    elif (isinstance(t, ast.BoolOp) and isinstance(t.op, ast.Or) and len(t.values) == 2
          and _is_none_test(t.values[0], l)
          and _isinstance_types(t.values[1], l) == ['utils.MissingValue']):
      kind = 'point'
      rv = _returns(node.body[0]) if len(node.body) == 1 else None
      if not (isinstance(rv, ast.Constant) and rv.value is False):
        raise TranslatorError('lt: None / missing branch does not `return False`')
    elif (isinstance(t, ast.Call) and _name(t.func) == 'hasattr' and _name(t.args[0]) == l
          and isinstance(t.args[1], ast.Constant) and t.args[1].value == 'sym_lt'):
      kind = 'sym_lt'
    if kind is None:
      raise TranslatorError(f'lt: unrecognised dispatch test at line {t.lineno}')
    dispatch.append(kind)
    if len(node.orelse) == 1 and isinstance(node.orelse[0], ast.If):
      node = node.orelse[0]
      continue
    if node.orelse:
      raise TranslatorError('lt: dispatch chain has an else branch')
    break
  if not (_returns(last) is not None and _is_native_lt(_returns(last), l, r)):
    raise TranslatorError('lt: does not end in `return left < right`')
  dispatch.append('native')
  if dict_keys == 'sorted-by-lt':
    sk = common.find_func(tree, '_sorted_keys')
    src = ast.unparse(sk)
    arg = sk.args.args[0].arg
    if not (f'sorted({arg}.keys(), key=functools.cmp_to_key(' in src
            and 'lambda x, y: -1 if lt(x, y) else 1 if lt(y, x) else 0' in src):
      raise TranslatorError('_sorted_keys: not `sorted(d.keys(), key=cmp_to_key(<three-way lt>))`')
  return {'dispatch': dispatch, 'prim_types': prim_types, 'dict_key_cmp': dict_key_cmp,
          'dict_keys': dict_keys}


def _dict_branch(node, l, r):
  """How keys are enumerated and how two different keys are ordered in the dict branch of lt."""
  keys_kind = None
  for s in node.body:
    if isinstance(s, ast.Assign) and isinstance(s.value, ast.Call):
      f = _name(s.value.func)
      k = None
      if f in ('list', 'sorted') and s.value.args:
        a = s.value.args[0]
        if isinstance(a, ast.Call) and isinstance(a.func, ast.Attribute) and a.func.attr == 'keys':
          k = 'position' if f == 'list' else 'sorted'
      elif f == '_sorted_keys' and len(s.value.args) == 1 and _name(s.value.args[0]) in (l, r):
        k = 'sorted-by-lt'
      if k is not None:
        if keys_kind not in (None, k):
          raise TranslatorError('lt: dict branch enumerates the two key lists differently')
        keys_kind = k
  if keys_kind is None:
    raise TranslatorError('lt: dict branch: key enumeration not recognised')
  loops = [s for s in node.body if isinstance(s, ast.For)]
  if len(loops) != 1:
    raise TranslatorError('lt: dict branch: expected one loop')
  key_cmp = None
  for s in ast.walk(loops[0]):
    if isinstance(s, ast.If) and isinstance(s.test, ast.Compare) and isinstance(s.test.ops[0], ast.Eq) \
        and s.orelse and len(s.orelse) == 1 and _returns(s.orelse[0]) is not None:
      kl, kr = _name(s.test.left), _name(s.test.comparators[0])
      rv = _returns(s.orelse[0])
      if _is_native_lt(rv, kl, kr):
        key_cmp = 'native'
      elif (isinstance(rv, ast.Call) and _name(rv.func) == 'lt' and len(rv.args) == 2
            and [_name(a) for a in rv.args] == [kl, kr]):
        key_cmp = 'lt'
  if key_cmp is None:
    raise TranslatorError('lt: dict branch: comparison of two different keys not recognised')
  return key_cmp, keys_kind


def extract_simple(tree):
  """gt = lt swapped; ne = not eq."""
  gt = common.find_func(tree, 'gt')
  a, b = gt.args.args[0].arg, gt.args.args[1].arg
  rv = _returns(_strip_doc(gt.body)[-1])
  gt_ok = (isinstance(rv, ast.Call) and _name(rv.func) == 'lt'
           and [_name(x) for x in rv.args] == [b, a])
  ne = common.find_func(tree, 'ne')
  a, b = ne.args.args[0].arg, ne.args.args[1].arg
  rv = _returns(_strip_doc(ne.body)[-1])
  ne_ok = (isinstance(rv, ast.UnaryOp) and isinstance(rv.op, ast.Not) and isinstance(rv.operand, ast.Call)
           and _name(rv.operand.func) == 'eq' and [_name(x) for x in rv.operand.args] == [a, b])
  return gt_ok, ne_ok


def _hash_arg(fn, what):
  """`return base.sym_hash((self.__class__, X))` -> X."""
  rv = _returns(_strip_doc(fn.body)[-1])
  if not (isinstance(rv, ast.Call) and _name(rv.func) == 'base.sym_hash' and len(rv.args) == 1
          and isinstance(rv.args[0], ast.Tuple) and len(rv.args[0].elts) == 2
          and _name(rv.args[0].elts[0]) == 'self.__class__'):
    raise TranslatorError(f'{what}.sym_hash: not `base.sym_hash((self.__class__, ...))`')
  return rv.args[0].elts[1]


def extract_hash(dtree, ltree, otree):
  d = _hash_arg(common.find_func(common.find_class(dtree, 'Dict'), 'sym_hash'), 'Dict')
  if not (isinstance(d, ast.Call) and _name(d.func) in ('tuple', 'frozenset') and len(d.args) == 1
          and isinstance(d.args[0], (ast.ListComp, ast.GeneratorExp))):
    raise TranslatorError('Dict.sym_hash: items are not combined by tuple(...) / frozenset(...)')
  comp = d.args[0]
  elt = comp.elt
  if not (isinstance(elt, ast.Tuple) and len(elt.elts) == 2 and isinstance(elt.elts[1], ast.Call)
          and _name(elt.elts[1].func) == 'base.sym_hash'):
    raise TranslatorError('Dict.sym_hash: item is not (k, base.sym_hash(v))')
  dict_comb = _name(d.func)
  li = _hash_arg(common.find_func(common.find_class(ltree, 'List'), 'sym_hash'), 'List')
  if not (isinstance(li, ast.Call) and _name(li.func) == 'tuple'):
    raise TranslatorError('List.sym_hash: elements are not combined by tuple(...)')
  ocls = common.find_class(otree, 'Object')
  o = _hash_arg(common.find_func(ocls, 'sym_hash'), 'Object')
  if not (isinstance(o, ast.Call) and _name(o.func) == 'base.sym_hash'
          and _name(o.args[0]) == 'self._sym_attributes'):
    raise TranslatorError('Object.sym_hash: second component is not base.sym_hash(self._sym_attributes)')
  # Object.sym_eq: `self is other or (type(self) is type(other) and base.eq(attrs, attrs))`
  src = ast.unparse(common.find_func(ocls, 'sym_eq'))
  eq_exact = 'type(self) is type(other)' in src and 'base.eq(self._sym_attributes, other._sym_attributes)' in src
  # Object.sym_lt: other class -> base.lt; same class: the field values by position when <test>,
  # else the attribute dicts (keys sorted by lt).
  body = _strip_doc(common.find_func(ocls, 'sym_lt').body)
  src = [ast.unparse(x) for x in body]
  lt_same = 'unknown'
  if (len(body) == 4 and src[0] == 'if type(self) is not type(other):\n    return base.lt(self, other)'
      and src[1] == 'lattrs, rattrs = (self._sym_attributes, other._sym_attributes)'
      and isinstance(body[2], ast.If) and not body[2].orelse
      and [ast.unparse(x) for x in body[2].body]
      == ['return base.lt(list(lattrs.sym_values()), list(rattrs.sym_values()))']
      and src[3] == 'return base.lt(lattrs, rattrs)'):
    test = ast.unparse(body[2].test)
    if test == 'list(lattrs.keys()) == list(rattrs.keys())':
      lt_same = 'declaration-order-if-keys-match'          # unpatched (F285)
    elif test == ('self.__class__.__schema__.dynamic_field is None and '
                  'list(lattrs.keys()) == list(rattrs.keys())'):
      lt_same = 'declaration-order-if-all-declared'        # fix F285
  elif src[-1:] == ['return base.lt(self._sym_attributes, other._sym_attributes)'] and len(body) == 2:
    lt_same = 'as-dict'
  return dict_comb, eq_exact, lt_same


def extract_operators(otree):
  """`Object.__eq__` / `__ne__` / `__hash__`: the operators of a class with
  `use_symbolic_comparison` are `sym_eq`, its negation and `sym_hash`."""
  ocls = common.find_class(otree, 'Object')

  def guarded(fn_name, call_src, fallback_src):
    body = _strip_doc(common.find_func(ocls, fn_name).body)
    if len(body) != 2 or not isinstance(body[0], ast.If) or body[0].orelse or len(body[0].body) != 1:
      return 'unknown'
    test, inner, last = body[0].test, _returns(body[0].body[0]), _returns(body[1])
    if (_name(test) == 'self.use_symbolic_comparison' and inner is not None and last is not None
        and ast.unparse(inner) == call_src and ast.unparse(last) == fallback_src):
      return call_src.split('(')[0].split('.')[1] + '-if-opted'
    return 'unknown'

  op_eq = guarded('__eq__', 'self.sym_eq(other)', 'super().__eq__(other)')
  op_hash = guarded('__hash__', 'self.sym_hash()', 'super().__hash__()')
  body = _strip_doc(common.find_func(ocls, '__ne__').body)
  src = [ast.unparse(s) for s in body]
  op_ne = 'not-eq' if src == ['r = self.__eq__(other)', 'if r is NotImplemented:\n    return r',
                              'return not r'] else 'unknown'
  return op_eq, op_ne, op_hash


def _codes(s):
  return '[' + ', '.join(str(ord(c)) for c in s) + ']'


def run():
  _, tree = common.parse_source(BASE)
  rows, class_key = extract_type_order(tree)
  ltf = extract_lt(tree)
  gt_ok, ne_ok = extract_simple(tree)
  _, dtree = common.parse_source(DICT)
  _, ltree = common.parse_source(LIST)
  _, otree = common.parse_source(OBJECT)
  dict_comb, eq_exact, lt_same = extract_hash(dtree, ltree, otree)
  op_eq, op_ne, op_hash = extract_operators(otree)
  # base.sym_hash: are plain list / tuple / dict hashed structurally (fix F16)?
  hsrc = ast.unparse(common.find_func(tree, 'sym_hash'))
  plain = [k for k in ('list', 'tuple', 'dict') if f'isinstance(x, {k})' in hsrc]
  if plain and not ('sym_hash((Symbolic.ListType, tuple([sym_hash(e) for e in x])))' in hsrc
                    and 'hash(tuple([sym_hash(e) for e in x]))' in hsrc
                    and 'sym_hash((Symbolic.DictType, frozenset(((k, sym_hash(v)) for k, v in x.items() if v != pg_typing.MISSING_VALUE))))' in hsrc):
    raise TranslatorError('base.sym_hash: plain-container branches have an unexpected shape')

  rank = {r: s for r, s, _ in rows}
  L = []
  L.append('/- GENERATED by translate/t_c06.py (T-ORDER) from')
  L.append(f'   {BASE}, {DICT}, {LIST}, {OBJECT}. Do not edit. -/')
  L.append('import PgModel.Compare')
  L.append('namespace Pg.C06.Gen')
  L.append('open Pg.C06')
  L.append('')
  L.append('/-- `str(type_order)` per row of the isinstance chain of `_type_order` (code points). -/')
  L.append('def rankOf : TypeKind → Str')
  for r in ROWS:
    L.append(f'  | .{r} => {_codes(rank[r])}   -- "{rank[r]}"')
  L.append('')
  L.append('/-- The rows in the order of the isinstance chain. -/')
  L.append('def chain : List TypeKind := [' + ', '.join('.' + r for r, _, _ in rows) + ']')
  L.append('')
  L.append('/-- Branch kinds of `lt` after the type-order head. -/')
  L.append('def ltDispatch : List String := ' + common.lean_list([common.lean_str(k) for k in ltf['dispatch']]))
  L.append('def ltPrimTypes : List String := ' + common.lean_list([common.lean_str(k) for k in ltf['prim_types']]))
  L.append('def ltDictKeyCmp : String := ' + common.lean_str(ltf['dict_key_cmp']))
  L.append('def ltDictKeys : String := ' + common.lean_str(ltf['dict_keys']))
  L.append('def gtIsSwappedLt : Bool := ' + common.lean_bool(gt_ok))
  L.append('def neIsNotEq : Bool := ' + common.lean_bool(ne_ok))
  L.append('def dictHashComb : String := ' + common.lean_str(dict_comb))
  L.append('def symHashPlain : List String := ' + common.lean_list([common.lean_str(k) for k in plain]))
  L.append('def objectEqExactType : Bool := ' + common.lean_bool(eq_exact))
  L.append('def objectLtFields : String := ' + common.lean_str(lt_same))
  L.append('/-- the order key of a user class in `_type_order` -/')
  L.append('def classOrderKey : String := ' + common.lean_str(class_key))
  L.append('/-- `Object.__eq__` / `__ne__` / `__hash__` (classes with `use_symbolic_comparison`). -/')
  L.append('def objectOperators : List String := '
           + common.lean_list([common.lean_str(k) for k in (op_eq, op_ne, op_hash)]))
  L.append('')
  L.append('end Pg.C06.Gen')
  L.append('')
  sidecar = {
      'sources': {p: common.sha(p) for p in (BASE, DICT, LIST, OBJECT)},
      'type_order_rows': [{'row': r, 'rank': s, 'line': ln} for r, s, ln in rows],
      'lt': ltf, 'gt_is_swapped_lt': gt_ok, 'ne_is_not_eq': ne_ok, 'dict_hash_comb': dict_comb,
      'object_eq_exact_type': eq_exact, 'sym_hash_plain': plain, 'object_lt_same_class_only': lt_same, 'class_order_key': class_key,
      'object_operators': [op_eq, op_ne, op_hash],
  }
  changed = common.write_gen('C06Order', '\n'.join(L), sidecar)
  return {'changed': changed, 'sidecar': sidecar}


if __name__ == '__main__':
  import json
  print(json.dumps(run()['sidecar'], indent=1))
