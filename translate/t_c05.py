"""T-SIG: regenerate lean/PgGen/C05Sig.lean from pyglove/core/typing/value_specs.py.

For every value-spec class that carries a `__serialization_key__` the table records
  * emitted : the keys its (possibly inherited) `to_json` hands to
              `self.to_json_dict(fields=dict(k=(value, sentinel), ...), exclude_default=True)`
              together with the source text of the omission sentinel, and
  * ctor    : the parameters of its (possibly inherited) `__init__` with the source text of
              their defaults (None in the table = required parameter).
`JSONConvertible.from_json` rebuilds a spec with `cls(**{k: from_json(v)})`, so a key that may
be omitted must be a constructor parameter whose default is the omission sentinel; that is the
obligation discharged over this table in lean/PgProps/C05.lean. Also extracted: the shape facts
of `to_json_dict` itself (a key is dropped iff `v != default` is false).

Pure `ast` matching; any unexpected shape raises TranslatorError (= broken tie).
"""

import ast

from . import common
from .common import TranslatorError

VALUE_SPECS = 'pyglove/core/typing/value_specs.py'
JSON_CONVERSION = 'pyglove/core/utils/json_conversion.py'


def _src(node):
  return ast.unparse(node).replace('\n', ' ')


def _is_self_call(call, name):
  f = call.func
  return (isinstance(f, ast.Attribute) and f.attr == name and isinstance(f.value, ast.Name)
          and f.value.id == 'self')


def _pairs_of_dict_call(call, where):
  if not (isinstance(call, ast.Call) and isinstance(call.func, ast.Name) and call.func.id == 'dict'
          and not call.args):
    raise TranslatorError(f'{where}: fields is not a dict(k=(v, default), ...) call')
  out = []
  for kw in call.keywords:
    if kw.arg is None or not (isinstance(kw.value, ast.Tuple) and len(kw.value.elts) == 2):
      raise TranslatorError(f'{where}: field {kw.arg!r} is not a (value, default) pair')
    out.append((kw.arg, _src(kw.value.elts[1])))
  return out


def extract_to_json(cls, fn):
  """Returns ('fields', [(key, sentinel)]) or ('super', exclude_keys)."""
  where = f'{cls.name}.to_json (line {fn.lineno})'
  emitted = None
  extra = []
  super_call = False
  excluded = []
  for node in ast.walk(fn):
    if isinstance(node, ast.Call) and _is_self_call(node, 'to_json_dict'):
      kws = {k.arg: k.value for k in node.keywords if k.arg}
      if node.args or 'fields' not in kws:
        raise TranslatorError(f'{where}: to_json_dict not called with fields=')
      ed = kws.get('exclude_default')
      if not (isinstance(ed, ast.Constant) and ed.value is True):
        raise TranslatorError(f'{where}: exclude_default is not the constant True')
      f = kws['fields']
      if isinstance(f, ast.Name):
        # fields = dict(...) assigned earlier in the body
        assigns = [s for s in ast.walk(fn) if isinstance(s, ast.Assign) and len(s.targets) == 1
                   and isinstance(s.targets[0], ast.Name) and s.targets[0].id == f.id]
        if len(assigns) != 1:
          raise TranslatorError(f'{where}: cannot find the single assignment of {f.id}')
        emitted = _pairs_of_dict_call(assigns[0].value, where)
        for s in ast.walk(fn):
          if (isinstance(s, ast.Assign) and len(s.targets) == 1
              and isinstance(s.targets[0], ast.Subscript)
              and isinstance(s.targets[0].value, ast.Name) and s.targets[0].value.id == f.id):
            key = s.targets[0].slice
            if not (isinstance(key, ast.Constant) and isinstance(key.value, str)
                    and isinstance(s.value, ast.Tuple) and len(s.value.elts) == 2):
              raise TranslatorError(f'{where}: unrecognised {f.id}[...] = ... at line {s.lineno}')
            extra.append((key.value, _src(s.value.elts[1])))
      else:
        emitted = _pairs_of_dict_call(f, where)
    if (isinstance(node, ast.Call) and isinstance(node.func, ast.Attribute)
        and node.func.attr == 'to_json' and isinstance(node.func.value, ast.Call)
        and isinstance(node.func.value.func, ast.Name) and node.func.value.func.id == 'super'):
      super_call = True
    if (isinstance(node, ast.Call) and isinstance(node.func, ast.Attribute)
        and node.func.attr == 'add' and isinstance(node.func.value, ast.Name)
        and node.func.value.id == 'exclude_keys' and len(node.args) == 1
        and isinstance(node.args[0], ast.Constant)):
      excluded.append(node.args[0].value)
  if emitted is not None and not super_call:
    return ('fields', emitted + extra)
  if super_call and emitted is None:
    return ('super', excluded)
  raise TranslatorError(f'{where}: neither a to_json_dict(fields=...) nor a super().to_json(...) body')


def extract_ctor(cls, fn):
  a = fn.args
  if a.vararg or a.kwarg:
    raise TranslatorError(f'{cls.name}.__init__: *args/**kwargs not expected in a value spec')
  params = []
  pos = a.posonlyargs + a.args
  defaults = [None] * (len(pos) - len(a.defaults)) + list(a.defaults)
  for p, d in zip(pos, defaults):
    if p.arg == 'self':
      continue
    params.append((p.arg, None if d is None else _src(d)))
  for p, d in zip(a.kwonlyargs, a.kw_defaults):
    params.append((p.arg, None if d is None else _src(d)))
  return params


def check_to_json_dict():
  """`to_json_dict(... exclude_default=True)` drops a key iff `v != default` is false."""
  _, tree = common.parse_source(JSON_CONVERSION)
  cls = common.find_class(tree, 'JSONConvertible')
  fn = common.find_func(cls, 'to_json_dict')
  src = ast.unparse(fn)
  for needle in ('if exclude_default:', 'for k, (v, default) in fields.items():',
                 'if k not in exclude_keys and v != default:', 'json_dict[k] = to_json(v, **kwargs)'):
    if needle not in src:
      raise TranslatorError(f'JSONConvertible.to_json_dict: expected statement not found: {needle!r}')
  fj = common.find_func(cls, 'from_json')
  fsrc = ast.unparse(fj)
  if 'return cls(**init_args)' not in fsrc:
    raise TranslatorError('JSONConvertible.from_json: does not end in `return cls(**init_args)`')


def run():
  check_to_json_dict()
  _, tree = common.parse_source(VALUE_SPECS)
  classes = {n.name: n for n in tree.body if isinstance(n, ast.ClassDef)}

  def bases(c):
    out = []
    for b in c.bases:
      if isinstance(b, ast.Name) and b.id in classes:
        out.append(classes[b.id])
    return out

  def resolve(c, name, seen=None):
    """Depth-first, left-to-right lookup through in-module bases (the specs use single chains)."""
    fn = common.find_func_opt(c, name)
    if fn is not None:
      return c, fn
    for b in bases(c):
      r = resolve(b, name)
      if r is not None:
        return r
    return None

  def emitted_of(c):
    r = resolve(c, 'to_json')
    if r is None:
      return None
    owner, fn = r
    kind, data = extract_to_json(owner, fn)
    if kind == 'fields':
      return data
    # super().to_json(exclude_keys=...): the first base that defines to_json
    for b in bases(owner):
      e = emitted_of(b)
      if e is not None:
        return [(k, s) for k, s in e if k not in data]
    raise TranslatorError(f'{owner.name}.to_json: super().to_json has no in-module target')

  rows = []
  for name, c in classes.items():
    has_key = any(isinstance(s, ast.Assign) and len(s.targets) == 1
                  and isinstance(s.targets[0], ast.Name)
                  and s.targets[0].id == '__serialization_key__' for s in c.body)
    if not has_key:
      continue
    em = emitted_of(c)
    if em is None:
      raise TranslatorError(f'{name}: has a __serialization_key__ but no to_json')
    r = resolve(c, '__init__')
    if r is None:
      raise TranslatorError(f'{name}: no __init__ found in the module')
    rows.append((name, em, extract_ctor(*r)))
  if len(rows) < 10:
    raise TranslatorError(f'only {len(rows)} serialisable value-spec classes found')

  L = []
  L.append('/- GENERATED by translate/t_c05.py from')
  L.append(f'   {VALUE_SPECS} and {JSON_CONVERSION}. Do not edit. -/')
  L.append('namespace Pg.C05')
  L.append('')
  L.append('/-- One serialisable value-spec class: keys its `to_json` may omit (with the omission')
  L.append('sentinel) and the parameters of its constructor (with their defaults; `none` = required). -/')
  L.append('structure SigRow where')
  L.append('  cls : String')
  L.append('  emitted : List (String × String)')
  L.append('  ctor : List (String × Option String)')
  L.append('  deriving Repr')
  L.append('')
  L.append('def sigTable : List SigRow := [')
  for i, (name, em, ctor) in enumerate(rows):
    e = common.lean_list(['(%s, %s)' % (common.lean_str(k), common.lean_str(s)) for k, s in em])
    c = common.lean_list(['(%s, %s)' % (common.lean_str(k),
                                       'none' if d is None else 'some ' + common.lean_str(d))
                          for k, d in ctor])
    L.append('  { cls := %s,\n    emitted := %s,\n    ctor := %s }%s' % (
        common.lean_str(name), e, c, ',' if i + 1 < len(rows) else ''))
  L.append(']')
  L.append('')
  L.append('end Pg.C05')
  text = '\n'.join(L) + '\n'
  sidecar = {'sources': {VALUE_SPECS: common.sha(VALUE_SPECS), JSON_CONVERSION: common.sha(JSON_CONVERSION)},
             'classes': [r[0] for r in rows]}
  changed = common.write_gen('C05Sig', text, sidecar)
  return {'changed': changed, 'sidecar': sidecar}


def run_fn():
  """T-FN: which tests `_function_to_json` uses to decide "by code" (lean/PgGen/C05Fn.lean)."""
  _, tree = common.parse_source(JSON_CONVERSION)
  fn = None
  for n in tree.body:
    if isinstance(n, ast.FunctionDef) and n.name == '_function_to_json':
      fn = n
  if fn is None:
    raise TranslatorError('_function_to_json not found')
  body = [s for s in fn.body if not (isinstance(s, ast.Expr) and isinstance(s.value, ast.Constant))]
  if len(body) != 2 or not isinstance(body[0], ast.If) or not isinstance(body[1], ast.Return):
    raise TranslatorError('_function_to_json: expected `if <tests>: return {... code ...}` then `return {... name ...}`')
  first, second = body[0], body[1]
  if not (len(first.body) >= 1 and isinstance(first.body[-1], ast.Return) and any("'code'" in _src(st) for st in first.body)
          and "'code'" not in _src(second)):
    raise TranslatorError('_function_to_json: the branches are not (by code, by name)')
  test = first.test
  disjuncts = test.values if isinstance(test, ast.BoolOp) and isinstance(test.op, ast.Or) else [test]
  lam = nested = False
  for d in disjuncts:
    text = _src(d)
    if isinstance(d, ast.Compare) and '<lambda>' in text and '__name__' in text and isinstance(d.ops[0], ast.Eq):
      lam = True
    elif 'co_flags' in text and 'CO_NESTED' in text and isinstance(d, ast.BinOp) and isinstance(d.op, ast.BitAnd):
      nested = True
    else:
      raise TranslatorError(f'_function_to_json: unrecognised test {text!r}')
  # the loader: is a function rebuilt from code remembered in a process-level table?
  ld = None
  for n in tree.body:
    if isinstance(n, ast.FunctionDef) and n.name == '_function_from_json':
      ld = n
  if ld is None:
    raise TranslatorError('_function_from_json not found')
  branch = [s for s in ld.body if isinstance(s, ast.If) and "'code' in json_value" in _src(s.test)]
  if len(branch) != 1:
    raise TranslatorError("_function_from_json: expected exactly one `if 'code' in json_value:`")
  module_names = {t.id for st in tree.body if isinstance(st, (ast.Assign, ast.AnnAssign))
                  for t in (st.targets if isinstance(st, ast.Assign) else [st.target]) if isinstance(t, ast.Name)}
  used = {x.id for st in branch[0].body for x in ast.walk(st) if isinstance(x, ast.Name)}
  memo = sorted(n for n in used & module_names if n.startswith('_') and n.isupper() or n == '_LOADED_SYMBOLS')
  if 'FunctionType' not in _src(branch[0]):
    raise TranslatorError('_function_from_json: the code branch does not build a types.FunctionType')
  # class methods: is the written name built from the class the method is bound to (`f.__self__`)
  # or from the function's own `__qualname__` (which names the DEFINING class)?
  mt = None
  for n in tree.body:
    if isinstance(n, ast.FunctionDef) and n.name == '_method_to_json':
      mt = n
  if mt is None:
    raise TranslatorError('_method_to_json not found')
  rets = [x for x in ast.walk(mt) if isinstance(x, ast.Return) and isinstance(x.value, ast.Dict)]
  if len(rets) != 1:
    raise TranslatorError('_method_to_json: expected exactly one `return {...}`')
  name_expr = None
  for k, v in zip(rets[0].value.keys, rets[0].value.values):
    if isinstance(k, ast.Constant) and k.value == 'name':
      name_expr = v
  if name_expr is None:
    raise TranslatorError("_method_to_json: no 'name' entry")
  if isinstance(name_expr, ast.Name):       # the last assignment to that variable decides
    assigns = [x for x in ast.walk(mt) if isinstance(x, ast.Assign) and any(
        isinstance(t, ast.Name) and t.id == name_expr.id for t in x.targets)]
    if not assigns:
      raise TranslatorError('_method_to_json: the name variable is never assigned')
    name_expr = max(assigns, key=lambda x: x.lineno).value
  uses_self = any(isinstance(x, ast.Attribute) and x.attr == '__self__' for x in ast.walk(name_expr))
  if not uses_self and _src(name_expr) != '_type_name(f)':
    raise TranslatorError('_method_to_json: unrecognised name expression ' + _src(name_expr))
  text = '\n'.join([
      '/- GENERATED by translate/t_c05.py (run_fn) from ' + JSON_CONVERSION + '. Do not edit. -/',
      'import PgModel.C05Fn',
      'namespace Pg.C05',
      '',
      '/-- The tests of `_function_to_json` that send a function to the "by code" branch. -/',
      'def fnTests : FnTests := ⟨%s, %s⟩' % (common.lean_bool(lam), common.lean_bool(nested)),
      '',
      '/-- Does `_function_from_json` keep functions rebuilt from code in a process-level table',
      '(module-level names it touches in that branch: %s)? -/' % (memo or 'none'),
      'def fnLoadMemo : Bool := %s' % common.lean_bool(bool(memo)),
      '',
      '/-- Does `_method_to_json` name the class the method is BOUND to (`f.__self__`)? Otherwise the name',
      'is `__qualname__` of the function: the class that DEFINES the method (`%s`). -/' % _src(name_expr),
      'def fnMethodNamesBound : Bool := %s' % common.lean_bool(uses_self),
      '',
      'end Pg.C05', ''])
  sidecar = {'sources': {JSON_CONVERSION: common.sha(JSON_CONVERSION)}, 'lambda_name_test': lam, 'co_nested_test': nested,
             'load_memo_tables': memo, 'method_names_bound_class': uses_self}
  changed = common.write_gen('C05Fn', text, sidecar)
  return {'changed': changed, 'sidecar': sidecar}


if __name__ == '__main__':
  print(run())
  print(run_fn())
