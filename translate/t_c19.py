"""T-AST + T-GATE: regenerate lean/PgGen/C19Tables.lean from the running interpreter's `ast`
module and from pyglove/core/coding/{parsing,execution,permissions}.py (pure `ast` matching).

Extracted facts
  * Kind          : every concrete node class of this Python version (T-AST)
  * hasValue      : which classes have a `value` field (what `hasattr(last, 'value')` sees)
  * isStmt        : statement classes
  * Perm / gate   : for each `self.verify(node, FLAG, classes, msg)` in
                    `_CodeValidator.generic_visit`: FLAG and the node classes (T-GATE)
  * facts about the shape of `verify`, `generic_visit`, `parse` and `evaluate` that the
    generic theorems take as hypotheses (C19Facts).
Any unexpected shape raises TranslatorError (= broken tie).
"""

import _ast
import ast

from . import common
from .common import TranslatorError

PARSING = 'pyglove/core/coding/parsing.py'
EXECUTION = 'pyglove/core/coding/execution.py'
PERMISSIONS = 'pyglove/core/coding/permissions.py'


def concrete_node_classes():
  """Leaf classes of the C-level `_ast` hierarchy (deprecated Python-level shims excluded)."""
  cands = [c for c in vars(_ast).values()
           if isinstance(c, type) and issubclass(c, _ast.AST) and c is not _ast.AST]
  cset = set(cands)
  leaves = [c for c in cands if not any(s in cset for s in c.__subclasses__())]
  return sorted(leaves, key=lambda c: c.__name__)


def _flag_name(node):
  # permissions.CodePermission.X
  if (isinstance(node, ast.Attribute) and isinstance(node.value, ast.Attribute)
      and node.value.attr == 'CodePermission'):
    return node.attr
  raise TranslatorError(f'verify(): unrecognised flag expression at line {node.lineno}')


def _class_names(node):
  """`ast.X`, `(ast.X, ast.Y, getattr(ast, 'Z', None))`."""
  def one(n):
    if isinstance(n, ast.Attribute) and isinstance(n.value, ast.Name) and n.value.id == 'ast':
      return n.attr
    if (isinstance(n, ast.Call) and isinstance(n.func, ast.Name) and n.func.id == 'getattr'
        and len(n.args) == 3 and isinstance(n.args[0], ast.Name) and n.args[0].id == 'ast'
        and isinstance(n.args[1], ast.Constant) and isinstance(n.args[2], ast.Constant)
        and n.args[2].value is None):
      return n.args[1].value
    raise TranslatorError(f'verify(): unrecognised node-class expression at line {n.lineno}')
  if isinstance(node, (ast.Tuple, ast.List)):
    return [one(e) for e in node.elts]
  return [one(node)]


def _is_self_attr(n, attr):
  return (isinstance(n, ast.Attribute) and isinstance(n.value, ast.Name)
          and n.value.id == 'self' and n.attr == attr)


def extract_gate(tree):
  cls = common.find_class(tree, '_CodeValidator')
  gv = common.find_func(cls, 'generic_visit')
  arg = gv.args.args[1].arg
  gates = []
  body = [s for s in gv.body
          if not (isinstance(s, ast.Expr) and isinstance(s.value, ast.Constant))]
  if not body:
    raise TranslatorError('generic_visit: empty body')
  *verifies, last = body
  for s in verifies:
    if not (isinstance(s, ast.Expr) and isinstance(s.value, ast.Call)
            and _is_self_attr(s.value.func, 'verify')):
      raise TranslatorError(
          f'generic_visit: statement at line {s.lineno} is not a top-level self.verify(...) call')
    call = s.value
    if call.keywords or len(call.args) != 4:
      raise TranslatorError(f'generic_visit: verify() call shape at line {s.lineno}')
    if not (isinstance(call.args[0], ast.Name) and call.args[0].id == arg):
      raise TranslatorError(f'generic_visit: verify() first argument at line {s.lineno}')
    gates.append((_flag_name(call.args[1]), _class_names(call.args[2]), s.lineno))
  # last statement: super().generic_visit(node), unconditionally
  ok = (isinstance(last, ast.Expr) and isinstance(last.value, ast.Call)
        and isinstance(last.value.func, ast.Attribute)
        and last.value.func.attr == 'generic_visit'
        and isinstance(last.value.func.value, ast.Call)
        and isinstance(last.value.func.value.func, ast.Name)
        and last.value.func.value.func.id == 'super'
        and len(last.value.args) == 1 and isinstance(last.value.args[0], ast.Name)
        and last.value.args[0].id == arg)
  if not ok:
    raise TranslatorError(
        'generic_visit: does not end in an unconditional super().generic_visit(node)')
  # The class must not define visit_* methods that would bypass generic_visit.
  bypass = [n.name for n in cls.body
            if isinstance(n, ast.FunctionDef) and (n.name.startswith('visit_') or n.name == 'visit')]
  if bypass:
    raise TranslatorError(f'_CodeValidator defines {bypass}: generic_visit no longer sees every node')
  return gates


def check_verify_shape(tree):
  """`if isinstance(node, node_type) and not (self.permission & flag): ... raise error`."""
  cls = common.find_class(tree, '_CodeValidator')
  vf = common.find_func(cls, 'verify')
  names = [a.arg for a in vf.args.args]
  if len(names) < 4:
    raise TranslatorError('verify: signature changed')
  node_a, flag_a, type_a = names[1], names[2], names[3]
  for s in vf.body:
    if not isinstance(s, ast.If):
      continue
    t = s.test
    if not (isinstance(t, ast.BoolOp) and isinstance(t.op, ast.And) and len(t.values) == 2):
      continue
    a, b = t.values
    isinst = (isinstance(a, ast.Call) and isinstance(a.func, ast.Name) and a.func.id == 'isinstance'
              and len(a.args) == 2 and isinstance(a.args[0], ast.Name) and a.args[0].id == node_a
              and isinstance(a.args[1], ast.Name) and a.args[1].id == type_a)
    notand = (isinstance(b, ast.UnaryOp) and isinstance(b.op, ast.Not)
              and isinstance(b.operand, ast.BinOp) and isinstance(b.operand.op, ast.BitAnd)
              and _is_self_attr(b.operand.left, 'permission')
              and isinstance(b.operand.right, ast.Name) and b.operand.right.id == flag_a)
    if isinst and notand:
      # every path of the body must raise
      if isinstance(s.body[-1], ast.Raise) and not s.orelse:
        return True
  raise TranslatorError(
      'verify: the test `isinstance(node, node_type) and not (self.permission & flag)` '
      'followed by an unconditional raise was not found')


def check_parse_shape(tree):
  """parse(): `if permission is not None: _CodeValidator(code, permission).visit(parsed_code)`
  inside a try whose handler wraps SyntaxError into CodeError."""
  fn = common.find_func(tree, 'parse')
  pname = fn.args.args[1].arg
  for n in ast.walk(fn):
    if isinstance(n, ast.If):
      t = n.test
      if (isinstance(t, ast.Compare) and isinstance(t.left, ast.Name) and t.left.id == pname
          and len(t.ops) == 1 and isinstance(t.ops[0], ast.IsNot)
          and isinstance(t.comparators[0], ast.Constant) and t.comparators[0].value is None):
        for m in ast.walk(n):
          if (isinstance(m, ast.Call) and isinstance(m.func, ast.Attribute) and m.func.attr == 'visit'
              and isinstance(m.func.value, ast.Call) and isinstance(m.func.value.func, ast.Name)
              and m.func.value.func.id == '_CodeValidator'
              and len(m.func.value.args) == 2 and isinstance(m.func.value.args[1], ast.Name)
              and m.func.value.args[1].id == pname):
            return True
  raise TranslatorError('parse(): validation under `if permission is not None` not found')


def extract_evaluate(tree):
  """How `evaluate` determines the effective permission, whether it validates before running,
  and which last-statement classes it splits off."""
  fn = common.find_func(tree, 'evaluate')
  facts = {}
  # 1. effective permission: find the assignment(s) to `permission` before parsing.parse.
  eff = None
  parse_line = None
  exec_lines = []
  for n in ast.walk(fn):
    if isinstance(n, ast.Call):
      f = n.func
      if isinstance(f, ast.Attribute) and f.attr == 'parse' and isinstance(f.value, ast.Name) \
          and f.value.id == 'parsing':
        if not (len(n.args) == 2 and isinstance(n.args[1], ast.Name) and n.args[1].id == 'permission'):
          raise TranslatorError('evaluate: parsing.parse is not called with (code, permission)')
        parse_line = n.lineno
      if isinstance(f, ast.Name) and f.id in ('exec', 'eval'):
        exec_lines.append(n.lineno)
  if parse_line is None:
    raise TranslatorError('evaluate: call to parsing.parse(code, permission) not found')
  if not exec_lines or min(exec_lines) < parse_line:
    raise TranslatorError('evaluate: exec/eval reached before parsing.parse')
  facts['validatesBeforeExec'] = True

  def is_get_permission(e):
    return (isinstance(e, ast.Call) and isinstance(e.func, ast.Attribute)
            and e.func.attr == 'get_permission')

  pre = [s for s in fn.body if s.lineno < parse_line]
  assigns = []
  for s in pre:
    for n in ast.walk(s):
      if isinstance(n, ast.Assign) and any(isinstance(t, ast.Name) and t.id == 'permission' for t in n.targets):
        assigns.append((s, n))
  # recognised shapes
  src_kind = None
  if len(assigns) == 1 and assigns[0][0] is assigns[0][1]:
    v = assigns[0][1].value
    if (isinstance(v, ast.BoolOp) and isinstance(v.op, ast.Or) and len(v.values) == 2
        and isinstance(v.values[0], ast.Name) and v.values[0].id == 'permission'
        and is_get_permission(v.values[1])):
      src_kind = 'explicitOrScope'          # `permission or get_permission()`
    elif (isinstance(v, ast.IfExp) and is_get_permission(v.orelse)
          and isinstance(v.body, ast.Name) and v.body.id == 'permission'
          and isinstance(v.test, ast.Compare) and isinstance(v.test.ops[0], ast.IsNot)):
      src_kind = 'explicitElseScope'        # `permission if permission is not None else get_permission()`
  if src_kind is None:
    # `scope = get_permission(); if permission is None: permission = scope
    #   elif scope is not None: permission = permission & scope`
    scope_var = None
    for s in pre:
      if (isinstance(s, ast.Assign) and len(s.targets) == 1 and isinstance(s.targets[0], ast.Name)
          and is_get_permission(s.value)):
        scope_var = s.targets[0].id
    for s in pre:
      if isinstance(s, ast.If) and scope_var:
        t = s.test
        first_ok = (isinstance(t, ast.Compare) and isinstance(t.left, ast.Name) and t.left.id == 'permission'
                    and isinstance(t.ops[0], ast.Is) and len(s.body) == 1
                    and isinstance(s.body[0], ast.Assign) and isinstance(s.body[0].value, ast.Name)
                    and s.body[0].value.id == scope_var)
        second_ok = False
        if first_ok and len(s.orelse) == 1 and isinstance(s.orelse[0], ast.If):
          e = s.orelse[0]
          t2 = e.test
          second_ok = (isinstance(t2, ast.Compare) and isinstance(t2.left, ast.Name) and t2.left.id == scope_var
                       and isinstance(t2.ops[0], ast.IsNot) and len(e.body) == 1 and not e.orelse
                       and isinstance(e.body[0], ast.Assign)
                       and isinstance(e.body[0].value, ast.BinOp)
                       and isinstance(e.body[0].value.op, ast.BitAnd)
                       and {getattr(e.body[0].value.left, 'id', None), getattr(e.body[0].value.right, 'id', None)}
                       == {'permission', scope_var})
        if first_ok and second_ok:
          src_kind = 'meetWithScope'
  if src_kind is None:
    raise TranslatorError('evaluate: how the effective permission is computed was not recognised')
  facts['effective'] = src_kind

  # 2. last-statement split: `hasattr(body[-1], 'value')` or isinstance(body[-1], (ast.Expr, ast.Assign))
  split = None
  for n in ast.walk(fn):
    if isinstance(n, ast.If):
      t = n.test
      if (isinstance(t, ast.Call) and isinstance(t.func, ast.Name) and t.func.id == 'hasattr'
          and len(t.args) == 2 and isinstance(t.args[1], ast.Constant) and t.args[1].value == 'value'):
        split = ('hasValue', [])
      elif (isinstance(t, ast.Call) and isinstance(t.func, ast.Name) and t.func.id == 'isinstance'
            and len(t.args) == 2 and isinstance(t.args[0], ast.Subscript)):
        try:
          split = ('classes', _class_names(t.args[1]))
        except TranslatorError:
          pass
  if split is None:
    raise TranslatorError('evaluate: last-statement split test not recognised')
  facts['split'] = split
  return facts


def check_scope_shape(tree):
  """permissions.permission(): outermost wins; deletes the key only when it set it."""
  fn = common.find_func(tree, 'permission')
  src = ast.unparse(fn)
  need = ['thread_local_get(_TLS_CODE_RUN_PERMISSION, None)',
          'thread_local_set(_TLS_CODE_RUN_PERMISSION, perm)',
          'thread_local_del(_TLS_CODE_RUN_PERMISSION)']
  for s in need:
    if s not in src:
      raise TranslatorError(f'permissions.permission(): `{s}` not found')
  # `if outter is not None: perm = outter`
  ok = False
  for n in ast.walk(fn):
    if isinstance(n, ast.If) and isinstance(n.test, ast.Compare) and isinstance(n.test.ops[0], ast.IsNot):
      if (len(n.body) == 1 and isinstance(n.body[0], ast.Assign)
          and isinstance(n.body[0].targets[0], ast.Name) and n.body[0].targets[0].id == fn.args.args[0].arg
          and isinstance(n.body[0].value, ast.Name) and isinstance(n.test.left, ast.Name)
          and n.body[0].value.id == n.test.left.id):
        ok = True
  if not ok:
    raise TranslatorError('permissions.permission(): outermost-wins assignment not found')
  # the clean-up must be in a `finally` around the yield (normal AND exceptional exit)
  fin = False
  for n in ast.walk(fn):
    if isinstance(n, ast.Try) and n.finalbody:
      has_yield = any(isinstance(m, (ast.Yield, ast.YieldFrom)) for b in n.body for m in ast.walk(b))
      has_del = 'thread_local_del(_TLS_CODE_RUN_PERMISSION)' in ''.join(ast.unparse(b) for b in n.finalbody)
      if has_yield and has_del:
        fin = True
  if not fin:
    raise TranslatorError('permissions.permission(): the slot is not cleaned up in a `finally` around the yield')
  return True


PERM_LEAN = {
    'ASSIGN': 'assign', 'CONDITION': 'condition', 'LOOP': 'loop', 'CALL': 'call',
    'EXCEPTION': 'exception', 'CLASS_DEFINITION': 'classDef',
    'FUNCTION_DEFINITION': 'funcDef', 'IMPORT': 'import_',
}


def check_run_shape(tree):
  """T-RUN: `run` hands its arguments to `evaluate` through `maybe_sandbox_call`, and the non-sandbox
  branch of `maybe_sandbox_call` calls the function directly, in the calling thread (the permission
  scope is thread-local: a worker thread would not see it)."""
  fn = common.find_func(tree, 'run')
  rets = [n for n in ast.walk(fn) if isinstance(n, ast.Return)]
  ok = False
  for r in rets:
    c = r.value
    if (isinstance(c, ast.Call) and isinstance(c.func, ast.Name) and c.func.id == 'maybe_sandbox_call'
        and c.args and isinstance(c.args[0], ast.Name) and c.args[0].id == 'evaluate'):
      kw = {k.arg: k.value for k in c.keywords}
      for name in ('code', 'global_vars', 'permission', 'returns_stdout', 'outputs_intermediate'):
        if not (isinstance(kw.get(name), ast.Name) and kw[name].id == name):
          raise TranslatorError(f'run(): `{name}` is not passed through to evaluate unchanged')
      ok = True
  if not ok or len(rets) != 1:
    raise TranslatorError('run(): `return maybe_sandbox_call(evaluate, ...)` not found')
  body = [n for n in fn.body if not (isinstance(n, ast.Expr) and isinstance(n.value, ast.Constant))]
  if len(body) != 1:
    raise TranslatorError('run(): does more than delegating to maybe_sandbox_call')
  ms = common.find_func(tree, 'maybe_sandbox_call')
  direct = 'return func(*args, **kwargs)'
  found_else = False
  for n in ast.walk(ms):
    if isinstance(n, ast.If) and n.orelse:
      tail = n.orelse
      while len(tail) == 1 and isinstance(tail[0], ast.If):
        if not tail[0].orelse:
          break
        tail = tail[0].orelse
      if len(tail) == 1 and isinstance(tail[0], ast.Return):
        if ast.unparse(tail[0]) != direct:
          raise TranslatorError(
              'maybe_sandbox_call: the non-sandbox branch is not `return func(*args, **kwargs)`: '
              + ast.unparse(tail[0])[:80])
        found_else = True
  if not found_else:
    raise TranslatorError('maybe_sandbox_call: non-sandbox branch not found')
  return True


def run():
  classes = concrete_node_classes()
  names = [c.__name__ for c in classes]
  src, tree = common.parse_source(PARSING)
  gates = extract_gate(tree)
  check_verify_shape(tree)
  check_parse_shape(tree)
  _, etree = common.parse_source(EXECUTION)
  ev = extract_evaluate(etree)
  check_run_shape(etree)
  _, ptree = common.parse_source(PERMISSIONS)
  check_scope_shape(ptree)

  for flag, cls_names, line in gates:
    if flag not in PERM_LEAN:
      raise TranslatorError(f'unknown permission flag {flag} at {PARSING}:{line}')
  gate_of = {n: [] for n in names}
  for flag, cls_names, line in gates:
    for cn in cls_names:
      if cn in gate_of:        # classes absent from this Python version are `None` at run time
        gate_of[cn].append(PERM_LEAN[flag])

  has_value = {c.__name__: ('value' in c._fields) for c in classes}
  is_stmt = {c.__name__: issubclass(c, _ast.stmt) for c in classes}
  if ev['split'][0] == 'hasValue':
    split_kinds = [n for n in names if has_value[n] and is_stmt[n]]
  else:
    split_kinds = [n for n in ev['split'][1] if n in gate_of]

  ungated_known = common.known_exceptions('C19', 'ungated')
  split_known = common.known_exceptions('C19', 'split')

  L = []
  L.append('/- GENERATED by translate/t_c19.py from the running `ast` module and from')
  L.append(f'   {PARSING}, {EXECUTION}, {PERMISSIONS}. Do not edit. -/')
  L.append('import PgModel.Code')
  L.append('namespace Pg.C19')
  L.append('')
  L.append('inductive Kind where')
  for n in names:
    L.append(f'  | {n}')
  L.append('  deriving DecidableEq, Repr')
  L.append('')
  L.append('def allKinds : List Kind := [' + ', '.join('.' + n for n in names) + ']')
  L.append('')
  L.append('def kindName : Kind → String')
  for n in names:
    L.append(f'  | .{n} => "{n}"')
  L.append('')
  L.append('def kindOfName? (s : String) : Option Kind :=')
  L.append('  allKinds.find? (fun k => kindName k == s)')
  L.append('')
  L.append('/-- T-GATE: permissions demanded by `_CodeValidator.generic_visit` per node class. -/')
  L.append('def gate : Kind → List Perm')
  for n in names:
    if gate_of[n]:
      L.append(f'  | .{n} => [' + ', '.join('.' + p for p in gate_of[n]) + ']')
  L.append('  | _ => []')
  L.append('')
  L.append('/-- Statement classes that `evaluate` splits off as "last expression". -/')
  L.append('def splitKinds : List Kind := [' + ', '.join('.' + n for n in split_kinds) + ']')
  L.append('')
  L.append('def isStmt : Kind → Bool')
  for n in names:
    if is_stmt[n]:
      L.append(f'  | .{n} => true')
  L.append('  | _ => false')
  L.append('')
  L.append('/-- How `evaluate` combines the explicit `permission=` argument with the scope. -/')
  L.append(f'def effectiveRule : EffRule := .{ev["effective"]}')
  L.append('')
  L.append('/-- Static exception lists, from findings/known_findings.json (never from the source). -/')
  L.append('def knownUngated : List Kind := [' + ', '.join('.' + n for n in ungated_known if n in gate_of) + ']')
  L.append('def knownSplit : List Kind := [' + ', '.join('.' + n for n in split_known if n in gate_of) + ']')
  L.append('')
  L.append('end Pg.C19')
  L.append('')
  sidecar = {
      'python': '.'.join(map(str, __import__('sys').version_info[:3])),
      'sources': {PARSING: common.sha(PARSING), EXECUTION: common.sha(EXECUTION),
                  PERMISSIONS: common.sha(PERMISSIONS)},
      'kinds': len(names),
      'gates': [{'flag': f, 'classes': c, 'line': l} for f, c, l in gates],
      'evaluate': ev,
      'split_kinds': split_kinds,
  }
  changed = common.write_gen('C19Tables', '\n'.join(L), sidecar)
  return {'changed': changed, 'sidecar': sidecar}


if __name__ == '__main__':
  import json
  print(json.dumps(run()['sidecar'], indent=1))
