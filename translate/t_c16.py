"""T-LOCK: regenerate lean/PgGen/C16Lock.lean from pyglove/core/tuning/local_backend.py,
pyglove/core/geno/dna_generator.py and pyglove/ext/evolution/base.py (pure `ast` matching; pyglove is
never imported).

For every shared-state read/write of the sampling loop (the *sites* below) the translator records
the chain of enclosing `with <lock>:` statements. A *region* (check-then-act sequence) is atomic
iff all its sites lie inside ONE common `with` statement on the right lock. The flags become the
Lean record `cfgNow : LockCfg`; the site table (file, function, line span, kind, locks) goes into
the JSON side-car and is what the baton scheduler of harness/c16.py uses (a) to label the events of
a real run and (b) to bias preemption to unprotected accesses.

Any statement of an anchored function that touches shared state and is not matched by a site
pattern, or a site that is missing / duplicated, raises TranslatorError (= broken tie).
"""

import ast
import hashlib
import json
import os
import re

from . import common
from .common import TranslatorError

LB = 'pyglove/core/tuning/local_backend.py'
GEN = 'pyglove/core/geno/dna_generator.py'
EVO = 'pyglove/ext/evolution/base.py'

# (class, function) -> [(kind, stmt-kind, regex on the unparsed statement / if-test)]
# stmt-kind: 'if' (test of an if), 'assign', 'aug', 'expr', 'return', 'raise'
SITES = {
    (LB, '_InMemoryBackend', '__init__'): [
        ('goc.test', 'if', r'not in _in_memory_results'),
        ('goc.new', 'assign', r'^study = _InMemoryResult\('),
        ('goc.register', 'assign', r'^_in_memory_results\[name\] = study$'),
        ('goc.fetch', 'assign', r'^study = _in_memory_results\[name\]$'),
        ('setup.test', 'if', r'^algorithm\.dna_spec is None$'),
        ('setup.do', 'expr', r'^algorithm\.setup\('),
    ],
    (LB, '_InMemoryBackend', 'next'): [
        ('next.active', 'if', r'^not self\._study\.is_active$'),
        ('next.latest', 'assign', r'^trial = self\._study\.get_latest_trial\(self\._group_id\)$'),
        ('next.status', 'if', r"trial\.status != 'PENDING'"),
        ('next.create', 'assign', r'^trial = self\._study\.create_trial\(next_dna, self\._group_id\)$'),
        ('next.ret', 'return', r'^return self\._create_feedback\(self\._study, trial\)$'),
    ],
    (LB, '_InMemoryBackend', '_feedback'): [
        ('bf.reward', 'assign', r'^reward = trial\.get_reward_for_feedback\('),
        ('bf.call', 'expr', r'^self\._algorithm\.feedback\(dna, reward\)$'),
    ],
    (LB, '_InMemoryResult', 'create_trial'): [
        ('ct.check', 'if', r'_max_num_trials'),
        ('ct.new', 'assign', r'^trial = Trial\(id=self\.next_trial_id\(\), dna=dna_fn\(\)'),
        ('ct.append', 'expr', r'^self\._trials\.append\(trial\)$'),
        ('ct.pending', 'aug', r"^self\._num_trials_by_status\['PENDING'\] \+= 1$"),
        ('ct.latest', 'assign', r'^self\._latest_trial_per_group\[group_id\] = trial$'),
    ],
    (LB, '_InMemoryResult', '_complete_trial'): [
        ('cp.completed', 'aug', r"^self\._num_trials_by_status\['COMPLETED'\] \+= 1$"),
        ('cp.pending', 'aug', r"^self\._num_trials_by_status\['PENDING'\] -= 1$"),
        ('cp.inftest', 'if', r'^trial\.infeasible$'),
        ('cp.infeasible', 'aug', r'^self\._num_infeasible \+= 1$'),
        ('cp.bestread', 'assign', r'^best = self\._best_trial$'),
        ('cp.besttest', 'if', r'^best is None or'),
        ('cp.bestwrite', 'assign', r'^self\._best_trial = trial$'),
        ('cp.time', 'assign', r'^self\._last_update_time = '),
    ],
    (LB, '_InMemoryResult', '_set_active'): [
        ('end.set', 'assign', r'^self\._is_active = active$'),
    ],
    (LB, '_InMemoryFeedback', '_add_measurement'): [
        ('am.status', 'if', r"^self\._trial\.status != 'PENDING'$"),
        ('am.append', 'expr', r'^self\._trial\.measurements\.append\('),
    ],
    (LB, '_InMemoryFeedback', 'done'): [
        ('done.status', 'if', r"^self\._trial\.status == 'PENDING'$"),
        ('done.hasmeas', 'if', r'^not self\._trial\.measurements$'),
        ('done.set', 'assign', r"^self\._trial\.status = 'COMPLETED'$"),
        ('done.final', 'assign', r'^self\._trial\.final_measurement = self\._trial\.measurements\[-1\]$'),
        ('done.feedback', 'expr', r'^self\._feedback_fn\(self\.dna, self\._trial\)$'),
        ('done.meta', 'expr', r'^self\._trial\.metadata\.update\('),
        ('done.complete', 'expr', r'^self\._study\._complete_trial\(self\._trial\)$'),
    ],
    (LB, '_InMemoryFeedback', 'skip'): [
        ('skip.status', 'if', r"^self\._trial\.status == 'PENDING'$"),
        ('skip.set', 'assign', r"^self\._trial\.status = 'COMPLETED'$"),
        ('skip.infeasible', 'assign', r'^self\._trial\.infeasible = True$'),
        ('skip.final', 'assign', r'^self\._trial\.final_measurement = Measurement\('),
        ('skip.complete', 'expr', r'^self\._study\._complete_trial\(self\._trial\)$'),
    ],
    (GEN, 'DNAGenerator', 'propose'): [
        ('pr.call', 'assign', r'^dna = self\._propose\(\)$'),
        ('pr.count', 'aug', r'^self\._num_proposals \+= 1$'),
    ],
    (GEN, 'DNAGenerator', 'feedback'): [
        ('fb.call', 'expr', r'^self\._feedback\(dna, reward\)$'),
        ('fb.count', 'aug', r'^self\._num_feedbacks \+= 1$'),
    ],
}

# Statements of these functions that mention one of these names must be a site.
SHARED = {
    (LB, '_InMemoryBackend', '__init__'): r'_in_memory_results\b|algorithm\.setup|algorithm\.dna_spec is None',
    (LB, '_InMemoryBackend', 'next'): r'self\._study\.|trial\.status',
    (LB, '_InMemoryBackend', '_feedback'): r'self\._algorithm\.',
    (LB, '_InMemoryResult', 'create_trial'):
        r'self\._(trials|num_trials_by_status|latest_trial_per_group|num_infeasible|best_trial)\b|next_trial_id|dna_fn',
    (LB, '_InMemoryResult', '_complete_trial'):
        r'self\._(trials|num_trials_by_status|latest_trial_per_group|num_infeasible|best_trial)\b|trial\.infeasible',
    (LB, '_InMemoryResult', '_set_active'): r'self\._is_active',
    (LB, '_InMemoryFeedback', '_add_measurement'): r'self\._trial\.(status|measurements)',
    (LB, '_InMemoryFeedback', 'done'):
        r'self\._trial\.(status|measurements|final_measurement|infeasible)|self\._feedback_fn|self\._study\.',
    (LB, '_InMemoryFeedback', 'skip'):
        r'self\._trial\.(status|measurements|final_measurement|infeasible)|self\._feedback_fn|self\._study\.',
    (GEN, 'DNAGenerator', 'propose'): r'self\._num_proposals|self\._propose\(',
    (GEN, 'DNAGenerator', 'feedback'): r'self\._num_feedbacks|self\._feedback\(',
}

OPTIONAL = {'goc.new', 'cp.time', 'done.meta', 'bf.reward', 'next.ret', 'done.hasmeas', 'cp.inftest',
            'cp.besttest'}

EVO_SHARED = r'self\._(pending_proposals|population|population_initialized|init_population_generator)\b|self\._evolve\('


def _lock_ctor(value):
  """'Lock' / 'RLock' if `value` is `threading.Lock()` / `threading.RLock()`."""
  if (isinstance(value, ast.Call) and isinstance(value.func, ast.Attribute)
      and isinstance(value.func.value, ast.Name) and value.func.value.id == 'threading'
      and value.func.attr in ('Lock', 'RLock') and not value.args and not value.keywords):
    return value.func.attr
  return None


def module_locks(tree):
  out = {}
  for s in tree.body:
    if isinstance(s, ast.Assign) and len(s.targets) == 1 and isinstance(s.targets[0], ast.Name):
      k = _lock_ctor(s.value)
      if k:
        out[s.targets[0].id] = k
  return out


def instance_lock(cls, init_name='__init__', attr='_lock'):
  fn = common.find_func(cls, init_name)
  for n in ast.walk(fn):
    if (isinstance(n, ast.Assign) and len(n.targets) == 1 and isinstance(n.targets[0], ast.Attribute)
        and isinstance(n.targets[0].value, ast.Name) and n.targets[0].value.id == 'self'
        and n.targets[0].attr == attr):
      k = _lock_ctor(n.value)
      if k:
        return k
  return None


class Walker:
  """Yields (stmt-kind, text, first line, last line, chain of enclosing lock-`with`s)."""

  def __init__(self, cls_name, mod_locks):
    self.cls_name = cls_name
    self.mod_locks = mod_locks

  def lock_of(self, expr):
    src = ast.unparse(expr)
    if src == 'self._lock':
      return {'_InMemoryResult': 'study', 'Evolution': 'evolution'}.get(self.cls_name)
    if src == 'self._study._lock':
      return 'study'
    if isinstance(expr, ast.Name) and expr.id in self.mod_locks:
      return 'registry'
    return None

  def walk(self, body, withs):
    for s in body:
      if isinstance(s, (ast.With, ast.AsyncWith)):
        locks = [self.lock_of(i.context_expr) for i in s.items]
        locks = [l for l in locks if l]
        if len(locks) > 1:
          raise TranslatorError(f'line {s.lineno}: several locks in one with statement')
        yield from self.walk(s.body, withs + ([(s, locks[0])] if locks else []))
      elif isinstance(s, ast.If):
        yield ('if', ast.unparse(s.test), s.lineno, s.test.end_lineno, withs, s)
        yield from self.walk(s.body, withs)
        yield from self.walk(s.orelse, withs)
      elif isinstance(s, ast.Try):
        yield from self.walk(s.body, withs)
        for h in s.handlers:
          yield from self.walk(h.body, withs)
        yield from self.walk(s.orelse, withs)
        yield from self.walk(s.finalbody, withs)
      elif isinstance(s, (ast.For, ast.While)):
        hdr = s.iter if isinstance(s, ast.For) else s.test
        yield ('loop', ast.unparse(hdr), s.lineno, hdr.end_lineno, withs, s)
        yield from self.walk(s.body, withs)
        yield from self.walk(s.orelse, withs)
      elif isinstance(s, (ast.FunctionDef, ast.AsyncFunctionDef, ast.ClassDef)):
        continue
      else:
        kind = {ast.Assign: 'assign', ast.AugAssign: 'aug', ast.Expr: 'expr', ast.Return: 'return',
                ast.Raise: 'raise', ast.AnnAssign: 'assign', ast.Delete: 'del'}.get(type(s), 'other')
        if kind == 'expr' and isinstance(s.value, ast.Constant):
          continue      # docstring
        yield (kind, ast.unparse(s), s.lineno, s.end_lineno, withs, s)


def fingerprint(fn):
  """Hash of a function's code, docstring and position information excluded."""
  body = [b for b in fn.body if not (isinstance(b, ast.Expr) and isinstance(b.value, ast.Constant))]
  text = '\n'.join(ast.dump(b, annotate_fields=True, include_attributes=False) for b in body)
  return hashlib.sha256((ast.dump(fn.args) + text).encode('utf-8')).hexdigest()[:16]


def extract_sites(trees, mod_locks, problems, fingerprints):
  """Best effort: whatever cannot be matched is recorded in `problems` (strict callers raise on the
  first one) and, for statements touching shared state, as a site of kind `unk:<func>:<line>`."""
  sites = []
  for (rel, cls_name, fn_name), pats in SITES.items():
    try:
      cls = common.find_class(trees[rel], cls_name)
      fn = common.find_func(cls, fn_name)
    except TranslatorError as e:
      problems.append(f'{rel}: {e}')
      continue
    fingerprints[f'{rel}:{cls_name}.{fn_name}'] = fingerprint(fn)
    found = {}
    unknown = []
    shared = re.compile(SHARED[(rel, cls_name, fn_name)])
    try:
      stmts = list(Walker(cls_name, mod_locks[rel]).walk(fn.body, []))
    except TranslatorError as e:
      problems.append(f'{rel} {cls_name}.{fn_name}: {e}')
      continue
    for kind, text, l0, l1, withs, node in stmts:
      text1 = ' '.join(text.split())
      hit = None
      for site, skind, rx in pats:
        if skind == kind and re.search(rx, text1):
          hit = site
          break
      rec = {'file': rel, 'cls': cls_name, 'func': fn_name, 'line': l0, 'end': l1,
             'locks': [l for _, l in withs], '_withs': [id(w) for w, _ in withs], 'stmt': kind}
      if hit is None:
        if kind in ('raise',):
          continue
        if shared.search(text1):
          problems.append(
              f'{rel}:{l0} {cls_name}.{fn_name}: statement touches shared state but matches no known '
              f'site: `{text1[:90]}`')
          unknown.append(dict(rec, kind=f'unk:{fn_name}:{l0}', unknown=True, text=text1[:120]))
        continue
      if hit in found:
        problems.append(f'{rel}:{l0} {cls_name}.{fn_name}: site {hit} occurs twice')
        unknown.append(dict(rec, kind=f'unk:{fn_name}:{l0}', unknown=True, text=text1[:120]))
        continue
      found[hit] = dict(rec, kind=hit)
    for site, _, _ in pats:
      if site not in found and site not in OPTIONAL:
        problems.append(f'{rel} {cls_name}.{fn_name}: site {site} not found (code restructured?)')
    sites += [found[s] for s, _, _ in pats if s in found] + unknown
  return sites


def region_atomic(by_kind, kinds, lock, sites=(), func=None):
  """All sites of the region (and every unrecognised shared statement of the same function) lie
  inside one common `with` on `lock`; a missing (non-optional) site makes the region non-atomic."""
  for k in kinds:
    if k not in by_kind and k not in OPTIONAL:
      return False
  ss = [by_kind[k] for k in kinds if k in by_kind]
  if func is not None:
    ss += [x for x in sites if x.get('unknown') and (x['cls'], x['func']) == func]
  if not ss:
    return False
  common_withs = None
  for s in ss:
    ws = {w for w, l in zip(s['_withs'], s['locks']) if l == lock}
    common_withs = ws if common_withs is None else (common_withs & ws)
  return bool(common_withs)


def protected(site, locks=('study', 'registry', 'evolution')):
  return site is not None and any(l in locks for l in site['locks'])


def check_links(trees):
  """The call chains by which generator code is reached from the study's critical sections."""
  lb = trees[LB]
  be = common.find_class(lb, '_InMemoryBackend')
  # next_dna closure: `return self._algorithm.propose()`; passed to create_trial (site next.create)
  nxt = common.find_func(be, 'next')
  clos = common.find_func_opt(nxt, 'next_dna')
  if clos is None or 'return self._algorithm.propose()' not in ast.unparse(clos):
    raise TranslatorError('next(): closure next_dna returning self._algorithm.propose() not found')
  # _create_feedback passes self._feedback as third positional argument
  cf = common.find_func(be, '_create_feedback')
  ok = False
  for n in ast.walk(cf):
    if (isinstance(n, ast.Call) and isinstance(n.func, ast.Name) and n.func.id == '_InMemoryFeedback'
        and len(n.args) >= 3 and ast.unparse(n.args[2]) == 'self._feedback'):
      ok = True
  if not ok:
    raise TranslatorError('_create_feedback: _InMemoryFeedback(study, trial, self._feedback, ...) not found')
  fbc = common.find_class(lb, '_InMemoryFeedback')
  init = common.find_func(fbc, '__init__')
  if [a.arg for a in init.args.args][:4] != ['self', 'study', 'trial', 'feedback_fn'] or \
      'self._feedback_fn = feedback_fn' not in ast.unparse(init) or 'self._study = study' not in ast.unparse(init):
    raise TranslatorError('_InMemoryFeedback.__init__: (study, trial, feedback_fn) wiring not recognised')
  calls = [n for n in ast.walk(fbc) if isinstance(n, ast.Call) and ast.unparse(n.func) == 'self._feedback_fn']
  if len(calls) != 1:
    raise TranslatorError('_InMemoryFeedback: self._feedback_fn must be called exactly once (in done)')
  # create_trial / _complete_trial are reached only from next / done+skip
  mod_src = ast.unparse(lb)
  if len(re.findall(r'\.create_trial\(', mod_src)) != 1 or len(re.findall(r'\._complete_trial\(', mod_src)) != 2:
    raise TranslatorError('create_trial / _complete_trial have callers other than next / done / skip')
  # end_loop -> _set_active(False)
  el = common.find_func(fbc, 'end_loop')
  if 'self._study._set_active(False)' not in ast.unparse(el):
    raise TranslatorError('end_loop: self._study._set_active(False) not found')
  # get_latest_trial is a plain dict read, next_trial_id a plain len
  res = common.find_class(lb, '_InMemoryResult')
  if 'return self._latest_trial_per_group.get(group_id, None)' not in ast.unparse(common.find_func(res, 'get_latest_trial')):
    raise TranslatorError('get_latest_trial: body not recognised')
  if 'return len(self._trials) + 1' not in ast.unparse(common.find_func(res, 'next_trial_id')):
    raise TranslatorError('next_trial_id: body not recognised')


def best_guard(tree):
  """`self._best_trial = trial` is reached only in the else-branch of `if trial.infeasible:` and only
  under a test of the form `best is None or (… best…reward < trial…reward)`."""
  try:
    fn = common.find_func(common.find_class(tree, '_InMemoryResult'), '_complete_trial')
  except TranslatorError:
    return False
  for n in ast.walk(fn):
    if isinstance(n, ast.If) and ast.unparse(n.test) == 'trial.infeasible':
      writes_else = [m for b in n.orelse for m in ast.walk(b)
                     if isinstance(m, ast.Assign) and ast.unparse(m.targets[0]) == 'self._best_trial']
      writes_all = [m for m in ast.walk(fn)
                    if isinstance(m, ast.Assign) and ast.unparse(m.targets[0]) == 'self._best_trial']
      if not writes_else or len(writes_else) != len(writes_all):
        return False
      for b in n.orelse:
        for m in ast.walk(b):
          if isinstance(m, ast.If) and any(w in ast.walk(m) for w in writes_else):
            t = ' '.join(ast.unparse(m.test).split())
            if re.match(r'^best is None or \(?trial\.final_measurement\.reward is not None and '
                        r'best\.final_measurement\.reward < trial\.final_measurement\.reward\)?$', t):
              return True
      return False
  return False


def propose_before_bookkeeping(tree):
  """In create_trial the (single) call of the proposal callback `dna_fn()` — which may raise
  StopIteration or any error of the algorithm — happens before every write to the study's state."""
  try:
    fn = common.find_func(common.find_class(tree, '_InMemoryResult'), 'create_trial')
  except TranslatorError:
    return False
  if len(fn.args.args) < 2:
    return False
  cb = fn.args.args[1].arg
  simple = (ast.Assign, ast.AugAssign, ast.AnnAssign, ast.Expr, ast.Return, ast.Delete)
  stmts = [n for n in ast.walk(fn) if isinstance(n, simple)]
  holders = [st for st in stmts
             if any(isinstance(c, ast.Call) and isinstance(c.func, ast.Name) and c.func.id == cb
                    for c in ast.walk(st))]
  if len(holders) != 1:
    return False
  call_end = holders[0].end_lineno
  for st in stmts:
    if st is holders[0]:
      continue
    writes = False
    if isinstance(st, (ast.Assign, ast.AugAssign, ast.AnnAssign)):
      targets = st.targets if isinstance(st, ast.Assign) else [st.target]
      writes = any(ast.unparse(t).startswith('self.') for t in targets)
    elif isinstance(st, ast.Expr) and isinstance(st.value, ast.Call):
      f = ast.unparse(st.value.func)
      writes = f.startswith('self._') and f.count('.') >= 2       # self._x.append(...) etc.
    if writes and st.lineno <= call_end:
      return False
  return True


def evolution_flags(tree, mod_locks):
  cls = common.find_class(tree, 'Evolution')
  lock_kind = instance_lock(cls, '_setup')
  out = {}
  rx = re.compile(EVO_SHARED)
  for fn_name in ('_propose', '_feedback'):
    fn = common.find_func(cls, fn_name)
    touched, unprot = 0, []
    for kind, text, l0, l1, withs, node in Walker('Evolution', mod_locks).walk(fn.body, []):
      if rx.search(text):
        touched += 1
        if not any(l == 'evolution' for _, l in withs):
          unprot.append(l0)
    if touched == 0:
      raise TranslatorError(f'Evolution.{fn_name}: no access to the queue / population found')
    out[fn_name] = {'atomic': lock_kind is not None and not unprot, 'unprotected_lines': unprot}
  return lock_kind, out


# Functions without sites whose text still matters to the search target (fingerprinted only).
EXTRA_FP = [
    ('pyglove/core/tuning/sample.py', None, 'sample'),
    ('pyglove/core/tuning/protocols.py', 'Feedback', '__call__'),
    ('pyglove/core/tuning/protocols.py', 'Feedback', 'add_measurement'),
    ('pyglove/core/tuning/protocols.py', 'Trial', 'get_reward_for_feedback'),
    (LB, '_InMemoryBackend', '_create_feedback'),
    (LB, '_InMemoryResult', '__init__'),
    (LB, '_InMemoryResult', 'get_latest_trial'),
    (LB, '_InMemoryResult', 'next_trial_id'),
    (LB, '_InMemoryFeedback', '__init__'),
    (LB, '_InMemoryFeedback', 'end_loop'),
    (LB, '_InMemoryFeedback', 'should_stop_early'),
    (GEN, 'DNAGenerator', 'setup'),
]


def extract(strict=True):
  """strict: raise TranslatorError on the first unrecognised shape. Non-strict (used by the harness so
  that a broken tie never stops the failing-input search): best-effort table, conservative flags
  (a region with a missing / unrecognised shared statement outside its lock is reported non-atomic),
  `problems` lists everything that was not recognised."""
  trees, mlocks, srcs = {}, {}, {}
  for rel in (LB, GEN, EVO):
    srcs[rel], trees[rel] = common.parse_source(rel)
    mlocks[rel] = module_locks(trees[rel])
  problems, fingerprints = [], {}
  sites = extract_sites(trees, mlocks, problems, fingerprints)
  links_ok = True
  try:
    check_links(trees)
  except TranslatorError as e:
    problems.append(str(e))
    links_ok = False
  for rel, cls_name, fn_name in EXTRA_FP:
    try:
      tree = trees[rel] if rel in trees else common.parse_source(rel)[1]
      node = common.find_class(tree, cls_name) if cls_name else tree
      fingerprints[f'{rel}:{cls_name or ""}.{fn_name}'] = fingerprint(common.find_func(node, fn_name))
    except (TranslatorError, OSError) as e:
      problems.append(f'{rel} {cls_name}.{fn_name}: {e}')
  by_kind = {s['kind']: s for s in sites}
  g = by_kind.get
  study_lock = None
  try:
    study_lock = instance_lock(common.find_class(trees[LB], '_InMemoryResult'))
  except TranslatorError as e:
    problems.append(str(e))
  if study_lock is None:
    problems.append('_InMemoryResult.__init__: self._lock = threading.Lock()/RLock() not found')
  try:
    evo_lock, evo = evolution_flags(trees[EVO], mlocks[EVO])
    cls = common.find_class(trees[EVO], 'Evolution')
    for fn_name in ('_propose', '_feedback'):
      fingerprints[f'{EVO}:Evolution.{fn_name}'] = fingerprint(common.find_func(cls, fn_name))
  except TranslatorError as e:
    problems.append(str(e))
    evo_lock, evo = None, {'_propose': {'atomic': False, 'unprotected_lines': []},
                           '_feedback': {'atomic': False, 'unprotected_lines': []}}

  def ra(kinds, lock, func):
    return region_atomic(by_kind, kinds, lock, sites, func)

  flags = {
      'getOrCreateAtomic': ra(['goc.test', 'goc.register', 'goc.fetch'], 'registry', ('_InMemoryBackend', '__init__')),
      'algoSetupAtomic': region_atomic(by_kind, ['setup.test', 'setup.do'], 'registry'),
      'nextReuseAtomic': ra(['next.latest', 'next.status', 'next.create'], 'study', ('_InMemoryBackend', 'next')),
      'createTrialAtomic': ra(['ct.check', 'ct.new', 'ct.append', 'ct.pending', 'ct.latest'], 'study',
                              ('_InMemoryResult', 'create_trial')),
      'completeTrialAtomic': ra(['cp.completed', 'cp.pending', 'cp.inftest', 'cp.infeasible', 'cp.bestread',
                                 'cp.besttest', 'cp.bestwrite'], 'study', ('_InMemoryResult', '_complete_trial')),
      'doneCheckAndSetAtomic': ra(['done.status', 'done.hasmeas', 'done.set', 'done.final', 'done.feedback',
                                   'done.complete'], 'study', ('_InMemoryFeedback', 'done')),
      'skipCheckAndSetAtomic': ra(['skip.status', 'skip.set', 'skip.infeasible', 'skip.final', 'skip.complete'],
                                  'study', ('_InMemoryFeedback', 'skip')),
      'addMeasurementAtomic': ra(['am.status', 'am.append'], 'study', ('_InMemoryFeedback', '_add_measurement')),
      # `_num_feedbacks += 1`: under a lock lexically, or reached only through done.feedback -> bf.call
      # (links verified by check_links) which is inside the study lock.
      'generatorCountersAtomic': protected(g('fb.count')) or (links_ok and (
          protected(g('done.feedback'), ('study',)) or protected(g('bf.call'), ('study',)))),
      'evolutionProposeAtomic': evo['_propose']['atomic'],
      'evolutionFeedbackAtomic': evo['_feedback']['atomic'],
      'proposeBeforeBookkeeping': propose_before_bookkeeping(trees[LB]),
  }
  # A region whose only callers (verified by check_links) call it inside the study lock is atomic
  # even if its own `with` is narrowed.
  if links_ok and flags['nextReuseAtomic'] and 'ct.append' in by_kind:
    flags['createTrialAtomic'] = True
  if links_ok and flags['doneCheckAndSetAtomic'] and flags['skipCheckAndSetAtomic'] and 'cp.completed' in by_kind:
    flags['completeTrialAtomic'] = True
  propose_counter_atomic = protected(g('pr.count')) or (links_ok and protected(g('ct.new'), ('study',)))
  # A study-lock `with` around a call of create_trial / _complete_trial (which take the lock
  # themselves) needs a reentrant lock.
  nested = [k for k in ('next.create', 'done.complete', 'skip.complete')
            if k in by_kind and 'study' in by_kind[k]['locks'] and (
                protected(g('ct.append'), ('study',)) if k == 'next.create'
                else protected(g('cp.completed'), ('study',)))]
  nesting_ok = (not nested) or study_lock == 'RLock'
  for s in sites:
    del s['_withs']
  info = {
      'flags': flags,
      'proposeCounterAtomic': propose_counter_atomic,
      'studyLock': study_lock, 'evolutionLock': evo_lock, 'registryLocks': sorted(mlocks[LB]),
      'nestedAcquisitions': nested, 'studyLockNestingOk': nesting_ok,
      'bestGuardOk': best_guard(trees[LB]),
      'evolution': evo,
      'sites': sites,
      'problems': problems,
      'fingerprints': fingerprints,
      'sources': {rel: common.sha(rel) for rel in (LB, GEN, EVO)},
  }
  if strict and problems:
    raise TranslatorError(problems[0])
  return info


REF = 'C16LockRef.json'


def intact(info):
  return (not info['problems'] and all(info['flags'].values()) and info['proposeCounterAtomic']
          and info['studyLockNestingOk'] and info['bestGuardOk'])


def changed_functions(info):
  """Anchored functions whose code differs from the reference table (written the last time the tie
  was intact): [[file, function name], ...]. What the failing-input search aims at."""
  path = os.path.join(common.GEN_DIR, REF)
  if not os.path.exists(path):
    return []
  with open(path) as f:
    ref = json.load(f)
  out = []
  cur = info['fingerprints']
  for key in sorted(set(ref['fingerprints']) | set(cur)):
    if ref['fingerprints'].get(key) != cur.get(key):
      rel, qual = key.split(':')
      out.append([rel, qual.split('.')[-1]])
  # a changed lock kind shows up in the constructor, not in an anchored function
  if ref.get('studyLock') != info['studyLock'] or ref.get('registryLocks') != info['registryLocks']:
    out += [[LB, 'create_trial'], [LB, '_complete_trial'], [LB, 'done'], [LB, 'skip'], [LB, 'next'], [LB, '__init__']]
  return out


FLAG_ORDER = ['getOrCreateAtomic', 'algoSetupAtomic', 'nextReuseAtomic', 'createTrialAtomic',
              'completeTrialAtomic', 'doneCheckAndSetAtomic', 'skipCheckAndSetAtomic', 'addMeasurementAtomic',
              'generatorCountersAtomic', 'evolutionProposeAtomic', 'evolutionFeedbackAtomic',
              'proposeBeforeBookkeeping']


def run():
  info = extract(strict=False)
  L = []
  L.append('/- GENERATED by translate/t_c16.py (T-LOCK) from')
  L.append(f'   {LB}, {GEN}, {EVO}. Do not edit. -/')
  L.append('import PgModel.Conc')
  L.append('namespace Pg.C16')
  L.append('')
  L.append('/-- Which regions of the current source run under one lock hold. -/')
  L.append('def cfgNow : LockCfg where')
  for f in FLAG_ORDER:
    L.append(f'  {f} := {common.lean_bool(info["flags"][f])}')
  L.append('')
  L.append('/-- `_num_proposals += 1` is serialised (lexically or via create_trial\'s lock). -/')
  L.append(f'def proposeCounterAtomicNow : Bool := {common.lean_bool(info["proposeCounterAtomic"])}')
  L.append('')
  L.append('/-- Nested acquisitions of the study lock (a `with` on it around create_trial /')
  L.append('_complete_trial) happen only if the lock is reentrant. -/')
  L.append(f'def studyLockNestingOkNow : Bool := {common.lean_bool(info["studyLockNestingOk"])}')
  L.append('')
  L.append('/-- `_best_trial` is written only in the else-branch of `if trial.infeasible` under the test')
  L.append('`best is None or best.reward < trial.reward` (what `Study.complete` / `Study.better` model). -/')
  L.append(f'def bestGuardOkNow : Bool := {common.lean_bool(info["bestGuardOk"])}')
  L.append('')
  L.append('end Pg.C16')
  L.append('')
  sidecar = dict(info)
  # Written also when the pattern match failed (conservative flags), so that the named obligation
  # `C16_locks_now` breaks and the driver is compiled with the flags the harness uses.
  changed = common.write_gen('C16Lock', '\n'.join(L), sidecar)
  if intact(info):
    common.write_if_changed(
        os.path.join(common.GEN_DIR, REF),
        json.dumps({'fingerprints': info['fingerprints'], 'studyLock': info['studyLock'],
                    'registryLocks': info['registryLocks'], 'sources': info['sources']},
                   indent=1, sort_keys=True) + '\n')
  if info['problems']:
    raise TranslatorError('; '.join(info['problems'][:3]))
  return {'changed': changed, 'sidecar': sidecar}


if __name__ == '__main__':
  i = extract(strict=False)
  print(json.dumps({k: v for k, v in i.items() if k != 'sites'}, indent=1))
  print('changed functions:', changed_functions(i))
  for s in i['sites']:
    print('%-16s %s:%d-%d %s.%s locks=%s' % (s['kind'], s['file'].split('/')[-1], s['line'], s['end'], s['cls'],
                                            s['func'], s['locks']))
