"""T-GUARD facts for C03, extracted with `ast` from pyglove/core/symbolic/list.py and dict.py.

For every mutating entry point of a typed pg.List: does every value it stores pass through the
write primitive `_set_item_without_permission_check` (directly, through another pg.List mutator,
or through `_set_item_of_current_tree`), does it bypass the primitive with a raw `list` growth call,
and — for shrinking entry points — is `min_size` consulted (directly or through `__delitem__` /
`clear`).  For the primitive itself: it consults `max_size` and formalizes the value; the formalizer
applies the element spec.  Same for the typed pg.Dict primitive.  The facts are written to
lean/PgGen/C03Tables.lean; PgProps/C03.lean discharges the obligations over them by `decide`.
"""

import ast

from translate import common

LIST_PY = 'pyglove/core/symbolic/list.py'
DICT_PY = 'pyglove/core/symbolic/dict.py'
BASE_PY = 'pyglove/core/symbolic/base.py'
PRIM = '_set_item_without_permission_check'
GROWERS = ['append', 'insert', 'extend', '__setitem__', '__iadd__', '__imul__', '_sym_rebind']
SHRINKERS = ['__delitem__', 'pop', 'remove', 'clear']
RAW_GROW = {'append', 'insert', 'extend', '__setitem__', '__iadd__', '__imul__'}
RAW_SHRINK = {'__delitem__', 'pop', 'remove', 'clear'}


class Facts(ast.NodeVisitor):
  """Self-method calls, raw builtin-list calls, attribute names mentioned in one function body."""

  def __init__(self):
    self.self_calls = set()
    self.raw_calls = set()
    self.attrs = set()

  def visit_Call(self, node):
    f = node.func
    if isinstance(f, ast.Attribute):
      if isinstance(f.value, ast.Name) and f.value.id == 'self':
        self.self_calls.add(f.attr)
      elif isinstance(f.value, ast.Call) and isinstance(f.value.func, ast.Name) and f.value.func.id == 'super':
        self.raw_calls.add(f.attr)
      elif isinstance(f.value, ast.Name) and f.value.id == 'list':
        self.raw_calls.add(f.attr)
    self.generic_visit(node)

  def visit_Attribute(self, node):
    self.attrs.add(node.attr)
    self.generic_visit(node)

  def visit_Delete(self, node):
    for t in node.targets:
      if isinstance(t, ast.Subscript) and isinstance(t.value, ast.Name) and t.value.id == 'self':
        self.self_calls.add('__delitem__')
    self.generic_visit(node)

  def visit_Assign(self, node):
    for t in node.targets:
      if isinstance(t, ast.Subscript) and isinstance(t.value, ast.Name) and t.value.id == 'self':
        self.self_calls.add('__setitem__')
    self.generic_visit(node)


def facts_of(cls, name):
  fn = common.find_func(cls, name)
  f = Facts()
  for stmt in fn.body:
    f.visit(stmt)
  return f


def reaches(cls, start, targets, seen=None):
  """Does `start` call one of `targets` (transitively through methods of the same class)?"""
  seen = seen or set()
  if start in seen:
    return False
  seen.add(start)
  fn = common.find_func_opt(cls, start)
  if fn is None:
    return False
  f = facts_of(cls, start)
  if f.self_calls & set(targets):
    return True
  return any(reaches(cls, c, targets, seen) for c in f.self_calls if common.find_func_opt(cls, c) is not None)


def run():
  _, ltree = common.parse_source(LIST_PY)
  _, dtree = common.parse_source(DICT_PY)
  lcls = common.find_class(ltree, 'List')
  dcls = common.find_class(dtree, 'Dict')
  for name in GROWERS + SHRINKERS + [PRIM, '_formalized_value']:
    common.find_func(lcls, name)          # restructured source = broken tie
  prim = facts_of(lcls, PRIM)
  form = facts_of(lcls, '_formalized_value')
  growers = []
  for name in GROWERS:
    f = facts_of(lcls, name)
    via_prim = reaches(lcls, name, [PRIM, '_set_item_of_current_tree'])
    bypass = bool(f.raw_calls & RAW_GROW)
    growers.append((name, via_prim, bypass))
  shrinkers = []
  for name in SHRINKERS:
    f = facts_of(lcls, name)
    direct = 'min_size' in f.attrs
    via = name != '__delitem__' and reaches(lcls, name, ['__delitem__', 'clear']) and (
        'min_size' in facts_of(lcls, '__delitem__').attrs)
    shrinkers.append((name, direct or via))
  # F185 repair: the container created for a frozen field / candidate is sealed
  _, btree = common.parse_source(BASE_PY)
  tf = common.find_func(btree, 'symbolic_transform_fn')
  seals = False
  for node in ast.walk(tf):
    if isinstance(node, ast.If):
      test_attrs = {n.attr for n in ast.walk(node.test) if isinstance(n, ast.Attribute)}
      body_calls = {n.func.attr for b in node.body for n in ast.walk(b)
                    if isinstance(n, ast.Call) and isinstance(n.func, ast.Attribute)}
      if 'frozen' in test_attrs and 'seal' in body_calls:
        seals = True
  # F220 repair: a key of the wrong type is a KeyError, not an assert
  pfn = common.find_func(lcls, PRIM)
  has_assert = any(isinstance(n, ast.Assert) for n in ast.walk(pfn))
  # C01-F225 repair: `__setitem__` refuses an extended slice of the wrong size (ValueError) before it
  # formalizes any value -- the model's `setslice` reports errors in that order
  sfn = common.find_func(lcls, '__setitem__')
  form_lines = [n.lineno for n in ast.walk(sfn) if isinstance(n, ast.Call) and
                isinstance(n.func, ast.Attribute) and n.func.attr == '_formalized_value']
  size_raises = [n.lineno for n in ast.walk(sfn) if isinstance(n, ast.If) and
                 any(isinstance(x, ast.Name) and x.id == 'slice_size' for x in ast.walk(n.test)) and
                 any(isinstance(b, ast.Raise) and isinstance(b.exc, ast.Call) and
                     getattr(b.exc.func, 'id', None) == 'ValueError' for b in n.body)]
  size_first = bool(form_lines) and bool(size_raises) and min(size_raises) < min(form_lines)
  raises_key = any(isinstance(n, ast.Raise) and isinstance(n.exc, ast.Call) and
                   getattr(n.exc.func, 'id', None) == 'KeyError' for n in ast.walk(pfn))
  dprim = facts_of(dcls, PRIM)
  dform = facts_of(dcls, '_formalized_value')
  dict_writers = []
  for name in ['__setitem__', '__delitem__', '_sym_rebind', 'update', 'setdefault', 'pop', '__ior__']:
    common.find_func(dcls, name)
    f = facts_of(dcls, name)
    dict_writers.append((name, reaches(dcls, name, [PRIM, '_set_item_of_current_tree', 'rebind']),
                         bool(f.raw_calls & {'__setitem__', 'update', 'setdefault', '__ior__', 'pop', 'popitem', '__delitem__'})))
  L = common.lean_list
  S = common.lean_str
  B = common.lean_bool
  lean = '\n'.join([
      '/- GENERATED by translate/t_c03.py from %s and %s — do not edit. -/' % (LIST_PY, DICT_PY),
      'namespace Pg.C03.Gen',
      '',
      '/-- `List._set_item_without_permission_check` mentions `max_size`. -/',
      'def listPrimChecksMax : Bool := %s' % B('max_size' in prim.attrs),
      '/-- … and obtains the stored value from `_formalized_value`. -/',
      'def listPrimFormalizes : Bool := %s' % B('_formalized_value' in prim.self_calls),
      '/-- `List._formalized_value` calls `….element.apply(…)`. -/',
      'def listFormalizeApplies : Bool := %s' % B('apply' in form.attrs and 'element' in form.attrs),
      '/-- (entry point, every stored value goes through the write primitive, bypasses it with a raw `list` call). -/',
      'def listGrowers : List (String × Bool × Bool) := %s' % L(['(%s, %s, %s)' % (S(n), B(a), B(b)) for n, a, b in growers]),
      '/-- (entry point, consults `min_size` directly or through `__delitem__` / `clear`). -/',
      'def listShrinkers : List (String × Bool) := %s' % L(['(%s, %s)' % (S(n), B(a)) for n, a in shrinkers]),
      '/-- `symbolic_transform_fn` seals the container it creates for a frozen field / candidate. -/',
      'def frozenChildSealed : Bool := %s' % B(seals),
      '/-- The list write primitive rejects a non-integer key with KeyError (no `assert`). -/',
      'def listPrimBadKeyIsKeyError : Bool := %s' % B(raises_key and not has_assert),
      '/-- `__setitem__(slice)`: the size of an extended slice is checked before any value is formalized. -/',
      'def sliceSizeCheckedFirst : Bool := %s' % B(size_first),
      '/-- `Dict._set_item_without_permission_check` looks the field up and formalizes the value. -/',
      'def dictPrimFormalizes : Bool := %s' % B('_formalized_value' in dprim.self_calls and 'get_field' in dprim.attrs),
      'def dictFormalizeApplies : Bool := %s' % B('apply' in dform.attrs),
      '/-- (entry point, routes through the write primitive / rebind, bypasses it with a raw `dict` call). -/',
      'def dictWriters : List (String × Bool × Bool) := %s' % L(['(%s, %s, %s)' % (S(n), B(a), B(b)) for n, a, b in dict_writers]),
      '',
      'end Pg.C03.Gen',
      '',
  ])
  sidecar = {'sources': {LIST_PY: common.sha(LIST_PY), DICT_PY: common.sha(DICT_PY), BASE_PY: common.sha(BASE_PY)},
             'frozen_child_sealed': seals, 'list_bad_key_keyerror': raises_key and not has_assert,
             'slice_size_checked_first': size_first,
             'growers': growers, 'shrinkers': shrinkers, 'dict_writers': dict_writers}
  changed = common.write_gen('C03Tables', lean, sidecar)
  return {'changed': changed, 'sidecar': sidecar}


if __name__ == '__main__':
  import json
  print(json.dumps(run()['sidecar'], indent=1))
