"""stub (replaced below)"""
def run():
  return {'changed': False, 'sidecar': {'sources': {}}}
