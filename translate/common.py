"""Shared helpers of the translators (stdlib only; pyglove is never imported here)."""

import ast
import hashlib
import json
import os

REPO = os.environ.get('VERIF_REPO', '/repo')
VERIF = os.path.dirname(os.path.dirname(os.path.abspath(__file__)))
GEN_DIR = os.path.join(VERIF, 'lean', 'PgGen')


class TranslatorError(Exception):
  """The expected source pattern was not found: the tie is broken (never silent success)."""


def repo_path(rel):
  return os.path.join(REPO, rel)


def read_source(rel):
  with open(repo_path(rel), 'r', encoding='utf-8') as f:
    return f.read()


def parse_source(rel):
  src = read_source(rel)
  try:
    return src, ast.parse(src)
  except SyntaxError as e:
    raise TranslatorError(f'{rel}: does not parse: {e}') from e


def sha(rel):
  return hashlib.sha256(read_source(rel).encode('utf-8')).hexdigest()[:16]


def find_class(tree, name):
  for n in ast.walk(tree):
    if isinstance(n, ast.ClassDef) and n.name == name:
      return n
  raise TranslatorError(f'class {name} not found')


def find_func(node, name):
  for n in node.body:
    if isinstance(n, (ast.FunctionDef, ast.AsyncFunctionDef)) and n.name == name:
      return n
  raise TranslatorError(f'function {name} not found in {getattr(node, "name", "module")}')


def find_func_opt(node, name):
  for n in node.body:
    if isinstance(n, (ast.FunctionDef, ast.AsyncFunctionDef)) and n.name == name:
      return n
  return None


def write_if_changed(path, content):
  """Atomic write; leaves the file untouched (and lake's trace valid) if nothing changed."""
  old = None
  if os.path.exists(path):
    with open(path, 'r', encoding='utf-8') as f:
      old = f.read()
  if old == content:
    return False
  tmp = path + '.tmp.%d' % os.getpid()
  with open(tmp, 'w', encoding='utf-8') as f:
    f.write(content)
  os.replace(tmp, path)
  return True


def write_gen(name, lean_text, sidecar):
  """Writes lean/PgGen/<name>.lean and its JSON side-car."""
  os.makedirs(GEN_DIR, exist_ok=True)
  changed = write_if_changed(os.path.join(GEN_DIR, name + '.lean'), lean_text)
  write_if_changed(
      os.path.join(GEN_DIR, name + '.json'),
      json.dumps(sidecar, indent=1, sort_keys=True) + '\n')
  return changed


def lean_str(s):
  out = ['"']
  for ch in s:
    if ch == '"':
      out.append('\\"')
    elif ch == '\\':
      out.append('\\\\')
    elif ch == '\n':
      out.append('\\n')
    elif ord(ch) < 32:
      out.append('\\x%02x' % ord(ch))
    else:
      out.append(ch)
  out.append('"')
  return ''.join(out)


def lean_list(items):
  return '[' + ', '.join(items) + ']'


def lean_bool(b):
  return 'true' if b else 'false'


def load_findings(prop=None):
  entries = []
  names = ['known_findings.json'] + ([prop + '.json'] if prop else [])
  for name in names:
    path = os.path.join(VERIF, 'findings', name)
    if os.path.exists(path):
      with open(path) as f:
        entries += json.load(f)['findings']
  if prop is not None:
    entries = [e for e in entries if e['property'] == prop]
  return entries


def known_exceptions(prop, table):
  """Static exception items recorded in known_findings.json (status 'known' only)."""
  out = []
  for e in load_findings(prop):
    if e.get('status') != 'known':
      continue
    ex = e.get('lean_exceptions') or {}
    out.extend(ex.get(table, []))
  return sorted(set(out))
