"""T-RECOVER (C15): which structural variant of `Deduping.recover/_replay` and `Evolution.recover`
does the current source have?  Extracted with `ast` (pyglove is never imported) into
lean/PgGen/C15Quirks.lean as `Pg.C15.currentQuirks`; the model driver and the property theorems are
instantiated with it, and `C15_quirks_patched` (PgProps/C15.lean) is the obligation that the source
has the repaired shape.  An unknown shape is a TranslatorError (broken tie), never a guess.
"""

import ast

from translate import common
from translate.common import TranslatorError

DEDUP = 'pyglove/core/geno/deduping.py'
EVO = 'pyglove/ext/evolution/base.py'
NSGA2 = 'pyglove/ext/evolution/nsga2.py'
REGEVO = 'pyglove/ext/evolution/regularized_evolution.py'
HILL = 'pyglove/ext/evolution/hill_climb.py'
STEPWISE = 'pyglove/ext/scalars/step_wise.py'
NEAT = 'pyglove/ext/evolution/neat.py'


def _calls(node):
  """Dotted names of everything called inside node."""
  out = []
  for n in ast.walk(node):
    if isinstance(n, ast.Call):
      try:
        out.append(ast.unparse(n.func))
      except Exception:   # pylint: disable=broad-except
        pass
  return out


def dedup_facts():
  _, tree = common.parse_source(DEDUP)
  cls = common.find_class(tree, 'Deduping')
  replay = common.find_func(cls, '_replay')
  recover = common.find_func_opt(cls, 'recover')
  rc = _calls(replay)
  if 'self._add_dna_to_cache' not in rc:
    raise TranslatorError('Deduping._replay no longer calls self._add_dna_to_cache')
  forwards = 'self.generator._replay' in rc
  if recover is None:
    if not forwards:
      raise TranslatorError('Deduping has no recover() and _replay does not forward to generator._replay')
    return True, {'replay_calls': rc, 'recover': None}
  cc = _calls(recover)
  if forwards or 'self.generator.recover' not in cc or 'super().recover' not in cc:
    raise TranslatorError('Deduping.recover/_replay: unknown shape (calls: recover=%s, _replay=%s)' % (cc, rc))
  # repaired shape: the cache is filled like on the live path
  tests = [ast.unparse(n.test) for n in ast.walk(replay) if isinstance(n, ast.If)]
  if not any('needs_feedback' in t for t in tests) or not any('reward is not None' in t for t in tests):
    raise TranslatorError('Deduping._replay: the needs_feedback / reward-is-not-None guards are gone: %s' % tests)
  return False, {'replay_calls': rc, 'recover_calls': cc, 'replay_tests': tests}


def evo_facts():
  _, tree = common.parse_source(EVO)
  cls = common.find_class(tree, 'Evolution')
  recover = common.find_func(cls, 'recover')
  loops = [n for n in ast.walk(recover) if isinstance(n, ast.For)]
  main = [l for l in loops if '_num_proposals' in ast.unparse(l)]
  if len(main) != 1:
    raise TranslatorError('Evolution.recover: expected exactly one loop counting proposals, found %d' % len(main))
  it = ast.unparse(main[0].iter)
  if it == 'history':
    proposal_order = True
  elif it.startswith('sorted(history') and 'key=' in it:
    proposal_order = False
  else:
    raise TranslatorError('Evolution.recover: unknown iteration order %r' % it)
  guards = []
  for n in ast.walk(recover):
    if isinstance(n, ast.If):
      body = ast.unparse(n)
      first = n.body[0] if n.body else None
      if first is not None and 'num_generations = generation_id' in ast.unparse(first):
        guards.append(ast.unparse(n.test))
  if len(guards) != 1:
    raise TranslatorError('Evolution.recover: assignment of num_generations from generation_id not found')
  init_bump = 'is_initial_population' not in guards[0]
  if 'generation_id > self.num_generations' not in guards[0]:
    raise TranslatorError('Evolution.recover: unknown num_generations guard %r' % guards[0])
  # "the initial population is complete": per-call count of fed-back initial DNAs, or total feedbacks
  done = [ast.unparse(n.test) for n in ast.walk(recover) if isinstance(n, ast.If)
          and '_init_population_size is not None' in ast.unparse(n.test)]
  if len(done) != 1:
    raise TranslatorError('Evolution.recover: the init-population-complete test was not found (%d)' % len(done))
  if 'len(init_population) >= self._init_population_size' in done[0]:
    per_call = True
  elif ('self.num_feedbacks >= self._init_population_size' in done[0]
        or 'self._num_feedbacks >= self._init_population_size' in done[0]):
    per_call = False
  else:
    raise TranslatorError('Evolution.recover: unknown init-population-complete test %r' % done[0])
  # the population update is applied once per replayed feedback (inside the loop)
  upd_in_loop = '_population_update(' in ast.unparse(main[0])
  upd_total = ast.unparse(recover).count('self._population_update(')
  if not upd_in_loop or upd_total != 1:
    raise TranslatorError('Evolution.recover: population_update is not applied exactly once per replayed '
                          'feedback inside the replay loop (in loop: %s, calls: %d)' % (upd_in_loop, upd_total))
  return proposal_order, init_bump, per_call, {'iter': it, 'generation_guard': guards[0], 'done_test': done[0]}


EXPECTED_NSGA2_UPDATE = (
    "(base.GlobalStateGetter('elites', []) + base.Identity() >> "
    "base.Lambda(nondominated_sort()).for_each(crowding_distance_sort()).flatten() >> "
    "selectors.First(population_size).as_global_state('elites').set_global_state('elite_cursor', 0))"
    ".if_true(lambda x: len(x) >= population_size)")


def nsga2_facts():
  """Shape of the NSGA2 operator pipeline and of its crowding-distance sort (mirrored by PgModel/Nsga2.lean)."""
  _, tree = common.parse_source(NSGA2)
  fn = common.find_func(tree, 'nsga2')
  calls = [n for n in ast.walk(fn) if isinstance(n, ast.Call) and ast.unparse(n.func) == 'base.Evolution']
  if len(calls) != 1:
    raise TranslatorError('nsga2(): expected one base.Evolution(...) call')
  call = calls[0]
  kw = {k.arg: k.value for k in call.keywords}
  if len(call.args) != 1 or ast.unparse(call.args[0]) != 'next_elite() >> mutator':
    raise TranslatorError('nsga2(): reproduction is not `next_elite() >> mutator`: %s'
                          % [ast.unparse(a) for a in call.args])
  upd = ast.unparse(kw.get('population_update')) if kw.get('population_update') is not None else None
  if upd != EXPECTED_NSGA2_UPDATE:
    raise TranslatorError('nsga2(): population_update pipeline changed: %s' % upd)
  init = ast.unparse(kw.get('population_init')) if kw.get('population_init') is not None else ''
  import re
  m = re.fullmatch(r'\(pg\.geno\.Random\(seed=seed\), population_size \* (\d+)\)', init)
  if not m:
    raise TranslatorError('nsga2(): unknown population_init %r' % init)
  init_factor = int(m.group(1))
  cds = common.find_func(tree, 'crowding_distance_sort')
  boundary = None
  for n in ast.walk(cds):
    if isinstance(n, ast.If) and ast.unparse(n.test) == 'j == 0 or j == individual_num - 1':
      st = n.body[0]
      if isinstance(st, ast.Assign) and ast.unparse(st.value) == 'objective_num':
        boundary = True
      elif isinstance(st, ast.AugAssign) and isinstance(st.op, ast.Add) and ast.unparse(st.value) == 'objective_num':
        boundary = False
      inner = n.orelse[0] if n.orelse else None
      if not (isinstance(inner, ast.If) and ast.unparse(inner.test) == 'max_value > min_value'
              and isinstance(inner.body[0], ast.AugAssign)):
        raise TranslatorError('crowding_distance_sort: interior-point update changed')
  if boundary is None:
    raise TranslatorError('crowding_distance_sort: boundary-point assignment not found')
  finals = [n for n in ast.walk(cds) if isinstance(n, ast.Call) and ast.unparse(n.func) == 'sorted'
            and any(k.arg == 'key' and 'distances' in ast.unparse(k.value) for k in n.keywords)]
  if len(finals) != 1:
    raise TranslatorError('crowding_distance_sort: final sort by distance not found')
  descending = any(k.arg == 'reverse' and ast.unparse(k.value) == 'True' for k in finals[0].keywords)
  nds = ast.unparse(common.find_func(tree, 'nondominated_sort'))
  if 'queue.pop(0)' not in nds or 'indegree[child] -= 1' not in nds:
    raise TranslatorError('nondominated_sort: the queue-based topological sort changed')
  ne = ast.unparse(common.find_func(tree, 'next_elite'))
  if 'global_state.elites[global_state.elite_cursor]' not in ne:
    raise TranslatorError('next_elite: changed')
  return {'initFactor': init_factor, 'boundaryOverwrites': boundary, 'descending': descending}


EXPECTED_PIPELINES = {
    (REGEVO, 'regularized_evolution'): (
        ['selectors.Random(tournament_size, seed=seed) >> selectors.Top(1) >> mutator'],
        {'population_init': '(pg.geno.Random(seed=seed), population_size)',
         'population_update': 'selectors.Last(population_size)'}),
    (HILL, 'hill_climb'): (
        ['selectors.Top(1) >> mutator * batch_size'],
        {'population_init': '(pg.geno.Random(seed), init_population_size)',
         'population_update': 'selectors.Top(1)'}),
}


def pipeline_facts():
  """The operator pipelines of regularized_evolution / hill_climb as mirrored by PgModel/GenOps.lean."""
  out = {}
  for (rel, name), (args, kws) in EXPECTED_PIPELINES.items():
    _, tree = common.parse_source(rel)
    fn = common.find_func(tree, name)
    calls = [n for n in ast.walk(fn) if isinstance(n, ast.Call) and ast.unparse(n.func) == 'base.Evolution']
    if len(calls) != 1:
      raise TranslatorError('%s(): expected one base.Evolution(...) call' % name)
    got_args = [ast.unparse(a) for a in calls[0].args]
    got_kws = {k.arg: ast.unparse(k.value) for k in calls[0].keywords}
    if got_args != args or got_kws != kws:
      raise TranslatorError('%s(): operator pipeline changed: args=%s keywords=%s' % (name, got_args, got_kws))
    out[name] = {'reproduction': args[0], **kws}
  return out


def stepwise_fact():
  """Is `StepWise.call` stateful (a phase counter advanced by the calls) or a function of `step`?"""
  _, tree = common.parse_source(STEPWISE)
  cls = common.find_class(tree, 'StepWise')
  call = common.find_func(cls, 'call')
  text = ast.unparse(call)
  assigns_state = any(isinstance(n, (ast.Assign, ast.AugAssign)) and 'self._' in ast.unparse(
      n.targets[0] if isinstance(n, ast.Assign) else n.target) for n in ast.walk(call))
  if assigns_state:
    if 'self._current_phase += 1' not in text or 'self._last_value' not in text:
      raise TranslatorError('StepWise.call: unknown stateful shape')
    return True
  if ('self._phase_ending_steps' not in text or 'step = max(0, min(step, ending_steps[-1]))' not in text
      or 'while phase < len(ending_steps) - 1 and step > ending_steps[phase]' not in text):
    raise TranslatorError('StepWise.call: unknown stateless shape')
  return False


EXPECTED_NEAT = {
    'reproduction': "base.GlobalStateGetter('living_species') >> selectors.Proportional(population_size, "
                    "scaled_average_fitness()).for_each((lambda x: x.members) >> selectors.Top(remaining_ratio) >> "
                    "selectors.Random(1, seed=seed)).flatten() >> mutator",
    'population_init': '(pg.geno.Random(seed=seed), population_size)',
    'population_update': 'selectors.Top(1, cluster=True, key=base.get_generation_id) >> '
                         'speciate(distance=compatibility_distance(disjoint_coefficient=disjoint_coefficient, '
                         'matching_coefficient=matching_coefficient), distance_threshold=compatibility_threshold)',
}


def neat_facts():
  """Pipeline, default coefficients and the shape of `speciate` (mirrored by PgModel/Neat.lean)."""
  from fractions import Fraction
  _, tree = common.parse_source(NEAT)
  fn = common.find_func(tree, 'neat')
  calls = [n for n in ast.walk(fn) if isinstance(n, ast.Call) and ast.unparse(n.func) == 'base.Evolution']
  if len(calls) != 1:
    raise TranslatorError('neat(): expected one base.Evolution(...) call')
  got = {k.arg: ast.unparse(k.value) for k in calls[0].keywords}
  if got != EXPECTED_NEAT or calls[0].args:
    raise TranslatorError('neat(): operator pipeline changed: %s' % got)
  names = [a.arg for a in fn.args.args]
  defaults = dict(zip(names[len(names) - len(fn.args.defaults):], [ast.unparse(d) for d in fn.args.defaults]))
  tenths = {}
  for key in ('matching_coefficient', 'compatibility_threshold'):
    v = Fraction(defaults.get(key, 'x')) * 10 if defaults.get(key, '').replace('.', '').isdigit() else None
    if v is None or v.denominator != 1:
      raise TranslatorError('neat(): default of %s is not a number of tenths: %r' % (key, defaults.get(key)))
    tenths[key] = int(v)
  sp = ast.unparse(common.find_func(tree, 'speciate'))
  for needle in ("dna.userdata.get(_USERDATA_KEY_SPECIES)", 'if dist <= distance_threshold:', 'species.add(dna)',
                 'parent_species.add(dna)', 'species.clear()',
                 'global_state.living_species = [s for s in global_state.living_species if s]'):
    if needle not in sp:
      raise TranslatorError('speciate(): %r not found (the bookkeeping changed)' % needle)
  cd = ast.unparse(common.find_func(tree, 'compatibility_distance'))
  if 'disjoint_coefficient * float(d) / float(n) + matching_coefficient * float(w) / float(n)' not in cd:
    raise TranslatorError('compatibility_distance(): formula changed')
  diff = ast.unparse(common.find_func(tree, '_compute_diff'))
  if 'return (n, 1, n - 1)' not in diff or 'n = 0 if left.value is None else 1' not in diff:
    raise TranslatorError('_compute_diff(): changed')
  return {'matching10': tenths['matching_coefficient'], 'threshold10': tenths['compatibility_threshold']}


def dedup_multi_objective_fact():
  """Does `Deduping` forward `multi_objective` to the generator it wraps?"""
  _, tree = common.parse_source(DEDUP)
  cls = common.find_class(tree, 'Deduping')
  fn = common.find_func_opt(cls, 'multi_objective')
  if fn is None:
    return False
  if 'return self.generator.multi_objective' not in ast.unparse(fn):
    raise TranslatorError('Deduping.multi_objective: unknown shape')
  return True


def run():
  forwards, d_info = dedup_facts()
  order, bump, per_call, e_info = evo_facts()
  nf = nsga2_facts()
  pipes = pipeline_facts()
  sw = stepwise_fact()
  neat = neat_facts()
  fwd = dedup_multi_objective_fact()
  lean = '''/- GENERATED by translate/t_c15.py from the current source of /repo — do not edit. -/
import PgModel.Gen
import PgModel.Nsga2
import PgModel.Neat
namespace Pg.C15

/-- Structural facts of `Deduping.recover/_replay` and `Evolution.recover` in the current source. -/
def currentQuirks : Quirks :=
  { dedupForwardsReplay := %s, evoProposalOrder := %s, evoInitGenBump := %s, evoInitDonePerCall := %s }

/-- Shape facts of pyglove/ext/evolution/nsga2.py (operator pipeline checked by the translator). -/
def nsga2Facts : Nsga2.Facts :=
  { initFactor := %d, boundaryOverwrites := %s, descending := %s }

/-- `scalars.StepWise.call` keeps a phase counter between calls (pinned) / is a function of the step. -/
def stepWiseStateful : Bool := %s

/-- Default coefficients of `pg.evolution.neat` (tenths); pipeline and `speciate` shape checked by the translator. -/
def neatFacts : Neat.Facts := { matching10 := %d, threshold10 := %d }

/-- `Deduping.multi_objective` forwards to the wrapped generator (false: a Deduping around a
multi-objective algorithm rejects every tuple reward, finding F395). -/
def dedupForwardsMultiObjective : Bool := %s

end Pg.C15
''' % (common.lean_bool(forwards), common.lean_bool(order), common.lean_bool(bump), common.lean_bool(per_call),
       nf['initFactor'], common.lean_bool(nf['boundaryOverwrites']), common.lean_bool(nf['descending']), common.lean_bool(sw),
       neat['matching10'], neat['threshold10'], common.lean_bool(fwd))
  sidecar = {'sources': {DEDUP: common.sha(DEDUP), EVO: common.sha(EVO), NSGA2: common.sha(NSGA2),
                         REGEVO: common.sha(REGEVO), HILL: common.sha(HILL), STEPWISE: common.sha(STEPWISE), NEAT: common.sha(NEAT)},
             'nsga2': nf, 'pipelines': pipes, 'stepWiseStateful': sw, 'neat': neat, 'dedupForwardsMultiObjective': fwd,
             'quirks': {'dedupForwardsReplay': forwards, 'evoProposalOrder': order, 'evoInitGenBump': bump,
                        'evoInitDonePerCall': per_call},
             'matched': {'deduping': d_info, 'evolution': e_info}}
  changed = common.write_gen('C15Quirks', lean, sidecar)
  return {'changed': changed, 'sidecar': sidecar}


if __name__ == '__main__':
  import json
  print(json.dumps(run(), indent=1))
