"""T-GUARD: regenerate lean/PgGen/C08Guards.lean from pyglove/core/symbolic/{list,dict,object,base}.py
(pure `ast` matching; pyglove is never imported) and from the running interpreter's builtin
`list` / `dict` (closed list of mutating methods of the data model, re-derived by a behavioural
probe of the *builtins* so that a mutator "nobody listed" breaks the tie).

For every mutating entry point of builtin list / dict, of the pg.Dict attribute accessors and of
pg.Object (`__setattr__`, `__delattr__`, `rebind`) the table records

  overridden    the pg class defines the method itself
  baseMutates   the inherited implementation would change the contents (builtin list/dict: yes;
                `object.__delattr__`: no, symbolic attributes do not live in the instance dict)
  directSealed  an `if base.treats_as_sealed(self): raise WritePermissionError` dominates every
                mutation site of the body (raw or delegated)
  directAcc     the same for `if not base.writtable_via_accessors(self): raise ...`
  hasRaw        the body contains a raw mutation site (`super().m(...)`, `list.m(self, ...)`,
                `self._set_item_without_permission_check(...)`)
  delegates     entry points the body delegates to (`self.extend(...)`, `del self[i]`,
                `self[k] = v`, `self.rebind(...)`, `self._sym_attributes[k] = v`, ...)
  accScope      the delegation happens inside `with flags.allow_writable_accessors(True)`
  notify        flag (notifies under `flags.is_change_notification_enabled()`), skip
                (`skip_notification=True`), param (rebind: caller decides), none

plus the pseudo entry point `tree_set` = `Symbolic._set_item_of_current_tree`, whose sealed
guard is on the *parent node of the target path* (the rebind path).
Any unexpected shape raises TranslatorError (= broken tie).
"""

import ast

from . import common
from .common import TranslatorError

LIST_PY = 'pyglove/core/symbolic/list.py'
DICT_PY = 'pyglove/core/symbolic/dict.py'
OBJECT_PY = 'pyglove/core/symbolic/object.py'
BASE_PY = 'pyglove/core/symbolic/base.py'

# Closed lists from the Python data model (re-checked against the running builtins below).
LIST_MUTATORS = ['__setitem__', '__delitem__', '__iadd__', '__imul__', 'append', 'extend', 'insert',
                 'pop', 'remove', 'clear', 'sort', 'reverse']
DICT_MUTATORS = ['__setitem__', '__delitem__', '__ior__', 'update', 'setdefault', 'pop', 'popitem',
                 'clear']
LIFECYCLE = {'__init__', '__new__', '__setstate__', '__reduce__', '__reduce_ex__', '__init_subclass__',
             '__subclasshook__', '__class__', '__getstate__', '__class_getitem__', '__del__'}

# (class, method) -> Lean constructor
EP = {}
for _m in LIST_MUTATORS:
  EP[('List', _m)] = 'l_' + _m.strip('_')
for _m in DICT_MUTATORS:
  EP[('Dict', _m)] = 'd_' + _m.strip('_')
EP[('Dict', '__setattr__')] = 'd_setattr'
EP[('Dict', '__delattr__')] = 'd_delattr'
EP[('List', 'rebind')] = 'l_rebind'
EP[('Dict', 'rebind')] = 'd_rebind'
EP[('Object', '__setattr__')] = 'o_setattr'
EP[('Object', '__delattr__')] = 'o_delattr'
EP[('Object', 'rebind')] = 'o_rebind'
ALL_EPS = list(EP.values()) + ['tree_set']


def builtin_mutators(cls, sample_factory):
  """Behavioural probe of a *builtin* container class: names whose call changes the sample."""
  cands = [(), (0,), ('a',), (0, 9), ('a', 9), ([9],), ({'b': 9},), (2,), (-1,), ([('b', 9)],)]
  found = []
  for n in sorted(dir(cls)):
    if n in LIFECYCLE:
      continue
    if not callable(getattr(cls, n, None)):
      continue
    for args in cands:
      s = sample_factory()
      before = repr(s)
      try:
        getattr(s, n)(*args)
      except Exception:   # pylint: disable=broad-except
        pass
      if repr(s) != before:
        found.append(n)
        break
  return found


# ------------------------------------------------------------------------------------------
# AST helpers
# ------------------------------------------------------------------------------------------

def _is_name(n, name):
  return isinstance(n, ast.Name) and n.id == name


def _is_call_attr(n, attr):
  return isinstance(n, ast.Call) and isinstance(n.func, ast.Attribute) and n.func.attr == attr


def _is_guard_call(test, fn, subject):
  """`base.<fn>(<subject>)` or `<fn>(<subject>)`."""
  if not isinstance(test, ast.Call) or len(test.args) != 1 or test.keywords:
    return False
  f = test.func
  name = f.attr if isinstance(f, ast.Attribute) else (f.id if isinstance(f, ast.Name) else None)
  return name == fn and _is_name(test.args[0], subject)


def _raises_wpe(stmts):
  """Does the block end in `raise [base.]WritePermissionError(...)` unconditionally?"""
  if not stmts:
    return False
  last = stmts[-1]
  if not isinstance(last, ast.Raise) or last.exc is None:
    return False
  e = last.exc
  if isinstance(e, ast.Call):
    e = e.func
  name = e.attr if isinstance(e, ast.Attribute) else (e.id if isinstance(e, ast.Name) else None)
  return name == 'WritePermissionError'


def is_sealed_guard(stmt, subject='self'):
  return (isinstance(stmt, ast.If) and not stmt.orelse
          and _is_guard_call(stmt.test, 'treats_as_sealed', subject) and _raises_wpe(stmt.body))


def is_acc_guard(stmt, subject='self'):
  return (isinstance(stmt, ast.If) and not stmt.orelse
          and isinstance(stmt.test, ast.UnaryOp) and isinstance(stmt.test.op, ast.Not)
          and _is_guard_call(stmt.test.operand, 'writtable_via_accessors', subject)
          and _raises_wpe(stmt.body))


def _super_call(n):
  """`super().m(...)` -> m"""
  if (isinstance(n, ast.Call) and isinstance(n.func, ast.Attribute)
      and isinstance(n.func.value, ast.Call) and _is_name(n.func.value.func, 'super')):
    return n.func.attr
  return None


def _unbound_builtin_call(n, builtin):
  """`list.m(self, ...)` -> m"""
  if (isinstance(n, ast.Call) and isinstance(n.func, ast.Attribute) and _is_name(n.func.value, builtin)
      and n.args and _is_name(n.args[0], 'self')):
    return n.func.attr
  return None


def _self_attr(n, attr=None):
  """`self.<attr>`"""
  return (isinstance(n, ast.Attribute) and _is_name(n.value, 'self')
          and (attr is None or n.attr == attr))


class Sites:
  """Mutation sites of one expression / simple statement."""

  def __init__(self, cls, mutators):
    self.cls, self.mutators = cls, mutators
    self.builtin = {'List': 'list', 'Dict': 'dict', 'Object': 'object'}[cls]

  def of_node(self, node):
    """Returns (raw_sites, delegate_sites) found anywhere inside `node` (an AST subtree)."""
    raw, dele = [], []
    for n in ast.walk(node):
      # raw: super().m(...), list.m(self, ...), self._set_item_without_permission_check(...)
      m = _super_call(n)
      if m is not None and m in self.mutators:
        raw.append((m, n.lineno))
      m = _unbound_builtin_call(n, self.builtin)
      if m is not None and m in self.mutators:
        raw.append((m, n.lineno))
      if _is_call_attr(n, '_set_item_without_permission_check'):
        raw.append(('_set_item_without_permission_check', n.lineno))
      # delegates
      if isinstance(n, ast.Call) and isinstance(n.func, ast.Attribute):
        f = n.func
        if _is_name(f.value, 'self') and (self.cls, f.attr) in EP:
          dele.append((EP[(self.cls, f.attr)], n.lineno))
        elif _is_name(f.value, 'self') and f.attr == 'sym_rebind' and (self.cls, 'rebind') in EP:
          dele.append((EP[(self.cls, 'rebind')], n.lineno))
        elif _is_name(f.value, 'self') and f.attr == '_set_item_of_current_tree':
          dele.append(('tree_set', n.lineno))
        elif _self_attr(f.value, '_sym_attributes') and f.attr == '_sym_rebind':
          dele.append(('d_rebind', n.lineno))
        elif _self_attr(f.value, '_sym_attributes') and ('Dict', f.attr) in EP:
          dele.append((EP[('Dict', f.attr)], n.lineno))
      if isinstance(n, ast.Delete):
        for t in n.targets:
          if isinstance(t, ast.Subscript) and _is_name(t.value, 'self'):
            dele.append((EP[(self.cls, '__delitem__')], n.lineno))
          if isinstance(t, ast.Subscript) and _self_attr(t.value, '_sym_attributes'):
            dele.append(('d_delitem', n.lineno))
      if isinstance(n, (ast.Assign, ast.AugAssign, ast.AnnAssign)):
        targets = n.targets if isinstance(n, ast.Assign) else [n.target]
        for t in targets:
          if isinstance(t, ast.Subscript) and _is_name(t.value, 'self'):
            dele.append((EP[(self.cls, '__setitem__')], n.lineno))
          if isinstance(t, ast.Subscript) and _self_attr(t.value, '_sym_attributes'):
            dele.append(('d_setitem', n.lineno))
    return raw, dele

  def has_site(self, node):
    r, d = self.of_node(node)
    return bool(r or d)


def _sub_blocks(stmt):
  if isinstance(stmt, ast.If):
    return [stmt.test], [stmt.body, stmt.orelse]
  if isinstance(stmt, (ast.For, ast.AsyncFor)):
    return [stmt.iter], [stmt.body, stmt.orelse]
  if isinstance(stmt, ast.While):
    return [stmt.test], [stmt.body, stmt.orelse]
  if isinstance(stmt, (ast.With, ast.AsyncWith)):
    return [i.context_expr for i in stmt.items], [stmt.body]
  if isinstance(stmt, ast.Try):
    return [], [stmt.body, stmt.orelse, stmt.finalbody] + [h.body for h in stmt.handlers]
  return None


def undominated(stmts, is_guard, sites):
  """Mutation sites (raw, delegates) of a block that are NOT dominated by a guard statement of
  this block or of an enclosing position inside it."""
  raw, dele = [], []
  for s in stmts:
    if is_guard(s):
      return raw, dele          # everything after is dominated
    if not sites.has_site(s):
      continue
    sub = _sub_blocks(s)
    if sub is None:
      r, d = sites.of_node(s)
      raw += r
      dele += d
    else:
      heads, blocks = sub
      for h in heads:
        r, d = sites.of_node(h)
        raw += r
        dele += d
      for b in blocks:
        r, d = undominated(b, is_guard, sites)
        raw += r
        dele += d
  return raw, dele


def _acc_scope_delegates(fn, sites):
  """Delegate sites lexically inside `with flags.allow_writable_accessors(True):`."""
  out = []
  for n in ast.walk(fn):
    if isinstance(n, ast.With):
      for it in n.items:
        c = it.context_expr
        if (_is_call_attr(c, 'allow_writable_accessors') and len(c.args) == 1
            and isinstance(c.args[0], ast.Constant) and c.args[0].value is True):
          for b in n.body:
            out += sites.of_node(b)[1]
  return out


def _notify_kind(fn, cls=None):
  """flag / skip / none for one method body. A method that hands its updates to a private helper
  of the same class (`self._notify_<something>(...)`, e.g. `List._notify_moved_items`) has the kind
  of that helper."""
  src_calls = [n for n in ast.walk(fn) if _is_call_attr(n, '_notify_field_updates')]
  if not src_calls and cls is not None:
    for n in ast.walk(fn):
      if (isinstance(n, ast.Call) and isinstance(n.func, ast.Attribute) and _is_name(n.func.value, 'self')
          and n.func.attr.startswith('_notify_') and n.func.attr != '_notify_field_updates'):
        helper = common.find_func_opt(cls, n.func.attr)
        if helper is not None and helper is not fn:
          return _notify_kind(helper, None)
  if src_calls:
    # every notify call must sit under an `if` whose test mentions is_change_notification_enabled()
    ok = True
    for c in src_calls:
      guarded = False
      for n in ast.walk(fn):
        if isinstance(n, ast.If) and any(m is c for b in n.body for m in ast.walk(b)):
          if any(_is_call_attr(t, 'is_change_notification_enabled') for t in ast.walk(n.test)):
            guarded = True
      ok = ok and guarded
    if not ok:
      raise TranslatorError(f'{fn.name}: _notify_field_updates not under '
                            f'flags.is_change_notification_enabled() (line {fn.lineno})')
    return 'flag'
  for n in ast.walk(fn):
    if _is_call_attr(n, 'rebind') or _is_call_attr(n, 'sym_rebind'):
      for kw in n.keywords:
        if kw.arg == 'skip_notification' and isinstance(kw.value, ast.Constant) and kw.value.value is True:
          return 'skip'
  return 'none'


def analyse_method(cls_name, fn, mutators, cls=None):
  sites = Sites(cls_name, mutators)
  body = [s for s in fn.body if not (isinstance(s, ast.Expr) and isinstance(s.value, ast.Constant))]
  all_raw, all_dele = [], []
  for s in body:
    r, d = sites.of_node(s)
    all_raw += r
    all_dele += d
  ur_s, ud_s = undominated(body, is_sealed_guard, sites)
  ur_a, ud_a = undominated(body, is_acc_guard, sites)
  has_sites = bool(all_raw or all_dele)
  acc_deleg = _acc_scope_delegates(fn, sites)
  rec = {
      'overridden': True, 'baseMutates': True,
      'directSealed': has_sites and not ur_s and not ud_s,
      'directAcc': has_sites and not ur_a and not ud_a,
      'hasRaw': bool(all_raw),
      'delegates': sorted({d for d, _ in all_dele}),
      'precheck': False,
      'accScope': bool(acc_deleg) and {d for d, _ in acc_deleg} == {d for d, _ in all_dele},
      'notify': _notify_kind(fn, cls),
      'line': fn.lineno,
      'raw_sites': all_raw, 'delegate_sites': all_dele,
  }
  if acc_deleg and not rec['accScope']:
    raise TranslatorError(f'{cls_name}.{fn.name}: only part of the delegations is inside '
                          f'allow_writable_accessors(True)')
  return rec


def analyse_rebind_chain(base_tree, cls_name, cls_node):
  """rebind -> sym_rebind -> self._sym_rebind(...) [class] -> _set_item_of_current_tree / container."""
  sym = common.find_class(base_tree, 'Symbolic')
  rebind = common.find_func(sym, 'rebind')
  sym_rebind = common.find_func(sym, 'sym_rebind')
  if not any(_is_call_attr(n, 'sym_rebind') and _is_name(n.func.value, 'self') for n in ast.walk(rebind)):
    raise TranslatorError('Symbolic.rebind no longer delegates to self.sym_rebind')
  calls = [n for n in ast.walk(sym_rebind) if _is_call_attr(n, '_sym_rebind') and _is_name(n.func.value, 'self')]
  if len(calls) != 1:
    raise TranslatorError('Symbolic.sym_rebind: expected exactly one self._sym_rebind(...) call')
  # notification: `if not skip_notification: self._notify_field_updates(...)`
  ok = False
  for n in ast.walk(sym_rebind):
    if (isinstance(n, ast.If) and isinstance(n.test, ast.UnaryOp) and isinstance(n.test.op, ast.Not)
        and _is_name(n.test.operand, 'skip_notification')
        and any(_is_call_attr(m, '_notify_field_updates') for b in n.body for m in ast.walk(b))):
      ok = True
  if not ok:
    raise TranslatorError('Symbolic.sym_rebind: `if not skip_notification: self._notify_field_updates` not found')
  for name in ('rebind', 'sym_rebind'):
    if common.find_func_opt(cls_node, name) is not None:
      raise TranslatorError(f'{cls_name} overrides {name}: the rebind chain changed')
  fn = common.find_func(cls_node, '_sym_rebind')
  rec = analyse_method(cls_name, fn, [])
  rec['notify'] = 'param'
  rec['precheck'] = has_precheck(base_tree, cls_name, fn)
  return rec


def has_precheck(base_tree, cls_name, fn):
  """`self._ensure_rebind_targets_writable(<pairs>)` as a top-level statement of `_sym_rebind`
  before the write loop, and the helper has the expected shape."""
  sym = common.find_class(base_tree, 'Symbolic')
  helper = common.find_func_opt(sym, '_ensure_rebind_targets_writable')
  if helper is None:
    return False
  pairs_arg = fn.args.args[1].arg
  sites = Sites(cls_name, [])
  body = [s for s in fn.body if not (isinstance(s, ast.Expr) and isinstance(s.value, ast.Constant))]
  called = False
  for s in body:
    if (isinstance(s, ast.Expr) and _is_call_attr(s.value, '_ensure_rebind_targets_writable')
        and _is_name(s.value.func.value, 'self') and len(s.value.args) == 1
        and _is_name(s.value.args[0], pairs_arg)):
      called = True
      break
    if sites.has_site(s):
      break
  if not called:
    return False
  # helper: for path in <arg>: ... parent = path.parent.query(self) ... if isinstance(parent, Symbolic)
  # and treats_as_sealed(parent): raise WritePermissionError; no mutation site.
  harg = helper.args.args[1].arg
  loops = [n for n in helper.body if isinstance(n, ast.For) and _is_name(n.iter, harg)]
  if len(loops) != 1:
    raise TranslatorError('_ensure_rebind_targets_writable: expected one loop over its argument')
  loop = loops[0]
  # the loop body is exactly: skip the root path (`if not path: continue`), resolve the parent
  # (`try: parent = path.parent.query(self)  except KeyError: continue`), refuse a sealed parent.
  # Any other way of skipping a pair (e.g. by the length of the path) is not what the model does.
  lb = [x for x in loop.body if not (isinstance(x, ast.Expr) and isinstance(x.value, ast.Constant))]
  tgt = loop.target.id if isinstance(loop.target, ast.Name) else None
  def _only_continue(body):
    return len(body) == 1 and isinstance(body[0], ast.Continue)
  shape_ok = (
      tgt is not None and len(lb) == 3
      and isinstance(lb[0], ast.If) and not lb[0].orelse and _only_continue(lb[0].body)
      and isinstance(lb[0].test, ast.UnaryOp) and isinstance(lb[0].test.op, ast.Not) and _is_name(lb[0].test.operand, tgt)
      and isinstance(lb[1], ast.Try) and len(lb[1].handlers) == 1 and _only_continue(lb[1].handlers[0].body)
      and _is_name(lb[1].handlers[0].type, 'KeyError') and not lb[1].orelse and not lb[1].finalbody
      and len(lb[1].body) == 1 and isinstance(lb[1].body[0], ast.Assign)
      and isinstance(lb[2], ast.If))
  if not shape_ok:
    raise TranslatorError('_ensure_rebind_targets_writable: the loop no longer has the shape '
                          '`if not path: continue / try: parent = path.parent.query(self) except KeyError: continue / '
                          'if <sealed parent>: raise` (which pairs are skipped by the up-front check?)')
  subject = None
  for n in ast.walk(loop):
    if (isinstance(n, ast.Assign) and len(n.targets) == 1 and isinstance(n.targets[0], ast.Name)
        and _is_call_attr(n.value, 'query') and len(n.value.args) == 1 and _is_name(n.value.args[0], 'self')
        and ast.unparse(n.value.func.value) == loop.target.id + '.parent'):
      subject = n.targets[0].id
  ok = False
  for n in loop.body:
    if isinstance(n, ast.If) and not n.orelse and _raises_wpe(n.body):
      t = n.test
      conds = t.values if isinstance(t, ast.BoolOp) and isinstance(t.op, ast.And) else [t]
      if subject and any(_is_guard_call(c, 'treats_as_sealed', subject) for c in conds) and all(
          _is_guard_call(c, 'treats_as_sealed', subject)
          or (isinstance(c, ast.Call) and _is_name(c.func, 'isinstance') and _is_name(c.args[0], subject)
              and _is_name(c.args[1], 'Symbolic')) for c in conds):
        ok = True
  if not ok:
    raise TranslatorError('_ensure_rebind_targets_writable: sealed check on `path.parent.query(self)` not recognised')
  if Sites('Dict', []).has_site(helper):
    raise TranslatorError('_ensure_rebind_targets_writable contains a mutation site')
  return True


def analyse_tree_set(base_tree):
  sym = common.find_class(base_tree, 'Symbolic')
  fn = common.find_func(sym, '_set_item_of_current_tree')
  # the raw site: `<p>._set_item_without_permission_check(path.key, value)`
  calls = [n for n in ast.walk(fn) if _is_call_attr(n, '_set_item_without_permission_check')]
  if len(calls) != 1 or not isinstance(calls[0].func.value, ast.Name):
    raise TranslatorError('_set_item_of_current_tree: write primitive call not recognised')
  subject = calls[0].func.value.id
  # subject must be assigned from `path.parent.query(self)`
  assigned = False
  for n in ast.walk(fn):
    if (isinstance(n, ast.Assign) and len(n.targets) == 1 and _is_name(n.targets[0], subject)
        and _is_call_attr(n.value, 'query') and len(n.value.args) == 1 and _is_name(n.value.args[0], 'self')):
      assigned = True
  if not assigned:
    raise TranslatorError('_set_item_of_current_tree: parent node is not `path.parent.query(self)`')
  body = [s for s in fn.body if not (isinstance(s, ast.Expr) and isinstance(s.value, ast.Constant))]
  guard_idx = [i for i, s in enumerate(body) if is_sealed_guard(s, subject)]
  site_idx = [i for i, s in enumerate(body) if any(m is calls[0] for m in ast.walk(s))]
  direct = bool(guard_idx) and bool(site_idx) and guard_idx[0] < site_idx[0]
  return {'overridden': True, 'baseMutates': True, 'directSealed': direct, 'directAcc': False,
          'precheck': False, 'hasRaw': True, 'delegates': [], 'accScope': False, 'notify': 'none', 'line': fn.lineno,
          'raw_sites': [('_set_item_without_permission_check', calls[0].lineno)], 'delegate_sites': []}


def check_predicates(base_tree):
  """treats_as_sealed / writtable_via_accessors: scope value wins unless it is None."""
  facts = {}
  for fname, getter, attr in (('treats_as_sealed', 'is_under_sealed_scope', 'sym_sealed'),
                              ('writtable_via_accessors', 'is_under_accessor_writable_scope', 'accessor_writable')):
    fn = common.find_func(base_tree, fname)
    src = ast.unparse(fn)
    arg = fn.args.args[0].arg
    scope_var = None
    for n in ast.walk(fn):
      if isinstance(n, ast.Assign) and _is_call_attr(n.value, getter) and len(n.targets) == 1:
        scope_var = n.targets[0].id
    if scope_var is None:
      raise TranslatorError(f'{fname}: scope getter flags.{getter}() not found')
    shapes = [
        f'return {arg}.{attr} if {scope_var} is None else {scope_var}',
        f'if {scope_var} is None:\n        return {arg}.{attr}\n    return {scope_var}',
    ]
    norm = src.replace('\n\n', '\n')
    if not any(s in norm for s in shapes):
      raise TranslatorError(f'{fname}: the rule "scope value wins unless None" was not recognised')
    facts[fname] = 'scopeWinsUnlessNone'
  return facts


def analyse_seal(tree, cls_name):
  """Shape of <cls>.seal: short-circuit?, recursion over symbolic children, super().seal."""
  cls = common.find_class(tree, cls_name)
  fn = common.find_func(cls, 'seal')
  arg = fn.args.args[1].arg
  short = False
  for s in fn.body:
    if (isinstance(s, ast.If) and isinstance(s.test, ast.Compare) and len(s.test.ops) == 1
        and isinstance(s.test.ops[0], ast.Eq) and isinstance(s.body[-1], ast.Return)):
      names = {ast.unparse(s.test.left), ast.unparse(s.test.comparators[0])}
      if arg in names and ('self.is_sealed' in names or 'self.sym_sealed' in names or 'self._sealed' in names):
        short = True
  recurse = False
  for n in ast.walk(fn):
    if _is_call_attr(n, 'seal') and not _super_call(n) and len(n.args) == 1 and _is_name(n.args[0], arg):
      recurse = True
  sup = any(_super_call(n) == 'seal' and len(n.args) == 1 and _is_name(n.args[0], arg) for n in ast.walk(fn))
  if not recurse or not sup:
    raise TranslatorError(f'{cls_name}.seal: recursion into children / super().seal({arg}) not found')
  return {'shortCircuit': short, 'recurses': recurse, 'setsOwn': sup}


def ctor_seals_deep(tree, cls_name):
  """`<cls>.__init__` ends its work with `if sealed: self.seal(True)` (the deep `seal`, not the shallow
  `sym_seal`)."""
  fn = common.find_func(common.find_class(tree, cls_name), '__init__')
  found = None
  for n in ast.walk(fn):
    if isinstance(n, ast.If) and _is_name(n.test, 'sealed') and not n.orelse:
      for b in n.body:
        if (isinstance(b, ast.Expr) and isinstance(b.value, ast.Call) and isinstance(b.value.func, ast.Attribute)
            and _is_name(b.value.func.value, 'self') and b.value.func.attr in ('seal', 'sym_seal')):
          found = b.value.func.attr
  if found is None:
    raise TranslatorError(f'{cls_name}.__init__: `if sealed: self.seal(True)` not found')
  return found == 'seal'


def object_attrs_built_sealed(tree):
  """`Object.__init__` builds its attribute container with `pg_dict.Dict(..., sealed=sealed, ...)`: then the
  Dict constructor already seals everything below the object, and the closing call only has to set the
  object's own flag (`seal` and `sym_seal` do)."""
  fn = common.find_func(common.find_class(tree, 'Object'), '__init__')
  for n in ast.walk(fn):
    if (isinstance(n, ast.Call) and isinstance(n.func, ast.Attribute) and n.func.attr == 'Dict'
        and any(k.arg == 'sealed' and _is_name(k.value, 'sealed') for k in n.keywords)):
      return True
  return False


def run():
  # 1. closed lists vs. the running builtins
  lm = builtin_mutators(list, lambda: [3, 1, 2])
  dm = builtin_mutators(dict, lambda: {'a': 1, 'c': 2})
  if sorted(lm) != sorted(LIST_MUTATORS):
    raise TranslatorError(f'builtin list mutators of this Python {sorted(lm)} != closed list {sorted(LIST_MUTATORS)}')
  if sorted(dm) != sorted(DICT_MUTATORS):
    raise TranslatorError(f'builtin dict mutators of this Python {sorted(dm)} != closed list {sorted(DICT_MUTATORS)}')

  _, ltree = common.parse_source(LIST_PY)
  _, dtree = common.parse_source(DICT_PY)
  _, otree = common.parse_source(OBJECT_PY)
  _, btree = common.parse_source(BASE_PY)
  lcls = common.find_class(ltree, 'List')
  dcls = common.find_class(dtree, 'Dict')
  ocls = common.find_class(otree, 'Object')

  table = {}
  absent = {'overridden': False, 'precheck': False, 'directSealed': False, 'directAcc': False, 'hasRaw': False,
            'delegates': [], 'accScope': False, 'notify': 'none', 'line': 0, 'raw_sites': [],
            'delegate_sites': []}
  for (cname, cls, muts) in (('List', lcls, LIST_MUTATORS), ('Dict', dcls, DICT_MUTATORS + ['__setattr__', '__delattr__']),
                             ('Object', ocls, ['__setattr__', '__delattr__'])):
    for m in muts:
      fn = common.find_func_opt(cls, m)
      builtin_muts = {'List': LIST_MUTATORS, 'Dict': DICT_MUTATORS, 'Object': []}[cname]
      if fn is None:
        rec = dict(absent)
        # inherited implementation: builtin list/dict mutators change the contents;
        # object.__setattr__/__delattr__ cannot reach symbolic attributes.
        rec['baseMutates'] = m in builtin_muts
      else:
        rec = analyse_method(cname, fn, builtin_muts, cls)
      table[EP[(cname, m)]] = rec
    table[EP[(cname, 'rebind')]] = analyse_rebind_chain(btree, cname, cls)
  table['tree_set'] = analyse_tree_set(btree)
  preds = check_predicates(btree)
  seals = {'List': analyse_seal(ltree, 'List'), 'Dict': analyse_seal(dtree, 'Dict')}
  # Object.seal: `self._sym_attributes.seal(sealed); super().seal(sealed)` (no short circuit of its own)
  oseal = common.find_func(ocls, 'seal')
  osrc = ast.unparse(oseal)
  if 'self._sym_attributes.seal(sealed)' not in osrc or 'super().seal(sealed)' not in osrc:
    raise TranslatorError('Object.seal: expected `self._sym_attributes.seal(sealed)` and `super().seal(sealed)`')
  if len({seals['List']['shortCircuit'], seals['Dict']['shortCircuit']}) != 1:
    raise TranslatorError('List.seal and Dict.seal differ in their short-circuit; the model has one switch')

  ctor_deep = (ctor_seals_deep(ltree, 'List') and ctor_seals_deep(dtree, 'Dict')
               and (ctor_seals_deep(otree, 'Object') or object_attrs_built_sealed(otree)))
  known = common.known_exceptions('C08', 'unguarded')

  L = []
  L.append('/- GENERATED by translate/t_c08.py (T-GUARD) from')
  L.append(f'   {LIST_PY}, {DICT_PY}, {OBJECT_PY}, {BASE_PY}. Do not edit. -/')
  L.append('import PgModel.Guard')
  L.append('namespace Pg.C08')
  L.append('')
  L.append('/-- T-GUARD: one record per mutating entry point, extracted from the current source. -/')
  L.append('def genGuard : EP → GuardRec')
  for ep in ALL_EPS:
    r = table[ep]
    L.append(f'  | .{ep} => {{ overridden := {common.lean_bool(r["overridden"])}, '
             f'baseMutates := {common.lean_bool(r["baseMutates"])}, '
             f'directSealed := {common.lean_bool(r["directSealed"])}, '
             f'directAcc := {common.lean_bool(r["directAcc"])}, '
             f'hasRaw := {common.lean_bool(r["hasRaw"])}, '
             f'delegates := [{", ".join("." + d for d in r["delegates"])}], '
             f'accScope := {common.lean_bool(r["accScope"])}, '
             f'precheck := {common.lean_bool(r["precheck"])}, '
             f'notify := .{r["notify"]} }}')
  L.append('')
  L.append('/-- Does `List.seal` / `Dict.seal` return early when the own flag already has the requested')
  L.append('value (without visiting the children)? -/')
  L.append(f'def genSealShortCircuit : Bool := {common.lean_bool(seals["Dict"]["shortCircuit"])}')
  L.append('')
  L.append('/-- `sealed=True` at construction (also: a class with allow_symbolic_mutation = False) runs the deep')
  L.append('`seal(True)` in the constructors of List and Dict; the constructor of Object sets its own flag and')
  L.append('either runs the deep seal too or builds its attribute Dict with `sealed=sealed`. -/')
  L.append(f'def genCtorSealsDeep : Bool := {common.lean_bool(ctor_deep)}')
  L.append('')
  L.append('/-- Static exception list, from the findings files (never from the source). -/')
  L.append('def knownUnguarded : List EP := [' + ', '.join('.' + e for e in known if e in ALL_EPS) + ']')
  L.append('')
  L.append('end Pg.C08')
  L.append('')
  sidecar = {
      'sources': {p: common.sha(p) for p in (LIST_PY, DICT_PY, OBJECT_PY, BASE_PY)},
      'builtin_list_mutators': sorted(lm), 'builtin_dict_mutators': sorted(dm),
      'table': {ep: {k: v for k, v in table[ep].items()} for ep in ALL_EPS},
      'predicates': preds, 'seal': seals, 'ctor_seals_deep': ctor_deep,
  }
  changed = common.write_gen('C08Guards', '\n'.join(L), sidecar)
  return {'changed': changed, 'sidecar': sidecar}


if __name__ == '__main__':
  import json
  out = run()['sidecar']
  for ep, r in out['table'].items():
    print('%-14s ov=%d S=%d A=%d raw=%d accScope=%d pre=%d notify=%-5s deleg=%s' % (
        ep, r['overridden'], r['directSealed'], r['directAcc'], r['hasRaw'], r['accScope'], r['precheck'],
        r['notify'], r['delegates']))
  print(json.dumps({k: out[k] for k in ('predicates', 'seal')}))
