"""T-ESC: regenerate lean/PgGen/C20Sites.lean from pyglove/core/views/html/{base,tree_view}.py and
controls/{label,tooltip,tab,progress_bar}.py (pure `ast` matching; pyglove is never imported).

Extracted facts
  * for every *emission site of user-derived text* (summary name, object key, simple-value repr,
    tooltip content of the tree view; label text, tooltip content, sub-progress name of the
    controls): is the expression wrapped in `Html.escape(...)` (without `javascript_str`) before it
    reaches `Html.element`?                                     -> `siteTable`, `sites`
  * `Html.escape` -> `html_lib.escape(s)` without `quote=False` -> `escapeQuote`
  * the literal pieces `Html.element` writes (`<{tag}`, ` class="…"`, ` k="v"`, `>`, `</{tag}>`)
                                                                -> `elementPieces`
  * completeness sweep: every item of every `Html.element(tag, [...])` child list and every
    `s.write(...)` argument in the scanned files is a string constant, an `Html.escape(...)` call,
    nested markup (`Html.element`, a tooltip call, a child rendering, a control), `None`, or one of
    the registered sites; anything else is an unclassified emission (TranslatorError);
  * `add_style` / `add_script` arguments are constants (no user data in CSS/JS), with the one
    registered exception `Tooltip.for_element` (reported, not part of the model).
Any unexpected shape raises TranslatorError (= broken tie).
"""

import ast

from . import common
from .common import TranslatorError

BASE = 'pyglove/core/views/html/base.py'
TREE = 'pyglove/core/views/html/tree_view.py'
LABEL = 'pyglove/core/views/html/controls/label.py'
TOOLTIP = 'pyglove/core/views/html/controls/tooltip.py'
TAB = 'pyglove/core/views/html/controls/tab.py'
PROGRESS = 'pyglove/core/views/html/controls/progress_bar.py'

SITES = ['summaryName', 'objectKey', 'simpleValue', 'tooltipContent',
         'labelText', 'tooltipControlContent', 'subProgressClass']
TREE_SITES = SITES[:4]


def is_html_attr(n, attr):
  return (isinstance(n, ast.Attribute) and n.attr == attr and isinstance(n.value, ast.Name)
          and n.value.id == 'Html')


def is_element_call(n):
  return isinstance(n, ast.Call) and is_html_attr(n.func, 'element')


def escape_arg(n):
  """The argument of `Html.escape(x)` (HTML mode), or None if `n` is not such a call."""
  if isinstance(n, ast.Call) and is_html_attr(n.func, 'escape') and len(n.args) == 1:
    for kw in n.keywords:
      if kw.arg == 'javascript_str':
        return None
      raise TranslatorError(f'Html.escape called with unexpected keyword {kw.arg} at line {n.lineno}')
    return n.args[0]
  return None


def first_class(call):
  """First constant of the css_classes=[...] keyword of an Html.element call."""
  for kw in call.keywords:
    if kw.arg == 'css_classes':
      v = kw.value
      if isinstance(v, ast.BinOp):     # ['label'] + self.css_classes
        v = v.left
      if isinstance(v, (ast.List, ast.Tuple)) and v.elts and isinstance(v.elts[0], ast.Constant):
        return v.elts[0].value
  return None


def element_calls(fn):
  return [n for n in ast.walk(fn) if is_element_call(n)]


def find_element(fn, css, where):
  hits = [c for c in element_calls(fn) if first_class(c) == css]
  if len(hits) != 1:
    raise TranslatorError(f'{where}: expected exactly one Html.element with css class {css!r}, found {len(hits)}')
  return hits[0]


def children_of(call, where):
  if len(call.args) < 2 or not isinstance(call.args[1], ast.List):
    raise TranslatorError(f'{where}: Html.element child list is not a list literal (line {call.lineno})')
  return call.args[1].elts


def site_from_child(call, index, must_mention, where):
  kids = children_of(call, where)
  if len(kids) <= index:
    raise TranslatorError(f'{where}: child #{index} missing')
  e = kids[index]
  inner = escape_arg(e)
  raw = inner if inner is not None else e
  text = ast.unparse(raw)
  if must_mention not in text:
    raise TranslatorError(f'{where}: emitted expression `{text}` does not mention `{must_mention}`')
  return {'escaped': inner is not None, 'expr': ast.unparse(e), 'line': e.lineno}


def assigned_under_if(fn, test_src, target, where):
  """`if <test>: target = <expr>` -> expr."""
  for n in ast.walk(fn):
    if isinstance(n, ast.If) and ast.unparse(n.test) == test_src:
      for s in n.body:
        if (isinstance(s, ast.Assign) and len(s.targets) == 1 and isinstance(s.targets[0], ast.Name)
            and s.targets[0].id == target):
          return s.value
  raise TranslatorError(f'{where}: `if {test_src}: {target} = …` not found')


# -- completeness sweep -------------------------------------------------------------------------

MARKUP_CALLS = {   # calls that return rendered markup (Html / controls)
    'self.tooltip', 'key_tooltip_fn', 'summary_tooltip_fn', 'render_child_value', 'render_child_key',
    'self._tab_button', 'self._tab_content',
}
MARKUP_NAMES = {   # names bound to Html objects / controls at the emission point, per file
    TREE: {'summary', 'debug_info', 'content', 's', 'child_html', 'key_cell', 'value_cell'},
    LABEL: {'text_elem', 'self.tooltip', 'self.name', 'self.labels'},
    TOOLTIP: set(),
    TAB: {'tab.label', 'tab.content'},
    PROGRESS: {'self.subprogresses', 'self._progress_label'},
}


def classify(e, rel, registered):
  """Returns None if the emitted item is accounted for, else a description."""
  if e in registered:
    return None
  if isinstance(e, ast.Constant) and (e.value is None or isinstance(e.value, str)):
    return None
  if escape_arg(e) is not None:
    return None
  if is_element_call(e):
    return None
  if isinstance(e, ast.Lambda):
    return classify(e.body, rel, registered)
  if isinstance(e, ast.IfExp):
    return classify(e.body, rel, registered) or classify(e.orelse, rel, registered)
  if isinstance(e, ast.BinOp) and isinstance(e.op, ast.Add):
    return classify(e.left, rel, registered) or classify(e.right, rel, registered)
  if isinstance(e, ast.List):
    for x in e.elts:
      r = classify(x, rel, registered)
      if r:
        return r
    return None
  if isinstance(e, ast.ListComp):
    return classify(e.elt, rel, registered)
  if isinstance(e, ast.JoinedStr):
    return f'f-string `{ast.unparse(e)}` (line {e.lineno})'
  src = ast.unparse(e)
  if isinstance(e, ast.Call) and ast.unparse(e.func) in MARKUP_CALLS:
    return None
  if src in MARKUP_NAMES.get(rel, ()):
    return None
  return f'`{src}` (line {e.lineno})'


def sweep(rel, tree, registered):
  bad = []
  for n in ast.walk(tree):
    if is_element_call(n) and len(n.args) >= 2:
      r = classify(n.args[1], rel, registered)
      if r:
        bad.append(r)
    if (isinstance(n, ast.Call) and isinstance(n.func, ast.Attribute) and n.func.attr == 'write'
        and isinstance(n.func.value, ast.Name) and n.func.value.id == 's'):
      for a in n.args:
        r = classify(a, rel, registered)
        if r:
          bad.append(r)
  if bad:
    raise TranslatorError(f'{rel}: unclassified emission(s) reaching Html.element / write: ' + '; '.join(bad))


def style_script_args(rel, tree):
  """Non-constant arguments of add_style / add_script."""
  out = []
  for n in ast.walk(tree):
    if (isinstance(n, ast.Call) and isinstance(n.func, ast.Attribute)
        and n.func.attr in ('add_style', 'add_script')):
      for a in n.args:
        if isinstance(a, ast.Starred):
          out.append(ast.unparse(a))
        elif not (isinstance(a, ast.Constant) and isinstance(a.value, str)):
          out.append(ast.unparse(a))
  return out


# -- base.py --------------------------------------------------------------------------------------

def extract_base(tree):
  cls = common.find_class(tree, 'Html')
  esc = common.find_func(cls, 'escape')
  calls = [n for n in ast.walk(esc) if isinstance(n, ast.Call) and isinstance(n.func, ast.Attribute)
           and n.func.attr == 'escape' and isinstance(n.func.value, ast.Name) and n.func.value.id == 'html_lib']
  if len(calls) != 1:
    raise TranslatorError('Html.escape: expected exactly one html_lib.escape(...) call')
  c = calls[0]
  quote = True
  if len(c.args) >= 2:
    a = c.args[1]
    if not isinstance(a, ast.Constant):
      raise TranslatorError('Html.escape: html_lib.escape quote argument is not a constant')
    quote = bool(a.value)
  for kw in c.keywords:
    if kw.arg == 'quote':
      if not isinstance(kw.value, ast.Constant):
        raise TranslatorError('Html.escape: html_lib.escape quote argument is not a constant')
      quote = bool(kw.value.value)
  if not (len(c.args) >= 1 and isinstance(c.args[0], ast.Name)):
    raise TranslatorError('Html.escape: html_lib.escape first argument')
  # the str branch must return _escape(s) unchanged
  ok = any(isinstance(n, ast.If) and ast.unparse(n.test) == 'isinstance(s, str)'
           and len(n.body) == 1 and isinstance(n.body[0], ast.Return)
           and ast.unparse(n.body[0].value) == '_escape(s)' for n in ast.walk(esc))
  if not ok:
    raise TranslatorError('Html.escape: `if isinstance(s, str): return _escape(s)` not found')

  el = common.find_func(cls, 'element')
  pieces = []
  for n in ast.walk(el):
    if isinstance(n, ast.JoinedStr):
      pieces.append(''.join(v.value if isinstance(v, ast.Constant) else '{}' for v in n.values))
    elif (isinstance(n, ast.Call) and isinstance(n.func, ast.Attribute) and n.func.attr == 'write'):
      for a in n.args:
        if isinstance(a, ast.Constant) and isinstance(a.value, str):
          pieces.append(a.value)
  return quote, sorted(set(pieces))


CTLBASE = 'pyglove/core/views/html/controls/base.py'
JS_SITES = ['updateText', 'updateInnerHtml', 'insertAdjacentHtml', 'addCssRules', 'updateStyle',
            'updateProperty']
JS_SITE_FUNCS = {'_update_text': ('updateText', 'content'), '_update_inner_html': ('updateInnerHtml', 'html'),
                 '_insert_adjacent_html': ('insertAdjacentHtml', 'html'), '_add_css_rules': ('addCssRules', 'css'),
                 '_update_style': ('updateStyle', 'updated_styles'), '_update_property': ('updateProperty', 'value')}
# holes of the update scripts that are developer-chosen identifiers / selectors, not user text
JS_IDENT_HOLES = {'self.element_id(child)', 'self.element_id()', 'name', 'css_class', 'position', 'var_name',
                  'element_selector_js', 'index'}


def js_escape_arg(n):
  """x for `Html.escape(x, javascript_str=True)` optionally followed by `.to_str(content_only=True)`."""
  if (isinstance(n, ast.Call) and isinstance(n.func, ast.Attribute) and n.func.attr == 'to_str'):
    n = n.func.value
  if isinstance(n, ast.Call) and is_html_attr(n.func, 'escape') and len(n.args) == 1:
    for kw in n.keywords:
      if kw.arg == 'javascript_str' and isinstance(kw.value, ast.Constant) and kw.value.value is True:
        return n.args[0]
  return None


def extract_js_table(tree):
  """The javascript_str branch of Html.escape: a chain of s.replace(a, b) (sequential, order matters)
  or s.translate(TABLE) with a module-level str.maketrans({...}) (single pass)."""
  cls = common.find_class(tree, 'Html')
  esc = common.find_func(cls, 'escape')
  branch = None
  for n in ast.walk(esc):
    if isinstance(n, ast.If) and ast.unparse(n.test) == 'javascript_str':
      branch = n
  if branch is None or len(branch.body) == 0 or not isinstance(branch.body[-1], ast.Return):
    raise TranslatorError('Html.escape: `if javascript_str: return …` not found')
  e = branch.body[-1].value
  pairs = []
  cur = e
  while (isinstance(cur, ast.Call) and isinstance(cur.func, ast.Attribute) and cur.func.attr == 'replace'):
    if not (len(cur.args) == 2 and all(isinstance(a, ast.Constant) and isinstance(a.value, str) for a in cur.args)
            and len(cur.args[0].value) == 1):
      raise TranslatorError('Html.escape(javascript_str): replace() with non-constant / multi-character arguments')
    pairs.append((cur.args[0].value, cur.args[1].value))
    cur = cur.func.value
  if pairs:
    if not (isinstance(cur, ast.Name) and cur.id == 's'):
      raise TranslatorError('Html.escape(javascript_str): the replace chain does not start at `s`')
    return list(reversed(pairs)), True
  if (isinstance(e, ast.Call) and isinstance(e.func, ast.Attribute) and e.func.attr == 'translate'
      and isinstance(e.func.value, ast.Name) and e.func.value.id == 's' and len(e.args) == 1
      and isinstance(e.args[0], ast.Name)):
    name = e.args[0].id
    for n in tree.body:
      if (isinstance(n, ast.Assign) and len(n.targets) == 1 and isinstance(n.targets[0], ast.Name)
          and n.targets[0].id == name and isinstance(n.value, ast.Call)
          and ast.unparse(n.value.func) == 'str.maketrans' and len(n.value.args) == 1
          and isinstance(n.value.args[0], ast.Dict)):
        d = n.value.args[0]
        out = []
        for k, v in zip(d.keys, d.values):
          if not (isinstance(k, ast.Constant) and isinstance(k.value, str) and len(k.value) == 1
                  and isinstance(v, ast.Constant) and isinstance(v.value, str)):
            raise TranslatorError('Html.escape(javascript_str): translate table with non-constant entries')
          out.append((k.value, v.value))
        return out, False
    raise TranslatorError(f'Html.escape(javascript_str): translate table `{name}` not found')
  raise TranslatorError('Html.escape(javascript_str): neither a replace chain nor s.translate(TABLE)')


def extract_js_sites(trees):
  """For every self._run_javascript(f"...") in the controls: every hole is an escaped text
  (Html.escape(x, javascript_str=True)), a developer-chosen identifier, or a registered raw site."""
  table = {}
  for rel in (CTLBASE, LABEL, TOOLTIP, TAB, PROGRESS):
    for fn in ast.walk(trees[rel]):
      if not isinstance(fn, ast.FunctionDef):
        continue
      for n in ast.walk(fn):
        if not (isinstance(n, ast.Call) and isinstance(n.func, ast.Attribute) and n.func.attr == '_run_javascript'
                and isinstance(n.func.value, ast.Name) and n.func.value.id == 'self'):
          continue
        if not n.args:
          raise TranslatorError(f'{rel}:{n.lineno}: _run_javascript without a script argument')
        a = n.args[0]
        if isinstance(a, ast.Constant):
          continue
        if isinstance(a, ast.Name) and fn.name == '_run_javascript':
          continue
        if not isinstance(a, ast.JoinedStr):
          raise TranslatorError(f'{rel}:{n.lineno}: _run_javascript argument is not an f-string')
        site = JS_SITE_FUNCS.get(fn.name) if rel == CTLBASE else None
        seen_data = False
        for v in a.values:
          if not isinstance(v, ast.FormattedValue):
            continue
          src = ast.unparse(v.value)
          inner = js_escape_arg(v.value)
          if inner is not None:
            if site and site[1] in ast.unparse(inner):
              table[site[0]] = {'escaped': True, 'expr': src, 'line': v.value.lineno}
              seen_data = True
            continue
          if src in JS_IDENT_HOLES or src.startswith('self.element_id('):
            continue
          if site and site[1] in src:
            table[site[0]] = {'escaped': False, 'expr': src, 'line': v.value.lineno}
            seen_data = True
            continue
          raise TranslatorError(f'{rel}:{v.value.lineno}: unclassified hole `{src}` in a script passed to _run_javascript')
        if site and not seen_data:
          raise TranslatorError(f'{rel}: {fn.name}: the data hole `{site[1]}` was not found in the script')
  missing = [s for s in JS_SITES if s not in table]
  if missing:
    raise TranslatorError(f'{CTLBASE}: update script site(s) not found: {missing}')
  return table


EXPECTED_PIECES = sorted({'<{}', ' {}', ' class="{}"', ' style="{}"', ' {}="{}"', '>', '</{}>'})


def run():
  findings_known = common.known_exceptions('C20', 'unescaped')
  srcs = {}
  trees = {}
  for rel in (BASE, TREE, LABEL, TOOLTIP, TAB, PROGRESS, CTLBASE):
    srcs[rel], trees[rel] = common.parse_source(rel)

  quote, pieces = extract_base(trees[BASE])
  js_pairs, js_sequential = extract_js_table(trees[BASE])
  js_sites = extract_js_sites(trees)
  js_known = common.known_exceptions('C20', 'js_unescaped')

  view = common.find_class(trees[TREE], 'HtmlTreeView')
  table = {}
  registered = {rel: set() for rel in trees}

  # summary name: Html.element('div', [<name>, tooltip…], css_classes=['summary-name', …])
  fn = common.find_func(view, 'summary')
  call = find_element(fn, 'summary-name', 'summary')
  table['summaryName'] = site_from_child(call, 0, 'name', 'summary/summary-name')
  registered[TREE].add(children_of(call, 'summary')[0])
  # summary title: identifier / option text (reported; not a data site)
  tcall = find_element(fn, 'summary-title', 'summary')
  title_expr = children_of(tcall, 'summary')[0]
  registered[TREE].add(title_expr)
  title_src = ast.unparse(title_expr)
  if title_src != 'title or make_title(value)':
    raise TranslatorError(f'summary/summary-title: unexpected title expression `{title_src}`')

  # object key
  fn = common.find_func(view, 'object_key')
  call = find_element(fn, 'object-key', 'object_key')
  table['objectKey'] = site_from_child(call, 0, 'root_path.key', 'object_key/object-key')
  registered[TREE].add(children_of(call, 'object_key')[0])

  # simple value
  fn = common.find_func(view, 'simple_value')
  call = find_element(fn, 'simple-value', 'simple_value')
  table['simpleValue'] = site_from_child(call, 0, 'value_repr', 'simple_value/simple-value')
  registered[TREE].add(children_of(call, 'simple_value')[0])

  # tooltip content: `if content is None: content = Html.escape(utils.format(...))`, then [content]
  fn = common.find_func(view, 'tooltip')
  v = assigned_under_if(fn, 'content is None', 'content', 'tooltip')
  inner = escape_arg(v)
  if 'utils.format' not in ast.unparse(v):
    raise TranslatorError('tooltip: content is not produced by utils.format')
  table['tooltipContent'] = {'escaped': inner is not None, 'expr': ast.unparse(v)[:60], 'line': v.lineno}
  call = find_element(fn, 'tooltip', 'tooltip')
  kids = children_of(call, 'tooltip')
  if [ast.unparse(k) for k in kids] != ['content']:
    raise TranslatorError('tooltip: span.tooltip does not contain exactly [content]')

  # controls: Label text
  lab = common.find_class(trees[LABEL], 'Label')
  fn = common.find_func(lab, '_to_html')
  call = find_element(fn, 'label', 'Label._to_html')
  kid = children_of(call, 'Label._to_html')[0]
  src = ast.unparse(kid)
  if src == 'self.text':
    table['labelText'] = {'escaped': False, 'expr': src, 'line': kid.lineno}
  elif src == 'text':
    # `text = self.text; if isinstance(text, str): text = Html.escape(text)`
    v = assigned_under_if(fn, 'isinstance(text, str)', 'text', 'Label._to_html')
    table['labelText'] = {'escaped': escape_arg(v) is not None, 'expr': ast.unparse(v), 'line': v.lineno}
  else:
    inner = escape_arg(kid)
    if inner is None or 'text' not in ast.unparse(inner):
      raise TranslatorError(f'Label._to_html: unexpected label child `{src}`')
    table['labelText'] = {'escaped': True, 'expr': src, 'line': kid.lineno}
  registered[LABEL].add(kid)

  # controls: Tooltip content
  tip = common.find_class(trees[TOOLTIP], 'Tooltip')
  fn = common.find_func(tip, '_to_html')
  v = assigned_under_if(fn, 'isinstance(self.content, str)', 'content', 'Tooltip._to_html')
  table['tooltipControlContent'] = {'escaped': escape_arg(v) is not None, 'expr': ast.unparse(v), 'line': v.lineno}
  call = find_element(fn, 'tooltip', 'Tooltip._to_html')
  kids = children_of(call, 'Tooltip._to_html')
  if [ast.unparse(k) for k in kids] != ['content']:
    raise TranslatorError('Tooltip._to_html: span.tooltip does not contain exactly [content]')
  registered[TOOLTIP].add(kids[0])

  # controls: SubProgress name as css class
  sp = common.find_class(trees[PROGRESS], 'SubProgress')
  fn = common.find_func(sp, '_to_html')
  call = find_element(fn, 'sub-progress', 'SubProgress._to_html')
  cls_kw = [kw.value for kw in call.keywords if kw.arg == 'css_classes'][0]
  lst = cls_kw.left if isinstance(cls_kw, ast.BinOp) else cls_kw
  if len(lst.elts) != 2:
    raise TranslatorError('SubProgress._to_html: css class list shape')
  e = lst.elts[1]
  inner = escape_arg(e)
  if 'self.name' not in ast.unparse(e):
    raise TranslatorError('SubProgress._to_html: name-derived css class not found')
  table['subProgressClass'] = {'escaped': inner is not None, 'expr': ast.unparse(e), 'line': e.lineno}

  for rel in (TREE, LABEL, TOOLTIP, TAB, PROGRESS):
    sweep(rel, trees[rel], registered[rel])

  dyn_styles = {}
  for rel in (TREE, LABEL, TOOLTIP, TAB, PROGRESS):
    d = style_script_args(rel, trees[rel])
    if d:
      dyn_styles[rel] = d
  # Registered non-constant style sources (developer-supplied CSS, reported in the side-car; CSS/JS
  # blocks are outside the model): the extension hook of the tree view and Tooltip.for_element.
  for rel, d in dyn_styles.items():
    extra = [x for x in d
             if not ((rel == TOOLTIP and 'self.for_element' in x)
                     or (rel == TREE and x == '*self._html_tree_view_css_styles()'))]
    if extra:
      raise TranslatorError(f'{rel}: non-constant CSS/JS passed to add_style/add_script: {extra}')

  L = []
  L.append('/- GENERATED by translate/t_c20.py (T-ESC) from')
  L.append(f'   {BASE}, {TREE}, controls/{{label,tooltip,tab,progress_bar}}.py. Do not edit. -/')
  L.append('import PgModel.Html')
  L.append('namespace Pg.C20')
  L.append('')
  L.append('/-- Emission sites of user-derived text. -/')
  L.append('inductive SiteId where')
  for s in SITES:
    L.append(f'  | {s}')
  L.append('  deriving DecidableEq, Repr')
  L.append('')
  L.append('/-- T-ESC: for each site, is the emitted expression wrapped in `Html.escape(...)`? -/')
  L.append('def siteTable : List (SiteId × Bool) := [')
  L.append(',\n'.join(f'  (.{s}, {common.lean_bool(table[s]["escaped"])})' for s in SITES))
  L.append(']')
  L.append('')
  L.append('/-- The tree-view sites as the record the render model takes. -/')
  L.append('def sites : Sites :=')
  L.append('  { ' + ', '.join(f'{s} := {common.lean_bool(table[s]["escaped"])}' for s in TREE_SITES) + ' }')
  L.append('')
  L.append('/-- The sites of the controls as the record the control models take. -/')
  L.append('def csites : CSites :=')
  L.append('  { labelText := %s, tooltipContent := %s, subProgressClass := %s }' % (
      common.lean_bool(table['labelText']['escaped']), common.lean_bool(table['tooltipControlContent']['escaped']),
      common.lean_bool(table['subProgressClass']['escaped'])))
  L.append('')
  L.append('/-- `Html.escape` calls `html.escape` with quote=True (its default). -/')
  L.append(f'def escapeQuote : Bool := {common.lean_bool(quote)}')
  L.append('')
  L.append('/-- The literal pieces `Html.element` writes (f-string holes shown as {}) are exactly')
  L.append('    ' + ' | '.join(EXPECTED_PIECES) + '  (found: ' + ' | '.join(pieces) + '). -/')
  L.append(f'def elementShapeOk : Bool := {common.lean_bool(pieces == EXPECTED_PIECES)}')
  L.append('')
  L.append('/-- The javascript_str branch of `Html.escape`: (character, replacement) in source order;')
  L.append('    sequential = a chain of str.replace (order matters), otherwise one str.translate pass. -/')
  L.append('def jsEscapeTable : List (Char × Str) := ' + common.lean_list(
      ['(Char.ofNat %d, [%s])' % (ord(a), ', '.join('Char.ofNat %d' % ord(c) for c in b)) for a, b in js_pairs]))
  L.append(f'def jsEscapeSequential : Bool := {common.lean_bool(js_sequential)}')
  L.append('')
  L.append('/-- Update scripts of interactive controls (controls/base.py): holes that carry user text. -/')
  L.append('inductive JsSiteId where')
  for x in JS_SITES:
    L.append(f'  | {x}')
  L.append('  deriving DecidableEq, Repr')
  L.append('')
  L.append('/-- For each, is the text passed through `Html.escape(…, javascript_str=True)`? -/')
  L.append('def jsSiteTable : List (JsSiteId × Bool) := [')
  L.append(',\n'.join(f'  (.{x}, {common.lean_bool(js_sites[x]["escaped"])})' for x in JS_SITES))
  L.append(']')
  L.append('def knownUnescapedJs : List JsSiteId := ' + common.lean_list(['.' + x for x in js_known if x in JS_SITES]))
  L.append('')
  L.append('/-- Static exception list, from the findings files (never from the source). -/')
  L.append('def knownUnescaped : List SiteId := ' + common.lean_list(['.' + s for s in findings_known if s in SITES]))
  L.append('')
  L.append('end Pg.C20')
  L.append('')
  sidecar = {
      'sources': {rel: common.sha(rel) for rel in srcs},
      'sites': table,
      'escape_quote': quote,
      'js_escape_table': js_pairs, 'js_escape_sequential': js_sequential, 'js_sites': js_sites,
      'element_pieces': pieces,
      'dynamic_styles': dyn_styles,
      'known_unescaped': findings_known,
  }
  changed = common.write_gen('C20Sites', '\n'.join(L), sidecar)
  return {'changed': changed, 'sidecar': sidecar}


if __name__ == '__main__':
  import json
  print(json.dumps(run()['sidecar'], indent=1))
