"""C10 — path addressing is exact: generator, implementation runner, oracle.

Case shapes (strings travel as arrays of code points, str keys as code-point arrays, int keys as
JSON ints; nested values: null | int | {"s": cps} | {"d": [[key, val], ...]} | {"l": [val, ...]}):

  {"op": "rt",    "keys": [...]}                        str(KeyPath(keys)), KeyPath.parse of it
  {"op": "parse", "s": cps}                             KeyPath.parse on a raw string (malformed stream)
  {"op": "arith", "p": keys, "q": operand}              + - parent is_relative_to < <= > >= ==
  {"op": "order", "ps": [keys, keys, keys]}             the `<` matrix of three paths
  {"op": "set",   "a": [keys...], "b": [keys...], "ops": [{"k": kind, "p": keys}...]}
  {"op": "hier",  "v": val}                             traverse / query / flatten / canonicalize
  {"op": "query", "v": val, "p": keys}                  KeyPath.query on a plain value
  {"op": "canon", "v": val}                             canonicalize on a (maybe) non-canonical value

Implementation observables are public API only: pg.KeyPath, pg.utils.KeyPathSet, pg.traverse,
pg.query, pg.utils.traverse / flatten / canonicalize; exceptions are mapped to their class names.
"""

import json

from harness.common.framework import Prop

# ------------------------------------------------------------------------------------------
# wire format
# ------------------------------------------------------------------------------------------


def cps(s):
  return [ord(c) for c in s]


def uncps(a):
  return ''.join(chr(c) for c in a)


def wkey(k):
  if isinstance(k, int):
    return k
  if isinstance(k, str):
    return cps(k)
  return cps('<object %s>' % type(k).__name__)     # a key the API must never hand out


def unwkey(k):
  return k if isinstance(k, int) else uncps(k)


def wpath(keys):
  return [wkey(k) for k in keys]


def unwpath(p):
  return [unwkey(k) for k in p]


class _MissingH:
  """Harness-side stand-in for pg.MISSING_VALUE (the harness module must not import pyglove)."""

  def __repr__(self):
    return 'MISSING'


MISSING_H = _MissingH()


class ObjSpec:
  """A partial pg.Object of class `cls` (see SCHEMA) with the given fields bound."""

  def __init__(self, cls, fields):
    self.cls, self.fields = cls, fields

  def __repr__(self):
    return '%s.partial(%s)' % (self.cls, ', '.join('%s=%r' % kv for kv in self.fields.items()))


# field name -> default (REQUIRED: no default, unbound fields hold a missing-value placeholder)
REQUIRED = object()
SCHEMA = {'A': [('x', REQUIRED), ('y', REQUIRED), ('z', 5)], 'B': [('p', REQUIRED), ('q', REQUIRED)]}


def wval(v):
  if v is MISSING_H or type(v).__name__ == 'MissingValue':
    return {'m': True}
  if isinstance(v, bool):
    return {'b': v}
  if isinstance(v, ObjSpec):
    return {'o': v.cls, 'd': [[wkey(k), wval(x)] for k, x in v.fields.items()]}
  if v is None or (isinstance(v, int) and not isinstance(v, bool)):
    return v
  if isinstance(v, str):
    return {'s': cps(v)}
  if isinstance(v, dict):
    return {'d': [[wkey(k), wval(x)] for k, x in v.items()]}
  if isinstance(v, list):
    return {'l': [wval(x) for x in v]}
  return {'s': cps('<%s>' % type(v).__name__)}


def unwval(w, shared=None):
  """Builds the Python value. `{"def": n, "v": w}` defines a shared container, `{"ref": n}` puts the
  very same object at a further position (aliasing; never cyclic)."""
  shared = {} if shared is None else shared
  if w is None or isinstance(w, int):
    return w
  if 's' in w:
    return uncps(w['s'])
  if 'm' in w:
    return MISSING_H
  if 'b' in w:
    return bool(w['b'])
  if 'o' in w:
    return ObjSpec(w['o'], {unwkey(k): unwval(x, shared) for k, x in w['d']})
  if 'ref' in w:
    return shared.get(w['ref'])
  if 'def' in w:
    if 'd' in w['v']:
      obj = {}
      shared[w['def']] = obj
      for k, x in w['v']['d']:
        obj[unwkey(k)] = unwval(x, shared)
    else:
      obj = []
      shared[w['def']] = obj
      for x in w['v']['l']:
        obj.append(unwval(x, shared))
    return obj
  if 'd' in w:
    return {unwkey(k): unwval(x, shared) for k, x in w['d']}
  return [unwval(x, shared) for x in w['l']]


def wval_shared(v):
  """Serialises a value keeping aliasing: a dict/list object that occurs at several positions is
  written once (`def`) and referred to afterwards (`ref`)."""
  count = {}

  def walk(x):
    if isinstance(x, (dict, list)):
      count[id(x)] = count.get(id(x), 0) + 1
      if count[id(x)] > 1:
        return
      for y in (x.values() if isinstance(x, dict) else x):
        walk(y)
  walk(v)
  names = {}

  def ser(x):
    if not isinstance(x, (dict, list)):
      return wval(x)
    if count[id(x)] > 1:
      if id(x) in names:
        return {'ref': names[id(x)]}
      names[id(x)] = len(names)
      n = names[id(x)]
      body = ({'d': [[wkey(k), ser(y)] for k, y in x.items()]} if isinstance(x, dict)
              else {'l': [ser(y) for y in x]})
      return {'def': n, 'v': body}
    if isinstance(x, dict):
      return {'d': [[wkey(k), ser(y)] for k, y in x.items()]}
    return {'l': [ser(y) for y in x]}
  return ser(v)


def unfold_w(w):
  """The value as a tree: every alias replaced by a copy (what the Lean model is given)."""
  return wval(unwval(w))


def alias_count(v):
  """Number of extra positions at which some container object occurs again."""
  seen, extra = set(), [0]

  def walk(x):
    if isinstance(x, (dict, list)):
      if id(x) in seen:
        extra[0] += 1
      seen.add(id(x))
      for y in (x.values() if isinstance(x, dict) else x):
        walk(y)
  walk(v)
  return extra[0]


def digit_classes(obj):
  """The class of every non-ASCII character below `obj` under str.isdigit / int() (the model's
  DigitClass parameter): [[codepoint, d]] for decimal digits, [[codepoint, -1]] for digits that
  int() rejects; non-digits are omitted."""
  found = set()

  def walk(x):
    if isinstance(x, int):
      if x > 127:
        found.add(x)
    elif isinstance(x, list):
      for y in x:
        walk(y)
    elif isinstance(x, dict):
      for y in x.values():
        walk(y)
  walk(obj)
  out = []
  for cp in sorted(found):
    if cp > 0x10FFFF:
      continue
    c = chr(cp)
    if c.isdigit():
      try:
        out.append([cp, int(c)])
      except ValueError:
        out.append([cp, -1])
  return out


# ------------------------------------------------------------------------------------------
# the property's own vocabulary (independent of pyglove)
# ------------------------------------------------------------------------------------------

def balanced(s):
  d = 0
  for c in s:
    if c == '[':
      d += 1
    elif c == ']':
      d -= 1
      if d < 0:
        return False
  return d == 0


def wf_key(k):
  """Keys for which the property promises a round trip: ints, non-empty bracket-balanced strs."""
  return isinstance(k, int) or (k != '' and balanced(k))


def special(k):
  return any(c in k for c in '[].')


def tkey(k):
  return ('i', k) if isinstance(k, int) else ('s', k)


def tpath(keys):
  return tuple(tkey(k) for k in keys)


def canonical_value(v, fck, top=True):
  """Values on which flatten∘canonicalize can be the identity (what the flat form can express)."""
  if isinstance(v, dict):
    if not v:
      return True
    ks = list(v.keys())
    if all(isinstance(k, int) for k in ks) and min(ks) == 0 and max(ks) == len(ks) - 1:
      return False                      # a dict that *is* a list in flat form
    for k in ks:
      if isinstance(k, str):
        if k == '' or (special(k) if fck else not balanced(k)):
          return False
    return all(canonical_value(x, fck, False) for x in v.values())
  if isinstance(v, list):
    return all(canonical_value(x, fck, False) for x in v)
  return True


def all_nodes(v, path=()):
  yield path
  if isinstance(v, dict):
    for k, x in v.items():
      yield from all_nodes(x, path + (k,))
  elif isinstance(v, list):
    for i, x in enumerate(v):
      yield from all_nodes(x, path + (i,))


def depth_of(v):
  if isinstance(v, dict):
    return 1 + max([depth_of(x) for x in v.values()] or [0])
  if isinstance(v, list):
    return 1 + max([depth_of(x) for x in v] or [0])
  return 0


# ------------------------------------------------------------------------------------------
# generators
# ------------------------------------------------------------------------------------------

ALPHA = ['a', 'b', '0', '1', '-', '.', '[', ']', '$', ' ', 'é', '٣', '²', '5']
IDENT = ['a', 'b', 'c', 'x', 'y', 'foo', 'x1', '_z', 'a_b', 'été']
DIGITS = ['0', '1', '10', '007', '42', '٣', '1٣', '²']
DASHY = ['-', '-5', '--1', '-0', '-a', '5-', '-٣']
COMPLEX = ['x.y', '[0]', 'a[b]', '[]', '.', '..', 'a.[b.c]', '[[x]]', 'a[0].b', '[-1]', '[a][b]', '[$]', '1.5']
UNBAL = ['[', ']', '][', 'a]', '[a', ']a[', '[[]', '[]]']
DOLLAR = ['$', '$x', '$$']
MALFORMED = ['[', ']', 'a[', 'a]', '[--1]', '[--]', 'a..b', '.', '..', '[]', 'a[]', '[][]', 'a.[0]', '[0]]',
             '[[0]', '[²]', '[٣]', '[-٣]', '[1²]', '[ 1]', '[1 ]', '[+1]', '[1_0]', '[-]',
             '[-0]', '[00]', 'a[0]b', '[a]b.c', '.a', 'a.', '[0].', '.[0]', 'a[b[c]d]e', '[a.b][c]',
             '[-1][--1]', '[1.5]', '[١٢]', '$', 'a.$', '[$]', '[0', '0]', '-5', '[5-]']


def gen_key(rng, wf_bias=True):
  k = rng.weighted([(30, 'ident'), (12, 'int'), (8, 'digits'), (6, 'dashy'), (14, 'complex'),
                    (3, 'dollar'), (6, 'random'), (3 if wf_bias else 12, 'unbal'), (1 if wf_bias else 4, 'empty')])
  if k == 'ident':
    return rng.choice(IDENT)
  if k == 'int':
    return rng.choice([0, 1, 2, 5, 10, -1, -5, 12, 100, 10 ** 20, -10 ** 19 - 7, rng.randint(-50, 50)])
  if k == 'digits':
    return rng.choice(DIGITS)
  if k == 'dashy':
    return rng.choice(DASHY)
  if k == 'complex':
    return rng.choice(COMPLEX)
  if k == 'dollar':
    return rng.choice(DOLLAR)
  if k == 'unbal':
    return rng.choice(UNBAL)
  if k == 'empty':
    return ''
  return ''.join(rng.choice(ALPHA) for _ in range(rng.randint(1, 4)))


def gen_keys(rng, lo=0, hi=6, wf_bias=True):
  return [gen_key(rng, wf_bias) for _ in range(rng.randint(lo, hi))]


def gen_wf_keys(rng, lo=0, hi=4):
  out = []
  while len(out) < rng.randint(lo, hi):
    k = gen_key(rng)
    if wf_key(k):
      out.append(k)
  return out


def py_path_str(keys):
  """The harness' own printer (only used to *generate* strings)."""
  s = []
  for i, k in enumerate(keys):
    if isinstance(k, str) and not special(k):
      s.append(('.' if i else '') + k)
    else:
      s.append('[%s]' % k)
  return ''.join(s)


def gen_raw(rng):
  m = rng.below(10)
  if m < 3:
    return rng.choice(MALFORMED)
  if m < 6:
    s = py_path_str(gen_keys(rng, 1, 4))
    # mutate: delete / insert / replace one character
    for _ in range(rng.randint(0, 2)):
      if s and rng.chance(0.5):
        i = rng.below(len(s))
        s = s[:i] + s[i + 1:]
      else:
        i = rng.below(len(s) + 1)
        s = s[:i] + rng.choice(ALPHA) + s[i:]
    return s
  if m < 8:
    return py_path_str(gen_wf_keys(rng, 0, 5))
  return ''.join(rng.choice(ALPHA) for _ in range(rng.randint(0, 8)))


ORDER_POOL = [0, 1, 2, 10, -1, '0', '1', '10', '1a', '2', 'a', 'b', '-1', 'ab', '', 'B']
SET_POOL = ['a', 'b', 'c', 0, 1, '0', 'x.y', -1]


def gen_set_path(rng, dollar):
  n = rng.weighted([(1, 0), (4, 1), (5, 2), (3, 3)])
  pool = SET_POOL + (['$', '$'] if dollar else [])
  return [rng.choice(pool) for _ in range(n)]


SET_OPS = [(8, 'add'), (2, 'add_ii'), (8, 'remove'), (5, 'contains'), (3, 'has_prefix'), (3, 'rebase'),
           (2, 'subtree'), (4, 'update'), (3, 'union'), (4, 'intersection_update'), (3, 'intersection'),
           (4, 'difference_update'), (3, 'difference'), (1, 'clear'), (4, 'eq'), (2, 'swap'),
           (1, 'self_update'), (1, 'self_union'), (1, 'self_intersection_update'), (1, 'self_intersection'),
           (1, 'self_difference_update'), (1, 'self_difference'), (1, 'self_eq')]


def gen_value(rng, depth, flat_friendly, top=False):
  """A nested plain value. flat_friendly: keys the flat form can express (mostly)."""
  if depth <= 0 or (rng.chance(0.3) and not top):
    return rng.choice([None, 0, 1, -3, 7, 'v', 'abc', '', 'x.y', 12345678901234567890, False, True])
  if rng.chance(0.45):
    return [gen_value(rng, depth - 1, flat_friendly) for _ in range(rng.randint(0, 3))]
  d = {}
  style = rng.below(10)
  for _ in range(rng.randint(0, 4)):
    if style == 0:
      k = rng.choice([0, 1, 2, 3, 5, -1])             # int-keyed dict
    elif flat_friendly and style < 8:
      k = rng.choice(IDENT + ['0', '12', '-5', '-', '$', '٣'])
    else:
      k = gen_key(rng)
    d[k] = gen_value(rng, depth - 1, flat_friendly)
  return d


def containers_of(v):
  """(object, set of ids of the object and its descendants) for every distinct container below v."""
  out, seen = [], set()

  def walk(x):
    if not isinstance(x, (dict, list)):
      return set()
    ids = {id(x)}
    for y in (x.values() if isinstance(x, dict) else x):
      ids |= walk(y)
    if id(x) not in seen:
      seen.add(id(x))
      out.append((x, ids))
    return ids
  walk(v)
  return out


def add_aliases(rng, v, flat_friendly):
  """Places the same dict/list object (or an equal but distinct copy) at further positions of v:
  as a sibling, at a parent / descendant level of another branch, twice inside a list. Never into
  itself or one of its own descendants (no cycles)."""
  import copy
  if not isinstance(v, (dict, list)):
    return v
  for _ in range(rng.randint(1, 3)):
    cs = containers_of(v)
    cands = [c for c in cs if c[0] is not v]
    if cands and rng.chance(0.8):
      sub, ids = rng.choice(cands)
    else:
      sub = rng.choice([[1, 2], {'p': 1, 'q': [0]}, [], {}, [[3]], {'k': {'z': None}}])
      ids = {id(sub)} | {i for _, d in containers_of(sub) for i in d}
    places = rng.randint(1, 2) if sub in [c[0] for c in cands] else 2
    for _ in range(places):
      targets = [c[0] for c in containers_of(v) if id(c[0]) not in ids]
      if not targets:
        break
      t = rng.choice(targets)
      obj = copy.deepcopy(sub) if rng.chance(0.2) else sub     # equal but distinct, sometimes
      if isinstance(t, list):
        t.insert(rng.randint(0, len(t)), obj)
        if rng.chance(0.3):
          t.append(obj)                                        # twice in the same list
      else:
        pool = (['s1', 's2', 'y', 'zz', '0', '-1'] if flat_friendly else ['s1', 'x.y', '[0]', 'a[b]', 7, 0])
        free = [k for k in pool if k not in t]
        if free:
          t[rng.choice(free)] = obj
  return v


def expected_tree(v, sym):
  """What the API must show for a value spec — pyglove-free: partial objects become dicts of their
  schema fields (unbound required fields hold MISSING_H, defaults apply); symbolic dicts / lists
  (everything below a symbolic node, or a root wrapped in pg.Dict / pg.List) drop entries whose value
  is a plain missing-value placeholder, as pg.Dict / pg.List do on construction."""
  if isinstance(v, ObjSpec):
    out = {}
    for f, default in SCHEMA[v.cls]:
      if f in v.fields:
        out[f] = expected_tree(v.fields[f], True)
      else:
        out[f] = MISSING_H if default is REQUIRED else default
    return out
  if isinstance(v, dict):
    out = {}
    for k, x in v.items():
      e = expected_tree(x, sym)
      if sym and e is MISSING_H:
        continue
      out[k] = e
    return out
  if isinstance(v, list):
    es = [expected_tree(x, sym) for x in v]
    return [e for e in es if not (sym and e is MISSING_H)]
  return v


def has_obj(v):
  if isinstance(v, ObjSpec):
    return True
  if isinstance(v, dict):
    return any(has_obj(x) for x in v.values())
  if isinstance(v, list):
    return any(has_obj(x) for x in v)
  return False


def resolves(e, p):
  """Does path p address a position of the tree e? None: not decidable by position (the path goes
  through a str leaf, which KeyPath.query indexes like a sequence, or uses a negative index)."""
  for k in p:
    if isinstance(e, dict):
      if not any(tkey(k) == tkey(k2) for k2 in e):
        return False
      e = [x for k2, x in e.items() if tkey(k2) == tkey(k)][0]
    elif isinstance(e, list):
      if not isinstance(k, int):
        return None if any(x == k for x in e if isinstance(x, str)) else False
      if k < 0:
        return None
      if k >= len(e):
        return False
      e = e[k]
    elif isinstance(e, str):
      return None
    else:
      return False
  return True


SYM_KEYS = ['a', 'b', 'c', 'x', 'y', 'foo', 'x1', '0', '12', 'x.y', '$', 'a[0]']
LOOK_LEAVES = [MISSING_H, MISSING_H, None, 0, '', False, True, 1, -3, 'v', 'abc']


def gen_look_value(rng, depth, sym):
  if depth <= 0 or rng.chance(0.3):
    k = rng.below(10)
    if k == 0:
      return []
    if k == 1:
      return {}
    return rng.choice(LOOK_LEAVES)
  k = rng.below(10)
  if k < 3:
    return [gen_look_value(rng, depth - 1, sym) for _ in range(rng.randint(0, 4))]
  if k < 7:
    d = {}
    for _ in range(rng.randint(0, 4)):
      key = rng.choice(SYM_KEYS) if (sym or rng.chance(0.6)) else gen_key(rng)
      if wf_key(key):
        d[key] = gen_look_value(rng, depth - 1, sym)
    return d
  cls = rng.choice(['A', 'A', 'B'])
  fields = {}
  for f, _ in SCHEMA[cls]:
    if rng.chance(0.5):
      x = gen_look_value(rng, depth - 1, True)
      if x is not MISSING_H:
        fields[f] = x
  return ObjSpec(cls, fields)


def gen_probes(rng, e, clean_only):
  nodes = [list(p) for p in all_nodes(e)]
  probes = []
  for _ in range(rng.randint(3, 8)):
    p = list(rng.choice(nodes))
    node = e
    for k in p:
      node = node[k]
    m = rng.below(8)
    if m == 0:
      pass
    elif m <= 3:
      if isinstance(node, dict):
        p = p + [rng.choice(['zz', 'nope', 0] if not clean_only else ['zz', 'nope'])]
      elif isinstance(node, list):
        p = p + [len(node) + rng.below(2)]
      else:
        p = p + [rng.choice([0, 'k'])]
    elif m == 4 and p:
      p[-1] = rng.choice(['zz', 7]) if isinstance(p[-1], str) else p[-1] + 3
    elif m == 5 and p:
      p = p[:-1] + [p[-1], rng.choice(['a', 0])]
    elif m == 6 and not clean_only:
      p = p + [rng.choice([-1, -9, 'v', ''])]
    else:
      p = p[:rng.randint(0, len(p))]
    probes.append(p)
  return probes


def flat_of(v):
  """Harness-side flattening used only to *generate* non-canonical inputs."""
  out = {}
  for p in all_nodes(v):
    if not p:
      continue
    x = v
    for k in p:
      x = x[k]
    if not isinstance(x, (dict, list)) or not x:
      out[py_path_str(list(p))] = x
  return out


# ------------------------------------------------------------------------------------------
# the property module
# ------------------------------------------------------------------------------------------

def _exc(e):
  return {'err': type(e).__name__}


class C10(Prop):
  id = 'C10'
  props_modules = ['PgProps.C10']
  driver = 'drv_c10'
  translators = []
  case_timeout_s = 20
  rule = ('nine case kinds. routes: one key sequence (1-5 keys, same key vocabulary as rt) built through 20-24 '
          'construction routes (one-shot list/tuple, KeyPath(key, parent) chains with and without str / hash / '
          '== str / repr / .path / < of the parent in between, split lists on a formatted parent, + chains, '
          'from_value, parent of a child, subtraction of a prefix, parse / parse with parent / + str) and observed '
          'through str, path_str, repr, parse, hash, ==, <, is_relative_to, -, +, child, parent; rt: 0-6 keys drawn from identifiers, ints (incl. negative / 20-digit), '
          'digit-only and dash strings, keys with . [ ] (balanced), "$", unicode (é, Arabic-Indic 3, '
          'superscript 2), random strings over a 14-character alphabet, and (non-WF stream) unbalanced / '
          'empty strings; parse: printed paths with 0-2 character mutations, a curated malformed list, '
          'random strings; arith: p with an operand that is a prefix / extension / sibling path, a printed '
          'or malformed string, an int or None; order: triples over a 16-key pool chosen to collide '
          '(0 vs "0", 10 vs "1a" vs 2); set: two sets of 0-5 paths over an 8-key pool (3% with "$" keys) '
          'and 1-8 operations; hier/query/canon: nested dict/list values of depth <= 3, int-keyed dicts, '
          'flat dicts derived from values with merged / reordered / sparse keys. Non-trivial: rt with >= 2 '
          'keys one of which is not an identifier; parse of >= 3 characters; arith with non-empty p; '
          'order with 3 distinct paths; set with >= 2 operations on a non-empty set; values of depth >= 2.')
  trusted_base = [
      'CPython str.isdigit / int() on single non-ASCII characters (model parameter DigitClass, computed by '
      'the harness per character), str(int), str comparison by code point, dict insertion order',
      'modelled, not verified against the Python text: KeyPath.parse / path_str / arithmetic / comparison, '
      'the KeyPathSet trie operations, utils.traverse / pg.traverse / KeyPath.query on plain values, '
      'flatten, canonicalize (tied by correspondence on generated inputs)',
      'outside the model: custom key objects and StrKey, tuples in flatten, symbolic (pg.Dict/pg.Object) '
      'traversal other than through the oracle, sparse_list_as_dict=False, merge() with user merge_fn',
  ]
  assumptions = ['int(s) of a digit string is the positional value of the per-character digit values '
                 '(mixed scripts included); strings of more than 4300 digits are not generated']

  # -- generation -------------------------------------------------------------------------
  def generate(self, rng, tier):
    q = tier == 'quick'
    n_rt, n_parse, n_arith, n_order, n_set, n_hier, n_query, n_canon = (
        (1500, 1200, 900, 500, 500, 400, 400, 400) if q else
        (60000, 40000, 30000, 15000, 20000, 10000, 10000, 10000))
    for _ in range(n_rt):
      yield {'op': 'rt', 'keys': wpath(gen_keys(rng, 0, 6, wf_bias=not rng.chance(0.12)))}
    for _ in range(n_rt):
      keys = gen_keys(rng, 1, 5, wf_bias=not rng.chance(0.1))
      yield {'op': 'routes', 'keys': wpath(keys), 'split': rng.randint(0, len(keys)),
             'extra': wkey(gen_key(rng)), 'prefix': wpath(gen_wf_keys(rng, 0, 2)),
             'other': wpath(keys[:rng.randint(0, len(keys))] + gen_keys(rng, 0, 2))}
    for _ in range(n_parse):
      yield {'op': 'parse', 's': cps(gen_raw(rng))}
    for _ in range(n_arith):
      yield self.gen_arith(rng)
    for _ in range(n_order):
      yield {'op': 'order', 'ps': [wpath([rng.choice(ORDER_POOL) for _ in range(rng.randint(0, 3))])
                                   for _ in range(3)]}
    for _ in range(n_set):
      dollar = rng.chance(0.08)
      a = [gen_set_path(rng, dollar) for _ in range(rng.randint(0, 5))]
      b = [gen_set_path(rng, dollar) for _ in range(rng.randint(0, 5))]
      if rng.chance(0.2):
        b = a[:rng.randint(0, len(a))] + b[:2]
      ops = []
      for _ in range(rng.randint(1, 8)):
        k = rng.weighted(SET_OPS)
        p = gen_set_path(rng, dollar)
        if a and rng.chance(0.5):
          p = list(rng.choice(a))
          if rng.chance(0.3) and p:
            p = p[:rng.randint(0, len(p))]
        ops.append({'k': k, 'p': wpath(p)})
      yield {'op': 'set', 'a': [wpath(p) for p in a], 'b': [wpath(p) for p in b], 'ops': ops}
    for _ in range(n_hier):
      ff = rng.chance(0.7)
      v = gen_value(rng, 3, ff, top=not rng.chance(0.05))
      if rng.chance(0.4):
        v = add_aliases(rng, v, ff)
      yield {'op': 'hier', 'v': wval_shared(v)}
    for _ in range(n_hier):
      mode = rng.weighted([(3, 'plain'), (3, 'sym'), (3, 'obj')])
      if mode == 'obj':
        cls = rng.choice(['A', 'B'])
        v = ObjSpec(cls, {f: x for f, _ in SCHEMA[cls] if rng.chance(0.5)
                          for x in [gen_look_value(rng, 2, True)] if x is not MISSING_H})
      else:
        v = gen_look_value(rng, 3, mode == 'sym')
        if not isinstance(v, (dict, list)):
          v = {'k': v, 'e': MISSING_H} if rng.chance(0.5) else [v, MISSING_H, 0]
        if mode == 'plain' and rng.chance(0.3):
          v = add_aliases(rng, v, True)
      sym = mode != 'plain'
      e = expected_tree(v, sym and not isinstance(v, ObjSpec) or isinstance(v, ObjSpec))
      yield {'op': 'look', 'v': wval_shared(v), 'sym': sym,
             'probes': [wpath(p) for p in gen_probes(rng, e, clean_only=sym or has_obj(v))]}
    for _ in range(n_query):
      v = gen_value(rng, 3, True, top=True)
      if rng.chance(0.3):
        v = add_aliases(rng, v, True)
      nodes = list(all_nodes(v))
      p = list(rng.choice(nodes))
      m = rng.below(6)
      if m == 0:
        p = p + [rng.choice([0, -1, 5, 'a', 'v', 'b', ''])]
      elif m == 1 and p:
        p[-1] = rng.choice([0, -1, -2, 3, 'a', 'zz', '0'])
      if rng.chance(0.3) and isinstance(v, (dict, list)):
        # missing-value placeholders as leaves of a plain value
        for c, _ in containers_of(v):
          for k in (list(c.keys()) if isinstance(c, dict) else range(len(c))):
            if not isinstance(c[k], (dict, list)) and rng.chance(0.3):
              c[k] = MISSING_H
      yield {'op': 'query', 'v': wval_shared(v), 'p': wpath(p)}
    for _ in range(n_canon):
      v = self.gen_noncanonical(rng)
      if rng.chance(0.25):
        v = add_aliases(rng, v, True)
      if rng.chance(0.15):
        # the same object under two keys, and a path-like key that patches below one of them
        sub = rng.choice([[1, 2], [{'p': 1}], {'p': 1, 'q': [0]}, {'k': {'z': None}}, [[3], 4]])
        k1, k2 = rng.sample(['a', 'b', 'c', 'x'], 2)
        v = {k1: sub, k2: sub} if rng.chance(0.7) else {k1: [sub, sub]}
        tgt = k1 if isinstance(v[k1], (dict,)) or v[k1] is sub else k1 + '[0]'
        suffix = rng.choice(['[0]', '[5]', '.p', '.new', '[0].p', '.q[0]', '.k.z2'])
        if rng.chance(0.5):
          v[tgt + suffix] = rng.choice([7, 'n', None])
        else:
          v = dict([(tgt + suffix, 7)] + list(v.items()))
      yield {'op': 'canon', 'v': wval_shared(v)}
    # small exhaustive family: every key sequence of length <= 2 over strings of length <= 2 from a
    # 6-character alphabet plus three ints (thorough: length <= 3 strings)
    alpha = ['a', '0', '-', '.', '[', ']']
    strs = ['']
    for n in range(1, 3 if q else 4):
      strs += [x + c for x in strs if len(x) == n - 1 for c in alpha]
    keys = strs + [0, -5, 12]
    if q:
      keys = [k for k in keys if isinstance(k, int) or len(k) <= 1] + ['[]', '[0]', '][', '..', '-0', 'a.']
    for a in keys:
      yield {'op': 'rt', 'keys': wpath([a])}
      for b in keys:
        yield {'op': 'rt', 'keys': wpath([a, b])}

  def gen_arith(self, rng):
    p = gen_wf_keys(rng, 0, 4) if rng.chance(0.85) else gen_keys(rng, 0, 4)
    m = rng.below(13)
    if m == 12:
      return {'op': 'arith', 'p': wpath(p), 'q': {'same': True}}
    if m < 3:
      q = {'path': wpath(p[:rng.randint(0, len(p))])}
    elif m < 5:
      q = {'path': wpath(p + gen_wf_keys(rng, 1, 2))}
    elif m < 6:
      k = p[:rng.randint(0, len(p))]
      q = {'path': wpath(k + gen_wf_keys(rng, 1, 2))}
    elif m < 7:
      q = {'path': wpath(gen_keys(rng, 0, 3))}
    elif m < 9:
      base = p[:rng.randint(0, len(p))] if rng.chance(0.6) else gen_wf_keys(rng, 0, 3)
      q = {'str': cps(py_path_str(base))}
    elif m < 10:
      q = {'str': cps(gen_raw(rng))}
    elif m < 11:
      q = {'int': rng.choice([0, 1, -1, 5, p[0] if p and isinstance(p[0], int) else 3])}
    else:
      q = {'none': True}
    return {'op': 'arith', 'p': wpath(p), 'q': q}

  def gen_noncanonical(self, rng):
    m = rng.below(10)
    v = gen_value(rng, 3, True)
    if m < 4 and isinstance(v, (dict, list)) and v:
      f = flat_of(v)
      items = rng.shuffle(list(f.items())) if rng.chance(0.5) else list(f.items())
      return dict(items)
    if m < 6:
      # several flattened values merged into one dict (conflicts, list patches, sparse indices)
      out = {}
      for _ in range(rng.randint(1, 3)):
        w = gen_value(rng, 2, True)
        if isinstance(w, (dict, list)) and w:
          for k, x in flat_of(w).items():
            if rng.chance(0.85):
              out[k] = x
        elif isinstance(w, dict):
          out.update(w)
      if rng.chance(0.5):
        out[rng.choice(['a[1]', 'a[5]', 'a[-1]', 'a.b', 'a', '[0]', '[2]', 'x[0].y', 'x[0]', ''])] = gen_value(rng, 1, True)
      return out
    if m < 8:
      # nested non-canonical: path-like keys below the top level, values that are containers
      d = {}
      for _ in range(rng.randint(1, 4)):
        k = rng.choice(['a', 'a.b', 'a.b.c', 'a[0]', 'a[1]', 'a[0].x', 'b', '[0]', '[1]', 'c[x.y]', 'a..b', 'a[',
                        0, 1, 'a[--1]', 'a[٣]', ''])
        d[k] = gen_value(rng, 2, False) if rng.chance(0.5) else self.gen_noncanonical(rng) if rng.chance(0.3) else rng.choice([1, 'v', None, [], {}])
      return d
    return v

  # -- execution --------------------------------------------------------------------------
  def model_request(self, case):
    if case['op'] == 'routes':
      case = {'op': 'rt', 'keys': case['keys']}
    r = dict(case)
    if r['op'] == 'look':
      e = expected_tree(unwval(case['v']), case['sym'])
      return {'op': 'look', 'v': wval(e), 'probes': case['probes'], 'dc': digit_classes(case)}
    if 'v' in r:
      r['v'] = unfold_w(r['v'])        # the model is over trees: aliasing is unfolded
    if r['op'] == 'arith' and 'same' in r['q']:
      r['q'] = {'path': r['p']}
    r['dc'] = digit_classes(r)
    return r

  def compare(self, case, impl_out, model_out):
    if case['op'] == 'look' and impl_out.get('build_error'):
      return None
    if case['op'] != 'routes':
      return super().compare(case, impl_out, model_out)
    want = [model_out['str'], model_out['parsed'], model_out['str_plain']]
    for name, st, parsed, plain in impl_out['model']['routes']:
      if [st, parsed, plain] != want:
        return 'route %s: impl=%s model=%s' % (name, json.dumps([st, parsed, plain])[:300], json.dumps(want)[:300])
    return None

  def impl(self, case):
    from pyglove.core import utils
    from pyglove.core.utils.value_location import KeyPath, KeyPathSet
    op = case['op']
    if op == 'rt':
      keys = unwpath(case['keys'])
      p = KeyPath(keys)
      s = str(p)
      try:
        parsed = wpath(KeyPath.parse(s).keys)
      except Exception as e:     # pylint: disable=broad-except
        parsed = _exc(e)
      return {'model': {'str': cps(s), 'parsed': parsed, 'str_plain': cps(p.path_str(False))}}
    if op == 'parse':
      try:
        p = KeyPath.parse(uncps(case['s']))
      except Exception as e:     # pylint: disable=broad-except
        return {'model': _exc(e)}
      back = None
      try:
        back = wpath(KeyPath.parse(str(p)).keys)
      except Exception as e:     # pylint: disable=broad-except
        back = _exc(e)
      return {'model': wpath(p.keys), 'back': back}
    if op == 'look':
      return self.impl_look(case, KeyPath)
    if op == 'routes':
      return self.impl_routes(case, KeyPath)
    if op == 'arith':
      return self.impl_arith(case, KeyPath)
    if op == 'order':
      objs = {}
      ps = [objs.setdefault(json.dumps(p), KeyPath(unwpath(p))) for p in case['ps']]
      lt = [[bool(a < b) for b in ps] for a in ps]
      eq = [[bool(a == b) for b in ps] for a in ps]
      return {'model': {'lt': lt}, 'eq': eq}
    if op == 'set':
      return self.impl_set(case, KeyPath, KeyPathSet)
    if op == 'hier':
      return self.impl_hier(case, utils, KeyPath)
    if op == 'query':
      import pyglove as pg
      v = self.build_real(unwval(case['v']), pg)
      try:
        r = KeyPath(unwpath(case['p'])).query(v)
      except Exception as e:     # pylint: disable=broad-except
        return {'model': {'r': _exc(e)}}
      return {'model': {'r': wval(r)}}
    if op == 'canon':
      v = unwval(case['v'])
      try:
        r = utils.canonicalize(v)
      except Exception as e:     # pylint: disable=broad-except
        return {'model': {'r': _exc(e)}}
      out = {'model': {'r': wval(r)}}
      try:
        out['flat_back'] = wval(utils.flatten(r))
      except Exception as e:     # pylint: disable=broad-except
        out['flat_back'] = _exc(e)
      return out
    raise ValueError('unknown op %r' % op)

  _classes = None

  def pg_classes(self, pg):
    if C10._classes is None:
      ns = {}
      for name, fields in SCHEMA.items():
        members = [(f, pg.typing.Any() if d is REQUIRED else pg.typing.Any(default=d)) for f, d in fields]
        ns[name] = pg.members(members)(type('C10' + name, (pg.Object,), {}))
      C10._classes = ns
    return C10._classes

  def build_real(self, v, pg):
    """The real value for a spec: plain dict / list, pg.MISSING_VALUE, partial pg.Objects."""
    memo = {}

    def go(x):
      if x is MISSING_H:
        return pg.MISSING_VALUE
      if isinstance(x, ObjSpec):
        return self.pg_classes(pg)[x.cls].partial(**{f: go(y) for f, y in x.fields.items()})
      if isinstance(x, dict):
        if id(x) not in memo:
          memo[id(x)] = {}
          for k, y in x.items():
            memo[id(x)][k] = go(y)
        return memo[id(x)]
      if isinstance(x, list):
        if id(x) not in memo:
          memo[id(x)] = []
          for y in x:
            memo[id(x)].append(go(y))
        return memo[id(x)]
      return x
    return go(v)

  REBINDERS = ['int->float', 'bool->int', 'list-copy', 'leaf-str-copy', 'int+1']

  def rebind_checks(self, root, KeyPath):
    """get_rebind_dict with rebinders whose result is equal to, but not the same object as, the old
    value (next to one that changes the value). Expectation, computed here by an own walk: exactly
    the outermost nodes whose result `is not` the old value, keyed by the printed path."""
    from pyglove.core.symbolic import base as sym_base
    import pyglove as pg
    fns = {
        'int->float': lambda x: float(x) if type(x) is int and abs(x) < 2 ** 53 else x,
        'bool->int': lambda x: int(x) if type(x) is bool else x,
        'list-copy': lambda x: list(x) if type(x) is list and x else x,
        'leaf-str-copy': lambda x: ''.join(list(x)) + '' if type(x) is str and len(x) > 1 else x,
        'int+1': lambda x: x + 1 if type(x) is int else x,
    }
    out = {}
    for name in self.REBINDERS:
      fn = fns[name]
      want = []

      def walk(x, keys):
        new = fn(x)
        if new is not x:
          want.append((str(KeyPath(list(keys))), type(new).__name__, new))
          return
        if isinstance(x, dict):
          for k, y in x.items():
            walk(y, keys + [k])
        elif isinstance(x, list):
          for i, y in enumerate(x):
            walk(y, keys + [i])
        elif isinstance(x, pg.Object):
          for k, y in x.sym_items():
            walk(y, keys + [k])
      walk(root, [])
      try:
        got = sym_base.get_rebind_dict((lambda f: (lambda k, x: f(x)))(fn), root)
        got_l = [(k, type(x).__name__, x) for k, x in got.items()]
      except Exception as e:     # pylint: disable=broad-except
        out[name] = {'error': type(e).__name__}
        continue
      wk, gk = [w[0] for w in want], [g[0] for g in got_l]
      ok_vals = all(any(g[0] == w[0] and g[1] == w[1] and g[2] == w[2] for g in got_l) for w in want)
      out[name] = {'want': sorted(set(wk)), 'got': sorted(set(gk)), 'distinct': len(set(wk)) == len(wk),
                   'values_ok': ok_vals}
    return out

  def oracle_rebinders(self, checks, what):
    for name in self.REBINDERS:
      c = checks.get(name)
      if c is None:
        continue
      if 'error' in c:
        return {'signature': 'rebinder:raises', 'what': 'get_rebind_dict(%s) on %s raised %s' % (name, what, c['error'])}
      if not c['distinct']:
        continue            # printed paths collide (keys outside the property's quantifier)
      if c['got'] != c['want']:
        missing = [k for k in c['want'] if k not in c['got']]
        extra = [k for k in c['got'] if k not in c['want']]
        return {'signature': 'rebinder:entries', 'what': 'get_rebind_dict with the rebinder %s on %s: nodes whose result is not '
                'the old object but missing from the dictionary: %r; unexpected entries: %r' % (name, what, missing[:6], extra[:6])}
      if not c['values_ok']:
        return {'signature': 'rebinder:values', 'what': 'get_rebind_dict(%s) on %s stores other values than the rebinder returned' % (name, what)}
    return None

  def impl_look(self, case, KeyPath):
    import pyglove as pg
    spec = unwval(case['v'])
    try:
      with pg.allow_partial(True):
        root = self.build_real(spec, pg)
        if case['sym'] and isinstance(root, dict):
          root = pg.Dict(root)
        elif case['sym'] and isinstance(root, list):
          root = pg.List(root)
    except Exception as e:     # pylint: disable=broad-except
      return {'model': None, 'build_error': '%s: %s' % (type(e).__name__, str(e)[:200])}
    symbolic = isinstance(root, pg.Symbolic)
    sentinel = object()
    pre, visited, ident, sym_obs = [], [], [], []

    def same(a, b):
      if a is b:
        return True
      try:
        return type(a) is type(b) and bool(a == b)
      except Exception:     # pylint: disable=broad-except
        return False

    def pre_fn(path, x, parent):
      pre.append(wpath(path.keys))
      try:
        ex = path.exists(root)
        g = path.get(root, sentinel)
        q = path.query(root)
        if ex is False or g is sentinel:
          visited.append('absent')
        elif ex is True and same(g, x) and same(q, x):
          visited.append('present')
        else:
          visited.append('other-node')
        ident.append(g is x and q is x)
      except Exception as e:     # pylint: disable=broad-except
        visited.append(type(e).__name__)
        ident.append(False)
      if symbolic:
        try:
          sym_obs.append([bool(root.sym_has(path)), root.sym_get(path, sentinel) is x,
                          bool(root.sym_has(str(path))) if all(wf_key(k) for k in path.keys) else True])
        except Exception as e:     # pylint: disable=broad-except
          sym_obs.append([type(e).__name__])
      return pg.TraverseAction.ENTER
    pg.traverse(root, pre_fn)
    probes, probe_x = [], []
    for w in case['probes']:
      p = KeyPath(unwpath(w))
      try:
        probes.append(bool(p.exists(root)))
      except Exception as e:     # pylint: disable=broad-except
        probes.append(type(e).__name__)
      x = {}
      try:
        x['get'] = 'default' if p.get(root, sentinel) is sentinel else 'found'
      except Exception as e:     # pylint: disable=broad-except
        x['get'] = type(e).__name__
      try:
        p.query(root)
        x['query'] = 'found'
      except Exception as e:     # pylint: disable=broad-except
        x['query'] = type(e).__name__
      if symbolic:
        try:
          x['sym_has'] = bool(root.sym_has(p))
        except Exception as e:     # pylint: disable=broad-except
          x['sym_has'] = type(e).__name__
      probe_x.append(x)
    try:
      n_all = len(pg.query(root, custom_selector=lambda k, x: True, enter_selected=True))
    except Exception as e:     # pylint: disable=broad-except
      n_all = type(e).__name__
    rb = self.rebind_checks(root, KeyPath)
    return {'model': {'pre': pre, 'visited': visited, 'probes': probes}, 'rebinders': rb, 'ident': ident, 'sym_obs': sym_obs,
            'probe_x': probe_x, 'n_all': n_all, 'symbolic': symbolic}

  def oracle_look(self, case, out):
    if out.get('build_error'):
      return {'signature': 'look:cannot-build', 'what': 'the value spec could not be built: %s' % out['build_error']}
    m = out['model']
    spec = unwval(case['v'])
    e = expected_tree(spec, case['sym'])
    want = [tpath(p) for p in all_nodes(e)]
    pre = [tpath(unwpath(p)) for p in m['pre']]
    if pre != want:
      missing = [p for p in want if p not in pre]
      return {'signature': 'traverse:pg-visits', 'what': 'pg.traverse reports %d paths for %r, the value has %d nodes; '
              'never visited: %r' % (len(pre), spec, len(want), missing[:6])}
    for i, (p, st) in enumerate(zip(m['pre'], m['visited'])):
      node = self._at(e, unwpath(p))
      if st == 'absent':
        return {'signature': 'exists:reported-path-absent', 'what': 'traversal of %r reports the path %r (holding %r) but '
                'exists() is False / get() returns the default' % (spec, unwpath(p), node)}
      if st != 'present' or not out['ident'][i]:
        return {'signature': 'lookup:' + (st if st != 'present' else 'equal-but-not-the-node'),
                'what': 'the reported path %r of %r: exists/get/query give %s' % (unwpath(p), spec, st)}
      if out['symbolic']:
        so = out['sym_obs'][i]
        if so != [True, True, True]:
          return {'signature': 'exists:sym_has-reported-path-absent', 'what': 'the reported path %r (holding %r) of %r: '
                  'sym_has / sym_get is node / sym_has(str) = %s' % (unwpath(p), node, spec, so)}
    if all(wf_key(k) for p in all_nodes(e) for k in p) and out['n_all'] != len(want):
      return {'signature': 'query:all-nodes', 'what': 'pg.query selecting every node returns %s entries for %d nodes' % (out['n_all'], len(want))}
    if all(wf_key(k) for p in all_nodes(e) for k in p):
      f = self.oracle_rebinders(out['rebinders'], repr(spec)[:200])
      if f:
        return f
    for w, got, x in zip(case['probes'], m['probes'], out['probe_x']):
      p = unwpath(w)
      r = resolves(e, p)
      if r is None:
        continue
      if got is not r:
        return {'signature': 'exists:absent-path-present' if got is True else 'exists:present-path-absent',
                'what': 'KeyPath(%r).exists(%r) = %r' % (p, spec, got)}
      if x['get'] != ('found' if r else 'default') or x['query'] != ('found' if r else 'KeyError'):
        return {'signature': 'exists:get-query', 'what': 'KeyPath(%r) on %r: get %s, query %s' % (p, spec, x['get'], x['query'])}
      if 'sym_has' in x and x['sym_has'] is not r:
        return {'signature': 'exists:sym_has', 'what': '%r.sym_has(%r) = %r' % (spec, p, x['sym_has'])}
    return None

  def impl_routes(self, case, KeyPath):
    """Builds the same key sequence in every way the API offers and observes each result."""
    keys = unwpath(case['keys'])
    split, extra = case['split'], unwkey(case['extra'])
    prefix, other_keys = unwpath(case['prefix']), unwpath(case['other'])
    wf = all(wf_key(k) for k in keys)

    def heat(p, how):
      if how == 'str':
        str(p)
      elif how == 'hash':
        hash(p)
      elif how == 'eqstr':
        _ = (p == 'zz')
      elif how == 'repr':
        repr(p)
      elif how == 'path':
        _ = p.path
      elif how == 'lt':
        _ = p < 'zz'
      return p

    def chain(how):
      p = KeyPath()
      for k in keys:
        p = KeyPath(k, heat(p, how))
      return p

    def add_chain(how, as_key):
      p = KeyPath()
      for k in keys:
        heat(p, how)
        p = p + (k if (as_key and isinstance(k, int)) else KeyPath([k]))
      return p

    def add_hot_chain():
      p = KeyPath()
      for k in keys:
        p = heat(p, 'str') + heat(KeyPath([k]), 'hash')
      return p

    def split_route(how):
      return KeyPath(keys[split:], heat(KeyPath(keys[:split]), how))

    routes = [
        ('oneshot', lambda: KeyPath(list(keys))),
        ('tuple', lambda: KeyPath(tuple(keys))),
        ('chain', lambda: chain(None)),
        ('chain+str', lambda: chain('str')),
        ('chain+hash', lambda: chain('hash')),
        ('chain+eqstr', lambda: chain('eqstr')),
        ('chain+repr', lambda: chain('repr')),
        ('chain+path', lambda: chain('path')),
        ('chain+lt', lambda: chain('lt')),
        ('split', lambda: split_route(None)),
        ('split+str', lambda: split_route('str')),
        ('add', lambda: add_chain(None, False)),
        ('add+str', lambda: add_chain('str', False)),
        ('add-int+hash', lambda: add_chain('hash', True)),
        ('add-hot-operands', lambda: heat(KeyPath(keys[:split]), 'str') + heat(KeyPath(keys[split:]), 'str')),
        ('add-hot-chain', lambda: add_hot_chain()),
        ('from_value', lambda: KeyPath.from_value(heat(KeyPath(list(keys)), 'str'))),
        ('parent-of-child', lambda: heat(KeyPath(extra, heat(chain('str'), 'str')), 'str').parent),
        ('sub-prefix', lambda: heat(KeyPath(list(keys), heat(KeyPath(list(prefix)), 'str')), 'str') - heat(KeyPath(list(prefix)), 'hash')),
        ('list-on-hot-parent', lambda: KeyPath(list(keys), heat(KeyPath(), 'str'))),
    ]
    if wf:
      printed = str(KeyPath(list(keys)))
      routes += [
          ('parse', lambda: KeyPath.parse(printed)),
          ('from_value-str', lambda: KeyPath.from_value(printed)),
          ('parse-on-parent', lambda: KeyPath.parse(str(KeyPath(keys[split:])), heat(KeyPath(keys[:split]), 'str'))),
          ('add-str', lambda: heat(KeyPath(keys[:split]), 'str') + str(KeyPath(keys[split:]))),
      ]
    base = KeyPath(list(keys))
    base_str = str(KeyPath(list(keys)))
    other = KeyPath(list(other_keys))

    def t(f, conv=lambda x: x):
      try:
        return conv(f())
      except Exception as e:     # pylint: disable=broad-except
        return _exc(e)

    out = []
    for i, (name, build) in enumerate(routes):
      p = build()
      o = {'route': name, 'keys': wpath(p.keys)}
      first = i % 3           # vary what is asked first of a fresh object
      if first == 1:
        o['hash_eq'] = hash(p) == hash(base)
      if first == 2:
        o['eq_str'] = bool(p == base_str)
      o['str'] = cps(str(p))
      o['plain'] = cps(p.path_str(False))
      o['repr'] = cps(repr(p))
      o['parsed'] = t(lambda: KeyPath.parse(str(p)), lambda r: wpath(r.keys))
      o['hash_eq'] = hash(p) == hash(base)
      o['eq'] = [bool(p == base), bool(base == p), not bool(p != base)]
      o['eq_str'] = bool(p == base_str)
      o['lt'] = [t(lambda: bool(p < other)), t(lambda: bool(p > other)), t(lambda: bool(p <= other))]
      o['lt_str'] = t(lambda: bool(p < 'm'))
      o['rel'] = t(lambda: bool(p.is_relative_to(other)))
      o['rel_r'] = t(lambda: bool(other.is_relative_to(p)))
      o['sub'] = t(lambda: p - KeyPath(keys[:split]), lambda r: [wpath(r.keys), cps(str(r))])
      o['add'] = t(lambda: p + other, lambda r: [wpath(r.keys), cps(str(r))])
      o['child'] = t(lambda: KeyPath(extra, p), lambda r: [wpath(r.keys), cps(str(r)), hash(r) == hash(KeyPath(keys + [extra]))])
      o['parent'] = t(lambda: p.parent, lambda r: [wpath(r.keys), cps(str(r))])
      o['self'] = [bool(p == p), t(lambda: bool(p < p)), t(lambda: bool(p <= p)), t(lambda: bool(p.is_relative_to(p))),
                   t(lambda: p - p, lambda r: wpath(r.keys)), t(lambda: p + p, lambda r: wpath(r.keys))]
      o['depth'] = len(p)
      out.append(o)
    return {'model': {'routes': [[o['route'], o['str'], o['parsed'], o['plain']] for o in out]}, 'obs': out}

  def oracle_routes(self, case, out):
    obs = out['obs']
    base = obs[0]
    keys = unwpath(case['keys'])
    if base['self'] != [True, False, True, True, [], case['keys'] + case['keys']]:
      return {'signature': 'routes:self', 'what': 'p == p, p < p, p <= p, p.is_relative_to(p), p - p, p + p = %s for %r' % (base['self'], keys)}
    if base['keys'] != case['keys']:
      return {'signature': 'routes:keys', 'what': 'KeyPath(%r).keys = %r' % (keys, unwpath(base['keys']))}
    for o in obs:
      for f in base:
        if f == 'route':
          continue
        if o[f] != base[f]:
          return {'signature': 'path-depends-on-construction:' + f,
                  'what': 'the key sequence %r built via %s has %s = %s, built in one shot %s' % (
                      keys, o['route'], f, self._show_obs(f, o[f]), self._show_obs(f, base[f]))}
      if not (o['hash_eq'] and all(o['eq']) and o['eq_str']):
        return {'signature': 'path-depends-on-construction:eq-hash',
                'what': 'the key sequence %r built via %s: hash equal %s, == %s, == printed %s' % (
                    keys, o['route'], o['hash_eq'], o['eq'], o['eq_str'])}
    if all(wf_key(k) for k in keys) and base['parsed'] != case['keys']:
      return {'signature': 'roundtrip', 'what': 'parse(str(KeyPath(%r))) = %s' % (keys, self._show_parsed(base['parsed']))}
    return None

  def _show_obs(self, f, x):
    if f in ('str', 'plain', 'repr') and isinstance(x, list):
      return repr(uncps(x))
    return json.dumps(x)[:160]

  def impl_arith(self, case, KeyPath):
    import operator
    p = KeyPath(unwpath(case['p']))
    q = case['q']
    if 'same' in q:
      o = p                         # the very same object on both sides
      q = {'path': case['p']}
    elif 'path' in q:
      o = KeyPath(unwpath(q['path']))
    elif 'str' in q:
      o = uncps(q['str'])
    elif 'int' in q:
      o = q['int']
    else:
      o = None

    def t(f, conv):
      try:
        return conv(f())
      except Exception as e:     # pylint: disable=broad-except
        return _exc(e)
    kp = lambda r: wpath(r.keys)

    def observe(p, o):
      return {
          'add': t(lambda: p + o, kp),
          'sub': t(lambda: p - o, kp),
          'rel': t(lambda: p.is_relative_to(o), bool),
          'lt': t(lambda: operator.lt(p, o), bool),
          'le': t(lambda: operator.le(p, o), bool),
          'gt': t(lambda: operator.gt(p, o), bool),
          'ge': t(lambda: operator.ge(p, o), bool),
          'eq': bool(p == o),
          'parent': t(lambda: p.parent, kp),
          'key': t(lambda: p.key, wkey),
          'depth': len(p),
      }
    out = observe(p, o)
    # the same questions asked of operands whose path strings are already cached
    hp = KeyPath(unwpath(case['p']))
    ho = KeyPath(unwpath(q['path'])) if 'path' in q else o
    str(hp), hash(hp)
    if isinstance(ho, KeyPath):
      str(ho)
    hot = observe(hp, ho)
    hot_strs = [t(lambda: str(hp + ho), cps), t(lambda: str(hp - ho), cps), t(lambda: str(hp.parent), cps)]
    cold_strs = [t(lambda: str(KeyPath((p + o).keys)), cps), t(lambda: str(KeyPath((p - o).keys)), cps),
                 t(lambda: str(KeyPath(p.parent.keys)), cps)]
    extra = {'addsub': t(lambda: (p + o) - p, kp), 'ne': bool(p != o),
             'hash_eq': (hash(p) == hash(o)) if isinstance(o, (str, KeyPath)) else None}
    if isinstance(o, str):
      extra['parsed'] = t(lambda: KeyPath.parse(o), kp)
      extra['pstr'] = str(p)
    extra['hot'] = hot
    extra['hot_strs'] = [hot_strs, cold_strs]
    return {'model': out, 'extra': extra}

  def impl_set(self, case, KeyPath, KeyPathSet):
    cache = {}

    def kpath(w):
      # equal key sequences are the very same KeyPath object wherever they occur in the case
      key = json.dumps(w)
      if key not in cache:
        cache[key] = KeyPath(unwpath(w))
      return cache[key]

    def mk(paths):
      return KeyPathSet([kpath(p) for p in paths])

    def lst(s):
      return [wpath(p.keys) for p in s]
    try:
      a, b = mk(case['a']), mk(case['b'])
    except Exception as e:     # pylint: disable=broad-except
      return {'model': {'init': {'err': 'AssertionError'}, 'steps': []}, 'init_error': type(e).__name__}
    steps = []
    for o in case['ops']:
      k, p = o['k'], kpath(o['p'])
      other = b
      if k.startswith('self_'):
        k, other = k[5:], a            # the set itself is the other operand
      try:
        if k == 'swap':
          a, b = b, a
          r = None
        elif k == 'add':
          r = bool(a.add(p))
        elif k == 'add_ii':
          r = bool(a.add(p, include_intermediate=True))
        elif k == 'remove':
          r = bool(a.remove(p))
        elif k == 'contains':
          r = bool(p in a)
        elif k == 'has_prefix':
          r = bool(a.has_prefix(p))
        elif k == 'rebase':
          r = a.rebase(p)
        elif k == 'subtree':
          st = a.subtree(p)
          r = None if st is None else lst(st)
        elif k == 'update':
          r = a.update(other)
        elif k == 'union':
          r = lst(a.union(other))
        elif k == 'intersection_update':
          r = a.intersection_update(other)
        elif k == 'intersection':
          r = lst(a.intersection(other))
        elif k == 'difference_update':
          r = a.difference_update(other)
        elif k == 'difference':
          r = lst(a.difference(other))
        elif k == 'clear':
          r = a.clear()
        elif k == 'eq':
          r = bool(a == other)
        else:
          raise ValueError(k)
      except (TypeError, AssertionError, KeyError, AttributeError) as e:
        steps.append(_exc(e))
        break
      steps.append({'r': r, 'paths': lst(a), 'bool': bool(a)})
    return {'model': {'init': lst(mk(case['a'])), 'steps': steps}, 'b0': lst(mk(case['b']))}

  def impl_hier(self, case, utils, KeyPath):
    import pyglove as pg
    v = unwval(case['v'])
    pre, post, lookup, pre_sym = [], [], [], []

    lookup_str, strs, hist, ident, ident_str = [], [], [], [], []

    def pre_fn(path, x):
      pre.append(wpath(path.keys))
      try:
        r = path.query(v)
        # compared with the model (which is over trees): structural equality; identity is kept apart
        lookup.append('same' if (r is x or (type(r) is type(x) and r == x)) else 'diff')
        ident.append(r is x)
      except Exception as e:     # pylint: disable=broad-except
        lookup.append(type(e).__name__)
        ident.append(False)
      # what every real visitor does: print the path (so children are built from a formatted parent)
      s = str(path)
      strs.append(cps(s))
      try:
        r = KeyPath.parse(s).query(v)
        lookup_str.append('same' if (r is x or (type(r) is type(x) and r == x)) else 'diff')
        ident_str.append(r is x)
      except Exception as e:     # pylint: disable=broad-except
        lookup_str.append(type(e).__name__)
        ident_str.append(False)
      fresh = KeyPath(list(path.keys))
      hist.append([cps(str(fresh)), hash(path) == hash(fresh), bool(path == fresh), bool(fresh == path),
                   bool(path == str(fresh))])
      return True

    def post_fn(path, x):
      post.append(wpath(path.keys))
      return True
    utils.traverse(v, pre_fn, post_fn)
    post_sym = []

    sym_strs = []

    def pre3(path, x, parent):
      pre_sym.append(wpath(path.keys))
      sym_strs.append(cps(str(path)))
      return pg.TraverseAction.ENTER

    def post3(path, x, parent):
      post_sym.append(wpath(path.keys))
      return pg.TraverseAction.ENTER
    pg.traverse(v, pre3, post3)
    leaves = pg.query(v, where=lambda x: not isinstance(x, (dict, list)))
    leaves_rx = pg.query(v, r'(?s).*', where=lambda x: not isinstance(x, (dict, list)))
    from pyglove.core.symbolic import base as sym_base
    rebind = sym_base.get_rebind_dict(
        lambda k, x: x + 1 if isinstance(x, int) and not isinstance(x, bool) else x, v)
    all_q = pg.query(v, custom_selector=lambda k, x: True, enter_selected=True)
    out = {'pre': pre, 'post': post, 'lookup': lookup, 'lookup_str': lookup_str, 'strs': strs,
           'leaves': wval(dict(leaves)), 'rebind': wval(dict(rebind))}
    perm = {}
    for name, fck in (('t', True), ('f', False)):
      f = utils.flatten(v, fck)
      if isinstance(f, dict) and len(f) > 1:
        items = list(f.items())
        orders = {'reversed': items[::-1], 'rotated': items[len(items) // 2:] + items[:len(items) // 2],
                  'interleaved': items[1::2] + items[0::2]}
        for oname, its in orders.items():
          try:
            perm[name + ':' + oname] = wval(utils.canonicalize(dict(its)))
          except Exception as e:     # pylint: disable=broad-except
            perm[name + ':' + oname] = _exc(e)
      out['flat_' + name] = wval(f)
      try:
        out['canon_flat_' + name] = wval(utils.canonicalize(f))
      except Exception as e:     # pylint: disable=broad-except
        out['canon_flat_' + name] = _exc(e)
    rb = self.rebind_checks(v, KeyPath)
    return {'model': out, 'rebinders': rb, 'canon_perm': perm, 'pre_sym': pre_sym, 'post_sym': post_sym, 'hist': hist, 'ident': ident, 'ident_str': ident_str, 'sym_strs': sym_strs, 'all_q': [cps(k) for k in all_q.keys()],
            'leaves_rx': wval(dict(leaves_rx))}

  # -- the property itself ----------------------------------------------------------------
  def oracle(self, case, out):
    op = case['op']
    m = out['model']
    if op == 'rt':
      keys = unwpath(case['keys'])
      if all(wf_key(k) for k in keys):
        if m['parsed'] != case['keys']:
          return {'signature': 'roundtrip', 'what': 'KeyPath.parse(str(KeyPath(%r))) gives %s (printed %r)' % (
              keys, self._show_parsed(m['parsed']), uncps(m['str']))}
      return None
    if op == 'parse':
      if isinstance(m, list):
        keys = unwpath(m)
        if all(wf_key(k) for k in keys) and out.get('back') != m:
          return {'signature': 'roundtrip-of-parsed', 'what': 'parse(%r) = %r prints and parses back to %s' % (
              uncps(case['s']), keys, self._show_parsed(out.get('back')))}
      return None
    if op == 'look':
      return self.oracle_look(case, out)
    if op == 'routes':
      return self.oracle_routes(case, out)
    if op == 'arith':
      return self.oracle_arith(case, out)
    if op == 'order':
      return self.oracle_order(case, out)
    if op == 'set':
      return self.oracle_set(case, out)
    if op == 'hier':
      return self.oracle_hier(case, out)
    if op == 'canon':
      return self.oracle_canon(case, out)
    return None

  def _show_parsed(self, p):
    if isinstance(p, dict):
      return p['err']
    return repr(unwpath(p)) if p is not None else 'None'

  def oracle_arith(self, case, out):
    m, x = out['model'], out['extra']
    p = unwpath(case['p'])
    q = case['q']
    if 'same' in q:
      q = {'path': case['p']}
    if x['hot'] != m or x['hot_strs'][0] != x['hot_strs'][1]:
      return {'signature': 'path-depends-on-construction:arith', 'what': 'arithmetic on operands whose strings are cached '
              'gives %s / prints %s; on fresh operands %s / %s' % (json.dumps(x['hot'])[:200], x['hot_strs'][0], json.dumps(m)[:200], x['hot_strs'][1])}
    if m['depth'] != len(p):
      return {'signature': 'arith:depth', 'what': 'len(KeyPath(%r)) = %s' % (p, m['depth'])}
    want_parent = wpath(p[:-1]) if p else {'err': 'KeyError'}
    if m['parent'] != want_parent:
      return {'signature': 'arith:parent', 'what': 'KeyPath(%r).parent = %s' % (p, self._show_parsed(m['parent']))}
    if (m['key'] != wkey(p[-1])) if p else (m['key'] != {'err': 'KeyError'}):
      return {'signature': 'arith:key', 'what': 'KeyPath(%r).key = %s' % (p, m['key'])}
    if 'path' in q:
      o = unwpath(q['path'])
    elif 'str' in q:
      if isinstance(x['parsed'], dict):
        for f in ('add', 'sub', 'rel'):
          if m[f] != {'err': 'ValueError'}:
            return {'signature': 'arith:unparsable-operand', 'what': '%s with unparsable %r gives %s' % (
                f, uncps(q['str']), m[f])}
        o = None
      else:
        o = unwpath(x['parsed'])
    elif 'int' in q:
      o = [q['int']]
    else:
      if m['add'] != wpath(p) or m['sub'] != wpath(p):
        return {'signature': 'arith:none', 'what': 'p + None / p - None is not p'}
      return None
    if o is not None:
      if m['add'] != wpath(p + o):
        return {'signature': 'arith:add', 'what': 'KeyPath(%r) + %r has keys %s' % (p, o, self._show_parsed(m['add']))}
      if x['addsub'] != wpath(o):
        return {'signature': 'arith:add-sub', 'what': '(p + q) - p != q for p=%r q=%r: %s' % (p, o, self._show_parsed(x['addsub']))}
      is_prefix = tpath(p[:len(o)]) == tpath(o)
      want_sub = wpath(p[len(o):]) if is_prefix else {'err': 'ValueError'}
      if m['sub'] != want_sub:
        return {'signature': 'arith:sub', 'what': 'KeyPath(%r) - %r = %s' % (p, o, self._show_parsed(m['sub']))}
      if m['rel'] != is_prefix:
        return {'signature': 'arith:is_relative_to', 'what': 'KeyPath(%r).is_relative_to(%r) = %s' % (p, o, m['rel'])}
    if 'path' in q:
      if m['eq'] != (tpath(p) == tpath(o)) or x['ne'] == m['eq']:
        return {'signature': 'arith:eq', 'what': 'KeyPath(%r) == KeyPath(%r) is %s' % (p, o, m['eq'])}
      if m['eq'] and not x['hash_eq']:
        return {'signature': 'arith:hash', 'what': 'equal paths with different hashes: %r' % (p,)}
      for a, b in (('le', 'gt'), ('ge', 'lt')):
        if m[a] == m[b]:
          return {'signature': 'arith:order-duality', 'what': '%s and %s agree for %r vs %r' % (a, b, p, o)}
      if tpath(p) != tpath(o) and is_prefix and not m['gt']:
        return {'signature': 'arith:prefix-order', 'what': 'proper prefix %r is not smaller than %r' % (o, p)}
      if tpath(p) == tpath(o) and (m['lt'] or m['gt'] or not m['le'] or not m['ge']):
        return {'signature': 'arith:order-refl', 'what': 'ordering of equal paths %r' % (p,)}
    if 'str' in q:
      s = uncps(q['str'])
      want = {'eq': x['pstr'] == s, 'lt': x['pstr'] < s, 'le': x['pstr'] <= s, 'gt': x['pstr'] > s, 'ge': x['pstr'] >= s}
      for f, w in want.items():
        if m[f] != w:
          return {'signature': 'arith:compare-with-str', 'what': 'KeyPath(%r) %s %r is %s' % (p, f, s, m[f])}
    return None

  def oracle_order(self, case, out):
    ps = [unwpath(p) for p in case['ps']]
    lt = out['model']['lt']
    n = len(ps)
    tag = None      # (before fix F38 failures on mixed int/str positions carried their own signature)
    for i in range(n):
      if lt[i][i]:
        return {'signature': 'order:irreflexive', 'what': '%r < itself' % (ps[i],)}
      for j in range(n):
        if lt[i][j] and lt[j][i]:
          return {'signature': 'order:asymmetric', 'what': '%r < %r and back' % (ps[i], ps[j])}
        if tpath(ps[i]) != tpath(ps[j]) and not lt[i][j] and not lt[j][i]:
          return {'signature': tag or 'order:total', 'what': 'distinct paths %r and %r are not ordered by <' % (ps[i], ps[j])}
        for k in range(n):
          if lt[i][j] and lt[j][k] and not lt[i][k]:
            return {'signature': tag or 'order:transitive', 'what': '%r < %r < %r but not %r < %r' % (
                ps[i], ps[j], ps[k], ps[i], ps[k])}
    return None

  def oracle_set(self, case, out):
    m = out['model']
    a_paths = [unwpath(p) for p in case['a']]
    b_paths = [unwpath(p) for p in case['b']]
    def fail(kind, what):
      # (before fix F19 a failure on paths with the key '$' carried its own signature)
      return {'signature': 'set:' + kind, 'what': what}

    def as_set(lst, what):
      ts = [tpath(unwpath(p)) for p in lst]
      if len(set(ts)) != len(ts):
        return None, fail('iter-duplicates', '%s iterates a path twice: %r' % (what, lst))
      return set(ts), None
    if isinstance(m['init'], dict):
      return fail('init', 'building the set raised %s' % out.get('init_error'))
    A = {tpath(p) for p in a_paths}
    B = {tpath(p) for p in b_paths}
    got, f = as_set(m['init'], 'initial set')
    if f:
      return f
    if got != A:
      return fail('init', 'KeyPathSet(%r) iterates %r' % (a_paths, sorted(got)))
    gotb, f = as_set(out['b0'], 'initial set b')
    if f or gotb != B:
      return f or fail('init', 'KeyPathSet(%r) iterates %r' % (b_paths, sorted(gotb)))
    for o, st in zip(case['ops'], m['steps']):
      k, p = o['k'], tpath(unwpath(o['p']))
      if 'err' in st:
        return fail(k + '-raises', '%s(%r) raised %s' % (k, unwpath(o['p']), st['err']))
      r = st['r']
      want_r = r
      Bsave = B
      if k.startswith('self_'):
        k, B = k[5:], set(A)
      if k == 'swap':
        A, B = B, A
      elif k == 'add':
        want_r = p not in A
        A = A | {p}
      elif k == 'add_ii':
        got, f = as_set(st['paths'], 'after add')
        if f:
          return f
        prefixes = {p[:i] for i in range(len(p) + 1)}
        if not (A | {p} <= got <= A | prefixes):
          return fail('add_ii', 'add(include_intermediate) of %r gives %r' % (p, sorted(got)))
        A = got
      elif k == 'remove':
        want_r = p in A
        A = A - {p}
      elif k == 'contains':
        want_r = p in A
      elif k == 'has_prefix':
        if p:
          want_r = any(q[:len(p)] == p for q in A)
      elif k == 'rebase':
        A = {p + q for q in A}
      elif k == 'subtree':
        if r is not None:
          got, f = as_set(r, 'subtree')
          if f:
            return f
          want = {q[len(p):] for q in A if q[:len(p)] == p}
          if got != want:
            return fail('subtree', 'subtree(%r) iterates %r, want %r' % (p, sorted(got), sorted(want)))
        elif any(q[:len(p)] == p for q in A):
          return fail('subtree', 'subtree(%r) is None although the set has such paths' % (p,))
      elif k in ('update', 'union', 'intersection_update', 'intersection', 'difference_update', 'difference'):
        base = k.replace('_update', '')
        res = A | B if base in ('update', 'union') else A & B if base == 'intersection' else A - B
        if k in ('update', 'intersection_update', 'difference_update'):
          A = res
        else:
          got, f = as_set(r, k)
          if f:
            return f
          if got != res:
            return fail(k, '%s gives %r, want %r' % (k, sorted(got), sorted(res)))
      elif k == 'clear':
        A = set()
      elif k == 'eq':
        want_r = A == B
      if k in ('add', 'remove', 'contains', 'has_prefix', 'eq') and r != want_r:
        return fail(k, '%s(%r) returned %r on the set %r%s' % (k, p, r, sorted(A), (' vs %r' % sorted(B)) if k == 'eq' else ''))
      got, f = as_set(st['paths'], 'after ' + k)
      if f:
        return f
      if got != A:
        return fail(k, 'after %s(%r) the set iterates %r, want %r' % (k, p, sorted(got), sorted(A)))
      if st['bool'] != bool(A):
        return fail(k + '-bool', 'after %s(%r) bool(set) is %r for the set %r' % (k, p, st['bool'], sorted(A)))
      if o['k'].startswith('self_'):
        B = Bsave
    return None

  def oracle_hier(self, case, out):
    m = out['model']
    v = unwval(case['v'])
    want = [tpath(p) for p in all_nodes(v)]
    pre = [tpath(unwpath(p)) for p in m['pre']]
    post = [tpath(unwpath(p)) for p in m['post']]
    if sorted(pre) != sorted(want) or len(set(pre)) != len(pre):
      return {'signature': 'traverse:visits', 'what': 'utils.traverse visits %r, nodes are %r' % (pre, want)}
    if pre != want:
      return {'signature': 'traverse:preorder', 'what': 'pre-order log %r differs from the document order %r' % (pre, want)}
    if sorted(post) != sorted(want):
      return {'signature': 'traverse:post-visits', 'what': 'post-order visits %r' % (post,)}
    pre_sym = [tpath(unwpath(p)) for p in out['pre_sym']]
    post_sym = [tpath(unwpath(p)) for p in out['post_sym']]
    for name, log in (('pre', pre_sym), ('post', post_sym)):
      if sorted(log) != sorted(want):
        missing = [p for p in want if p not in log]
        twice = sorted({p for p in log if log.count(p) > 1})
        return {'signature': 'traverse:pg-visits',
                'what': 'pg.traverse (%s-order) reports %d paths, the value has %d nodes; never visited: %r; visited '
                        'more than once: %r' % (name, len(log), len(want), missing[:6], twice[:6])}
    if out['pre_sym'] != m['pre'] or out['post_sym'] != m['post']:
      return {'signature': 'traverse:pg-vs-utils', 'what': 'pg.traverse and utils.traverse disagree: %r vs %r' % (out['pre_sym'], m['pre'])}
    for p, l, idn in zip(m['pre'], m['lookup'], out['ident']):
      if l != 'same' or not idn:
        l = l if l != 'same' else 'equal-but-not-the-node'
        return {'signature': 'lookup:' + l, 'what': 'the visited path %r, looked up from the root, gives %s' % (unwpath(p), l)}
    for p, st, h in zip(m['pre'], m['strs'], out['hist']):
      if st != h[0] or not (h[1] and h[2] and h[3] and h[4]):
        return {'signature': 'path-depends-on-construction', 'what': 'the path %r built by traverse prints %r, '
                'KeyPath(keys) prints %r; hash equal %s, == %s / %s, == str %s' % (
                    unwpath(p), uncps(st), uncps(h[0]), h[1], h[2], h[3], h[4])}
    if out['sym_strs'] != m['strs']:
      return {'signature': 'path-depends-on-construction', 'what': 'pg.traverse prints %r, utils.traverse %r' % (
          [uncps(x) for x in out['sym_strs']], [uncps(x) for x in m['strs']])}
    for p, l, idn in zip(m['pre'], m['lookup_str'], out['ident_str']):
      if l == 'same' and not idn:
        l = 'equal-but-not-the-node'
      if l != 'same' and all(wf_key(k) for k in unwpath(p)):
        return {'signature': 'lookup-via-str:' + l, 'what': 'the visited path %r, printed (%r), parsed and looked up '
                'from the root, gives %s' % (unwpath(p), uncps(m['strs'][m['pre'].index(p)]), l)}
    if all(wf_key(k) for p in want for _, k in p):
      if len(out['all_q']) != len(want):
        return {'signature': 'query:all-nodes', 'what': 'pg.query selecting every node returns %d entries for %d nodes: %r' % (
            len(out['all_q']), len(want), [uncps(k) for k in out['all_q']][:12])}
      ints = [p for p in all_nodes(v) if isinstance(self._at(v, p), int) and not isinstance(self._at(v, p), bool)]
      if len(m['rebind']['d']) != len(ints):
        return {'signature': 'rebinder:entries', 'what': 'get_rebind_dict has %d entries for %d int leaves' % (
            len(m['rebind']['d']), len(ints))}
      for k, x in m['rebind']['d']:
        try:
          from pyglove.core.utils.value_location import KeyPath
          old_x = KeyPath.parse(uncps(k)).query(v)
        except Exception as e:     # pylint: disable=broad-except
          return {'signature': 'rebinder:address', 'what': 'rebind key %r does not address a node: %s' % (uncps(k), type(e).__name__)}
        if not isinstance(old_x, int) or isinstance(old_x, bool) or old_x + 1 != x:
          return {'signature': 'rebinder:address', 'what': 'rebind key %r addresses %r, new value %r' % (uncps(k), old_x, x)}
    if out['leaves_rx'] != m['leaves']:
      return {'signature': 'query:regex-vs-plain', 'what': 'pg.query with a match-all path_regex selects %s, without %s' % (
          json.dumps(out['leaves_rx'])[:200], json.dumps(m['leaves'])[:200])}
    # pg.query: one entry per leaf, keyed by the printed path (when keys are WF the printed paths are distinct)
    leaves = [p for p in all_nodes(v) if not isinstance(self._at(v, p), (dict, list))]
    if all(wf_key(k) for p in leaves for k in p):
      if len(m['leaves']['d']) != len(leaves):
        return {'signature': 'query:leaves', 'what': 'pg.query selects %d leaves of %d' % (len(m['leaves']['d']), len(leaves))}
    for name, fck in (('t', True), ('f', False)):
      if canonical_value(v, fck):
        got = m['canon_flat_' + name]
        if got != wval(v) and not (isinstance(got, dict) and 'err' not in got and unwval(got) == v and self._same_types(unwval(got), v)):
          return {'signature': 'flatten-canonicalize:' + name, 'what': 'canonicalize(flatten(v, %s)) = %s for v = %r' % (
              fck, json.dumps(got)[:300], v)}
    for key, got in sorted(out.get('canon_perm', {}).items()):
      fck = key.startswith('t:')
      if canonical_value(v, fck):
        if isinstance(got, dict) and 'err' in got or not (unwval(got) == v and self._same_types(unwval(got), v)):
          return {'signature': 'canonicalize:key-order', 'what': 'canonicalize of the %s flat form (flatten_complex_keys=%s) of %r '
                  'gives %s' % (key.split(':')[1], fck, v, json.dumps(got)[:300])}
    if all(wf_key(k) for p in all_nodes(v) for k in p):
      f = self.oracle_rebinders(out['rebinders'], repr(v)[:200])
      if f:
        return f
    return None

  def _at(self, v, p):
    for k in p:
      v = v[k]
    return v

  def _same_types(self, a, b):
    if type(a) is not type(b):
      return False
    if isinstance(a, dict):
      return ({tkey(k) for k in a} == {tkey(k) for k in b} and
              all(self._same_types(a[k], b[k]) for k in a))
    if isinstance(a, list):
      return len(a) == len(b) and all(self._same_types(x, y) for x, y in zip(a, b))
    return a == b

  def oracle_canon(self, case, out):
    """canonicalize on arbitrary (non-canonical) input is compared with the model only; the
    second inverse law is exercised through the first (hier cases: canonicalize(flatten(v)) == v)."""
    return None

  # -- bookkeeping ------------------------------------------------------------------------
  def nontrivial(self, case, out):
    op = case['op']
    if op == 'rt':
      ks = unwpath(case['keys'])
      return len(ks) >= 2 and any(isinstance(k, int) or not k.isidentifier() for k in ks)
    if op == 'routes':
      ks = unwpath(case['keys'])
      return len(ks) >= 2 and any(isinstance(k, int) or not k.isidentifier() for k in ks)
    if op == 'parse':
      return len(case['s']) >= 3
    if op == 'arith':
      return len(case['p']) >= 1
    if op == 'order':
      return len({json.dumps(p) for p in case['ps']}) == 3
    if op == 'set':
      return len(case['ops']) >= 2 and len(case['a']) >= 1
    if op == 'look':
      return depth_of(expected_tree(unwval(case['v']), case['sym'])) >= 2
    if op in ('hier', 'query', 'canon'):
      return depth_of(unwval(case['v'])) >= 2
    return True

  def describe(self, case, out):
    op = case['op']
    h = ['op:' + op]
    m = out['model']
    if op == 'rt':
      ks = unwpath(case['keys'])
      h.append('rt:len=%d' % len(ks))
      h.append('rt:wf' if all(wf_key(k) for k in ks) else 'rt:non-wf')
      h.append('rt:result=' + ('same' if m['parsed'] == case['keys'] else
                               m['parsed']['err'] if isinstance(m['parsed'], dict) else 'different'))
      for k in ks:
        h.append('key:' + ('int' if isinstance(k, int) else 'empty' if k == '' else
                           'unbalanced' if not balanced(k) else 'special' if special(k) else
                           'digits' if k.lstrip('-').isdigit() else 'non-ascii' if not k.isascii() else 'plain'))
    elif op == 'routes':
      ks = unwpath(case['keys'])
      h.append('routes:len=%d' % len(ks))
      h.append('routes:' + ('wf' if all(wf_key(k) for k in ks) else 'non-wf'))
      h.append('routes:n=%d' % len(m['routes']))
      for k in ks:
        if isinstance(k, str) and ('[' in k or ']' in k) and '.' not in k:
          h.append('routes:key-with-brackets-no-dot')
    elif op == 'parse':
      h.append('parse:' + (m['err'] if isinstance(m, dict) else 'ok/%d keys' % min(len(m), 4)))
      h.append('parse:len=%d' % min(len(case['s']), 12))
    elif op == 'arith':
      q = case['q']
      h.append('arith:operand=' + next(iter(q)))
      h.append('arith:sub=' + (m['sub']['err'] if isinstance(m['sub'], dict) else 'ok'))
      h.append('arith:lt=%s' % (m['lt'] if not isinstance(m['lt'], dict) else m['lt']['err']))
    elif op == 'order':
      lt = m['lt']
      h.append('order:comparable-pairs=%d' % sum(1 for i in range(3) for j in range(3) if lt[i][j]))
    elif op == 'set':
      for o, st in zip(case['ops'], m['steps']):
        h.append('setop:' + o['k'] + (':' + st['err'] if 'err' in st else
                                      ':%s' % st['r'] if isinstance(st['r'], bool) else ''))
      h.append('set:size=%d' % len(case['a']))
    elif op == 'hier':
      v = unwval(case['v'])
      h.append('hier:depth=%d' % depth_of(v))
      h.append('hier:aliased-positions=%d' % min(alias_count(v), 4))
      h.append('hier:nodes=%d' % min(len(m['pre']), 20))
      for name, fck in (('t', True), ('f', False)):
        h.append('hier:canonical_%s=%s' % (name, canonical_value(v, fck)))
        c = m['canon_flat_' + name]
        h.append('hier:canon_flat_%s=%s' % (name, c['err'] if isinstance(c, dict) and 'err' in c else
                                           'identity' if c == unfold_w(case['v']) else 'different'))
    elif op == 'look':
      if out.get('build_error'):
        return h + ['look:build-error']
      e = expected_tree(unwval(case['v']), case['sym'])
      h.append('look:root=' + ('object' if 'o' in case['v'] else 'symbolic' if case['sym'] else 'plain'))
      leaves = [self._at(e, p) for p in all_nodes(e)]
      h.append('look:missing-leaves=%d' % min(sum(1 for x in leaves if x is MISSING_H), 3))
      h.append('look:falsy-leaves=%d' % min(sum(1 for x in leaves if x is not MISSING_H and not isinstance(x, (dict, list)) and not x), 3))
      h.append('look:nodes=%d' % min(len(leaves), 15))
      for pr in m['probes']:
        h.append('look:probe=%s' % pr)
    elif op == 'query':
      r = m['r']
      h.append('query:' + (r['err'] if isinstance(r, dict) and 'err' in r else 'found'))
    elif op == 'canon':
      r = m['r']
      h.append('canon:' + (r['err'] if isinstance(r, dict) and 'err' in r else 'ok'))
    return h

  def shrink_candidates(self, case):
    """Smaller variants; a case whose keys are all well-formed is only shrunk to such cases, so that the
    replay stays inside the property's quantifier."""
    if case['op'] in ('rt', 'routes') and all(wf_key(k) for k in unwpath(case['keys'])):
      for c in self._shrink_candidates(case):
        if all(wf_key(k) for k in unwpath(c['keys'])):
          yield c
    else:
      yield from self._shrink_candidates(case)

  def _shrink_candidates(self, case):
    op = case['op']
    if op in ('rt', 'routes'):
      ks = case['keys']
      if op == 'routes':
        for f, z in (('prefix', []), ('other', []), ('split', 0)):
          if case[f] != z:
            c = dict(case)
            c[f] = z
            yield c
      for i in range(len(ks)):
        c = dict(case)
        c['keys'] = ks[:i] + ks[i + 1:]
        if op == 'routes':
          c['split'] = min(c['split'], len(c['keys']))
        yield c
      for i, k in enumerate(ks):
        if isinstance(k, list) and len(k) > 1:
          for j in range(len(k)):
            c = dict(case)
            c['keys'] = ks[:i] + [k[:j] + k[j + 1:]] + ks[i + 1:]
            yield c
    elif op == 'parse':
      s = case['s']
      for i in range(len(s)):
        yield {'op': 'parse', 's': s[:i] + s[i + 1:]}
    elif op == 'set':
      ops = case['ops']
      for i in range(len(ops)):
        c = dict(case)
        c['ops'] = ops[:i] + ops[i + 1:]
        yield c
      for side in ('a', 'b'):
        for i in range(len(case[side])):
          c = dict(case)
          c[side] = case[side][:i] + case[side][i + 1:]
          yield c
    elif op == 'arith':
      p = case['p']
      for i in range(len(p)):
        c = dict(case)
        c['p'] = p[:i] + p[i + 1:]
        yield c
    elif op == 'order':
      for i in range(3):
        p = case['ps'][i]
        for j in range(len(p)):
          c = dict(case)
          c['ps'] = list(case['ps'])
          c['ps'][i] = p[:j] + p[j + 1:]
          yield c
    elif op == 'look':
      import copy
      if case['probes']:
        c = dict(case)
        c['probes'] = []
        yield c
        for i in range(len(case['probes'])):
          c = dict(case)
          c['probes'] = case['probes'][:i] + case['probes'][i + 1:]
          yield c
      v = unwval(case['v'])

      def variants(x):
        """smaller specs: drop one item / field, or replace the spec by one of its children."""
        if isinstance(x, ObjSpec):
          for f in list(x.fields):
            yield ObjSpec(x.cls, {k: y for k, y in x.fields.items() if k != f})
            for y in variants(x.fields[f]):
              yield ObjSpec(x.cls, dict(x.fields, **{f: y}))
        elif isinstance(x, dict):
          for k in list(x):
            yield {k2: y for k2, y in x.items() if k2 != k}
            for y in variants(x[k]):
              yield dict(x, **{k: y}) if isinstance(k, str) else {k2: (y if k2 == k else y2) for k2, y2 in x.items()}
        elif isinstance(x, list):
          for i in range(len(x)):
            yield x[:i] + x[i + 1:]
            for y in variants(x[i]):
              yield x[:i] + [y] + x[i + 1:]
      for v2 in variants(v):
        if isinstance(v2, (dict, list, ObjSpec)):
          c = dict(case)
          c['v'] = wval(v2)
          c['probes'] = []
          yield c
      kids = (list(v.fields.values()) if isinstance(v, ObjSpec) else list(v.values()) if isinstance(v, dict)
              else list(v) if isinstance(v, list) else [])
      for y in kids:
        if isinstance(y, (dict, list, ObjSpec)):
          c = dict(case)
          c['v'] = wval(y)
          c['probes'] = []
          yield c
    elif op in ('hier', 'canon', 'query'):
      import copy
      v = unwval(case['v'])
      cs = containers_of(v)
      # delete one item of one container (aliasing of everything else preserved by deepcopy's memo)
      for ci, (c, _) in enumerate(cs):
        n = len(c)
        for i in range(n):
          v2 = copy.deepcopy(v)
          c2 = containers_of(v2)[ci][0]
          if isinstance(c2, dict):
            del c2[list(c2.keys())[i]]
          else:
            del c2[i]
          cand = dict(case)
          cand['v'] = wval_shared(v2)
          yield cand
      # promote a sub-container to the root
      for c, _ in cs:
        if c is not v:
          cand = dict(case)
          cand['v'] = wval_shared(c)
          yield cand
      # replace a leaf-free alias by an unaliased copy is *not* tried: aliasing may be the point


PROP = C10()
