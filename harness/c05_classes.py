"""Registered test classes of the C05 check (imported lazily: this module imports pyglove).

P, Q, R, S use only field kinds the Lean model knows (Any Bool Int Str List Dict Object);
T, U use richer specs (typed containers, tuple, enum, float, union) and are exercised by the
implementation-side oracle only.
"""

import pyglove as pg


class P(pg.Object):
  x: pg.typing.Int()
  y: pg.typing.Str(default='a')

  @classmethod
  def make(cls, x):
    return cls(x)


class Q(pg.Object):
  a: pg.typing.Any()
  b: pg.typing.Bool(default=False)
  n: pg.typing.Int().noneable()


class R(pg.Object):
  k: pg.typing.Str().freeze('kind-r')
  items: pg.typing.List(pg.typing.Any(), default=[])
  opts: pg.typing.Dict(default={})


class S(pg.Object):
  p: pg.typing.Object(P)
  q: pg.typing.Object(Q).noneable()
  z: pg.typing.Any(default=None)


class T(pg.Object):
  t: pg.typing.Tuple([pg.typing.Int(), pg.typing.Str()])
  li: pg.typing.List(pg.typing.Int(min_value=0), max_size=4, default=[])
  d: pg.typing.Dict([
      ('u', pg.typing.Int(default=1)),
      ('v', pg.typing.Str().noneable()),
  ])


class U(pg.Object):
  e: pg.typing.Enum('a', ['a', 'b', 'c'])
  f: pg.typing.Float(default=0.5)
  u: pg.typing.Union([pg.typing.Int(), pg.typing.Str()], default=1)
  m: pg.typing.Dict([(pg.typing.StrKey('k.*'), pg.typing.Int())], default={})


CLASSES = {c.__name__: c for c in (P, Q, R, S, T, U)}


def module_function(x):
  """A module-level function (functions are serialised by name)."""
  return x
