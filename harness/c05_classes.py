"""Registered test classes of the C05 check (imported lazily: this module imports pyglove).

P, Q, R, S use only field kinds the Lean model knows (Any Bool Int Str List Dict Object);
T, U use richer specs (typed containers, tuple, enum, float, union) and are exercised by the
implementation-side oracle only.
"""

import pyglove as pg


class P(pg.Object):
  x: pg.typing.Int()
  y: pg.typing.Str(default='a')

  @classmethod
  def make(cls, x):
    return cls(x)


class Q(pg.Object):
  a: pg.typing.Any()
  b: pg.typing.Bool(default=False)
  n: pg.typing.Int().noneable()


class R(pg.Object):
  k: pg.typing.Str().freeze('kind-r')
  items: pg.typing.List(pg.typing.Any(), default=[])
  opts: pg.typing.Dict(default={})


class S(pg.Object):
  p: pg.typing.Object(P)
  q: pg.typing.Object(Q).noneable()
  z: pg.typing.Any(default=None)


class T(pg.Object):
  t: pg.typing.Tuple([pg.typing.Int(), pg.typing.Str()])
  li: pg.typing.List(pg.typing.Int(min_value=0), max_size=4, default=[])
  d: pg.typing.Dict([
      ('u', pg.typing.Int(default=1)),
      ('v', pg.typing.Str().noneable()),
  ])


class U(pg.Object):
  e: pg.typing.Enum('a', ['a', 'b', 'c'])
  f: pg.typing.Float(default=0.5)
  u: pg.typing.Union([pg.typing.Int(), pg.typing.Str()], default=1)
  m: pg.typing.Dict([(pg.typing.StrKey('k.*'), pg.typing.Int())], default={})


CLASSES = {c.__name__: c for c in (P, Q, R, S, T, U)}


def module_function(x):
  """A module-level function (functions are serialised by name)."""
  return x


# ------------------------------------------------------------------------------------------
# Module-level twins of the user classes of harness/typing_vocab.py (its own are local classes,
# which `to_json` refuses to name): installed as `typing_vocab._CLS` by the C05 harness so that
# the C04 spec vocabulary can be serialised.
# ------------------------------------------------------------------------------------------

class VBase:
  def __init__(self, uid, partial=False):
    self.uid = uid
    self.partial = partial

  def __eq__(self, other):
    return type(other) is type(self) and other.uid == self.uid

  def __ne__(self, other):
    return not self.__eq__(other)

  def __hash__(self):
    return hash((type(self).__name__, self.uid))

  def __repr__(self):
    return '%s#%d' % (type(self).__name__, self.uid)


class VA(VBase):
  pass


class VB(VA):
  pass


class VC(VBase):
  pass


class VP(VBase, pg.utils.MaybePartial):
  @property
  def is_partial(self):
    return self.partial

  def missing_values(self, flatten=True):
    return {'x': pg.MISSING_VALUE} if self.partial else {}


@pg.members([('uid', pg.typing.Int()), ('w', pg.typing.Int()), ('d', pg.typing.Dict([('q', pg.typing.Int())]))])
class VS2(pg.Object):
  pass


@pg.members([('uid', pg.typing.Int()), ('x', pg.typing.Int()), ('c', pg.typing.Object(VS2))])
class VS1(pg.Object):
  pass


VOCAB = [VA, VB, VC, VP, VS1, VS2]


@pg.functor([('x', pg.typing.Any()), ('y', pg.typing.Any(default=1))])
def vocab_functor(x, y=1):
  """A module-level functor: `vocab_functor(1)` is a pg.Object with fields x, y."""
  return x


class N(pg.Object):
  """Not in the type registry: loadable only through `auto_import` (module + qualified name)."""
  auto_register = False
  x: pg.typing.Int()
  w: pg.typing.Any(default=None)


# ------------------------------------------------------------------------------------------
# Callables of every origin (defined in this importable module, so that resolution "by name" is
# real). Bodies use only their arguments and defaults: code-serialised functions are rebuilt with
# the globals of pyglove's json_conversion module and without closure.
# ------------------------------------------------------------------------------------------
import functools


def mod_def(x, k=1):
  return x + k


mod_lambda = lambda x, k=2: x * k          # a lambda at module scope  # pylint: disable=unnecessary-lambda-assignment


class Holder:
  body_lambda = lambda x, k=3: x - k       # a lambda in a class body  # pylint: disable=unnecessary-lambda-assignment

  def body_def(x, k=4):                     # a plain function in a class body (accessed through the class)  # pylint: disable=no-self-argument
    return x + k

  @classmethod
  def cmethod(cls, x):
    return x + 20


def make_nested_def():
  def inner(x, k=5):
    return x + k
  return inner


def make_nested_lambda():
  return lambda x, k=6: x * k


PARTIAL = functools.partial(mod_def, k=7)


class FD(pg.Object):
  """Callable fields whose defaults are callables of different origins (serialised even when unchanged)."""
  fn: pg.typing.Callable(default=mod_lambda)
  gn: pg.typing.Callable(default=mod_def)
  hn: pg.typing.Callable(default=Holder.body_lambda)
  x: pg.typing.Int(default=0)


class Maker:
  scale = 2

  @classmethod
  def make(cls, x):
    return (cls.__name__, x * cls.scale)


class SubMaker(Maker):        # inherits the class method: `SubMaker.make` is bound to SubMaker
  scale = 5


KWONLY = lambda x, *, k=2: x * k            # a keyword-only argument with a default  # pylint: disable=unnecessary-lambda-assignment


CALLABLES = {
    'inherited-classmethod': SubMaker.make,
    'lambda-kwonly-default': KWONLY,
    'functor-default-unbound': vocab_functor(1),                       # y is left at its default: not bound
    'functor-default-bound': vocab_functor(1, 1),                      # y bound by the user to the default's value
    'functor-override-args': vocab_functor(1, 2, override_args=True),       # both bound; a call may override them
    'module-def': mod_def,
    'module-lambda': mod_lambda,
    'class-body-lambda': Holder.body_lambda,
    'class-body-def': Holder.body_def,
    'nested-def': make_nested_def(),
    'nested-lambda': make_nested_lambda(),
    'builtin': len,
    'classmethod': Holder.cmethod,
    'partial': PARTIAL,
}


# ------------------------------------------------------------------------------------------
# Classes with object-valued and container-valued DEFAULTS, nested two levels deep: histories
# "serialise, mutate below the top, serialise again" (memoised derived state between the two).
# ------------------------------------------------------------------------------------------

class W(pg.Object):
  inner: pg.typing.Object(P, default=P(x=1, y='a'))
  tags: pg.typing.List(pg.typing.Any(), default=[])
  n: pg.typing.Int(default=0)


class W2(pg.Object):
  w: pg.typing.Object(W, default=W())
  k: pg.typing.Str(default='k')
  extra: pg.typing.Dict(default={})


CLASSES.update(W=W, W2=W2)


# Several functions from ONE code object that differ only in their default values.
FAMILY = [lambda x, k=k: x * k for k in (2, 3, 10)]    # pylint: disable=unnecessary-lambda-assignment


def make_shifted(k):
  def shifted(x, k=k):
    return x + k
  return shifted


SHIFTED = [make_shifted(k) for k in (1, 5, 9)]
