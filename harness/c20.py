"""C20 — HTML views are well-formed and never let data break out of its text position.

Case shapes (all JSON; strings are ordinary JSON strings, converted to code-point arrays for the
Lean driver):
  {"op": "escape",  "s": str}
  {"op": "element", "tag": str, "options": [str], "classes": [str], "styles": [[k, v|null]],
                    "props": [[k, v|null]], "children": [str]}
  {"op": "parse",   "s": str}                       # strict parser (Lean) vs strict wrapper (Python)
  {"op": "render",  "value": <vspec>, "opts": {...}}  # pg.to_html_str(value, **opts)
  {"op": "control", "kind": "label"|"progress"|"tab"|"tooltip", ...}   # oracle only (no model)

<vspec> ::= {"t": "str", "v": str} | {"t": "int", "v": int} | {"t": "float", "v": "<repr>"}
          | {"t": "bool", "v": bool} | {"t": "none"}
          | {"t": "dict"|"pgdict", "items": [[key, vspec], ...]}   key: str | int
          | {"t": "list"|"tuple"|"pglist", "items": [vspec, ...]}
          | {"t": "obj", "cls": "Foo"|"BarBaz"|"Leaf", "items": [[field, vspec], ...]}

Implementation observables (public API only): Html.escape, Html.element, pg.to_html_str,
pg.to_json / pg.eq, utils.format (for the strings the tree view formats into tooltips).
"""

import html as html_lib
import html.parser
import json
import re

from harness.common.framework import Prop
from translate import t_c20

# ------------------------------------------------------------------------------------------
# Strict HTML reading (the oracle's tokenizer) + cross-check against Python's html.parser
# ------------------------------------------------------------------------------------------

NAME = r'[A-Za-z][A-Za-z0-9-]*'
TOKEN = re.compile(r'<(/?)(%s)((?: %s(?:="[^"<]*")?)*)>|([^<]+)' % (NAME, NAME), re.S)
ATTR = re.compile(r' (%s)(?:="([^"<]*)")?' % NAME, re.S)
RAWTEXT = ('script', 'style')


def five_unescape(s):
  """Decoding of exactly the five references Html.escape produces (mirror of the Lean `unescape`)."""
  out, i, n = [], 0, len(s)
  refs = (('&amp;', '&'), ('&lt;', '<'), ('&gt;', '>'), ('&quot;', '"'), ('&#x27;', "'"))
  while i < n:
    if s[i] == '&':
      for r, c in refs:
        if s.startswith(r, i):
          out.append(c)
          i += len(r)
          break
      else:
        out.append('&')
        i += 1
    else:
      out.append(s[i])
      i += 1
  return ''.join(out)


def strict_tokens(text, rawtext=False):
  """Returns (tokens, None) or (None, reason). Tokens: ('open', tag, [(name, value|None)]) |
  ('close', tag) | ('text', raw)."""
  toks, i, n = [], 0, len(text)
  while i < n:
    m = TOKEN.match(text, i)
    if not m:
      return None, 'stray-markup-at:%d:%r' % (i, text[i:i + 24])
    if m.group(4) is not None:
      toks.append(('text', m.group(4)))
    elif m.group(1):
      if m.group(3):
        return None, 'attributes-on-close-tag:%d' % i
      toks.append(('close', m.group(2)))
    else:
      attrs = [(a.group(1), a.group(2)) for a in ATTR.finditer(m.group(3))]
      toks.append(('open', m.group(2), attrs))
      if rawtext and m.group(2) in RAWTEXT:
        j = text.find('</%s>' % m.group(2), m.end())
        if j < 0:
          return None, 'unterminated-%s' % m.group(2)
        if j > m.end():
          toks.append(('rawtext', text[m.end():j]))
        i = j
        continue
    i = m.end()
  return toks, None


def build_tree(toks):
  """Every open tag closed in order. Returns (children, None) or (None, reason)."""
  root = []
  stack = [('', root)]
  for t in toks:
    if t[0] in ('text', 'rawtext'):
      stack[-1][1].append({'t': t[1] if t[0] == 'rawtext' else five_unescape(t[1]), 'raw': t[0] == 'rawtext'})
    elif t[0] == 'open':
      node = [t[1], [[k, None if v is None else five_unescape(v)] for k, v in t[2]], []]
      stack[-1][1].append(node)
      stack.append((t[1], node[2]))
    else:
      if len(stack) == 1:
        return None, 'close-without-open:%s' % t[1]
      if stack[-1][0] != t[1]:
        return None, 'mis-nested:</%s>-closes-<%s>' % (t[1], stack[-1][0])
      stack.pop()
  if len(stack) != 1:
    return None, 'unclosed:<%s>' % stack[-1][0]
  return root, None


class _Events(html.parser.HTMLParser):
  def __init__(self):
    super().__init__(convert_charrefs=True)
    self.ev = []

  def handle_starttag(self, tag, attrs):
    self.ev.append(('open', tag, [(k, v) for k, v in attrs]))

  def handle_startendtag(self, tag, attrs):
    self.ev.append(('selfclose', tag))

  def handle_endtag(self, tag):
    self.ev.append(('close', tag))

  def handle_data(self, data):
    if self.ev and self.ev[-1][0] == 'text':
      self.ev[-1] = ('text', self.ev[-1][1] + data)
    else:
      self.ev.append(('text', data))

  def handle_comment(self, data):
    self.ev.append(('comment',))

  def handle_decl(self, decl):
    self.ev.append(('decl',))

  def handle_pi(self, data):
    self.ev.append(('pi',))

  def unknown_decl(self, data):
    self.ev.append(('unknown-decl',))


def strict_parse(text, rawtext=False):
  """The strict wrapper: the strict tokenizer must accept, every tag must be closed in order, and
  Python's html.parser must see the very same sequence of tags / attributes / decoded texts (so
  nothing the strict grammar accepted is read differently by a real HTML tokenizer).
  Returns (tree, None) or (None, reason)."""
  toks, why = strict_tokens(text, rawtext)
  if toks is None:
    return None, why
  tree, why = build_tree(toks)
  if tree is None:
    return None, why
  p = _Events()
  try:
    p.feed(text)
    p.close()
  except Exception as e:   # pylint: disable=broad-except
    return None, 'html.parser-raised:%s' % type(e).__name__
  mine = []
  for t in toks:
    if t[0] == 'open':
      mine.append(('open', t[1].lower(), [(k.lower(), None if v is None else html_lib.unescape(v)) for k, v in t[2]]))
    elif t[0] == 'close':
      mine.append(('close', t[1].lower()))
    elif t[0] == 'rawtext':
      mine.append(('text', t[1]))
    else:
      mine.append(('text', html_lib.unescape(t[1])))
  if mine != p.ev:
    k = 0
    while k < min(len(mine), len(p.ev)) and mine[k] == p.ev[k]:
      k += 1
    return None, 'html.parser-reads-differently-at-token:%d' % k
  return tree, None


def walk(tree):
  for n in tree:
    if isinstance(n, list):
      yield n
      yield from walk(n[2])


def texts_of(tree, out=None):
  out = [] if out is None else out
  for n in tree:
    if isinstance(n, dict):
      if not n.get('raw'):
        out.append(n['t'])
    else:
      texts_of(n[2], out)
  return out


def attr_values_of(tree):
  return [v for n in walk(tree) for _, v in n[1] if v is not None]


def skeleton(tree):
  """Element structure without data: tag, attribute names, class value; text nodes dropped."""
  out = []
  for n in tree:
    if isinstance(n, list):
      cls = [v for k, v in n[1] if k == 'class']
      out.append([n[0], [k for k, _ in n[1]], cls, skeleton(n[2])])
  return out


def strip_doc(tree):
  """The model-comparable form: text nodes as {'t': text}."""
  out = []
  for n in tree:
    if isinstance(n, dict):
      out.append({'t': n['t']})
    else:
      out.append([n[0], n[1], strip_doc(n[2])])
  return out


# ------------------------------------------------------------------------------------------
# Leaf types with their own repr (no pyglove needed)
# ------------------------------------------------------------------------------------------

import enum  # pylint: disable=wrong-import-position


class Tagged(int):
  """An int subclass whose repr is user text."""

  def __new__(cls, v, tag):
    o = int.__new__(cls, v)
    o.tag = tag
    return o

  def __repr__(self):
    return self.tag

  def __reduce__(self):
    return (Tagged, (int(self), self.tag))


class Qty(float):
  """A float subclass whose repr is user text."""

  def __new__(cls, v, tag):
    o = float.__new__(cls, v)
    o.tag = tag
    return o

  def __repr__(self):
    return self.tag

  def __reduce__(self):
    return (Qty, (float(self), self.tag))


class Color(enum.IntEnum):
  RED = 1
  GREEN = 2


class Opaque:
  """A non-symbolic, non-container object whose repr is user text."""

  def __init__(self, tag):
    self.tag = tag

  def __repr__(self):
    return self.tag

  def __eq__(self, other):
    return isinstance(other, Opaque) and other.tag == self.tag

  def __hash__(self):
    return hash(self.tag)


CUSTOM_LEAVES = {'tagged': ('num', 'Tagged'), 'qty': ('num', 'Qty'), 'intenum': ('num', 'Color'),
                 'opaque': ('opaque', 'Opaque')}
LEAF_TYPES = ('str', 'int', 'float', 'bool', 'none') + tuple(CUSTOM_LEAVES)

# ------------------------------------------------------------------------------------------
# Wire helpers
# ------------------------------------------------------------------------------------------

def cps(s):
  return [ord(c) for c in s]


def uncps(a):
  return ''.join(chr(c) for c in a)


def doc_from_wire(d):
  if d is None:
    return None
  out = []
  for n in d:
    if isinstance(n, dict):
      out.append({'t': uncps(n['t'])})
    else:
      out.append([uncps(n[0]), [[uncps(k), None if v is None else uncps(v)] for k, v in n[1]],
                  doc_from_wire(n[2])])
  return out


def key_wire(k):
  return k if isinstance(k, int) else cps(k)


# ------------------------------------------------------------------------------------------
# Generators
# ------------------------------------------------------------------------------------------

HOSTILE = ['<i>', '</span>', '"><script>alert(1)</script>', '&amp;', '&', '-->', '<!--', ']]>', "'", '"',
           '\n', '\x00', '\U0001F810', '<', '>', '</details>', '<td>', '</td></tr></table>', 'x" onmouseover="y',
           "x' onclick='y", '&lt;', '&#x27;', '&#60;', '<b', 'b>', '</', '<summary>', '<br>', '<img src=x>',
           '\t', '\r', 'é', ' ', '<![CDATA[', '&quot', ';', '=', '/', '`', '\\']
PATHY = ['a.b', 'a[', ']', '[0]', '$', '.', '', ' ', 'a b', '[', 'x[1].y', '..']
BENIGN = ['a', 'foo', 'bar_1', 'X', 'value', 'k', 'n0', 'hello world', 'z9']
DEFAULT_OPTS = {
    'enable_summary': None, 'enable_summary_for_str': True, 'max_summary_len_for_str': 80,
    'enable_summary_tooltip': True, 'enable_key_tooltip': True, 'key_style': 'summary',
    'collapse_level': 1, 'uncollapse': [], 'name': None, 'include_keys': None, 'exclude_keys': None,
    # option-level markup (root only) and colours
    'title': None, 'css_classes': None, 'key_color': None, 'summary_color': None,
    # node filters: None | {"pred": <pred>}
    'highlight': None, 'lowlight': None,
    # oracle-only options (no Lean model)
    'child_config': None, 'extra_flags': None, 'debug': False,
    # a custom child renderer (extra_flags['render_value_fn']) that returns None where the filter accepts
    'hide_values': None,
}
MODEL_OPTS = ('enable_summary', 'enable_summary_for_str', 'max_summary_len_for_str', 'enable_summary_tooltip',
              'enable_key_tooltip', 'key_style', 'collapse_level', 'uncollapse', 'name', 'include_keys',
              'exclude_keys')


def full_opts(o):
  d = dict(DEFAULT_OPTS)
  d.update(o)
  return d


def path_only_pred(pred):
  if 'type' in pred:
    return False
  if 'not' in pred:
    return path_only_pred(pred['not'])
  if 'or' in pred:
    return all(path_only_pred(q) for q in pred['or'])
  return True


def is_pred(x):
  return isinstance(x, dict) and 'pred' in x


def eval_pred(pred, path, spec):
  """<pred> ::= {"all": true} | {"paths": [[key, ...], ...]} | {"depth": n} | {"type": "str"|"int"|...}
             | {"not": pred} | {"or": [pred, pred]}"""
  if 'all' in pred:
    return True
  if 'paths' in pred:
    return any(len(q) == len(path) and all(a == b and type(a) is type(b) for a, b in zip(q, path))
               for q in pred['paths'])
  if 'depth' in pred:
    return len(path) == pred['depth']
  if 'type' in pred:
    return spec['t'] == pred['type']
  if 'not' in pred:
    return not eval_pred(pred['not'], path, spec)
  if 'or' in pred:
    return any(eval_pred(q, path, spec) for q in pred['or'])
  raise ValueError(pred)


def map_pred(pred, rekey):
  if 'paths' in pred:
    return {'paths': [[rekey(k) for k in q] for q in pred['paths']]}
  if 'not' in pred:
    return {'not': map_pred(pred['not'], rekey)}
  if 'or' in pred:
    return {'or': [map_pred(q, rekey) for q in pred['or']]}
  return pred


SPEC_TYPE = {'str': str, 'int': int, 'float': float, 'bool': bool, 'none': type(None), 'dict': dict,
             'list': list, 'tuple': tuple}


def py_pred(pred, rekey=lambda k: k):
  """The Python callable (path, value, parent) -> bool for a <pred>."""
  pred = map_pred(pred, rekey)

  def value_type(v):
    import pyglove as pg
    if isinstance(v, bool):
      return 'bool'
    if isinstance(v, pg.Dict):
      return 'pgdict'
    if isinstance(v, pg.List):
      return 'pglist'
    if isinstance(v, pg.Object):
      return 'obj'
    for n, t in SPEC_TYPE.items():
      if type(v) is t:
        return n
    return '?'

  def fn(path, value, parent):
    return eval_pred(pred, list(path.keys), {'t': value_type(value)})
  return fn
OBJ_FIELDS = {'Foo': ['x', 'y'], 'BarBaz': ['items', 'note'], 'Leaf': ['v']}


def gen_string(rng, hostile_p=0.7):
  n = rng.weighted([(2, 1), (3, 2), (2, 3), (1, 5)])
  parts = []
  for _ in range(n):
    r = rng.below(100)
    if r < hostile_p * 100:
      parts.append(rng.choice(HOSTILE))
    elif r < hostile_p * 100 + 10:
      parts.append(rng.choice(PATHY))
    else:
      parts.append(rng.choice(BENIGN))
  return ''.join(parts)


def gen_key(rng, used):
  for _ in range(20):
    r = rng.below(10)
    if r < 4:
      k = gen_string(rng)
    elif r < 6:
      k = rng.choice(PATHY)
    elif r < 8:
      k = rng.choice(BENIGN)
    else:
      k = rng.randint(-3, 12)
    if k not in used and not (isinstance(k, int) and (k in (0, 1)) and any(u is True or u is False for u in used)):
      used.append(k)
      return k
  k = 'k%d' % len(used)
  used.append(k)
  return k


def gen_leaf(rng):
  if rng.chance(0.12):
    k = rng.below(4)
    if k == 0:
      return {'t': 'tagged', 'v': rng.randint(0, 9), 'tag': gen_string(rng)}
    if k == 1:
      return {'t': 'qty', 'v': repr(rng.choice([0.5, 2.0])), 'tag': gen_string(rng)}
    if k == 2:
      return {'t': 'intenum', 'v': rng.choice(['RED', 'GREEN'])}
    return {'t': 'opaque', 'tag': gen_string(rng)}
  r = rng.below(10)
  if r < 5:
    if rng.chance(0.15):
      return {'t': 'str', 'v': gen_string(rng) * rng.randint(8, 30)}   # long: > max_summary_len_for_str
    return {'t': 'str', 'v': gen_string(rng)}
  if r < 7:
    return {'t': 'int', 'v': rng.choice([0, 1, rng.randint(-5, 1000)])}
  if r == 7:
    return {'t': 'float', 'v': repr(rng.choice([0.5, -1.25, 3.0, 1e-7, 2.5e10, 1.0, 0.0, -0.0]))}
  if r == 8:
    return {'t': 'bool', 'v': rng.chance(0.5)}
  return {'t': 'none'}


def gen_value(rng, depth, sym=False):
  """sym: inside a pg container (children of symbolic containers become symbolic themselves)."""
  if depth <= 0 or rng.chance(0.3):
    return gen_leaf(rng)
  r = rng.below(10)
  n = rng.weighted([(1, 0), (3, 1), (3, 2), (2, 3), (1, 4)])
  if r < 4:
    used = []
    t = 'pgdict' if (sym or rng.chance(0.35)) else 'dict'
    return {'t': t, 'items': [[gen_key(rng, used), gen_value(rng, depth - 1, sym or t == 'pgdict')] for _ in range(n)]}
  if r < 7:
    t = 'pglist' if (sym or rng.chance(0.35)) else rng.choice(['list', 'list', 'tuple'])
    return {'t': t, 'items': [gen_value(rng, depth - 1, sym or t == 'pglist') for _ in range(n)]}
  cls = rng.choice(sorted(OBJ_FIELDS))
  return {'t': 'obj', 'cls': cls, 'items': [[f, gen_value(rng, depth - 1, True)] for f in OBJ_FIELDS[cls]]}


def child_keys(v):
  if v['t'] in ('dict', 'pgdict', 'obj'):
    return [k for k, _ in v['items']]
  if v['t'] in ('list', 'tuple', 'pglist'):
    return list(range(len(v['items'])))
  return []


def child(v, k):
  if v['t'] in ('dict', 'pgdict', 'obj'):
    for kk, c in v['items']:
      if kk == k and type(kk) is type(k):
        return c
    return None
  if v['t'] in ('list', 'tuple', 'pglist') and isinstance(k, int) and 0 <= k < len(v['items']):
    return v['items'][k]
  return None


def all_paths(v, prefix=()):
  out = [list(prefix)]
  for k in child_keys(v):
    out += all_paths(child(v, k), prefix + (k,))
  return out


def gen_opts(rng, value):
  o = dict(DEFAULT_OPTS)
  if rng.chance(0.4):
    o['enable_summary'] = rng.choice([None, None, True, False])
  if rng.chance(0.25):
    o['enable_summary_for_str'] = False
  if rng.chance(0.4):
    o['max_summary_len_for_str'] = rng.choice([0, 1, 3, 10, 40, 80, 200])
  if rng.chance(0.35):
    o['enable_summary_tooltip'] = False
  if rng.chance(0.35):
    o['enable_key_tooltip'] = False
  if rng.chance(0.45):
    o['key_style'] = 'label'
  o['collapse_level'] = rng.choice([None, 0, 0, 1, 1, 2, 3])
  keys = child_keys(value)
  if rng.chance(0.3):
    paths = [p for p in all_paths(value) if '$' not in p]
    o['uncollapse'] = [rng.choice(paths) for _ in range(rng.randint(1, 2))] if paths else []
  if rng.chance(0.3):
    o['name'] = rng.choice([gen_string(rng), rng.choice(PATHY), rng.choice(BENIGN), rng.randint(0, 9)])
  if keys and rng.chance(0.25):
    inc = [rng.choice(keys) for _ in range(rng.randint(0, len(keys)))]
    if rng.chance(0.3):
      inc.append('not-a-key')
    o['include_keys'] = inc
  if keys and rng.chance(0.25):
    o['exclude_keys'] = [rng.choice(keys) for _ in range(rng.randint(0, 2))]
  return o


CSS = ['my-class', 'a', 'b-c', 'pyglove', 'str', 'x1']
COLORS = ['red', '#fff', 'rgb(1, 2, 3)', 'darkblue', None]
TITLES = ['My title', 'T', 'a - b', 'Foo(...)']


def gen_pred(rng, value):
  paths = all_paths(value)
  r = rng.below(10)
  if r < 2:
    return {'all': True}
  if r < 6:
    return {'paths': [rng.choice(paths) for _ in range(rng.randint(1, 3))]}
  if r < 8:
    return {'depth': rng.randint(1, 2)}
  if r == 8:
    return {'type': rng.choice(['str', 'int', 'dict', 'list', 'obj', 'pgdict'])}
  return {'not': {'depth': rng.randint(1, 2)}}


def gen_color(rng, value, allow_fn=True):
  if allow_fn and rng.chance(0.35):
    return {'pred': gen_pred(rng, value), 'then': [rng.choice(COLORS), rng.choice(COLORS)],
            'else': [rng.choice(COLORS), rng.choice(COLORS)]}
  return [rng.choice(COLORS), rng.choice(COLORS)]


def gen_xopts(rng, value):
  """Option records that also use the option-level markup (title, css classes, colours), the node
  filters (highlight / lowlight, also overlapping), callable options, child_config, extra_flags and
  debug."""
  o = gen_opts(rng, value)
  keys = child_keys(value)
  if rng.chance(0.3):
    o['title'] = rng.choice(TITLES)
  if rng.chance(0.3):
    o['css_classes'] = [rng.choice(CSS) for _ in range(rng.randint(1, 3))]
  if rng.chance(0.4):
    o['key_color'] = gen_color(rng, value)
  if rng.chance(0.3):
    o['summary_color'] = gen_color(rng, value)
    if o['name'] is None and rng.chance(0.7):
      o['name'] = rng.choice(BENIGN + [gen_string(rng)])
  r = rng.below(10)
  if r < 3:
    o['highlight'] = {'pred': gen_pred(rng, value)}
  elif r < 5:
    o['lowlight'] = {'pred': gen_pred(rng, value)}
  elif r < 8:          # both, overlapping on purpose half of the time
    p = gen_pred(rng, value)
    o['highlight'] = {'pred': p}
    o['lowlight'] = {'pred': p if rng.chance(0.5) else gen_pred(rng, value)}
  if rng.chance(0.2):
    o['include_keys'] = {'pred': gen_pred(rng, value)}
  if rng.chance(0.2):
    o['exclude_keys'] = {'pred': gen_pred(rng, value)}
  if rng.chance(0.25):
    o['key_style'] = {'pred': gen_pred(rng, value)}
  if rng.chance(0.15):
    o['uncollapse'] = {'pred': gen_pred(rng, value)}
  if keys and rng.chance(0.25):
    cc = []
    plain = [k for k in keys if isinstance(k, str) and k and not any(c in k for c in '.[]')]
    # keys that are not plain names (int indices, path-like strings) hit finding F81; keep them rare
    pool = keys if (rng.chance(0.08) or not plain) else plain
    for k in rng.sample(pool, rng.randint(1, min(2, len(pool)))) + (['__default__'] if rng.chance(0.3) else []):
      conf = {}
      for f in rng.sample(['collapse_level', 'enable_summary_tooltip', 'enable_key_tooltip', 'key_color', 'title',
                           'css_classes', 'uncollapse'], rng.randint(1, 3)):
        if f == 'collapse_level':
          conf[f] = rng.choice([None, 0, 1, 2])
        elif f in ('enable_summary_tooltip', 'enable_key_tooltip'):
          conf[f] = rng.chance(0.5)
        elif f == 'key_color':
          conf[f] = gen_color(rng, value, allow_fn=False)
        elif f == 'title':
          conf[f] = rng.choice(TITLES)
        elif f == 'css_classes':
          conf[f] = [rng.choice(CSS)]
        else:
          conf[f] = [[rng.choice(BENIGN)]]
      cc.append([k, conf])
    o['child_config'] = cc
  if rng.chance(0.2):
    o['extra_flags'] = rng.choice([{'hide_default_values': True}, {'use_inferred': True}, {'my_flag': 1},
                                   {'hide_frozen': False}])
  if rng.chance(0.12):
    o['debug'] = True
  if rng.chance(0.15):
    o['hide_values'] = {'pred': gen_pred(rng, value)}
  return o


SCOPE_OPTS = ('enable_summary', 'enable_summary_for_str', 'max_summary_len_for_str', 'enable_summary_tooltip',
              'enable_key_tooltip', 'key_style', 'collapse_level', 'include_keys', 'exclude_keys')


EQUAL_SCALARS = [
    [{'t': 'bool', 'v': True}, {'t': 'int', 'v': 1}, {'t': 'float', 'v': '1.0'}],
    [{'t': 'bool', 'v': False}, {'t': 'int', 'v': 0}, {'t': 'float', 'v': '0.0'}, {'t': 'float', 'v': '-0.0'}],
]


def gen_equal_scalars(rng):
  """Leaves that are equal (`True == 1 == 1.0`, `False == 0 == 0.0 == -0.0`) but print differently,
  side by side in one value: each must show ITS text."""
  fam = rng.choice(EQUAL_SCALARS)
  leaves = [dict(x) for x in rng.shuffle(fam)[:rng.randint(2, len(fam))]]
  if rng.chance(0.4):
    leaves += [dict(x) for x in rng.shuffle(rng.choice(EQUAL_SCALARS))[:2]]
  k = rng.below(4)
  if k == 0:
    v = {'t': rng.choice(['list', 'tuple', 'pglist']), 'items': leaves}
  elif k == 1:
    v = {'t': rng.choice(['dict', 'pgdict']), 'items': [['k%d' % i, x] for i, x in enumerate(leaves)]}
  elif k == 2:
    v = {'t': 'dict', 'items': [['a', {'t': 'list', 'items': leaves[:1]}], ['b', {'t': 'pgdict', 'items': [['c', x] for x in leaves[1:2]]}]]
         + [['r%d' % i, x] for i, x in enumerate(leaves[2:])]}
  else:
    v = {'t': 'obj', 'cls': 'Foo', 'items': [['x', leaves[0]], ['y', leaves[1]]]}
  return v


def _scalar_key(x):
  if x['t'] == 'bool':
    return float(bool(x['v']))
  if x['t'] in ('int', 'float'):
    return float(x['v'])
  return None

def _leaves(v):
  ks = child_keys(v)
  return [v] if not ks else [l for k in ks for l in _leaves(child(v, k))]

def has_equal_pair(c):
  vals = [c['value']] if c['op'] == 'render' else [st['value'] for st in c.get('steps', [])]
  seen = {}
  for v in vals:
    for l in _leaves(v):
      k = _scalar_key(l)
      if k is not None:
        seen.setdefault(k, set()).add((l['t'], str(l['v'])))
  return any(len(x) > 1 for x in seen.values())



def containers_of(v, prefix=()):
  out = []
  ks = child_keys(v)
  if ks:
    out.append((list(prefix), v))
    for k in ks:
      out += containers_of(child(v, k), prefix + (k,))
  return out


def gen_mixed(rng):
  """Containers whose children mix summary-style and label-style keys (callable key_style) while a
  custom child renderer hides subsets of them: all label-style children, some, all summary-style ones."""
  while True:
    v = gen_value(rng, rng.randint(1, 3))
    cs = [(p, n) for p, n in containers_of(v) if n['t'] in ('dict', 'pgdict', 'obj') and len(child_keys(n)) >= 2]
    if cs:
      break
  path, node = rng.choice(cs)
  keys = child_keys(node)
  labels = rng.sample(keys, rng.randint(1, len(keys) - 1))
  summaries = [k for k in keys if k not in labels]
  mode = rng.below(5)
  hidden = {0: labels, 1: rng.sample(labels, rng.randint(1, len(labels))), 2: summaries,
            3: rng.sample(keys, rng.randint(1, len(keys))), 4: keys}[mode]
  o = gen_opts(rng, v) if rng.chance(0.5) else dict(DEFAULT_OPTS)
  o['include_keys'] = None
  o['exclude_keys'] = None
  o['key_style'] = {'pred': {'paths': [path + [k] for k in labels]}}
  hp = {'paths': [path + [k] for k in hidden]}
  if rng.chance(0.25):
    hp = {'or': [hp, gen_pred(rng, v)]}
  o['hide_values'] = {'pred': hp}
  if rng.chance(0.3):
    o['collapse_level'] = None
  return {'op': 'render', 'value': v, 'opts': o}


def gen_history(rng):
  """A sequence of renders inside one enclosing `pg.view_options` scope; some steps add per-call
  options or a nested scope. Each render must be what it would be on a fresh options state."""
  n = rng.randint(2, 4)
  values = [gen_value(rng, rng.randint(1, 2)) for _ in range(n)]
  values = [v if child_keys(v) else {'t': 'dict', 'items': [[gen_key(rng, []), v]]} for v in values]

  def pick(avail, value, k):
    out = {}
    for name in rng.sample(avail, min(k, len(avail))):
      if name == 'enable_summary':
        out[name] = rng.choice([True, False])
      elif name in ('enable_summary_for_str', 'enable_summary_tooltip', 'enable_key_tooltip'):
        out[name] = False
      elif name == 'max_summary_len_for_str':
        out[name] = rng.choice([0, 3, 10, 200])
      elif name == 'key_style':
        out[name] = 'label'
      elif name == 'collapse_level':
        out[name] = rng.choice([0, 2, 3])
      else:
        keys = child_keys(value)
        out[name] = [rng.choice(keys) for _ in range(rng.randint(1, 2))] if keys else []
    return out

  avail = list(SCOPE_OPTS)
  outer = pick([a for a in avail if a not in ('include_keys', 'exclude_keys')], values[0], rng.below(3))
  steps = []
  for i, v in enumerate(values):
    rest = [a for a in avail if a not in outer]
    inner = pick(rest, v, rng.randint(1, 2)) if rng.chance(0.45) else None
    rest = [a for a in rest if not inner or a not in inner]
    call = pick(rest, v, rng.randint(1, 2)) if (rng.chance(0.5) or (inner is None and i == 0)) else {}
    steps.append({'value': v, 'opts': call, 'inner': inner})
  return {'op': 'history', 'outer': outer, 'steps': steps}


def merged_opts(case, step):
  o = dict(DEFAULT_OPTS)
  o.update(case['outer'])
  o.update(step['inner'] or {})
  o.update(step['opts'])
  return o


def gen_control(rng):
  k = rng.below(6)
  if k >= 4:
    n = rng.randint(1, 3)
    lab = lambda: {'text': gen_string(rng), 'tooltip': gen_string(rng) if rng.chance(0.4) else None,
                   'css': [rng.choice(CSS) for _ in range(rng.below(2))], 'badge': rng.chance(0.3)}
    if k == 4:
      return {'op': 'control', 'kind': 'label_group', 'labels': [lab() for _ in range(n)],
              'name': lab() if rng.chance(0.7) else None, 'css': [rng.choice(CSS) for _ in range(rng.below(2))]}
    return {'op': 'control', 'kind': 'badge', 'text': gen_string(rng),
            'tooltip': gen_string(rng) if rng.chance(0.5) else None}
  k = rng.below(4)
  css = lambda: [rng.choice(CSS) for _ in range(rng.below(3))]
  styles = lambda: [[k2, rng.choice(['red', '3px', None])] for k2 in rng.sample(['color', 'margin_top', 'width'], rng.below(3))]
  if k == 0:
    return {'op': 'control', 'kind': 'label', 'text': gen_string(rng),
            'tooltip': gen_string(rng) if rng.chance(0.6) else None,
            'link': rng.choice(['http://x/y', 'http://x/?a=1&amp;b=2']) if rng.chance(0.3) else None,
            'target': '_blank' if rng.chance(0.2) else None,
            'id': rng.choice(['my-id', 'L1']) if rng.chance(0.3) else None,
            'css': css(), 'styles': styles(), 'interactive': rng.chance(0.3)}
  if k == 1:
    return {'op': 'control', 'kind': 'tooltip', 'text': gen_string(rng),
            'id': 'T1' if rng.chance(0.3) else None, 'css': css(), 'styles': styles()}
  if k == 2:
    n = rng.randint(1, 3)
    total = rng.choice([None, 10, 7])
    return {'op': 'control', 'kind': 'progress',
            'names': [rng.choice([gen_string(rng), 'FooBar', 'Succeeded', 'x y']) for _ in range(n)],
            'values': [rng.randint(0, 3) for _ in range(n)], 'total': total, 'sub_css': [css() for _ in range(n)]}
  n = rng.randint(1, 3)
  return {'op': 'control', 'kind': 'tab', 'labels': [gen_string(rng) for _ in range(n)],
          'tooltips': [gen_string(rng) if rng.chance(0.3) else None for _ in range(n)],
          'contents': [rng.choice(['<b>c</b>', 'plain', '<div><i>n</i></div>', html_lib.escape(gen_string(rng))])
                       for _ in range(n)],
          'selected': rng.below(n), 'left': rng.chance(0.4), 'id': 'TT' if rng.chance(0.3) else None,
          'css': css(), 'styles': styles(), 'tab_css': [css() for _ in range(n)]}


JS_SIMPLE = {'n': '\n', 'r': '\r', 't': '\t', 'b': '\b', 'f': '\f', 'v': '\v', '0': '\0'}


def js_read(code, start=0):
  """A JavaScript double-quoted string-literal reader (ES2019), started just after the opening
  quote (mirror of the Lean `jsRead`): (value, rest) or None (unterminated on its line, or an
  escape this strict reader does not accept: \\x, \\u, digits 1-9, a line terminator after the backslash)."""
  out, i, n = [], start, len(code)
  while i < n:
    c = code[i]
    if c == '"':
      return ''.join(out), code[i + 1:]
    if c in '\n\r':
      return None
    if c == '\\':
      if i + 1 >= n:
        return None
      d = code[i + 1]
      if d in JS_SIMPLE:
        out.append(JS_SIMPLE[d])
      elif d in 'xu123456789\n\r\u2028\u2029':
        return None
      else:
        out.append(d)
      i += 2
      continue
    out.append(c)
    i += 1
  return None


JS_ASSIGN = re.compile(r'(?:elem|style)\.(\w+)\s*=\s*"')
JS_INSERT = re.compile(r'insertAdjacentHTML\(\s*"\w+",\s*"')


def js_literals(script):
  """The user-text literals of an update script: [(target, text after the opening quote, expected tail)]."""
  out = []
  for m in JS_ASSIGN.finditer(script):
    out.append((m.group(1), script[m.end():], ';'))
  for m in JS_INSERT.finditer(script):
    out.append(('insertAdjacentHTML', script[m.end():], ');'))
  return out


JS_HOSTILE = ['\\', '\\"', '"', '\\n', '\n', '\r', '\t', '\\\\', "'", '</script>', '\u2028', '\u2029', '\x00',
              '\\"; alert(document.cookie); //', 'C:\\temp\\new', '\\d+\\.\\d*', '\\u0041', '\\x41', '\\1', '<!--',
              '${x}', '`', '\\\n', '\\\r']


def gen_js_string(rng):
  n = rng.weighted([(2, 1), (3, 2), (2, 3), (1, 5)])
  parts = [rng.choice(JS_HOSTILE) if rng.chance(0.7) else rng.choice(BENIGN + HOSTILE) for _ in range(n)]
  if rng.chance(0.2):
    parts.append('\\')          # trailing backslash
  return ''.join(parts)


def gen_update(rng):
  k = rng.below(10)
  t = lambda: gen_js_string(rng)
  if k < 4:
    return {'op': 'update', 'kind': 'label', 'text': 'initial', 'tooltip': 'tip' if rng.chance(0.7) else None,
            'link': 'http://x' if rng.chance(0.5) else None,
            'new_text': t() if rng.chance(0.8) else None, 'new_tooltip': t() if rng.chance(0.5) else None,
            'new_link': rng.choice(['http://y/z', 'http://y/?a=1&b=2', t()]) if rng.chance(0.25) else None,
            'new_styles': [[rng.choice(['color', 'font_family']), rng.choice(['red', '3px', '"Arial"', t()])]]
                          if rng.chance(0.2) else None}
  if k < 6:
    return {'op': 'update', 'kind': 'tooltip', 'text': 'tip', 'new_text': t()}
  if k < 9:
    n = rng.randint(1, 2)
    return {'op': 'update', 'kind': rng.choice(['tab_append', 'tab_insert']), 'labels': ['first', 'second'][:n],
            'new_label': t(),
            'new_content': rng.choice([
                {'t': 'pgdict', 'items': [['path', {'t': 'str', 'v': t()}], ['note', {'t': 'str', 'v': t()}]]},
                {'t': 'dict', 'items': [[t() or 'k', {'t': 'int', 'v': 1}]]},
                {'t': 'str', 'v': t()}])}
  n = rng.randint(1, 2)
  return {'op': 'update', 'kind': 'progress', 'names': [t() or 'x' for _ in range(n)], 'total': 10,
          'increments': [rng.randint(1, 3) for _ in range(n)]}


CONTROL_ID = re.compile(r'control-\d+')


def canon_ids(html):
  """Addresses never cross the protocol: control-<id(self)> -> control-<k>, k by first appearance."""
  seen = {}
  return CONTROL_ID.sub(lambda m: 'control-%d' % seen.setdefault(m.group(0), len(seen)), html)


HTML_FRAGMENTS = ['<b>x</b>', '<span class="a">t</span>', 'plain', '&amp;', '<div><i>n</i></div>', '',
                  '<i>', '</i>', '<', '<div', 'a<b', '<span class=a>x</span>', "<span class='a'>x</span>",
                  '<span  class="a">x</span>', '<span class="a" >x</span>', '<span/>', '<br>', '</ div>',
                  '<!-- c -->', '<!DOCTYPE html>', '<?pi?>', '<1a>x</1a>', '<a-b>x</a-b>', '<A>x</A>',
                  '<a b>x</a>', '<a b="1" c>x</a>', '<a b="<">x</a>', '<a b="">x</a>', '<a b=">">x</a>',
                  'x > y', '"q"', "'", '<a>x</b>', '</a>', '<a><b></a></b>', '<a\n>x</a>', '<a b="1"c="2">x</a>',
                  '<table><tr><td>1</td></tr></table>', '<details open class="pyglove"><summary>s</summary></details>']


def gen_markup(rng):
  n = rng.randint(1, 4)
  return ''.join(rng.choice(HTML_FRAGMENTS) if rng.chance(0.75) else html_lib.escape(gen_string(rng))
                 for _ in range(n))


def gen_element_case(rng):
  tag = rng.choice(['div', 'span', 'details', 'a', 'td', 'x-y'])
  classes = [rng.choice(['a', 'b', 'c-d', 'a', 'pyglove', '']) for _ in range(rng.below(4))]
  options = [rng.choice(['open', 'open', 'disabled'])] if rng.chance(0.3) else []
  skeys = rng.sample(['color', 'background_color', 'width', 'margin_top'], rng.below(3))
  styles = [[k, rng.choice([None, 'red', '10px', '50%'])] for k in skeys]
  pkeys = rng.sample(['id', 'href', 'data_x', 'title', 'onclick'], rng.below(3))
  props = [[k, rng.choice([None, 'v', 'a b', html_lib.escape(gen_string(rng)), "f('x')"])] for k in pkeys]
  kids = []
  for _ in range(rng.below(4)):
    r = rng.below(4)
    if r == 0:
      kids.append(html_lib.escape(gen_string(rng)))
    elif r == 1:
      kids.append(rng.choice(['<b>x</b>', '<span class="a">t</span>', '<div><i>n</i></div>', 'plain', '']))
    elif r == 2:
      kids.append(gen_markup(rng))
    else:
      kids.append(gen_string(rng))         # raw, unescaped: the builder itself does not escape
  return {'op': 'element', 'tag': tag, 'options': options, 'classes': classes, 'styles': styles,
          'props': props, 'children': kids}


ODD_KINDS = ['bytes', 'opaque', 'frozenset', 'float', 'none', 'bool']


def gen_oddkeys(rng):
  """A symbolic value that holds, inside a tuple, a PLAIN dict whose keys are neither str nor int
  (a pg.Dict cannot hold such keys; a plain dict in a tuple is stored as it is). Oracle-only family."""
  keys = []
  for _ in range(rng.randint(1, 3)):
    kind = rng.choice(ODD_KINDS[:3]) if rng.chance(0.75) else rng.choice(ODD_KINDS[3:])
    text = gen_string(rng)
    if kind == 'bytes':
      text = ''.join(c for c in text if 32 <= ord(c) < 127 and c not in '\'"\\') or '<b>'
    keys.append([kind, text])
  opts = {'key_style': 'label' if rng.chance(0.7) else 'summary', 'enable_key_tooltip': rng.chance(0.6),
          'collapse_level': rng.choice([None, 0, 1, 2])}
  return {'op': 'oddkeys', 'keys': keys, 'wrap': rng.choice(['tuple', 'list-in-tuple', 'nested']), 'opts': opts}


def has_meta(s):
  return any(c in s for c in '<>&"\'')


def strings_of(v, out=None):
  out = [] if out is None else out
  if v['t'] == 'str':
    out.append(v['v'])
  if 'tag' in v:
    out.append(v['tag'])
  if v['t'] == 'intenum':
    out.append('<Color.%s: 1>' % v['v'])      # its repr has metacharacters
  for k in child_keys(v):
    if isinstance(k, str) and v['t'] != 'obj':
      out.append(k)
    strings_of(child(v, k), out)
  return out


def depth_of(v):
  ks = child_keys(v)
  return 0 if not ks else 1 + max(depth_of(child(v, k)) for k in ks)


def size_of(v):
  return 1 + sum(size_of(child(v, k)) for k in child_keys(v))


# ------------------------------------------------------------------------------------------

class C20(Prop):
  id = 'C20'
  props_modules = ['PgProps.C20']
  driver = 'drv_c20'
  translators = [t_c20.run]
  case_timeout_s = 20
  rule = ('render cases: nested values (plain dict/list/tuple, pg.Dict, pg.List, three pg.Object classes; '
          'depth <= 3, <= 4 children per node) whose string leaves, dict keys and root names are '
          'concatenations of 1-5 pieces drawn 70 % from a hostile dictionary (tags, closing-tag fragments, '
          'quotes, references, comment / CDATA terminators, NUL, newline, non-BMP) and otherwise from '
          'path-like and benign tokens, each rendered under 6 option records toggling every modelled '
          'tree-view option; plus Html.escape on such strings, Html.element with escaped / raw / '
          'malformed children, a stream of garbled markup for the two strict parsers, and the controls. '
          'Non-trivial: some string/key/child of the case contains an HTML metacharacter; distinct: by '
          'the whole case.')
  trusted_base = [
      'CPython html.escape / html.unescape / html.parser (the strict wrapper cross-checks its own tokenizer against html.parser)',
      'utils.format (tooltip / repr texts are inputs of the model: the harness obtains them from the real utils.format with the arguments tree_view.py uses)',
      'modelled, not verified: escape, element, the tree-view skeleton (tied by T-ESC extraction + correspondence of whole renderings); '
      'CSS/JS blocks (T-ESC checks they are constants), title / css_classes / colour options, extension hooks, debug mode, '
      'callable options, child_config, highlight/lowlight, the controls (oracle only) are outside the Lean model',
      'hand-written vocabulary `libraryTags` (PgProps/C20.lean)',
  ]
  assumptions = ['class names of rendered objects are Python identifiers',
                 'update scripts run in an ES2019 engine (U+2028 / U+2029 may occur raw inside a string literal) and '
                 'are handed to the engine as script text (IPython.display.Javascript), not embedded in an HTML '
                 '<script> element, so `</script>` inside a literal is harmless',
                 'element ids, css class names and property names in update scripts are developer-chosen identifiers',
                 'uncollapse paths do not contain the key "$" (F19, property C10)']

  # -- generation ---------------------------------------------------------------------------
  def generate(self, rng, tier):
    quick = tier == 'quick'
    for s in HOSTILE + PATHY + BENIGN:
      yield {'op': 'escape', 's': s}
    for _ in range(150 if quick else 3000):
      yield {'op': 'escape', 's': gen_string(rng)}
    for _ in range(250 if quick else 5000):
      yield gen_element_case(rng)
    for f in HTML_FRAGMENTS:
      yield {'op': 'parse', 's': f}
    for _ in range(400 if quick else 8000):
      yield {'op': 'parse', 's': gen_markup(rng)}
    n_values = 330 if quick else 6000
    for i in range(n_values):
      v = gen_value(rng, rng.randint(0, 3))
      if v['t'] in LEAF_TYPES and rng.chance(0.7):
        v = gen_value(rng, 2)
      yield {'op': 'render', 'value': v, 'opts': dict(DEFAULT_OPTS)}
      for _ in range(3):
        yield {'op': 'render', 'value': v, 'opts': gen_opts(rng, v)}
      for _ in range(3):
        yield {'op': 'render', 'value': v, 'opts': gen_xopts(rng, v)}
    if not quick:
      # every hostile string in every site x option toggles
      for h in HOSTILE + PATHY:
        shapes = [
            {'t': 'dict', 'items': [[h, {'t': 'int', 'v': 1}]]},
            {'t': 'pgdict', 'items': [[h, {'t': 'str', 'v': h}]]},
            {'t': 'list', 'items': [{'t': 'str', 'v': h}]},
            {'t': 'dict', 'items': [['a', {'t': 'dict', 'items': [[h, {'t': 'str', 'v': h * 30}]]}]]},
            {'t': 'obj', 'cls': 'Leaf', 'items': [['v', {'t': 'str', 'v': h}]]},
            {'t': 'str', 'v': h},
        ]
        for v in shapes:
          for ks in ('summary', 'label'):
            for es in (None, True, False):
              for tips in (True, False):
                for cl in (None, 0, 1):
                  o = dict(DEFAULT_OPTS)
                  o.update(key_style=ks, enable_summary=es, enable_summary_tooltip=tips,
                           enable_key_tooltip=tips, collapse_level=cl)
                  if cl == 0:
                    o['name'] = h
                  yield {'op': 'render', 'value': v, 'opts': o}
    for _ in range(160 if quick else 3000):
      yield gen_control(rng)
    for x in JS_HOSTILE + HOSTILE:
      yield {'op': 'jsescape', 's': x}
    for _ in range(200 if quick else 4000):
      yield {'op': 'jsescape', 's': gen_js_string(rng)}
    for _ in range(200 if quick else 3000):
      yield gen_update(rng)
    for _ in range(150 if quick else 2500):
      yield gen_history(rng)
    for _ in range(200 if quick else 4000):
      yield gen_mixed(rng)
    for _ in range(60 if quick else 1200):
      v = gen_equal_scalars(rng)
      yield {'op': 'render', 'value': v, 'opts': gen_opts(rng, v) if rng.chance(0.5) else dict(DEFAULT_OPTS)}
    for i in range(40 if quick else 600):
      # the equal scalars spread over the renders of a history (the last ones in a fresh interpreter)
      fam = rng.shuffle(rng.choice(EQUAL_SCALARS))
      steps = [{'value': {'t': 'dict', 'items': [['v', dict(x)]]}, 'opts': {}, 'inner': None} for x in fam]
      h = {'op': 'history', 'outer': {'key_style': 'label'} if rng.chance(0.5) else {}, 'steps': steps}
      if i % 8 == 0:
        h['fresh_process'] = True
      yield h
    for _ in range(6 if quick else 40):
      h = gen_history(rng)
      if not h['outer']:
        h['outer'] = {'key_style': 'label'}
      h['fresh_process'] = True
      yield h
    # oracle-only family: plain dicts with keys that are neither str nor int, held inside tuples
    for _ in range(120 if quick else 3000):
      yield gen_oddkeys(rng)

  # -- model side ---------------------------------------------------------------------------
  def model_request(self, case):
    op = case['op']
    if op == 'oddkeys':
      return None        # oracle-only family (no Lean model of non-str / non-int keys)
    if op == 'escape':
      return {'op': 'escape', 's': cps(case['s'])}
    if op == 'parse':
      return {'op': 'parse', 's': cps(case['s'])}
    if op == 'element':
      return {'op': 'element', 'tag': cps(case['tag']), 'options': [cps(x) for x in case['options']],
              'classes': [cps(x) for x in case['classes']],
              'styles': [[cps(k), None if v is None else cps(v)] for k, v in case['styles']],
              'props': [[cps(k), None if v is None else cps(v)] for k, v in case['props']],
              'children': [cps(x) for x in case['children']]}
    if op == 'render':
      o = full_opts(case['opts'])
      if not self.modelled(o):
        return None
      tree = self._model_tree(case)
      if tree is None:
        return None
      wire_opts = {k: o[k] for k in MODEL_OPTS}

      def wire_pred(pred):
        if 'paths' in pred:
          return {'paths': [[key_wire(k) for k in q] for q in pred['paths']]}
        if 'not' in pred:
          return {'not': wire_pred(pred['not'])}
        if 'or' in pred:
          return {'or': [wire_pred(q) for q in pred['or']]}
        return pred

      for f, g, dflt in (('include_keys', 'include_p', None), ('exclude_keys', 'exclude_p', None),
                         ('key_style', 'key_style_p', 'summary'), ('uncollapse', 'uncollapse_p', [])):
        if is_pred(o[f]):
          wire_opts[g] = wire_pred(o[f]['pred'])
          wire_opts[f] = dflt
      if o['hide_values'] is not None:
        wire_opts['hide_p'] = wire_pred(o['hide_values']['pred'])
      for f in ('highlight', 'lowlight'):
        wire_opts[f] = [] if o[f] is None else [[key_wire(k) for k in q] for q in o[f]['pred']['paths']]
      for f in ('key_color', 'summary_color'):
        wire_opts[f] = None if o[f] is None else [None if x is None else cps(x) for x in o[f]]
      wire_opts['title'] = None if o['title'] is None else cps(o['title'])
      wire_opts['css_classes'] = [cps(x) for x in (o['css_classes'] or [])]
      wire_opts['uncollapse'] = [[key_wire(k) for k in p] for p in wire_opts['uncollapse']]
      wire_opts['name'] = None if o['name'] is None else key_wire(o['name'])
      for f in ('include_keys', 'exclude_keys'):
        wire_opts[f] = None if wire_opts[f] is None else [key_wire(k) for k in wire_opts[f]]
      return {'op': 'render', 'opts': wire_opts, 'tree': tree}
    if op == 'control':
      return self._control_request(case)
    if op == 'jsescape':
      return {'op': 'jsescape', 's': cps(case['s'])}
    if op == 'history':
      items = []
      for st in case['steps']:
        r = self.model_request({'op': 'render', 'value': st['value'], 'opts': merged_opts(case, st)})
        if r is None:
          return None
        items.append({'opts': r['opts'], 'tree': r['tree']})
      for st in case['steps']:        # the plain renders after the scopes: default options
        r = self.model_request({'op': 'render', 'value': st['value'], 'opts': dict(DEFAULT_OPTS)})
        items.append({'opts': r['opts'], 'tree': r['tree']})
      return {'op': 'renders', 'items': items}
    if op == 'update':
      # the literals the real code emits for this update (obtained in this process; addresses renumbered)
      self.setup_impl()
      out = self._impl_update(case)
      if 'lits' not in out:
        return None
      return {'op': 'jsread', 'literals': [cps(canon_ids(l['raw'])) for l in out['lits']]}
    return None

  def _control_request(self, case):
    self.setup_impl()
    from pyglove.core import utils
    ocps = lambda x: None if x is None else cps(x)
    kvs = lambda l: [[cps(k), ocps(v)] for k, v in (l or [])]

    def label(text, tooltip=None, link=None, target=None, id=None, tip_id=None, css=(), styles=()):
      return {'text': cps(text), 'tooltip': ocps(tooltip), 'link': ocps(link), 'target': ocps(target),
              'id': ocps(id), 'tip_id': ocps(tip_id), 'css': [cps(x) for x in css], 'styles': kvs(styles)}

    k = case['kind']
    if k in ('label_group', 'badge'):
      return None            # oracle only
    if k == 'label':
      inter = case.get('interactive', False)
      lid = case.get('id') or ('control-0' if inter else None)
      n_auto = 1 if (inter and not case.get('id')) else 0
      tip_id = ('control-%d' % n_auto) if (inter and case.get('tooltip') is not None) else None
      return {'op': 'control', 'kind': 'label',
              'label': label(case['text'], case.get('tooltip'), case.get('link'), case.get('target'), lid, tip_id,
                             case.get('css', []), case.get('styles', []))}
    if k == 'tooltip':
      return {'op': 'control', 'kind': 'tooltip', 'text': cps(case['text']), 'id': ocps(case.get('id')),
              'css': [cps(x) for x in case.get('css', [])], 'styles': kvs(case.get('styles', []))}
    if k == 'progress':
      names, total = case['names'], case['total']
      values = case.get('values') or [0] * len(names)
      sub_css = case.get('sub_css') or [[] for _ in names]
      subs = [{'css_name': cps(utils.camel_to_snake(n, '-')),
               'width': None if total is None else cps('%s' % format(v / total, '.0%')),
               'id': cps('control-%d' % i), 'css': [cps(x) for x in sub_css[i]]}
              for i, (n, v) in enumerate(zip(names, values))]
      done = sum(values)
      text = 'n/a' if total is None else '%s (%d/%d)' % (format(done / total, ' .1%'), done, total)
      tip = 'Not started' if total is None else '\n'.join(
          '%s: %s (%d/%d)' % (n, format(v / total, '.1%'), v, total) for n, v in zip(names, values))
      n = len(names)
      return {'op': 'control', 'kind': 'progress', 'subs': subs,
              'label': label(text, tip, id='control-%d' % n, tip_id='control-%d' % (n + 1), css=['progress-label'])}
    cid = case.get('id')
    base = cid or 'control-0'
    child = lambda c: cid if cid else '%s-%s' % (base, c)
    tips = case.get('tooltips') or [None] * len(case['labels'])
    contents = case.get('contents') or ['<b>c</b>'] * len(case['labels'])
    tab_css = case.get('tab_css') or [[] for _ in case['labels']]
    return {'op': 'control', 'kind': 'tab', 'ctl_id': cps(base), 'bg_id': cps(child('button-group')),
            'cg_id': cps(child('content-group')), 'left': bool(case.get('left')), 'selected': case.get('selected', 0),
            'css': [cps(x) for x in case.get('css', [])], 'styles': kvs(case.get('styles', [])),
            'tabs': [{'label': label(l, tips[i]), 'content': cps(contents[i]), 'css': [cps(x) for x in tab_css[i]],
                      'id': cps(child(str(i)))} for i, l in enumerate(case['labels'])]}

  @staticmethod
  def modelled(o):
    """Is this option record inside the Lean model? child_config, extra_flags, debug, callable colours
    and filters that look at the value's type are checked by the oracle only."""
    o = full_opts(o)
    if o['child_config'] is not None or o['extra_flags'] is not None or o['debug']:
      return False
    if o['hide_values'] is not None and not path_only_pred(o['hide_values']['pred']):
      return False
    if any(is_pred(o[k]) for k in ('key_color', 'summary_color')):
      return False

    path_only = path_only_pred

    for f in ('include_keys', 'exclude_keys', 'key_style', 'uncollapse'):
      if is_pred(o[f]) and not path_only(o[f]['pred']):
        return False
    for f in ('highlight', 'lowlight'):
      if o[f] is not None and set(o[f]['pred']) != {'paths'}:
        return False
    return True

  def _model_tree(self, case):
    """The model's input tree: shape of the value + the strings utils.format yields for it
    (computed with the real library, in this process)."""
    self.setup_impl()
    try:
      value = self._build(case['value'])
    except Exception:   # pylint: disable=broad-except
      return None
    return self._tree(value, case['value'], None, [])

  def _tree(self, value, spec, key, path):
    from pyglove.core import utils
    kp = utils.KeyPath(list(path))
    fmt = dict(compact=False, verbose=False, python_format=True, max_bytes_len=64, max_str_len=256)
    node = {'k': key_wire(key if key is not None else 0),
            'p': cps(utils.format(kp, root_path=kp, **fmt)),
            'tip': cps(utils.format(value, root_path=kp, **fmt))}
    t = spec['t']
    if t in LEAF_TYPES:
      node['leaf'] = t
      if t in CUSTOM_LEAVES:
        cls = type(value).__name__
        node['leaf'] = [CUSTOM_LEAVES[t][0], cps(cls), cps(utils.camel_to_snake(cls, '-'))]
      if t == 'str':
        node['repr'] = cps(repr(value))
        node['raw'] = cps(value)
      else:
        node['repr'] = cps(utils.format(value, compact=False, verbose=False, hide_default_values=True,
                                        python_format=True, use_inferred=True, max_bytes_len=64))
        node['raw'] = []
      return node
    if t == 'obj':
      cls = type(value).__name__
      node['node'] = ['obj', cps(cls), cps(utils.camel_to_snake(cls, '-'))]
    else:
      node['node'] = {'dict': 'dict', 'pgdict': 'symDict', 'list': 'list', 'tuple': 'tuple', 'pglist': 'symList'}[t]
    ch = []
    for k in child_keys(spec):
      cv = value[k] if t != 'obj' else value.sym_getattr(k)
      ch.append(self._tree(cv, child(spec, k), k, path + [k]))
    node['ch'] = ch
    return node

  # -- implementation side ------------------------------------------------------------------
  def setup_impl(self):
    super().setup_impl()
    if getattr(self, '_classes', None) is None:
      import pyglove as pg

      class Foo(pg.Object):
        """A class with two fields."""
        x: pg.typing.Any(default=None)
        y: pg.typing.Any(default=None)

      class BarBaz(pg.Object):
        items: pg.typing.Any(default=None)
        note: pg.typing.Any(default=None)

      class Leaf(pg.Object):
        v: pg.typing.Any(default=None)

      self._classes = {'Foo': Foo, 'BarBaz': BarBaz, 'Leaf': Leaf}

  def _build(self, spec):
    import pyglove as pg
    t = spec['t']
    if t == 'str':
      return spec['v']
    if t == 'int':
      return int(spec['v'])
    if t == 'float':
      return float(spec['v'])
    if t == 'bool':
      return bool(spec['v'])
    if t == 'none':
      return None
    if t == 'tagged':
      return Tagged(int(spec['v']), spec['tag'])
    if t == 'qty':
      return Qty(float(spec['v']), spec['tag'])
    if t == 'intenum':
      return Color[spec['v']]
    if t == 'opaque':
      return Opaque(spec['tag'])
    if t == 'dict':
      return {k: self._build(v) for k, v in spec['items']}
    if t == 'pgdict':
      return pg.Dict({k: self._build(v) for k, v in spec['items']})
    if t == 'list':
      return [self._build(v) for v in spec['items']]
    if t == 'tuple':
      return tuple(self._build(v) for v in spec['items'])
    if t == 'pglist':
      return pg.List([self._build(v) for v in spec['items']])
    if t == 'obj':
      return self._classes[spec['cls']](**{k: self._build(v) for k, v in spec['items']})
    raise ValueError(t)

  def _kwargs(self, o, rekey=lambda k: k):
    from pyglove.core import utils
    o = full_opts(o)
    kw = {k: o[k] for k in ('enable_summary', 'enable_summary_for_str', 'max_summary_len_for_str',
                             'enable_summary_tooltip', 'enable_key_tooltip', 'collapse_level')}

    def color(c):
      if c is None:
        return None
      if is_pred(c):
        fn, a, b = py_pred(c['pred'], rekey), tuple(c['then']), tuple(c['else'])
        return lambda path, value, parent: a if fn(path, value, parent) else b
      return tuple(c)

    ks = o['key_style']
    if is_pred(ks):
      fn = py_pred(ks['pred'], rekey)
      kw['key_style'] = lambda path, value, parent: 'label' if fn(path, value, parent) else 'summary'
    else:
      kw['key_style'] = ks
    if is_pred(o['uncollapse']):
      kw['uncollapse'] = py_pred(o['uncollapse']['pred'], rekey)
    else:
      kw['uncollapse'] = [utils.KeyPath([rekey(k) for k in p]) for p in o['uncollapse']]
    if o['name'] is not None:
      kw['name'] = rekey(o['name'])
    for f in ('include_keys', 'exclude_keys'):
      if is_pred(o[f]):
        kw[f] = py_pred(o[f]['pred'], rekey)
      elif o[f] is not None:
        kw[f] = [rekey(k) for k in o[f]]
    for f in ('highlight', 'lowlight'):
      if o[f] is not None:
        kw[f] = py_pred(o[f]['pred'], rekey)
    for f in ('key_color', 'summary_color'):
      if o[f] is not None:
        kw[f] = color(o[f])
    if o['title'] is not None:
      kw['title'] = o['title']
    if o['css_classes'] is not None:
      kw['css_classes'] = list(o['css_classes'])
    if o['child_config'] is not None:
      cc = {}
      for k, conf in o['child_config']:
        conf = dict(conf)
        if 'key_color' in conf:
          conf['key_color'] = color(conf['key_color'])
        if 'uncollapse' in conf:
          conf['uncollapse'] = [utils.KeyPath([rekey(x) for x in q]) for q in conf['uncollapse']]
        cc[k if k == '__default__' else rekey(k)] = conf
      kw['child_config'] = cc
    if o['extra_flags'] is not None:
      kw['extra_flags'] = dict(o['extra_flags'])
    if o['hide_values'] is not None:
      from pyglove.core.views.html.tree_view import HtmlTreeView
      hide = py_pred(o['hide_values']['pred'], rekey)

      def render_value_fn(view, *, value, name, parent, root_path, **kwargs):
        if hide(root_path, value, parent):
          return None
        return HtmlTreeView.render(view, value=value, name=name, parent=parent, root_path=root_path, **kwargs)

      kw.setdefault('extra_flags', {})['render_value_fn'] = render_value_fn
    if o['debug']:
      kw['debug'] = True
    return kw

  @staticmethod
  def _snapshot(value):
    import pyglove as pg
    try:
      return json.dumps(pg.to_json(value), sort_keys=True, default=repr)
    except Exception as e:   # pylint: disable=broad-except
      return 'to_json-raised:' + type(e).__name__ + ':' + repr(value)

  def _benign(self, spec, table):
    """Same shape, every string replaced: keys -> distinct tokens, leaves -> same-length filler."""
    t = spec['t']
    if t == 'str':
      return {'t': 'str', 'v': 'x' * len(spec['v'])}
    if 'tag' in spec:
      b = dict(spec)
      b['tag'] = 'x' * len(spec['tag'])
      return b
    if t in ('dict', 'pgdict'):
      return {'t': t, 'items': [[self._rekey(k, table), self._benign(v, table)] for k, v in spec['items']]}
    if t == 'obj':
      for k, _ in spec['items']:
        table.setdefault(k, k)         # field names are identifiers of the class, not data
      return {'t': t, 'cls': spec['cls'], 'items': [[k, self._benign(v, table)] for k, v in spec['items']]}
    if t in ('list', 'tuple', 'pglist'):
      return {'t': t, 'items': [self._benign(v, table) for v in spec['items']]}
    return spec

  @staticmethod
  def _rekey(k, table):
    if isinstance(k, int):
      return k
    return table.setdefault(k, 'key%d' % len(table))

  def impl(self, case):
    op = case['op']
    from pyglove.core.views.html import base as html_base
    Html = html_base.Html
    if op == 'escape':
      e = Html.escape(case['s'])
      return {'model': {'escaped': cps(e)}, 'escaped': e,
              'py_unescape_roundtrip': html_lib.unescape(e) == case['s']}
    if op == 'parse':
      tree, why = strict_parse(case['s'])
      return {'model': {'doc': None if tree is None else strip_doc(tree)}, 'why': why}
    if op == 'element':
      try:
        h = Html.element(case['tag'], list(case['children']), options=list(case['options']),
                         css_classes=list(case['classes']),
                         styles={k: v for k, v in case['styles']},
                         **{k: v for k, v in case['props']}).to_str(content_only=True)
      except Exception as e:   # pylint: disable=broad-except
        return {'error': type(e).__name__}
      tree, why = strict_parse(h)
      return {'model': {'html': h, 'doc': None if tree is None else strip_doc(tree)}, 'why': why}
    if op == 'render':
      return self._impl_render(case)
    if op == 'oddkeys':
      return self._impl_oddkeys(case)
    if op == 'control':
      return self._impl_control(case)
    if op == 'jsescape':
      e = Html.escape(case['s'], javascript_str=True)
      r = js_read(e + '"')
      return {'model': {'escaped': cps(e), 'read': None if r is None else {'value': cps(r[0]), 'rest': cps(r[1])}},
              'escaped': e, 'read': r}
    if op == 'update':
      return self._impl_update(case)
    if op == 'history':
      return self._impl_history(case)
    raise ValueError(op)

  def _odd_value(self, case, benign):
    import pyglove as pg
    d = {}
    for i, (kind, text) in enumerate(case['keys']):
      # equal keys stay equal in the benign twin (the dict has the same number of entries)
      t = 'k%d' % [j for j, kt in enumerate(case['keys']) if kt == [kind, text]][0] if benign else text
      if kind == 'bytes':
        k = t.encode('ascii', 'replace')
      elif kind == 'opaque':
        k = Opaque(t)
      elif kind == 'frozenset':
        k = frozenset([t])
      elif kind == 'float':
        k = 0.5 + i
      elif kind == 'none':
        k = None
      else:
        k = bool(i % 2)
      d[k] = 'v%d' % i
    if case['wrap'] == 'tuple':
      return pg.Dict(a=(d,)), list(d)
    if case['wrap'] == 'list-in-tuple':
      return pg.List([1, ([d, 2],)]), list(d)
    return pg.Dict(x=pg.Dict(y=({'in': (d,)},))), list(d)

  def _impl_oddkeys(self, case):
    import pyglove as pg
    out = {}
    kw = dict(case['opts'])
    try:
      value, keys = self._odd_value(case, False)
      content = pg.to_html_str(value, content_only=True, **kw)
    except Exception as e:   # pylint: disable=broad-except
      return {'error': type(e).__name__, 'message': str(e)[:200]}
    tree, why = strict_parse(content)
    out['ok'], out['why'] = tree is not None, why
    try:
      bvalue, _ = self._odd_value(case, True)
      btree, _ = strict_parse(pg.to_html_str(bvalue, content_only=True, **kw))
    except Exception as e:   # pylint: disable=broad-except
      btree = None
      out['benign_error'] = type(e).__name__
    out['benign_ok'] = btree is not None
    if tree is not None and btree is not None:
      out['skeleton_equal'] = skeleton(tree) == skeleton(btree)
      out['new_tags'] = sorted({n[0] for n in walk(tree)} - {n[0] for n in walk(btree)})
    if tree is not None:
      texts = texts_of(tree)
      out['missing'] = [str(k) for k in keys if case['opts']['key_style'] == 'label' and str(k) not in texts]
    return out

  def _impl_history(self, case):
    import contextlib
    if case.get('fresh_process'):
      # the same history in a brand-new interpreter: nothing an earlier render left behind can help or hide
      import subprocess
      import sys
      from harness.common import framework
      c = {k: v for k, v in case.items() if k != 'fresh_process'}
      code = ('import sys, json; sys.path[:0] = [%r, %r]; from harness import c20; P = c20.PROP; P.setup_impl(); '
              'print(json.dumps(P._impl_history(json.load(sys.stdin))))' % (framework.VERIF, framework.REPO))
      p = subprocess.run([sys.executable, '-c', code], input=json.dumps(c), capture_output=True, text=True, timeout=120)
      if p.returncode != 0:
        raise RuntimeError('fresh-process history failed: %s' % p.stderr[-400:])
      return json.loads(p.stdout.strip().split('\n')[-1])
    import pyglove as pg

    def sub(d, step):
      kw = self._kwargs(merged_opts(case, step))
      return {k: kw[k] for k in d}

    values = [self._build(st['value']) for st in case['steps']]
    before = [self._snapshot(v) for v in values]

    def run(i, st):
      with contextlib.ExitStack() as stack:
        if st['inner']:
          stack.enter_context(pg.view_options(**sub(st['inner'], st)))
        return pg.to_html_str(values[i], content_only=True, **sub(st['opts'], st))

    try:
      seq = []
      with pg.view_options(**sub(case['outer'], case['steps'][0])):
        for i, st in enumerate(case['steps']):
          seq.append(run(i, st))
      # after every scope has been left: a plain render must be the default render
      after = [pg.to_html_str(v, content_only=True) for v in values]
      explicit = [pg.to_html_str(v, content_only=True, **self._kwargs(DEFAULT_OPTS)) for v in values]
      fresh = []
      for i, st in enumerate(case['steps']):
        with pg.view_options(**sub(case['outer'], st)):
          fresh.append(run(i, st))
    except Exception as e:   # pylint: disable=broad-except
      return {'error': type(e).__name__, 'message': str(e)[:200]}
    steps = []
    for i, st in enumerate(case['steps']):
      tree, why = strict_parse(seq[i])
      missing = []
      if tree is not None:
        missing = self._missing({'value': st['value'], 'opts': merged_opts(case, st)}, texts_of(tree))
      steps.append({'ok': tree is not None, 'why': why, 'same_as_fresh': seq[i] == fresh[i], 'missing': missing})
    after_missing = []
    for i, st in enumerate(case['steps']):
      tree, _ = strict_parse(after[i])
      if tree is not None:
        after_missing += self._missing({'value': st['value'], 'opts': dict(DEFAULT_OPTS)}, texts_of(tree))
    return {'steps': steps, 'unchanged': [self._snapshot(v) for v in values] == before,
            'after_same': after == explicit, 'after_missing': after_missing,
            'model': {'htmls': seq + after}}

  def _impl_update(self, case):
    """Renders an interactive control, performs an update and reads every user-text literal of the
    emitted scripts the way a JavaScript engine would."""
    import pyglove as pg
    from pyglove.core.views.html import controls
    k = case['kind']
    expected = []          # (target, expected value | ('contains', fragment))
    try:
      if k == 'label':
        c = controls.Label(case['text'], tooltip=case.get('tooltip'), link=case.get('link'), interactive=True)
        c.to_html()
        with c.track_scripts() as scripts:
          kw = {}
          if case.get('new_text') is not None:
            kw['text'] = case['new_text']
            expected.append(('textContent', case['new_text']))
          if case.get('new_styles'):
            kw['styles'] = {a: b for a, b in case['new_styles']}
            expected.append(('style', pg.Html.style_str(kw['styles'])))
          if case.get('new_link') is not None:
            kw['link'] = case['new_link']
            expected.append(('href', case['new_link']))
          if case.get('new_tooltip') is not None and case.get('tooltip') is not None:
            kw['tooltip'] = case['new_tooltip']
            expected.append(('textContent', case['new_tooltip']))
          c.update(**kw)
        synced = ((case.get('new_text') is None or c.text == case['new_text'])
                  and ('tooltip' not in kw or c.tooltip.content == kw['tooltip']))
      elif k == 'tooltip':
        c = controls.Tooltip(case['text'], for_element='.x', interactive=True)
        c.to_html()
        with c.track_scripts() as scripts:
          c.update(case['new_text'])
        expected.append(('textContent', case['new_text']))
        synced = c.content == case['new_text']
      elif k in ('tab_append', 'tab_insert'):
        c = controls.TabControl([controls.Tab(l, pg.Html('<div>%s</div>' % l)) for l in case['labels']])
        c.to_html()
        content = pg.to_html(self._build(case['new_content']), collapse_level=None)
        tab = controls.Tab(case['new_label'], content)
        with c.track_scripts() as scripts:
          if k == 'tab_append':
            c.append(tab)
          else:
            c.insert(0, tab)
        expected.append(('insertAdjacentHTML', ('contains', pg.Html.escape(case['new_label']))))
        expected.append(('insertAdjacentHTML', ('contains', content.content)))
        synced = len(c.tabs) == len(case['labels']) + 1
      else:
        subs = [controls.SubProgress(n) for n in case['names']]
        c = controls.ProgressBar(subprogresses=subs, total=case['total'])
        c.to_html()
        values = [0] * len(subs)
        with c.track_scripts() as scripts:
          for i, (sp, d) in enumerate(zip(subs, case['increments'])):
            sp.increment(d)
            values[i] += d
            total = case['total']
            done = sum(values)
            expected.append(('style', 'width:%s;' % format(values[i] / total, '.0%')))
            expected.append(('textContent', '%s (%d/%d)' % (format(done / total, ' .1%'), done, total)))
            expected.append(('textContent', '\n'.join(
                '%s: %s (%d/%d)' % (n, format(v / total, '.1%'), v, total) for n, v in zip(case['names'], values))))
        synced = True
    except Exception as e:   # pylint: disable=broad-except
      return {'error': type(e).__name__, 'message': str(e)[:200]}
    lits = []
    for sc in scripts:
      for target, text, tail in js_literals(sc):
        if target == 'insertAdjacentHTML' or target in ('textContent', 'innerHTML', 'style', 'href'):
          r = js_read(text)
          lits.append({'target': target, 'raw': text,
                       'value': None if r is None else r[0],
                       'tail_ok': r is not None and r[1].split('\n', 1)[0].strip() == tail if target != 'insertAdjacentHTML'
                                  else (r is not None and r[1].strip() == tail)})
    return {'lits': lits, 'expected': [[t, list(v) if isinstance(v, tuple) else v] for t, v in expected],
            'synced': synced,
            'model': {'reads': [None if l['value'] is None else canon_ids(l['value']) for l in lits]}}

  def _impl_render(self, case):
    import pyglove as pg
    out = {}
    try:
      value = self._build(case['value'])
    except Exception as e:   # pylint: disable=broad-except
      return {'build_error': type(e).__name__}
    before = self._snapshot(value)
    try:
      kwargs = self._kwargs(case['opts'])      # built once: callables keep their identity (debug prints them)
      content = pg.to_html_str(value, content_only=True, **kwargs)
      full = pg.to_html_str(value, **kwargs)
    except Exception as e:   # pylint: disable=broad-except
      return {'error': type(e).__name__, 'message': str(e)[:200]}
    out['unchanged'] = self._snapshot(value) == before
    tree, why = strict_parse(content)
    ftree, fwhy = strict_parse(full, rawtext=True)
    out['model'] = {'html': content, 'doc': None if tree is None else strip_doc(tree)}
    out['why'] = why
    out['full_ok'] = ftree is not None
    out['full_why'] = fwhy
    if ftree is not None:
      body = [n for n in walk(ftree) if n[0] == 'body']
      out['body_matches'] = (len(body) == 1 and tree is not None
                             and strip_doc(body[0][2]) == [{'t': '\n'}] + strip_doc(tree) + [{'t': '\n'}])
    # benign twin of the same shape, same options
    table = {}
    bspec = self._benign(case['value'], table)
    bopts = full_opts(case['opts'])
    rekey = lambda k: self._rekey(k, table)
    try:
      bvalue = self._build(bspec)
      bcontent = pg.to_html_str(bvalue, content_only=True, **self._kwargs(bopts, rekey))
      btree, bwhy = strict_parse(bcontent)
      out['benign_ok'] = btree is not None
      out['benign_why'] = bwhy
      if btree is not None and tree is not None:
        out['skeleton_equal'] = skeleton(tree) == skeleton(btree)
        out['new_tags'] = sorted({n[0] for n in walk(tree)} - {n[0] for n in walk(btree)})
        out['new_attrs'] = sorted({k for n in walk(tree) for k, _ in n[1]} - {k for n in walk(btree) for k, _ in n[1]})
    except Exception as e:   # pylint: disable=broad-except
      out['benign_ok'] = False
      out['benign_why'] = 'raised:' + type(e).__name__
    if tree is not None:
      texts = texts_of(tree)
      out['missing'] = self._missing(case, texts)
    return out

  def _missing(self, case, texts):
    """Keys and leaf texts of the displayed tree that are not the content of a text node."""
    o = full_opts(case['opts'])
    have = set(texts)
    missing = []
    hide_defaults = bool((o['extra_flags'] or {}).get('hide_default_values'))

    def same(a, b):
      return a == b and type(a) is type(b)

    def displayed_children(spec, path):
      ks = child_keys(spec)
      inc, exc = o['include_keys'], o['exclude_keys']
      if is_pred(inc):          # callable filters are inherited by every level
        ks = [k for k in ks if eval_pred(inc['pred'], path + [k], child(spec, k))]
      elif inc is not None and not path:
        ks = [k for k in inc if any(same(k, kk) for kk in ks)]
      if is_pred(exc):
        ks = [k for k in ks if not eval_pred(exc['pred'], path + [k], child(spec, k))]
      elif exc is not None and not path:
        ks = [k for k in ks if not any(same(k, e) for e in exc)]
      if hide_defaults and spec['t'] == 'obj':
        ks = [k for k in ks if child(spec, k)['t'] != 'none']     # every field defaults to None
      return ks

    def visit(spec, path):
      t = spec['t']
      if t in LEAF_TYPES:
        if t == 'str':
          v = spec['v']
          shown = repr(v) if len(v) < o['max_summary_len_for_str'] else v
        elif t == 'float':
          shown = repr(float(spec['v']))
        elif t == 'none':
          shown = 'None'
        elif t in ('tagged', 'qty', 'opaque'):
          shown = spec['tag']          # their repr IS the user text
        elif t == 'intenum':
          m = Color[spec['v']]
          shown = next((x for x in (str(int(m)), repr(m), str(m)) if x in have), repr(m))
        else:
          shown = repr(bool(spec['v']) if t == 'bool' else int(spec['v']))
        if shown and shown not in have:
          missing.append({'what': 'leaf', 'text': shown})
        return
      seq = t in ('list', 'tuple', 'pglist')
      for k in displayed_children(spec, path):
        c = child(spec, k)
        if o['hide_values'] is not None and eval_pred(o['hide_values']['pred'], path + [k], c):
          continue            # the custom renderer returns nothing for this child: neither key nor subtree
        ks = o['key_style']
        if is_pred(ks):
          ks = 'label' if eval_pred(ks['pred'], path + [k], c) else 'summary'
        if seq or ks == 'label':
          shown = str(k)
          dropped = False
        else:
          shown = '[%d]' % k if isinstance(k, int) else k
          # summary-style keys live in the child's <summary>: absent when the summary is disabled
          es = o['enable_summary']
          dropped = (es is False) or (es is None and not o['enable_summary_for_str'] and c['t'] == 'str')
        if shown and shown not in have:
          missing.append({'what': 'key', 'text': shown, 'summary_disabled': dropped})
        visit(c, path + [k])

    visit(case['value'], [])
    return missing

  def _impl_control(self, case):
    import pyglove as pg
    from pyglove.core.views.html import controls

    def build(f):
      k = case['kind']
      st = lambda l: {a: b for a, b in (l or [])}
      if k == 'label':
        return controls.Label(f(case['text']), tooltip=None if case['tooltip'] is None else f(case['tooltip']),
                              link=case['link'], target=case.get('target'), id=case.get('id'),
                              css_classes=list(case.get('css', [])), styles=st(case.get('styles')),
                              interactive=case.get('interactive', False))
      if k == 'badge':
        return controls.Badge(f(case['text']), tooltip=None if case['tooltip'] is None else f(case['tooltip']))
      if k == 'label_group':
        mk = lambda l: (controls.Badge if l.get('badge') else controls.Label)(
            f(l['text']), tooltip=None if l['tooltip'] is None else f(l['tooltip']), css_classes=list(l.get('css', [])))
        return controls.LabelGroup([mk(l) for l in case['labels']],
                                   name=None if case['name'] is None else mk(case['name']),
                                   css_classes=list(case.get('css', [])))
      if k == 'tooltip':
        return controls.Tooltip(f(case['text']), for_element='.x', id=case.get('id'),
                                css_classes=list(case.get('css', [])), styles=st(case.get('styles')))
      if k == 'progress':
        values = case.get('values') or [0] * len(case['names'])
        sub_css = case.get('sub_css') or [[] for _ in case['names']]
        return controls.ProgressBar(
            subprogresses=[controls.SubProgress(f(n), v, css_classes=list(sub_css[i]))
                           for i, (n, v) in enumerate(zip(case['names'], values))],
            total=case['total'])
      tips = case.get('tooltips') or [None] * len(case['labels'])
      contents = case.get('contents') or ['<b>c</b>'] * len(case['labels'])
      tab_css = case.get('tab_css') or [[] for _ in case['labels']]
      return controls.TabControl(
          [controls.Tab(controls.Label(f(l), tooltip=None if tips[i] is None else f(tips[i])),
                        pg.Html(contents[i]), css_classes=list(tab_css[i]))
           for i, l in enumerate(case['labels'])],
          selected=case.get('selected', 0), tab_position='left' if case.get('left') else 'top',
          id=case.get('id'), css_classes=list(case.get('css', [])), styles=st(case.get('styles')))

    def snap(v):
      """The symbolic value as data: every field of every nested member (pg.to_json with the
      opaque Html leaves replaced by what they say, so that caches inside them do not count)."""
      if isinstance(v, pg.Symbolic):
        return [type(v).__name__, [[str(k), snap(x)] for k, x in v.sym_items()]]
      if isinstance(v, pg.Html):
        return ['Html', v.to_str()]
      if isinstance(v, (list, tuple)):
        return [type(v).__name__] + [snap(x) for x in v]
      if isinstance(v, dict):
        return ['dict'] + [[str(k), snap(x)] for k, x in v.items()]
      return repr(v)

    try:
      ctl = build(lambda s: s)
      snap0 = snap(ctl)
      json0 = pg.to_json_str(ctl) if case['kind'] != 'tab' else None    # Tab.content is an opaque (pickled) Html
      h = ctl.to_html_str(content_only=True)
      snap1, eq1 = snap(ctl), (json0 is None or pg.to_json_str(ctl) == json0)
      h2 = ctl.to_html_str(content_only=True)
      ctl.to_html()
      snap2, eq2 = snap(ctl), (json0 is None or pg.to_json_str(ctl) == json0)
      b = build(lambda s: 'x' * len(s)).to_html_str(content_only=True)
    except Exception as e:   # pylint: disable=broad-except
      return {'error': type(e).__name__, 'message': str(e)[:200]}
    modified = None
    if snap1 != snap0 or not eq1:
      modified = 'after one render'
    elif snap2 != snap0 or not eq2:
      modified = 'after further renders'
    rerender_same = canon_ids(h2) == canon_ids(h)
    h = canon_ids(h)
    tree, why = strict_parse(h)
    btree, bwhy = strict_parse(b)
    out = {'why': why, 'benign_ok': btree is not None, 'ok': tree is not None,
           'modified': modified, 'rerender_same': rerender_same,
           'model': {'html': h, 'doc': None if tree is None else strip_doc(tree)}}
    if tree is not None and btree is not None:
      sk = lambda t: [[n[0], [k for k, _ in n[1]], sk(n[2])] for n in t if isinstance(n, list)]
      out['skeleton_equal'] = sk(tree) == sk(btree)
      texts = texts_of(tree)
      if case['kind'] == 'label_group':
        ls = case['labels'] + ([case['name']] if case['name'] else [])
        want_lg = [l['text'] for l in ls] + [l['tooltip'] for l in ls if l['tooltip']]
        out['missing'] = [w for w in want_lg if w and w not in texts]
        return out
      want = [case['text']] if case['kind'] in ('label', 'tooltip', 'badge') else (
          case['labels'] if case['kind'] == 'tab' else [])
      out['missing'] = [w for w in want if w and w not in texts]
      if case['kind'] in ('label', 'badge') and case['tooltip']:
        out['missing'] += [w for w in [case['tooltip']] if w not in texts]
      if case['kind'] == 'tab':
        out['missing'] += [w for w in (case.get('tooltips') or []) if w and w not in texts]
    return out

  # -- comparison ----------------------------------------------------------------------------
  def compare(self, case, impl_out, model_out):
    op = case['op']
    if 'model' not in impl_out:
      return None           # the implementation raised: judged by the oracle
    a = impl_out['model']
    if op == 'escape':
      if a['escaped'] != model_out['escaped']:
        return 'escape differs: impl=%r model=%r' % (impl_out['escaped'], uncps(model_out['escaped']))
      return None
    if op == 'jsescape':
      if a['escaped'] != model_out['escaped']:
        return 'javascript escape differs: impl=%r model=%r' % (impl_out['escaped'], uncps(model_out['escaped']))
      if a['read'] != model_out['read']:
        return 'JS literal readers differ on %r: python=%s lean=%s' % (impl_out['escaped'], a['read'], model_out['read'])
      return None
    if op == 'history':
      b = [None if h is None else uncps(h) for h in model_out['htmls']]
      for i, (x, y) in enumerate(zip(a['htmls'], b)):
        if x != y:
          k = 0
          while y is not None and k < min(len(x), len(y)) and x[k] == y[k]:
            k += 1
          return 'render #%d of the history differs from the model at %d: impl=…%r model=…%r' % (
              i, k, x[max(0, k - 30):k + 50], (y or '')[max(0, k - 30):k + 50])
      return None
    if op == 'update':
      b = [None if r is None else uncps(r['value']) for r in model_out['reads']]
      if a['reads'] != b:
        return 'JS literal readers differ on the update scripts: python=%s lean=%s' % (
            json.dumps(a['reads'])[:300], json.dumps(b)[:300])
      return None
    if op == 'parse':
      b = doc_from_wire(model_out['doc'])
      if a['doc'] != b:
        return 'strict parsers differ on %r: python=%s (%s) lean=%s' % (
            case['s'], json.dumps(a['doc'])[:200], impl_out.get('why'), json.dumps(b)[:200])
      return None
    mh = uncps(model_out['html'])
    if a['html'] != mh:
      k = 0
      while k < min(len(mh), len(a['html'])) and mh[k] == a['html'][k]:
        k += 1
      return 'rendering differs at %d: impl=…%r model=…%r' % (k, a['html'][max(0, k - 30):k + 50], mh[max(0, k - 30):k + 50])
    b = doc_from_wire(model_out['doc'])
    if a['doc'] != b:
      return 'parsed documents differ: python=%s (%s) lean=%s' % (
          json.dumps(a['doc'])[:300], impl_out.get('why'), json.dumps(b)[:300])
    return None

  # -- the property itself -------------------------------------------------------------------
  def _fresh_impl(self, case):
    """The case on a brand-new interpreter (no earlier render in the process)."""
    import subprocess
    import sys
    from harness.common import framework
    c = {k: v for k, v in case.items() if k != 'fresh_process'}
    code = ('import sys, json; sys.path[:0] = [%r, %r]; from harness import c20; P = c20.PROP; P.setup_impl(); '
            'print(json.dumps(P.impl(json.load(sys.stdin))))' % (framework.VERIF, framework.REPO))
    p = subprocess.run([sys.executable, '-c', code], input=json.dumps(c), capture_output=True, text=True, timeout=120)
    if p.returncode != 0:
      raise RuntimeError('fresh-process run failed: %s' % p.stderr[-400:])
    return json.loads(p.stdout.strip().split('\n')[-1])

  def oracle(self, case, out):
    f = self._oracle(case, out)
    if (f and case['op'] in ('render', 'history') and not case.get('fresh_process')
        and f['signature'] in ('leaf-missing', 'key-missing', 'render-depends-on-history')
        and not has_equal_pair(case)):       # a pair of equal scalars fails whatever was rendered before
      # Is it this input, or what the process rendered before it? Judge the input on a new interpreter
      # (a bounded number of times per run; further ones are labelled as not classified).
      self._fresh_runs = getattr(self, '_fresh_runs', 0) + 1
      if self._fresh_runs > 8:
        f = dict(f)
        f['signature'] += ':process-state-not-classified'
        return f
      g = self._oracle(case, self._fresh_impl(case))
      if g is None:
        f = dict(f)
        f['signature'] += ':after-earlier-renders'
        f['what'] += (' — only after other renders in the same process (the same input alone, on a new interpreter, '
                      'is fine): process-wide state leaks between renders')
    return f

  def _oracle(self, case, out):
    op = case['op']
    if op == 'escape':
      e = out['escaped']
      if any(c in e for c in '<>"\''):
        return {'signature': 'escape-leaves-metachar', 'what': 'Html.escape(%r) = %r' % (case['s'], e)}
      if re.search(r'&(?!amp;|lt;|gt;|quot;|#x27;)', e):
        return {'signature': 'escape-bare-ampersand', 'what': 'Html.escape(%r) = %r' % (case['s'], e)}
      if not out['py_unescape_roundtrip']:
        return {'signature': 'escape-not-invertible', 'what': 'html.unescape(Html.escape(%r)) differs' % case['s']}
      return None
    if op in ('parse', 'element'):
      return None
    if op == 'jsescape':
      r = out['read']
      if r is None:
        return {'signature': 'js-literal-unreadable',
                'what': 'Html.escape(%r, javascript_str=True) = %r is not a terminated JS string literal' % (case['s'], out['escaped'])}
      if r[1] != '':
        return {'signature': 'js-literal-ends-early',
                'what': 'the literal for %r ends early; %r is left over as script' % (case['s'], r[1])}
      if r[0] != case['s']:
        return {'signature': 'js-literal-not-faithful', 'what': 'the literal for %r denotes %r' % (case['s'], r[0])}
      return None
    if op == 'update':
      return self._oracle_update(case, out)
    if op == 'history':
      if 'error' in out:
        return {'signature': 'render-raises:' + out['error'], 'what': 'a render of the history raised: %s' % out.get('message')}
      for i, st in enumerate(out['steps']):
        if not st['ok']:
          return {'signature': 'not-well-formed', 'what': 'render #%d of the history: %s' % (i, st['why'])}
        real_missing = [m for m in st['missing'] if not (m['what'] == 'key' and m.get('summary_disabled'))]
        if not st['same_as_fresh']:
          return {'signature': 'render-depends-on-history',
                  'what': 'render #%d inside the enclosing view_options scope differs from the same render on a fresh '
                          'options state (options of earlier renders / inner scopes leaked)%s' % (
                              i, '; missing: %r' % [m['text'] for m in real_missing][:4] if real_missing else '')}
        if real_missing:
          m = real_missing[0]
          return {'signature': m['what'] + '-missing',
                  'what': 'render #%d of the history: %s text %r is not a text node of the output' % (i, m['what'], m['text'])}
        for m in st['missing']:
          return {'signature': 'key-missing:summary-disabled', 'what': 'key %r dropped (summary disabled)' % m['text']}
      if not out['after_same'] or out['after_missing']:
        return {'signature': 'render-depends-on-history',
                'what': 'after all view_options scopes were left, a plain render differs from the render with default '
                        'options (scope options leaked)%s' % (
                            '; missing: %r' % [m['text'] for m in out['after_missing']][:4] if out['after_missing'] else '')}
      if not out['unchanged']:
        return {'signature': 'value-modified', 'what': 'a value changed by rendering'}
      return None
    if op == 'control':
      return self._oracle_control(case, out)
    if op == 'oddkeys':
      if 'error' in out:
        # no document is produced (e.g. the summary-style key of a nested plain dict asserts str / int keys):
        # the property speaks about the documents that ARE produced; counted in the input distribution only
        return None
      if not out['ok']:
        return {'signature': 'not-well-formed', 'what': 'keys %r: %s' % (case['keys'], out['why'])}
      if out.get('benign_ok') and not out.get('skeleton_equal', True):
        return {'signature': 'data-introduces-markup',
                'what': 'a dict key that is neither str nor int (%r, %s) changes the element structure; new tags: %s' % (
                    case['keys'], case['opts'], out.get('new_tags'))}
      return None
    # render
    if 'build_error' in out:
      return {'signature': 'value-construction-raises:' + out['build_error'], 'what': 'building the value raised'}
    if 'error' in out:
      if out['error'] == 'TypeError' and '$' in [k for p in all_paths(case['value']) for k in p] and full_opts(case['opts'])['uncollapse']:
        return {'signature': 'render-raises:TypeError:dollar-key-with-uncollapse',
                'what': 'a value with the key "$" cannot be rendered once `uncollapse` is non-empty (KeyPathSet end marker, F19)'}
      cc = full_opts(case['opts'])['child_config']
      if cc and is_pred(full_opts(case['opts'])['uncollapse']) and out['error'] == 'ValueError' \
          and 'KeyPathSet' in (out.get('message') or ''):
        return {'signature': 'render-raises:callable-uncollapse-with-child-config',
                'what': 'a callable `uncollapse` together with child_config: %s' % out.get('message')}
      if cc and any(not (isinstance(k, str) and k and not any(c in k for c in '.[]')) for k, _ in cc):
        return {'signature': 'render-raises:child-config-key-not-a-plain-name',
                'what': 'child_config keyed by an int index or a path-like string: %s: %s' % (out['error'], out.get('message'))}
      return {'signature': 'render-raises:' + out['error'],
              'what': 'pg.to_html_str raised %s: %s' % (out['error'], out.get('message'))}
    if out['model']['doc'] is None:
      return {'signature': 'not-well-formed', 'what': 'content is not well-formed: %s' % out['why']}
    if not out['full_ok']:
      return {'signature': 'document-not-well-formed', 'what': 'whole document is not well-formed: %s' % out['full_why']}
    if not out.get('body_matches', True):
      return {'signature': 'body-differs-from-content', 'what': '<body> of the whole document is not the content'}
    cc = full_opts(case['opts'])['child_config']
    cc_nonplain = bool(cc) and any(not (isinstance(k, str) and k and not any(c in k for c in '.[]')) for k, _ in cc)
    if cc_nonplain and (not out.get('benign_ok') or out.get('new_tags') or out.get('new_attrs')
                        or not out.get('skeleton_equal', True)):
      # F81: the entry is not applied to the hostile key but is applied to the twin's plain key
      return {'signature': 'child-config-key-not-a-plain-name:misapplied',
              'what': 'child_config keyed by an int index or a path-like string is applied differently than for a plain key'}
    if not out.get('benign_ok'):
      return {'signature': 'benign-twin-fails', 'what': 'benign input of the same shape: %s' % out.get('benign_why')}
    if out.get('new_tags') or out.get('new_attrs'):
      return {'signature': 'data-introduces-markup',
              'what': 'elements %s / attributes %s do not occur for benign input of the same shape' % (
                  out.get('new_tags'), out.get('new_attrs'))}
    if not out.get('skeleton_equal', True):
      cc = full_opts(case['opts'])['child_config']
      if cc and any(not (isinstance(k, str) and k and not any(c in k for c in '.[]')) for k, _ in cc):
        return {'signature': 'child-config-key-not-a-plain-name:misapplied',
                'what': 'child_config keyed by an int index or a path-like string is applied differently than for a plain key'}
      return {'signature': 'data-changes-structure', 'what': 'element structure differs from benign input of the same shape'}
    for m in out.get('missing', []):
      if m['what'] == 'key' and m.get('summary_disabled'):
        return {'signature': 'key-missing:summary-disabled',
                'what': 'key %r is not in the output: summary-style keys are dropped when the child has no summary' % m['text']}
      return {'signature': m['what'] + '-missing', 'what': '%s text %r is not a text node of the output' % (m['what'], m['text'])}
    if not out['unchanged']:
      return {'signature': 'value-modified', 'what': 'pg.to_json(value) changed by rendering'}
    return None

  def _oracle_update(self, case, out):
    k = case['kind']
    if 'error' in out:
      return {'signature': 'update-raises:%s:%s' % (k, out['error']), 'what': out.get('message')}
    lits = out['lits']
    for l in lits:
      if l['value'] is None or not l['tail_ok']:
        tgt = l['target']
        return {'signature': 'js-literal-broken:' + tgt,
                'what': '%s update: the JS string literal for `%s` is not terminated where the code closed it '
                        '(user text ends the literal early or swallows the closing quote): %r' % (
                            k, tgt, l['raw'][:120])}
    pool = list(lits)
    for target, want in out['expected']:
      hit = None
      for l in pool:
        if l['target'] != target:
          continue
        if isinstance(want, list):
          if want[1] in l['value']:
            hit = l
            break
        elif l['value'] == want:
          hit = l
          break
      if hit is None:
        return {'signature': 'js-literal-not-faithful:' + target,
                'what': '%s update: no `%s` literal denotes %r; literals read: %r' % (
                    k, target, want, [x['value'][:80] for x in lits if x['target'] == target])}
      if not isinstance(want, list):
        pool.remove(hit)
    if not out['synced']:
      return {'signature': 'update-members-out-of-sync', 'what': 'control members differ from the updated text'}
    return None

  def _oracle_control(self, case, out):
    k = case['kind']
    if 'error' in out:
      return {'signature': 'control-raises:%s:%s' % (k, out['error']), 'what': out.get('message')}
    if not out['ok']:
      return {'signature': 'control-not-well-formed:' + k, 'what': 'control %s: %s' % (k, out['why'])}
    if not out['benign_ok']:
      return {'signature': 'benign-twin-fails', 'what': 'benign control does not parse'}
    if not out['skeleton_equal']:
      return {'signature': 'control-data-changes-structure:' + k, 'what': 'structure differs from benign twin'}
    if out['missing']:
      return {'signature': 'control-text-missing:' + k, 'what': 'texts %r not in output' % out['missing']}
    if out.get('modified'):
      return {'signature': 'value-modified:' + k,
              'what': 'rendering the %s control modified it (fields of the control and its nested members / pg.to_json_str, before vs after) %s' % (
                  k, out['modified'])}
    if not out.get('rerender_same', True):
      return {'signature': 'control-rerender-differs:' + k, 'what': 'a second render of the same control differs from the first'}
    return None

  # -- bookkeeping ---------------------------------------------------------------------------
  def nontrivial(self, case, out):
    if case['op'] == 'oddkeys':
      return any(has_meta(t) for _, t in case['keys'])
    return self._nontrivial(case, out)

  def _nontrivial(self, case, out):
    op = case['op']
    if op in ('escape', 'parse'):
      return has_meta(case['s'])
    if op == 'history':
      return any(st['inner'] or st['opts'] for st in case['steps'][:-1])
    if op == 'jsescape':
      return any(c in case['s'] for c in '\\"\n\r\t')
    if op == 'update':
      return any(c in json.dumps(case) for c in '\\')
    if op == 'element':
      return any(has_meta(c) for c in case['children'])
    if op == 'render':
      ss = strings_of(case['value'])
      if isinstance(case['opts'].get('name'), str):
        ss.append(case['opts']['name'])
      return any(has_meta(s) for s in ss)
    return any(has_meta(s) for s in [case.get('text') or '', case.get('tooltip') or ''] + case.get('names', [])
               + [l if isinstance(l, str) else l['text'] for l in case.get('labels', [])]
               + [t or '' for t in case.get('tooltips') or []])

  def describe(self, case, out):
    if case['op'] == 'oddkeys':
      return ['op:oddkeys', 'oddkeys:key_style:' + str(case['opts']['key_style'])] + \
          ['oddkeys:kind:' + k for k, _ in case['keys']] + (['oddkeys:raises:' + out['error']] if 'error' in out else [])
    return self._describe(case, out)

  def _describe(self, case, out):
    op = case['op']
    h = ['op:' + op]
    if op == 'parse':
      h.append('parse:' + ('accepted' if out['model']['doc'] is not None else 'rejected'))
    elif op == 'element':
      h.append('element:' + ('error' if 'model' not in out else
                             'well-formed' if out['model']['doc'] is not None else 'malformed-children'))
    elif op == 'control':
      h.append('control:' + case['kind'])
    elif op == 'history':
      h.append('history-steps:%d' % len(case['steps']))
      if case.get('fresh_process'):
        h.append('history:fresh-process')
      h.append('history-outer-opts:%d' % len(case['outer']))
      if any(st['inner'] for st in case['steps']):
        h.append('history:nested-scope')
      if any(st['opts'] for st in case['steps']):
        h.append('history:per-call-options')
      for st in case['steps']:
        for k in list(st['opts']) + list(st['inner'] or {}):
          h.append('history-opt:' + k)
    elif op == 'update':
      h.append('update:' + case['kind'])
      h.append('update-literals:%d' % len(out.get('lits', [])))
    elif op == 'jsescape':
      s_ = case['s']
      for name, ch in (('backslash', '\\'), ('quote', '"'), ('newline', '\n'), ('cr', '\r'), ('tab', '\t')):
        if ch in s_:
          h.append('js:has-' + name)
      if s_.endswith('\\'):
        h.append('js:trailing-backslash')
      if '\\"' in s_:
        h.append('js:backslash-before-quote')
    elif op == 'render':
      v, o = case['value'], full_opts(case['opts'])
      h.append('root:' + v['t'])
      h.append('depth:%d' % depth_of(v))
      h.append('size:%s' % ('1' if size_of(v) == 1 else '2-5' if size_of(v) <= 5 else '6-15' if size_of(v) <= 15 else '16+'))
      ss = strings_of(v)
      h.append('hostile-strings:%s' % ('0' if not any(has_meta(s) for s in ss) else '1+'))
      if any(c in s for s in ss for c in '\x00'):
        h.append('has-NUL')
      if any(ord(c) > 0xFFFF for s in ss for c in s):
        h.append('has-non-BMP')
      if any(s in PATHY for s in ss):
        h.append('has-pathlike-key-or-string')
      for k in ('enable_summary', 'enable_summary_for_str', 'enable_summary_tooltip', 'enable_key_tooltip',
                'key_style', 'collapse_level'):
        if o[k] != DEFAULT_OPTS[k] and not is_pred(o[k]):
          h.append('opt:%s=%s' % (k, o[k]))
      if o['max_summary_len_for_str'] != 80:
        h.append('opt:max_summary_len_for_str')
      for k in ('uncollapse', 'name', 'include_keys', 'exclude_keys'):
        if o[k]:
          h.append('opt:' + k)
      for k in ('title', 'css_classes', 'key_color', 'summary_color', 'highlight', 'lowlight', 'child_config',
                'extra_flags', 'debug', 'hide_values'):
        if o[k]:
          h.append('opt:' + k + (':callable' if is_pred(o[k]) and k.endswith('color') else ''))
      for k in ('include_keys', 'exclude_keys', 'key_style', 'uncollapse'):
        if is_pred(o[k]):
          h.append('opt:' + k + ':callable')
      if o['highlight'] and o['lowlight']:
        h.append('opt:highlight+lowlight')
      h.append('modelled' if self.modelled(o) else 'oracle-only-options')
      if o == DEFAULT_OPTS:
        h.append('opts:default')
      if 'error' in out:
        h.append('render-error:' + out['error'])
      elif any(n[0] == 'table' for n in walk(doc_for_walk(out))):
        h.append('has-table')
    return h

  def shrink_candidates(self, case):
    if case['op'] == 'oddkeys':
      for i in range(len(case['keys'])):
        if len(case['keys']) > 1:
          yield dict(case, keys=case['keys'][:i] + case['keys'][i + 1:])
      return
    yield from self._shrink_all(case)

  def _shrink_all(self, case):
    """Candidates that keep a failure reproducible on its own: a value that holds two equal but
    differently printed scalars (True / 1 / 1.0, …) is not shrunk below such a pair, because with
    one of them alone the outcome would depend on what the process rendered before."""
    has_pair = has_equal_pair
    keep_pair = case['op'] in ('render', 'history') and has_pair(case)
    for c in self._shrink_candidates(case):
      if keep_pair and not has_pair(c):
        continue
      yield c

  def _shrink_candidates(self, case):
    if case['op'] == 'history':
      for i in range(len(case['steps'])):
        if len(case['steps']) > 2:
          c = json.loads(json.dumps(case))
          del c['steps'][i]
          yield c
      for k in list(case['outer']):
        c = json.loads(json.dumps(case))
        del c['outer'][k]
        yield c
      for i, st in enumerate(case['steps']):
        for part in ('opts', 'inner'):
          for k in list(st[part] or {}):
            c = json.loads(json.dumps(case))
            del c['steps'][i][part][k]
            if part == 'inner' and not c['steps'][i][part]:
              c['steps'][i][part] = None
            yield c
      return
    if case['op'] != 'render':
      return
    v = case['value']
    # drop options one by one
    for k, d in DEFAULT_OPTS.items():
      if case['opts'].get(k, d) != d:
        c = json.loads(json.dumps(case))
        c['opts'][k] = d
        yield c
    # replace the value by one of its children / drop a child
    for k in child_keys(v):
      c = json.loads(json.dumps(case))
      c['value'] = child(v, k)
      c['opts']['include_keys'] = None
      c['opts']['exclude_keys'] = None
      c['opts']['uncollapse'] = []
      yield c
    if 'items' in v and len(v['items']) > 1:
      for i in range(len(v['items'])):
        c = json.loads(json.dumps(case))
        del c['value']['items'][i]
        if v['t'] == 'obj':
          continue
        yield c
    # shrink strings
    if v['t'] == 'str' and len(v['v']) > 1:
      for cut in (v['v'][:len(v['v']) // 2], v['v'][len(v['v']) // 2:]):
        c = json.loads(json.dumps(case))
        c['value']['v'] = cut
        yield c


def doc_for_walk(out):
  d = out.get('model', {}).get('doc')
  return d or []


PROP = C20()
