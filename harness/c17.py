"""C17 — scoped settings restore exactly and never leak across threads.

Case shape
  {"threads": [prog, ...]}          1 or 2 threads; thread 0 starts, `sync` hands the baton over
  prog ::= ["skip"] | ["seq", p, q] | ["scope", manager, arg, p] | ["raise"] | ["try", p]
         | ["probe", manager] | ["sync"]
  arg  ::= {"a": atom, "kw": {k: val}, "name": str, "inh": atom, "pt": bool}   (fields per manager)
  val  ::= atom | {"d": {k: atom}} | {"o": [atom, cascade, override_attrs]}

Every case runs in a forked child process and every program in a fresh thread, so a case that
leaks a setting cannot pollute the next one (replays are self-contained).

Implementation observables: the public getters of each manager plus behavioural probes (does a
write raise, is `_on_change` called, is a functor auto-called ...).
"""

import json
import os
import select
import signal
import sys
import threading
import traceback

from harness.common import framework
from harness.common.framework import Prop
from translate import t_c17

SENTINEL = 1000          # bound value of the probe functor's members (never used as an override)
FLAGS = ['notify_on_change', 'track_origin', 'enable_type_check', 'allow_writable_accessors',
         'as_sealed', 'allow_partial', 'auto_call_functors']
TRI = ('allow_writable_accessors', 'as_sealed', 'allow_partial')      # accept None
# managers of the registry that the harness does not drive (same primitive as a driven one)
NOT_DRIVEN = {}
PROCESS_WIDE = ('load_types_for_deserialization',)      # + dynamic_evaluate with pt=false
DRIVEN = FLAGS + ['str_format', 'repr_format', 'permission', 'contextual_override',
                  'ContextualObject.override', 'context',
                  'view_options', 'view', 'preset_args', 'detour', 'apply_wrappers',
                  'load_types_for_deserialization', 'timeit', 'dynamic_evaluate', 'Functor.__call__']
KIND = {
    'str_format': 'argScope', 'repr_format': 'argScope', 'permission': 'outermostWins',
    'contextual_override': 'cascadeMap', 'ContextualObject.override': 'cascadeMap', 'context': 'stack:update', 'view_options': 'stack:deepMerge',
    'view': 'stack:deepMerge',
    'preset_args': 'stack:preset', 'detour': 'stack:detour', 'apply_wrappers': 'stack:detour',
    'load_types_for_deserialization': 'stack:update', 'timeit': 'enterExit',
    'dynamic_evaluate': 'dynEval', 'Functor.__call__': 'frameScope',
}
for _f in FLAGS:
  KIND[_f] = 'valueScope'


# managers that write the same cell (the inner one derives from what the outer one pushed)
CELL = {n: n for n in DRIVEN}
CELL['apply_wrappers'] = 'detour'
CELL['view'] = 'view_options'
# public actions on the manager object of the innermost enclosing block of that manager
ACTIONS = {'timeit': ['end', 'status'], 'contextual_override': ['wrapped_probe']}


# managers that are entered through a manager OBJECT (created at one point, entered at another)
OBJECT_MANAGERS = [m for m in DRIVEN if m not in ('Functor.__call__', 'view')]
# entries that fail: (manager, how) -> exception class the library raises
FAIL_ENTRY = {
    ('detour', 'unpatchable'): 'TypeError',          # __new__ of a builtin source class cannot be replaced
    ('detour', 'baddest'): 'TypeError',              # destination neither class nor function
    ('apply_wrappers', 'notwrapper'): 'AttributeError',
    ('load_types_for_deserialization', 'badtype'): 'AttributeError',
    ('dynamic_evaluate', 'notcallable'): 'ValueError',
    ('view', 'noview'): 'ValueError',                # fails inside the view_options block of pg.view
    ('Functor.__call__', 'extra'): 'TypeError',
}


def make_table(case):
  """id -> (manager, arg) of every `make` node of the case (ids are unique per case)."""
  t = {}
  for prog in case['threads']:
    for n in walk(prog):
      if n[0] == 'make':
        t[n[1]] = (n[2], n[3])
  return t


def lower(p, table):
  """The program in the core grammar of the model: creating a manager object does nothing, entering
  it is a scope opened where it is ENTERED; a failing entry changes nothing and raises."""
  op = p[0]
  if op == 'make':
    return ['skip']
  if op == 'enter':
    m, arg = table[p[1]]
    if len(p) > 3 and p[3] == 'again' and m != 'timeit':
      return ['fail', 'RuntimeError']        # an exhausted @contextmanager object: "generator didn't yield"
    return ['scope', m, arg, lower(p[2], table)]
  if op == 'stack':
    body = lower(p[2], table)
    for i in reversed(p[1]):
      m, arg = table[i]
      body = ['scope', m, arg, body]
    return body
  if op == 'failenter':
    return ['fail', FAIL_ENTRY[(p[1], p[2])]]
  if op == 'seq':
    return ['seq', lower(p[1], table), lower(p[2], table)]
  if op == 'try':
    return ['try', lower(p[1], table)]
  if op == 'scope':
    return ['scope', p[1], p[2], lower(p[3], table)]
  if op == 'call':
    return ['call', p[1], p[2], lower(p[3], table)]
  return p


class UserError(Exception):
  pass


# ------------------------------------------------------------------------------------------
# The real library behind a uniform adapter interface
# ------------------------------------------------------------------------------------------

class Lib:
  """Adapters: manager name -> (context manager factory, getter, behavioural probe)."""

  def __init__(self):
    import pyglove as pg
    from pyglove.core import coding, detouring, hyper
    from pyglove.core.hyper import base as hyper_base
    from pyglove.core.symbolic import flags
    from pyglove.core.typing import callable_ext
    from pyglove.core.utils import contextual, formatting
    self.pg, self.coding, self.flags, self.hyper, self.hyper_base = pg, coding, flags, hyper, hyper_base
    self.detouring, self.callable_ext, self.contextual, self.formatting = detouring, callable_ext, contextual, formatting

    class A:
      pass

    class B:
      pass

    class C:
      pass

    class D:
      pass

    def make_fn(fname):
      def fn(cls, *args, **kwargs):
        """A detour destination FUNCTION. Called through a `call` node of a program it runs that
        node's body (which may raise, create `cls` again, open nested detours); called from a
        behavioural probe it just returns."""
        del args, kwargs
        stack = getattr(lib.tls, 'call_stack', [])
        if stack and not stack[-1]['ran'] and stack[-1]['cls'] is cls:
          frame = stack[-1]
          frame['ran'] = True
          frame['runner'].obs.append(['call:' + cls.__name__, fname, None])
          frame['runner'].run(frame['body'])
        return fname
      fn.__name__ = fname
      return fn
    lib = self
    fn1, fn2 = make_fn('fn1'), make_fn('fn2')

    class N:
      """A class that defines its own __new__ (detour saves and replaces it)."""

      def __new__(cls, *args, **kwargs):
        del args, kwargs
        return super().__new__(cls)

    self.tls = threading.local()
    self.classes = {'A': A, 'B': B, 'C': C, 'D': D, 'N': N}
    self.dests = dict(self.classes)
    self.dests['fn1'] = fn1
    self.dests['fn2'] = fn2
    self.wrappers = {}
    for n in ('A', 'B', 'N'):
      w = pg.wrap(self.classes[n])
      w.__name__ = 'W' + n
      self.wrappers['W' + n] = w
      self.dests['W' + n] = w

    class T1:
      pass

    class T2:
      pass

    class T3:
      pass

    self.types = {'T1': T1, 'T2': T2, 'T3': T3}

    class Fmt(formatting.Formattable):
      __str_format_kwargs__ = {}
      __repr_format_kwargs__ = {}

      def format(self, **kwargs):
        return 'Fmt'

    self.fmt = Fmt()

    self.fns = {}
    for n in ('f1', 'f2', 'f3'):
      def mk(n):
        def f(hv):
          del hv
          return n
        f.fn_id = n
        return f
      self.fns[n] = mk(n)

    self.preset_fns = {}
    for n in ('global', 'p1'):
      @callable_ext.enable_preset_args(include_all_preset_kwargs=True, preset_name=n)
      def pf(_z=callable_ext.PresetArgValue(default=None), **kwargs):
        return kwargs
      self.preset_fns[n] = pf

    class OnChange(pg.Object):
      x: int = 0

      def _on_bound(self):
        super()._on_bound()
        self.calls = getattr(self, 'calls', 0) + 1

    self.OnChange = OnChange

    class PartialObj(pg.Object):
      x: int
      y: int

    self.PartialObj = PartialObj

    @pg.symbolize
    def addf(x, y):
      return x + y
    self.addf = addf

    lib = self

    class Probe(pg.Functor):
      x: int
      y: int

      def _call(self):
        return lib.tls.body()

    self.Probe = Probe
    self.overrides = {}
    self.objects = {}          # manager objects of the running case: id -> (manager, arg, object)

    class CtxObj(pg.ContextualObject):
      x: int = SENTINEL
      y: int = SENTINEL

    self.ctxobj = CtxObj()      # ONE object shared by all threads: its overrides are per thread
    from pyglove.core.views import base as views_base

    class ProbeView(views_base.View):
      VIEW_ID = 'c17-probe'

      def render(self, value, *, name=None, root_path=None, **kwargs):
        del value, name, root_path, kwargs
        lib.tls.body()
        return 'rendered'

    self.ProbeView = ProbeView

  # -- canonical values ---------------------------------------------------------------------
  @staticmethod
  def atom(v):
    if v is None or isinstance(v, (bool, int, str)):
      return v
    return '<%s>' % type(v).__name__

  def val(self, v):
    if isinstance(v, dict):
      return {'d': {k: self.atom(x) for k, x in sorted(v.items())}}
    if isinstance(v, (list, tuple)):
      return {'l': [self.atom(x) for x in v]}
    return self.atom(v)

  def pyval(self, v):
    """A fresh mutable Python object for an argument value of a case."""
    if isinstance(v, dict):
      if 'd' in v:
        return dict(v['d'])
      if 'l' in v:
        return list(v['l'])
      if 'o' in v:
        return self.override(*v['o'])
    return v

  def override(self, value, cascade, override_attrs):
    """ContextualOverride objects are re-used across scopes (explicit marker objects)."""
    key = (repr(value), cascade, override_attrs)
    if key not in self.overrides:
      self.overrides[key] = self.contextual.ContextualOverride(value, cascade, override_attrs)
    return self.overrides[key]

  def pykw(self, kw):
    return {k: self.pyval(v) for k, v in kw.items()}

  def frame(self, d):
    return {'f': {k: self.val(v) for k, v in sorted(d.items())}}

  # -- entering -------------------------------------------------------------------------------
  def enter(self, name, arg):
    """Returns a context manager for `with`; Functor.__call__ is handled by the interpreter."""
    pg = self.pg
    a = arg.get('a')
    kw = arg.get('kw') or {}
    if name in FLAGS:
      return getattr(pg, name)(a)
    if name == 'str_format':
      return pg.str_format(**self.pykw(kw))
    if name == 'repr_format':
      return pg.repr_format(**self.pykw(kw))
    if name == 'permission':
      return self.coding.permission(self.coding.CodePermission(a))
    if name == 'contextual_override':
      return pg.contextual_override(**self.pykw(kw))
    if name == 'ContextualObject.override':
      return self.ctxobj.override(**{k: v['o'][0] for k, v in kw.items()})
    if name == 'context':
      return self.coding.context(**self.pykw(kw))
    if name == 'view_options':
      return pg.view_options(**self.pykw(kw))
    if name == 'preset_args':
      return self.callable_ext.preset_args(dict(kw), preset_name=arg.get('name', 'global'),
                                           inherit_preset=arg.get('inh', False))
    if name == 'detour':
      return pg.detour([(self.classes[s], self.dests[d]) for s, d in kw.items()])
    if name == 'apply_wrappers':
      return pg.apply_wrappers([self.wrappers[d] for d in kw.values()])
    if name == 'load_types_for_deserialization':
      return pg.JSONConvertible.load_types_for_deserialization(*[self.types[k] for k in kw])
    if name == 'timeit':
      # a TimeIt object is re-used when the same name comes back and the object is not active
      cache = self.tls.timeits
      t = cache.get(a)

      def reaches_active(x, seen):
        # re-using x below one of its own descendants would make the child lists cyclic
        # (status() then recurses for ever) — child bookkeeping is not a scoped setting
        if id(x) in seen:
          return False
        seen.add(id(x))
        return any(x is y for y in self.tls.timeit_active) or any(reaches_active(c, seen) for c in x.children)
      if t is None or reaches_active(t, set()):
        t = pg.timeit(a)
        cache[a] = t
      return t
    if name == 'dynamic_evaluate':
      return self.hyper.dynamic_evaluate(None if a is None else self.fns[a], per_thread=arg.get('pt', True))
    raise AssertionError(name)

  # -- getters ------------------------------------------------------------------------------
  def get(self, name):
    pg, flags = self.pg, self.flags
    if name == 'notify_on_change':
      return flags.is_change_notification_enabled()
    if name == 'track_origin':
      return flags.is_tracking_origin()
    if name == 'enable_type_check':
      return flags.is_type_check_enabled()
    if name == 'allow_writable_accessors':
      return flags.is_under_accessor_writable_scope()
    if name == 'as_sealed':
      return flags.is_under_sealed_scope()
    if name == 'allow_partial':
      return flags.is_under_partial_scope()
    if name == 'auto_call_functors':
      return flags.should_call_functors_during_init()
    if name == 'str_format':
      return self.frame(self.fmt.__str_kwargs__())
    if name == 'repr_format':
      return self.frame(self.fmt.__repr_kwargs__())
    if name == 'permission':
      p = self.coding.get_permission()
      return None if p is None else int(p.value)
    if name == 'contextual_override':
      out = {}
      for k in sorted(pg.utils.contextual.all_contextual_values()):
        o = pg.utils.contextual.get_contextual_override(k)
        out[k] = {'o': [self.atom(o.value), bool(o.cascade), bool(o.override_attrs)]}
      return {'f': out}
    if name == 'ContextualObject.override':
      out = {}
      for k in ('x', 'y'):
        v = getattr(self.ctxobj, k)
        if not (isinstance(v, int) and not isinstance(v, bool) and v == SENTINEL):
          out[k] = {'o': [self.atom(v), False, False]}
      return {'f': out}
    if name == 'context':
      return self.frame(self.coding.get_context())
    if name in ('view_options', 'view'):
      with pg.view_options() as o:
        return self.frame(dict(o))
    if name == 'preset_args':
      out = {}
      for n, f in self.preset_fns.items():
        d = f()
        if d:
          out[n] = d
      return self.frame(out)
    if name in ('detour', 'apply_wrappers'):
      return self.frame({s.__name__: d.__name__ for s, d in self.detouring.current_mappings().items()})
    if name == 'load_types_for_deserialization':
      out = {}
      for n in self.types:
        c = pg.JSONConvertible.class_from_typename('some.module.' + n)
        if c is not None:
          out[n] = c.__name__
      return self.frame(out)
    if name == 'timeit':
      t = pg.utils.thread_local_get('__timing_context__', None)
      return None if t is None else t.name
    if name == 'dynamic_evaluate':
      f = self.hyper_base.get_dynamic_evaluate_fn()
      return None if f is None else getattr(f, 'fn_id', '<fn>')
    if name == 'Functor.__call__':
      f = getattr(self.tls, 'functor', None)
      out = {}
      if f is not None:
        for k in ('x', 'y'):
          v = getattr(f, k)
          if v != SENTINEL:
            out[k] = v
      return self.frame(out)
    raise AssertionError(name)

  # -- behavioural probes -------------------------------------------------------------------
  def behaviour(self, name):
    """What the flag does. Each probe runs with the *other* flags that would interfere neutralised
    (a write probe under `as_sealed(True)` would fail for the wrong reason)."""
    pg = self.pg
    if name == 'as_sealed':
      return self._behaviour(name)                 # rebind on existing objects: no accessor involved
    if name == 'allow_writable_accessors':
      with pg.as_sealed(False):
        return self._behaviour(name)
    if name in ('allow_partial', 'dynamic_evaluate', 'detour', 'apply_wrappers'):
      # (pg.oneof() under enable_type_check(False) raises AttributeError: defaults are not filled in)
      with pg.as_sealed(False), pg.allow_writable_accessors(True), pg.enable_type_check(True):
        return self._behaviour(name)
    with pg.as_sealed(False), pg.allow_writable_accessors(True):
      return self._behaviour(name)

  def _behaviour(self, name):
    pg = self.pg
    if name == 'notify_on_change':
      o = self.tls.onchange
      before = o.calls
      o.rebind(x=o.x + 1)
      return {'on_change_called': o.calls > before}
    if name == 'enable_type_check':
      d = self.tls.typed
      try:
        d.rebind(x='not an int')
        d.rebind(x=1)
        return {'bad_type_rejected': False}
      except (TypeError, ValueError):
        return {'bad_type_rejected': True}
    if name == 'as_sealed':
      out = {}
      for key, d in (('unsealed_write_raises', self.tls.unsealed), ('sealed_write_raises', self.tls.sealed)):
        try:
          d.rebind(a=d.sym_getattr('a') + 1)
          out[key] = False
        except pg.WritePermissionError:
          out[key] = True
      return out
    if name == 'allow_writable_accessors':
      out = {}
      for key, d in (('writable_obj_raises', self.tls.acc_w), ('nonwritable_obj_raises', self.tls.acc_nw)):
        try:
          d['a'] = 2
          out[key] = False
        except pg.WritePermissionError:
          out[key] = True
      return out
    if name == 'allow_partial':
      try:
        self.PartialObj(x=1)
        return {'partial_rejected': False}
      except TypeError:
        return {'partial_rejected': True}
    if name == 'track_origin':
      return {'clone_has_origin': self.tls.unsealed.clone().sym_origin is not None}
    if name == 'auto_call_functors':
      return {'called': self.addf(1, 2) == 3}
    if name == 'dynamic_evaluate':
      v = pg.oneof([1, 2])
      return {'oneof': v if isinstance(v, str) else 'hyper'}
    if name in ('detour', 'apply_wrappers'):
      # what object creation really does for each probe class (the `__new__` patch is process-wide,
      # the mapping thread-local)
      out = {}
      for n in sorted(self.classes):
        try:
          o = self.classes[n]()
          out[n] = o if isinstance(o, str) else type(o).__name__
        except Exception as e:    # pylint: disable=broad-except
          out[n] = 'raised:' + type(e).__name__
      return {'new': out}
    return None

  def fresh_thread_objects(self):
    pg = self.pg
    self.tls.unsealed = pg.Dict(a=1)
    self.tls.sealed = pg.Dict(a=1).seal()
    self.tls.acc_w = pg.Dict(a=1, accessor_writable=True)
    self.tls.acc_nw = pg.Dict(a=1, accessor_writable=False)
    self.tls.functor = self.Probe(SENTINEL, SENTINEL, override_args=True)
    self.tls.timeits = {}
    self.tls.timeit_active = []
    self.tls.call_stack = []
    self.tls.onchange = self.OnChange(x=1)
    self.tls.typed = pg.Dict(x=1, value_spec=pg.typing.Dict([('x', pg.typing.Int())]))

  def reset_process_state(self):
    """Known process-wide cells back to their import-time state (each case starts clean)."""
    self.hyper_base._global_dynamic_evaluate_fn = None     # pylint: disable=protected-access
    del self.pg.JSONConvertible._TYPE_REGISTRY._ondemand_registry_stack[:]   # pylint: disable=protected-access


# ------------------------------------------------------------------------------------------
# Interpreter of programs on the real library
# ------------------------------------------------------------------------------------------

class Baton:
  """Deterministic hand-off between two threads: exactly one runs at a time."""

  def __init__(self, n):
    self.sems = [threading.Semaphore(0) for _ in range(n)]
    self.done = [False] * n
    self.n = n

  def start(self, i):
    if i != 0:
      self.wait(i)

  def wait(self, i):
    if not self.sems[i].acquire(timeout=8):
      raise RuntimeError('baton: thread %d waited too long' % i)

  def sync(self, i):
    if self.n == 1:
      return
    j = 1 - i
    if self.done[j]:
      return
    self.sems[j].release()
    self.wait(i)

  def finish(self, i):
    self.done[i] = True
    if self.n > 1:
      self.sems[1 - i].release()


class Runner:
  def __init__(self, lib, tid, baton, managers):
    self.lib, self.tid, self.baton, self.managers = lib, tid, baton, managers
    self.obs = []
    self.blocks = []      # per scope: getter snapshots before / after
    self.depth_stack = []
    self.timeit_blocks = []

  def snapshot(self):
    return {m: self.lib.get(m) for m in self.managers}

  def run(self, p):
    op = p[0]
    if op == 'skip':
      return
    if op == 'sync':
      self.baton.sync(self.tid)
      return
    if op == 'seq':
      self.run(p[1])
      self.run(p[2])
      return
    if op == 'raise':
      raise UserError()
    if op == 'try':
      try:
        self.run(p[1])
      except Exception:     # pylint: disable=broad-except
        pass
      return
    if op == 'probe':
      self.obs.append([p[1], self.lib.get(p[1]), self.lib.behaviour(p[1])])
      return
    if op == 'act':
      self.act(p[1], p[2])
      return
    if op == 'call':
      # create an object of class p[2]; a function destination runs the body p[3]
      cls = self.lib.classes[p[2]]
      frame = {'cls': cls, 'body': p[3], 'ran': False, 'runner': self}
      rec = {'mgr': 'call', 'arg': {'c': p[2]}, 'before': self.snapshot(), 'entered': False}
      self.blocks.append(rec)
      self.lib.tls.call_stack.append(frame)
      try:
        o = cls()
        if not frame['ran']:
          self.obs.append(['new:' + p[2], o if isinstance(o, str) else type(o).__name__, None])
        rec['exit'] = 'normal'
      except BaseException as e:
        rec['exit'] = 'exc:' + type(e).__name__
        raise
      finally:
        self.lib.tls.call_stack.pop()
        rec['after'] = self.snapshot()
      return
    if op == 'make':
      # a manager object created here, entered elsewhere (maybe by another thread)
      m, arg = p[2], p[3]
      self.lib.objects[p[1]] = (m, arg, self.lib.pg.timeit(arg['a']) if m == 'timeit' else self.lib.enter(m, arg))
      return
    if op == 'stack':
      import contextlib
      rec = {'mgr': 'stack', 'arg': {'ids': p[1]}, 'before': self.snapshot(), 'entered': False}
      self.blocks.append(rec)
      try:
        with contextlib.ExitStack() as st:
          for i in p[1]:
            st.enter_context(self.lib.objects[i][2])
          self.run(p[2])
        rec['exit'] = 'normal'
      except BaseException as e:
        rec['exit'] = 'exc:' + type(e).__name__
        raise
      finally:
        rec['after'] = self.snapshot()
      return
    if op == 'failenter':
      rec = {'mgr': 'failenter', 'arg': {'m': p[1], 'how': p[2]}, 'before': self.snapshot(), 'entered': False}
      self.blocks.append(rec)
      try:
        self.fail_entry(p[1], p[2])
        self.obs.append(['failenter', 'entry did not fail', None])
        rec['exit'] = 'normal'
      except BaseException as e:
        rec['exit'] = 'exc:' + type(e).__name__
        raise
      finally:
        rec['after'] = self.snapshot()
      return
    if op in ('scope', 'enter'):
      if op == 'enter':
        name, arg, given = self.lib.objects[p[1]]
        body = p[2]
      else:
        name, arg, body, given = p[1], p[2], p[3], None
      before = self.snapshot()
      rec = {'mgr': name, 'arg': arg, 'before': before, 'entered': False,
             'enclosing': [[m, a] for m, a in self.depth_stack]}
      self.blocks.append(rec)
      self.depth_stack.append((name, arg))
      try:
        if name in ('Functor.__call__', 'view'):
          lib = self.lib
          prev = getattr(lib.tls, 'body', None)

          def body_fn():
            rec['entered'] = True
            rec['inside'] = lib.get(name)
            self.run(body)
          lib.tls.body = body_fn
          try:
            kw = arg.get('kw') or {}
            if name == 'view':
              # an inner render: pg.view() opens its own view_options scope around View.render
              lib.pg.view(object(), view_id='c17-probe', **lib.pykw(kw))
            else:
              # positional call: with type checking switched off, Functor.__call__ rejects *keyword*
              # overrides ("unexpected keyword argument"), which is not this property's business
              lib.tls.functor(*[kw[k] for k in ('x', 'y') if k in kw])
          finally:
            lib.tls.body = prev
        elif name == 'timeit':
          cm = given if given is not None else self.lib.enter(name, arg)
          self.lib.tls.timeit_active.append(cm)
          rec['timeit_index'] = len(self.blocks) - 1
          rec['timeit_parent'] = self.timeit_blocks[-1] if self.timeit_blocks else None
          self.timeit_blocks.append(rec['timeit_index'])
          try:
            with cm:
              rec['entered'] = True
              rec['inside'] = self.lib.get(name)
              self.run(body)
          finally:
            self.timeit_blocks.pop()
            self.lib.tls.timeit_active.pop()
            try:
              rec['status_keys'] = sorted(cm.status().keys())     # public: nested scopes as 'outer.inner'
            except RecursionError:
              rec['status_keys'] = None
        else:
          with (given if given is not None else self.lib.enter(name, arg)):
            rec['entered'] = True
            rec['inside'] = self.lib.get(name)
            self.run(body)
        rec['exit'] = 'normal'
      except BaseException as e:
        rec['exit'] = 'exc:' + type(e).__name__
        raise
      finally:
        self.depth_stack.pop()
        rec['after'] = self.snapshot()
      return
    raise AssertionError(op)


def _act(self, name, action):
  """A public action on the manager object of the innermost enclosing block of `name`."""
  lib = self.lib
  if name == 'timeit':
    if not lib.tls.timeit_active:
      return
    t = lib.tls.timeit_active[-1]
    if action == 'end':
      t.end()                    # public: ends the timer early; the block is still open
    elif action == 'status':
      t.status()
      _ = t.elapse
    return
  if name == 'contextual_override' and action == 'wrapped_probe':
    # explicit propagation: the wrapper carries the current overrides into another thread
    box = []
    fn = lib.pg.with_contextual_override(lambda: box.append(lib.get(name)))
    th = threading.Thread(target=fn)
    th.start()
    th.join(10)
    self.obs.append([name, box[0] if box else 'no-result', None])
    return
  raise AssertionError((name, action))


Runner.act = _act


def _fail_entry(self, m, how):
  """Entries the library rejects. Nothing may have changed afterwards."""
  lib, pg = self.lib, self.lib.pg
  if (m, how) == ('detour', 'unpatchable'):
    with pg.detour([(int, lib.classes['B'])]):
      self.obs.append(['failenter', 'entered', None])
  elif (m, how) == ('detour', 'baddest'):
    with pg.detour([(lib.classes['A'], 5)]):
      self.obs.append(['failenter', 'entered', None])
  elif (m, how) == ('apply_wrappers', 'notwrapper'):
    with pg.apply_wrappers([lib.classes['A']]):
      self.obs.append(['failenter', 'entered', None])
  elif (m, how) == ('load_types_for_deserialization', 'badtype'):
    with pg.JSONConvertible.load_types_for_deserialization(5):
      self.obs.append(['failenter', 'entered', None])
  elif (m, how) == ('dynamic_evaluate', 'notcallable'):
    with lib.hyper.dynamic_evaluate(5):
      self.obs.append(['failenter', 'entered', None])
  elif (m, how) == ('view', 'noview'):
    pg.view(object(), view_id='no-such-view', o1=1, o2=[1])
  elif (m, how) == ('Functor.__call__', 'extra'):
    lib.tls.functor(1, 2, 3)
  else:
    raise AssertionError((m, how))


Runner.fail_entry = _fail_entry


def run_threads(lib, case, managers):
  n = len(case['threads'])
  baton = Baton(n)
  results = [None] * n

  def work(i):
    r = Runner(lib, i, baton, managers)
    out = {}
    try:
      baton.start(i)
      lib.fresh_thread_objects()
      out['before'] = r.snapshot()
      try:
        r.run(case['threads'][i])
        out['outcome'] = 'normal'
      except UserError:
        out['outcome'] = 'exc:Error'
      except Exception as e:      # pylint: disable=broad-except
        out['outcome'] = 'exc:' + type(e).__name__
      out['after'] = r.snapshot()
      out['obs'] = r.obs
      out['blocks'] = r.blocks
    except BaseException as e:    # harness trouble (baton time-out ...)
      out = {'harness_exception': '%s: %s' % (type(e).__name__, e), 'trace': traceback.format_exc()[-1500:]}
    finally:
      results[i] = out
      baton.finish(i)

  ths = [threading.Thread(target=work, args=(i,)) for i in range(n)]
  for t in ths:
    t.start()
  for t in ths:
    t.join(20)
  # what a thread started *afterwards* sees (process-wide leftovers)
  late = {}

  def late_work():
    lib.fresh_thread_objects()
    late.update({m: lib.get(m) for m in managers})
  t = threading.Thread(target=late_work)
  t.start()
  t.join(10)
  return results, late


# ------------------------------------------------------------------------------------------
# Specification of the nesting rules (Python side, used by the oracle only)
# ------------------------------------------------------------------------------------------

def spec_inside(name, outer, arg, enclosing=None):
  """Documented effective value inside `with manager(arg)` given the value observed outside;
  None when the oracle has no independent rule for this manager (model correspondence only)."""
  kind = KIND[name]
  kw = arg.get('kw') or {}
  if kind in ('valueScope', 'enterExit'):
    return ('v', arg.get('a'))                       # innermost wins
  if kind == 'outermostWins':
    return ('v', outer if outer is not None else arg.get('a'))
  if kind in ('argScope', 'stack:update'):
    f = dict(outer['f'])
    f.update(kw)
    return ('v', {'f': dict(sorted(f.items()))})      # merged kwargs, inner keys override
  if kind == 'stack:deepMerge':
    f = dict(outer['f'])
    for k, v in kw.items():
      if isinstance(v, dict) and 'd' in v and isinstance(f.get(k), dict) and 'd' in f[k]:
        d = dict(f[k]['d'])
        d.update(v['d'])
        f[k] = {'d': dict(sorted(d.items()))}          # nested dicts are merged key by key
      else:
        f[k] = v                                       # anything else is replaced
    return ('v', {'f': dict(sorted(f.items()))})
  if kind == 'frameScope':
    return ('v', {'f': dict(sorted(kw.items()))})
  if kind == 'cascadeMap':
    f = dict(outer['f'])
    for k, v in kw.items():
      if k in f and f[k]['o'][1]:
        continue                                     # an outer cascading override wins
      f[k] = v
    return ('v', {'f': dict(sorted(f.items()))})
  if kind == 'stack:detour':
    f = dict(outer['f'])
    new = {}
    for s, d in kw.items():
      if s in f:
        continue                                     # outer mapping takes precedence
      new[s] = f.get(d, d)                           # transitive through the outer scope
    f.update(new)
    return ('v', {'f': dict(sorted(f.items()))})
  if kind == 'dynEval':
    if arg.get('pt', True):
      return ('v', arg.get('a'))
    if enclosing is not None and not any(m == name and a.get('pt', True) for m, a in enclosing):
      return ('v', arg.get('a'))                     # process-wide: effective in a thread without own setting
    return None                                      # mixing levels: no documented rule
  return None


# ------------------------------------------------------------------------------------------
# Generator
# ------------------------------------------------------------------------------------------

KW_KEYS = ['compact', 'verbose', 'k1', 'k2']
ATOMS = [None, True, False, 0, 1, 7, 'a', 'b']


def gen_val(rng, nested=0.35):
  """Atom, or (mutable) nested dict / list whose in-place modification would leak into the parent."""
  if rng.chance(nested):
    if rng.chance(0.6):
      return {'d': {y: rng.choice(ATOMS) for y in rng.sample(['p', 'q', 'r'], rng.randint(0, 3))}}
    return {'l': [rng.choice(ATOMS) for _ in range(rng.randint(0, 3))]}
  return rng.choice(ATOMS)


def gen_arg(rng, name):
  k = KIND[name]
  if name in FLAGS:
    dom = [True, False, None] if name in TRI else [True, False]
    if rng.chance(0.1) and name not in TRI:
      dom = [True, False]
    return {'a': rng.choice(dom)}
  if k in ('argScope', 'stack:update') and name != 'load_types_for_deserialization':
    keys = rng.sample(KW_KEYS, rng.randint(0, 3))
    return {'kw': {x: gen_val(rng) for x in keys}}
  if name == 'permission':
    return {'a': rng.choice([0, 1, 3, 8, 255, 2, 17])}
  if name == 'ContextualObject.override':
    keys = rng.sample(['x', 'y'], rng.randint(0, 2))
    return {'kw': {k: {'o': [rng.choice([None, 0, 1, 7, False, True, 'a']), False, False]} for k in keys}}
  if name == 'contextual_override':
    keys = rng.sample(['cx', 'cy', 'cz'], rng.randint(0, 2))
    return {'kw': {x: {'o': [rng.choice(ATOMS), rng.chance(0.4), rng.chance(0.3)]} for x in keys}}
  if name in ('view_options', 'view'):
    # utils.merge treats a dict merged over a *list* as a patch by integer index (KeyError otherwise):
    # outside the model, so a key holds atoms/dicts (o1, o3) or atoms/lists (o2), never both kinds.
    kw = {}
    for x in rng.sample(['o1', 'o2', 'o3'], rng.randint(0, 3)):
      if rng.chance(0.55):
        if x == 'o2':
          kw[x] = {'l': [rng.choice(ATOMS) for _ in range(rng.randint(0, 3))]}
        else:
          kw[x] = {'d': {y: rng.choice(ATOMS) for y in rng.sample(['p', 'q', 'r'], rng.randint(0, 3))}}
      else:
        kw[x] = rng.choice(ATOMS)
    return {'kw': kw}
  if name == 'preset_args':
    keys = rng.sample(KW_KEYS, rng.randint(0, 3))
    return {'kw': {x: rng.choice(ATOMS[1:]) for x in keys}, 'name': rng.choice(['global', 'p1']),
            'inh': rng.choice([False, True, 'global', 'p1', False, True])}
  if name == 'detour':
    srcs = rng.sample(['A', 'N', 'B', 'C', 'D', 'N', 'A'], rng.randint(0, 3))
    return {'kw': {s: rng.choice(['A', 'B', 'C', 'D', 'N', 'fn1', 'fn2', 'fn1']) for s in srcs}}
  if name == 'apply_wrappers':
    ws = rng.sample(['WA', 'WB', 'WN'], rng.randint(1, 2))
    return {'kw': {w[1:]: w for w in ws}}
  if name == 'load_types_for_deserialization':
    ts = rng.sample(['T1', 'T2', 'T3'], rng.randint(0, 2))
    return {'kw': {t: t for t in ts}}
  if name == 'timeit':
    return {'a': rng.choice(['t1', 't2', 't3', 't1', 't2', ''])}
  if name == 'dynamic_evaluate':
    # None = "no dynamic evaluation in this scope": a thread-level None, not an absent setting
    return {'a': rng.choice(['f1', 'f2', 'f3', None]), 'pt': True}
  if name == 'Functor.__call__':
    keys = ['x', 'y'][:rng.randint(0, 2)]
    return {'kw': {x: rng.randint(0, 9) for x in keys}}
  raise AssertionError(name)


class ProgGen:
  def __init__(self, rng, managers, allow_global, sync):
    self.rng, self.managers, self.allow_global, self.sync = rng, managers, allow_global, sync
    self.open = []       # managers of the enclosing scopes
    self.used = []       # managers scoped so far

  def pick(self, focus):
    r = self.rng
    if focus and r.chance(0.6):
      return r.choice(focus)
    return r.choice(self.managers)

  def pick_probe(self, focus):
    r = self.rng
    if self.open and r.chance(0.55):
      return r.choice(self.open)
    if self.used and r.chance(0.5):
      return r.choice(self.used)
    return self.pick(focus)

  def prog(self, depth, focus, budget):
    """budget: mutable [remaining nodes]."""
    r = self.rng
    budget[0] -= 1
    if depth <= 0 or budget[0] <= 0:
      return self.leaf(focus)
    in_detour = any(CELL[m] == 'detour' for m in self.open)
    k = r.weighted([(6, 'scope'), (4, 'seq'), (2, 'try'), (1, 'leaf'), (4 if in_detour else 0, 'call')])
    if k == 'leaf':
      return self.leaf(focus)
    if k == 'call':
      return ['call', 'detour', r.choice(['A', 'B', 'C', 'D', 'N']), self.prog(depth - 1, focus, budget)]
    if k == 'seq':
      return ['seq', self.prog(depth, focus, budget), self.prog(depth, focus, budget)]
    if k == 'try':
      return ['try', self.prog(depth - 1, focus, budget)]
    m = self.pick(focus)
    arg = gen_arg(r, m)
    if m == 'dynamic_evaluate' and self.allow_global and r.chance(0.35):
      arg['pt'] = False
    self.open.append(m)
    self.used.append(m)
    body = self.prog(depth - 1, focus, budget)
    self.open.pop()
    if r.chance(0.5):
      body = ['seq', ['probe', m], body]
    out = ['scope', m, arg, body]
    if r.chance(0.4):
      out = ['seq', out, ['probe', m]]
    return out

  def leaf(self, focus):
    r = self.rng
    acts = [m for m in self.open if m in ACTIONS]
    k = r.weighted([(7, 'probe'), (2, 'raise'), (1, 'skip'), (3 if self.sync else 0, 'sync'),
                    (5 if acts else 0, 'act')])
    if k == 'probe':
      return ['probe', self.pick_probe(focus)]
    if k == 'act':
      m = r.choice(acts)
      return ['act', m, r.choice(ACTIONS[m])]
    return [k]


def falsy_args(name):
  """Arguments that are falsy in Python yet a *setting* (not the absence of one)."""
  if name in FLAGS:
    return [{'a': False}] + ([{'a': None}] if name in TRI else [])
  if name in ('str_format', 'repr_format', 'context'):
    return [{'kw': {}}, {'kw': {'compact': None, 'k1': 0, 'k2': False}}, {'kw': {'k1': {'d': {}}, 'k2': {'l': []}}}]
  if name in ('view_options', 'view'):
    return [{'kw': {}}, {'kw': {'o1': None, 'o2': {'l': []}, 'o3': {'d': {}}}}, {'kw': {'o1': 0, 'o2': False}}]
  if name == 'permission':
    return [{'a': 0}]
  if name == 'contextual_override':
    return [{'kw': {}}, {'kw': {'cx': {'o': [None, True, False]}}}, {'kw': {'cx': {'o': [0, False, True]}, 'cy': {'o': [False, False, False]}}}]
  if name == 'ContextualObject.override':
    return [{'kw': {}}, {'kw': {'x': {'o': [None, False, False]}, 'y': {'o': [0, False, False]}}}]
  if name == 'preset_args':
    return [{'kw': {}, 'name': 'global', 'inh': False}, {'kw': {}, 'name': 'global', 'inh': True},
            {'kw': {'k1': 0}, 'name': 'p1', 'inh': 'global'}]
  if name == 'detour':
    return [{'kw': {}}]
  if name == 'load_types_for_deserialization':
    return [{'kw': {}}]
  if name == 'timeit':
    return [{'a': ''}]
  if name == 'dynamic_evaluate':
    return [{'a': None, 'pt': True}]
  if name == 'Functor.__call__':
    return [{'kw': {}}]
  return []


def falsy_family(rng, reps=1):
  """For every manager: a falsy setting nested under (and next to) truthy ones, while a second thread
  holds a truthy setting of the same manager (for dynamic evaluation: a PROCESS-WIDE one) — the
  falsy setting must stay in force; hand-offs are deterministic."""
  for _ in range(reps):
    for m in DRIVEN:
      for f in falsy_args(m):
        t1, t2 = gen_arg(rng, m), gen_arg(rng, m)
        if m == 'dynamic_evaluate':
          t1, t2 = {'a': rng.choice(['f1', 'f3']), 'pt': True}, {'a': 'f2', 'pt': False}
        inner = ['scope', m, f, ['seq', ['probe', m], ['seq', ['sync'], ['seq', ['probe', m], ['seq', ['sync'], ['probe', m]]]]]]
        if m in PROCESS_WIDE:
          yield {'threads': [['scope', m, t1, ['seq', ['probe', m], ['seq', ['scope', m, f, ['probe', m]], ['probe', m]]]]]}
          continue
        for outer in (False, True):
          w = ['seq', ['scope', m, t1, ['seq', ['probe', m], ['seq', inner, ['probe', m]]]] if outer else inner,
               ['probe', m]]
          # (thread 1 starts at thread 0's first hand-off)
          b = ['seq', ['scope', m, t2, ['seq', ['probe', m], ['seq', ['sync'], ['probe', m]]]], ['probe', m]]
          yield {'threads': [w, b]}
          # the falsy block left by an exception while the other thread is inside its scope
          wx = ['seq', ['try', ['scope', m, f, ['seq', ['sync'], ['seq', ['probe', m], ['raise']]]]], ['seq', ['sync'], ['probe', m]]]
          if outer:
            wx = ['scope', m, t1, wx]
          yield {'threads': [wx, b]}


def fn_family(rng, n):
  """Detour destination FUNCTIONS: normal return, raising, raising and then creating the class
  again, the class created inside the function, nested detours entered inside the function and
  after it raised — in one thread and with a second thread doing the same on the same class."""
  classes = ['A', 'B', 'C', 'D', 'N']

  def item(c, depth):
    k = rng.weighted([(3, 'ok'), (4, 'raise'), (3, 'again'), (3, 'probe'), (3 if depth > 0 else 0, 'nested'),
                      (2 if depth > 0 else 0, 'fn_nested'), (1, 'other')])
    if k == 'ok':
      return ['call', 'detour', c, ['probe', 'detour'] if rng.chance(0.5) else ['skip']]
    if k == 'raise':
      return ['try', ['call', 'detour', c, ['seq', ['probe', 'detour'], ['raise']] if rng.chance(0.5) else ['raise']]]
    if k == 'again':          # the function creates the very class again (allowed: temporary c -> c)
      body = ['seq', ['call', 'detour', c, ['skip']], ['raise'] if rng.chance(0.4) else ['skip']]
      return ['try', ['call', 'detour', c, body]]
    if k == 'probe':
      return ['probe', rng.choice(['detour', 'detour', 'apply_wrappers'])]
    if k == 'nested':         # a nested detour entered later (after a possible exception above)
      m, a = ('detour', gen_arg(rng, 'detour')) if rng.chance(0.7) else ('apply_wrappers', gen_arg(rng, 'apply_wrappers'))
      return ['scope', m, a, seq([item(c, depth - 1) for _ in range(rng.randint(1, 3))] + [['probe', 'detour']])]
    if k == 'fn_nested':      # the function itself opens a detour, maybe raises inside it
      inner = ['scope', 'detour', gen_arg(rng, 'detour'),
               ['seq', ['probe', 'detour'], ['seq', item(c, depth - 1), ['raise'] if rng.chance(0.4) else ['skip']]]]
      return ['try', ['call', 'detour', c, inner]]
    return ['call', 'detour', rng.choice(classes), ['skip']]

  def seq(xs):
    out = xs[-1]
    for x in reversed(xs[:-1]):
      out = ['seq', x, out]
    return out

  def one():
    c = rng.choice(classes)
    kw = {c: rng.choice(['fn1', 'fn2'])}
    if rng.chance(0.5):
      d = rng.choice([x for x in classes if x != c])
      kw[d] = rng.choice(classes + ['fn1'])
    body = seq([['probe', 'detour']] + [item(c, 2) for _ in range(rng.randint(2, 5))] + [['probe', 'detour']])
    return ['seq', ['scope', 'detour', {'kw': kw}, body], ['probe', 'detour']]
  for i in range(n):
    if i % 4 == 3:
      yield {'threads': [['seq', one(), ['sync']], ['seq', one(), ['sync']]]}
    else:
      yield {'threads': [one()]}


def created_entered_family(rng):
  """A manager object created at one point and entered at another, for every manager with an object
  form: created outside / inside another scope of the same manager, entered later, after the creating
  scope ended, by another thread, through an ExitStack list, and entered a second time.  Creating an
  object must capture nothing: what counts is where it is entered."""
  n = [0]

  def fresh():
    n[0] += 1
    return 'o%d' % n[0]
  for m in OBJECT_MANAGERS:
    def arg():
      a = gen_arg(rng, m)
      if m == 'dynamic_evaluate':
        a['pt'] = True
      return a
    pr = ['probe', m]
    # created outside, entered inside another scope of the same manager
    i = fresh()
    yield {'threads': [['seq', ['make', i, m, arg()], ['seq', ['scope', m, arg(), ['seq', pr, ['seq', ['enter', i, pr], pr]]], pr]]]}
    # created inside a scope, entered after that scope ended (normally / by an exception)
    i = fresh()
    inner = ['seq', ['make', i, m, arg()], ['seq', pr, ['raise'] if rng.chance(0.4) else ['skip']]]
    yield {'threads': [['seq', ['try', ['scope', m, arg(), inner]], ['seq', pr, ['seq', ['enter', i, pr], pr]]]]}
    # a pre-built list entered through ExitStack inside a scope; and built inside, entered outside
    i, j = fresh(), fresh()
    yield {'threads': [['seq', ['make', i, m, arg()], ['seq', ['make', j, m, arg()],
                        ['seq', ['scope', m, arg(), ['seq', ['stack', [i, j], pr], pr]], pr]]]]}
    i, j = fresh(), fresh()
    yield {'threads': [['seq', ['scope', m, arg(), ['seq', ['make', i, m, arg()], ['seq', ['make', j, m, arg()], pr]]],
                        ['seq', ['stack', [i, j], ['seq', pr, ['raise'] if rng.chance(0.3) else ['skip']]], pr]]]}
    # entered a second time (an exhausted @contextmanager object refuses; a TimeIt can be used again)
    i = fresh()
    again = ['seq', ['make', i, m, arg()], ['seq', ['enter', i, pr], ['seq', ['try', ['enter', i, pr, 'again']], pr]]]
    yield {'threads': [again]}
    yield {'threads': [['scope', m, arg(), ['seq', pr, ['seq', again, pr]]]]}
    # created inside thread 0's scope, entered by thread 1
    if m not in PROCESS_WIDE:
      i = fresh()
      a = ['seq', ['scope', m, arg(), ['seq', ['make', i, m, arg()], ['seq', ['sync'], pr]]], pr]
      b = ['seq', pr, ['seq', ['enter', i, ['seq', pr, ['sync']]], pr]]
      yield {'threads': [a, b]}


def fail_entry_family(rng):
  """Entries that fail, on their own and inside scopes of the same and of other managers: nothing may
  change, least of all the enclosing scope."""
  for (m, how) in sorted(FAIL_ENTRY):
    pr = ['probe', 'view_options' if m == 'view' else m]
    f = ['try', ['failenter', m, how]]
    yield {'threads': [['seq', f, pr]]}
    for _ in range(2):
      a = gen_arg(rng, m)
      yield {'threads': [['seq', ['scope', m, a, ['seq', pr, ['seq', f, pr]]], pr]]}
      o = rng.choice(DRIVEN)
      yield {'threads': [['seq', ['scope', o, gen_arg(rng, o), ['scope', m, a, ['seq', f, ['seq', pr, ['probe', o]]]]], pr]]}
    # not caught inside: the failing entry unwinds the enclosing scopes
    yield {'threads': [['seq', ['try', ['scope', m, gen_arg(rng, m), ['seq', pr, ['failenter', m, how]]]], pr]]}


def size(p):
  return 1 + sum(size(x) for x in p[1:] if isinstance(x, list))


def depth_of(p):
  if p[0] == 'scope':
    return 1 + depth_of(p[3])
  return max([depth_of(x) for x in p[1:] if isinstance(x, list)] or [0])


def walk(p):
  yield p
  for x in p[1:]:
    if isinstance(x, list):
      yield from walk(x)


# ------------------------------------------------------------------------------------------

def _child(prop, case, wfd):
  try:
    out = prop.impl_inproc(case)
  except BaseException as e:    # pylint: disable=broad-except
    out = {'harness_exception': '%s: %s' % (type(e).__name__, e), 'trace': traceback.format_exc()[-1500:]}
  data = json.dumps(out).encode()
  with os.fdopen(wfd, 'wb') as f:
    f.write(data)
  os._exit(0)      # pylint: disable=protected-access


class C17(Prop):
  id = 'C17'
  props_modules = ['PgProps.C17']
  driver = 'drv_c17'
  translators = [t_c17.run]
  case_timeout_s = 40
  jobs_quick = 6
  rule = ('ROUND 5 additions: make/enter/stack = a manager OBJECT created at one point and entered at another '
          '(outside / inside another scope of the same manager, after the creating scope ended, by another thread, '
          'as an ExitStack list, a second time) for all 20 managers with an object form; failenter = an entry the '
          'library rejects (7 kinds + exhausted @contextmanager objects), alone and inside scopes of the same and '
          'other managers. ROUND 4 additions: call = creating an object inside a detour, a destination FUNCTION runs a sub-program '
          '(returns, raises, creates the class again, opens nested detours); falsy family: for every manager a '
          'None/False/0/empty setting nested under and next to truthy ones while a second thread holds a truthy '
          '(dynamic evaluation: process-wide) setting, deterministic hand-offs; ContextualObject.override on one '
          'object shared by all threads. '
          'well-nested programs skip/seq/scope/raise/try/probe/act over the 21 driven managers of the T-SCOPE '
          'registry (act = a public action on the manager object of the enclosing block: TimeIt.end()/status(), '
          'pg.with_contextual_override wrapper called from a new thread; pg.view() inner renders are a manager; '
          'TimeIt and ContextualOverride objects are re-used; kwargs carry mutable nested dict / list values); '
          'detour/apply_wrappers probes create objects of 5 classes incl. one with its own __new__; extra '
          'two-thread streams where both threads scope the SAME class and one enters and leaves (normally or '
          'by exception) while the other is inside; formerly: '
          'registry, scope depth <= 6, arguments from each manager\'s domain (None where accepted), exceptions '
          'raised at arbitrary leaves and caught at arbitrary levels; three streams: mixed managers, '
          'focused (2-3 managers nested in every order), two-thread programs with baton hand-offs at '
          'arbitrary points (thread-local managers only in scopes, all managers probed). '
          'Non-trivial: at least one scope with a probe of the same manager inside or after it; '
          'distinct by the program text.')
  trusted_base = [
      'threading.local isolation and contextlib.contextmanager semantics (finally runs on exceptional exit) '
      'are CPython behaviour, exercised but not modelled',
      'harness adapters (harness/c17.py Lib): which public getter / behavioural probe observes each manager',
      'the process-wide `__new__` patch of detour is modelled as World.patched (grows only); which '
      '`__new__` CPython resolves for subclasses / super().__new__ chains (get_original_new) is not modelled',
      'modelled, not verified: the primitives of PgModel/Scope.lean (tied by T-SCOPE shape matching of every '
      'primitive and by correspondence); class detouring\'s effect on __new__ resolution, TimeIt child '
      'bookkeeping and DynamicEvaluationContext.collect/apply (compositions) are outside the model',
  ]
  assumptions = ['managers are used through `with` (well-nested enter/exit)',
                 'arguments are in the documented domain of each manager (e.g. permission() gets a CodePermission)']

  _lib = None

  # -- generation ---------------------------------------------------------------------------
  def generate(self, rng, tier):
    n_mixed, n_focus, n_two = (260, 260, 160) if tier == 'quick' else (6000, 6000, 2500)
    local = [m for m in DRIVEN if m not in PROCESS_WIDE]
    for _ in range(n_mixed):
      g = ProgGen(rng, DRIVEN, True, False)
      yield {'threads': [g.prog(rng.randint(2, 6), None, [rng.randint(10, 45)])]}
    for _ in range(n_focus):
      focus = rng.sample(DRIVEN, rng.randint(1, 3))
      g = ProgGen(rng, DRIVEN, True, False)
      yield {'threads': [g.prog(rng.randint(2, 6), focus, [rng.randint(10, 45)])]}
    for _ in range(n_two):
      focus = rng.sample(local, rng.randint(1, 3))
      g = ProgGen(rng, local, False, True)
      a = g.prog(rng.randint(2, 5), focus, [rng.randint(8, 24)])
      g = ProgGen(rng, local, False, True)
      b = g.prog(rng.randint(2, 5), focus if rng.chance(0.7) else None, [rng.randint(8, 24)])
      # make sure there are hand-offs inside scopes
      yield {'threads': [['seq', a, ['sync']], ['seq', ['sync'], b]]}
    # two threads scoping the SAME classes with detour / apply_wrappers, one entering and leaving
    # while the other is inside (the thread-local mapping rides on a process-wide `__new__` patch)
    for _ in range(n_two // 2):
      ms = ['detour', 'apply_wrappers', 'detour', 'as_sealed']
      g = ProgGen(rng, ms, False, True)
      a = g.prog(rng.randint(2, 4), ['detour', 'apply_wrappers'], [rng.randint(8, 20)])
      g = ProgGen(rng, ms, False, True)
      b = g.prog(rng.randint(2, 4), ['detour', 'apply_wrappers'], [rng.randint(8, 20)])
      yield {'threads': [['seq', a, ['sync']], ['seq', ['sync'], ['seq', b, ['sync']]]]}
    # ... and the plain pattern: A inside a scope on class X, B enters and leaves (normally or by an
    # exception) its own outermost scope on the same X, A creates X again
    for _ in range(n_two // 4):
      x = rng.choice(['A', 'N', 'N', 'B'])

      def scope_on(x):
        if rng.chance(0.4):
          return 'apply_wrappers', {'kw': {x: 'W' + x}}
        kw = {x: rng.choice([d for d in ['A', 'B', 'C', 'D', 'N', 'fn1'] if d != x])}
        if rng.chance(0.4):
          y = rng.choice([c for c in ['A', 'B', 'C', 'D', 'N'] if c != x])
          kw[y] = rng.choice(['A', 'B', 'C', 'D', 'N'])
        return 'detour', {'kw': kw}
      m1, a1 = scope_on(x)
      m2, a2 = scope_on(x)
      inner_b = ['seq', ['probe', m2], ['raise'] if rng.chance(0.35) else (['sync'] if rng.chance(0.3) else ['skip'])]
      a = ['scope', m1, a1, ['seq', ['probe', m1], ['seq', ['sync'], ['seq', ['probe', m1], ['seq', ['sync'], ['probe', m1]]]]]]
      b = ['seq', ['try', ['scope', m2, a2, inner_b]], ['seq', ['probe', m2], ['sync']]]
      yield {'threads': [a, ['seq', ['sync'], b]]}
    yield from falsy_family(rng, 1 if tier == 'quick' else 8)
    yield from fn_family(rng, n_two // 2)
    for _ in range(1 if tier == 'quick' else 6):
      yield from created_entered_family(rng)
      yield from fail_entry_family(rng)
    if tier == 'thorough':
      yield from self.exhaustive_pairs(rng)

  def exhaustive_pairs(self, rng):
    """Every ordered pair of managers nested, with and without an exception, reduced arguments."""
    for m1 in DRIVEN:
      for m2 in DRIVEN:
        for exc in (False, True):
          a1, a2 = gen_arg(rng, m1), gen_arg(rng, m2)
          inner = ['seq', ['probe', m1], ['seq', ['probe', m2], ['raise'] if exc else ['skip']]]
          body = ['scope', m2, a2, inner]
          p = ['seq', ['try', ['scope', m1, a1, ['seq', ['probe', m1], ['seq', body, ['probe', m1]]]]],
               ['seq', ['probe', m1], ['probe', m2]]]
          yield {'threads': [p]}

  def search_cases(self, rng, tier, broken):
    yield from self.generate(rng.fork(), tier)
    yield from self.exhaustive_pairs(rng.fork())

  # -- execution ----------------------------------------------------------------------------
  def lib(self):
    if C17._lib is None:
      C17._lib = Lib()
    return C17._lib

  def impl(self, case):
    """Runs the case in a forked child (pristine thread-local and process-wide state)."""
    self.lib()
    rfd, wfd = os.pipe()
    pid = os.fork()
    if pid == 0:
      os.close(rfd)
      signal.setitimer(signal.ITIMER_REAL, 0)
      _child(self, case, wfd)
    os.close(wfd)
    chunks = []
    try:
      with os.fdopen(rfd, 'rb') as f:
        while True:
          r, _, _ = select.select([f], [], [], 30)
          if not r:
            raise framework.CaseTimeout()
          b = f.read()
          if not b:
            break
          chunks.append(b)
    finally:
      try:
        os.kill(pid, signal.SIGKILL)
      except OSError:
        pass
      os.waitpid(pid, 0)
    data = b''.join(chunks)
    if not data:
      return {'harness_exception': 'child died without output', 'trace': ''}
    return json.loads(data)

  def impl_inproc(self, case):
    lib = self.lib()
    lib.reset_process_state()
    lib.objects.clear()
    results, late = run_threads(lib, case, DRIVEN)
    for r in results:
      if r is None:
        return {'harness_exception': 'thread did not finish', 'trace': ''}
      if 'harness_exception' in r:
        return r
    model = {'threads': [{'outcome': r['outcome'], 'obs': r['obs'], 'before': r['before'], 'after': r['after']}
                         for r in results]}
    return {'model': model, 'blocks': [r['blocks'] for r in results], 'late': late}

  def model_request(self, case):
    table = make_table(case)
    return {'op': 'run', 'threads': [lower(p, table) for p in case['threads']]}

  @staticmethod
  def _canon_model(mo):
    """Model output restricted to the driven managers; empty presets dropped."""
    def fix(name, v):
      if name == 'preset_args' and isinstance(v, dict):
        return {'f': {k: x for k, x in v['f'].items() if x != {'d': {}}}}
      return v
    out = {'threads': []}
    for t in mo['threads']:
      out['threads'].append({
          'outcome': t['outcome'],
          'obs': [[o[0], fix(o[0], o[1]), o[2]] for o in t['obs']],
          'before': {k: fix(k, v) for k, v in t['before'].items() if k in DRIVEN},
          'after': {k: fix(k, v) for k, v in t['after'].items() if k in DRIVEN}})
    return out

  def compare(self, case, impl_out, model_out):
    a = impl_out['model']
    b = self._canon_model(model_out)
    if a != b:
      for ta, tb in zip(a['threads'], b['threads']):
        for key in ('outcome', 'before', 'obs', 'after'):
          if ta[key] != tb[key]:
            return '%s differs: impl=%s model=%s' % (key, json.dumps(ta[key], sort_keys=True)[:500],
                                                     json.dumps(tb[key], sort_keys=True)[:500])
      return 'thread count'
    return None

  # -- the property itself ------------------------------------------------------------------
  def oracle(self, case, out):
    two = len(case['threads']) > 1
    # restoration, block by block. A failing inner block also shows in the snapshots of the blocks
    # around it: report the block whose *own* getter changed (else the first one).
    failing = []

    def shared(tid):
      """Managers for which ANOTHER thread opens a documented process-wide scope: their getters may
      legitimately change under this thread's feet (judged by the probes inside own scopes instead)."""
      out_ = set()
      for j, prog in enumerate(case['threads']):
        if j != tid:
          for n in walk(prog):
            if n[0] == 'scope' and (n[1] in PROCESS_WIDE or (n[1] == 'dynamic_evaluate' and not n[2].get('pt', True))):
              out_.add(n[1])
      return out_
    for tid, blocks in enumerate(out['blocks']):
      for b in blocks:
        if 'after' not in b:
          continue
        diff = sorted(k for k in b['before'] if b['before'][k] != b['after'].get(k) and k not in shared(tid))
        if diff:
          own = b['mgr'] in diff or (b['mgr'] == 'call' and 'detour' in diff) or b['mgr'] in ('failenter', 'stack')
          failing.append((0 if own else 1, len(failing), tid, b, diff))
    if failing:
      own, _, tid, b, diff = min(failing, key=lambda x: (x[0], x[1]))
      m = b['mgr']
      how = 'exception' if str(b.get('exit', '')).startswith('exc') else 'normal'
      sig = 'not-restored:%s:%s' % (m, how) if own == 0 else 'not-restored-other:' + ','.join(diff)
      if m == 'failenter':
        sig = 'not-restored:failenter:' + b['arg']['m']
      return {'signature': sig,
              'what': 'thread %d: after leaving `with %s(%s)` (%s exit) the getters %s differ: before=%s after=%s'
                      % (tid, m, json.dumps(b['arg']), how, diff,
                         {k: b['before'][k] for k in diff}, {k: b['after'][k] for k in diff})}
    for tid, blocks in enumerate(out['blocks']):
      for b in blocks:
        m = b['mgr']
        if b.get('entered'):
          exp = spec_inside(m, b['before'][m], b['arg'], b.get('enclosing'))
          if exp is not None and exp[1] != b['inside']:
            return {'signature': 'not-effective:%s' % m,
                    'what': 'thread %d: inside `with %s(%s)` the getter gives %s; documented nesting rule over the '
                            'outer value %s gives %s' % (tid, m, json.dumps(b['arg']), b['inside'], b['before'][m], exp[1])}
    # detour / apply_wrappers: object creation follows the mapping the same thread observes, whatever
    # other threads enter or leave meanwhile (the `__new__` patch is shared by all threads)
    for tid, t in enumerate(out['model']['threads']):
      for o in t['obs']:
        if o[0] in ('detour', 'apply_wrappers') and isinstance(o[2], dict) and 'new' in o[2]:
          mapping = o[1]['f']
          for c, got in sorted(o[2]['new'].items()):
            want = mapping.get(c, c)
            if got != want:
              return {'signature': 'detour-not-effective:' + o[0],
                      'what': 'thread %d: current_mappings() = %s but %s() creates %s (expected %s)'
                              % (tid, mapping, c, got, want)}
    # timing scopes: a scope entered inside another one is registered under it ('outer.inner' in
    # the public status() of the outer scope) — the nesting rule of pg.timeit
    for tid, blocks in enumerate(out['blocks']):
      for b in blocks:
        if b['mgr'] == 'timeit' and b.get('entered') and b.get('timeit_parent') is not None:
          par = blocks[b['timeit_parent']]
          keys = par.get('status_keys')
          want = '%s.%s' % (par['arg']['a'], b['arg']['a']) if par['arg']['a'] else b['arg']['a']
          if keys is not None and want not in keys:
            return {'signature': 'timeit-child-not-registered',
                    'what': 'thread %d: pg.timeit(%r) entered inside pg.timeit(%r), but status() of the outer scope '
                            'has no key %r: %s' % (tid, b['arg']['a'], par['arg']['a'], want, keys)}
    # a thread that starts while another one is inside scopes sees the same defaults as the first
    t0 = out['model']['threads'][0]['before']
    for tid, t in enumerate(out['model']['threads'][1:], 1):
      diff = sorted(k for k in t0 if t['before'][k] != t0[k] and k not in shared(tid))
      if diff:
        return {'signature': 'leak-across-threads:' + ','.join(diff),
                'what': 'thread %d starts (the other thread being inside its scopes) and sees %s instead of the '
                        'defaults %s' % (tid, {k: t['before'][k] for k in diff}, {k: t0[k] for k in diff})}
    for tid, t in enumerate(out['model']['threads']):
      diff = sorted(k for k in t['before'] if t['before'][k] != t['after'][k] and k not in shared(tid))
      if diff:
        return {'signature': 'program-not-restored:' + ','.join(diff),
                'what': 'thread %d: getters %s differ between start and end of the program' % (tid, diff)}
    # a thread started after everything was left sees the import-time defaults
    t0 = out['model']['threads'][0]['before']
    if not two:
      diff = sorted(k for k in t0 if out['late'].get(k) != t0[k])
      if diff:
        return {'signature': 'leaked-to-later-thread:' + ','.join(diff),
                'what': 'a thread started after all scopes were left sees %s' % {k: out['late'].get(k) for k in diff}}
    if two:
      # isolation: every probe of a thread must be explained by that thread's own enclosing scopes.
      for tid, prog in enumerate(case['threads']):
        exp = self.expected_probes(lower(prog, make_table(case)), out['model']['threads'][tid]['before'], shared(tid))
        got = out['model']['threads'][tid]['obs']
        for (name, want), g in zip(exp, got):
          if want is not None and g[0] == name and g[1] != want[1]:
            return {'signature': 'leak-across-threads:' + name,
                    'what': 'thread %d observes %s = %s; its own enclosing scopes give %s (the other thread '
                            'was inside scopes at hand-off points)' % (tid, name, g[1], want[1])}
    return None

  def expected_probes(self, prog, defaults, shared=()):
    """Probe values a thread must see given only its own scopes (None: no independent rule).
    Follows the control flow of the program (raise / try) without looking at the implementation."""
    out = []

    class Stop(Exception):
      pass

    class Abort(Exception):
      pass

    def cur(env, name):
      if name in shared and not any(CELL[m] == CELL[name] for m, _ in env):
        return None       # another thread's documented process-wide setting may show through
      v = ('v', defaults[name])
      for m, arg in env:
        if CELL[m] == CELL[name]:
          if v is None:
            return None
          v = spec_inside(m, v[1], arg)
      return v

    def go(p, env):
      op = p[0]
      if op in ('skip', 'sync'):
        return
      if op == 'seq':
        go(p[1], env)
        go(p[2], env)
      elif op in ('raise', 'fail'):
        raise Stop()
      elif op == 'try':
        try:
          go(p[1], env)
        except Stop:
          pass
      elif op == 'probe':
        out.append((p[1], cur(env, p[1])))
      elif op == 'act':
        if p[2] == 'wrapped_probe':
          out.append((p[1], cur(env, p[1])))
      elif op == 'call':
        raise Abort()     # whether the body runs depends on the mapping: not followed here
      elif op == 'scope':
        go(p[3], env + [(p[1], p[2])])
    try:
      go(prog, [])
    except (Stop, Abort):
      pass
    return out

  def nontrivial(self, case, out):
    table = make_table(case)
    for prog in case['threads']:
      prog = lower(prog, table)
      scoped = {n[1] for n in walk(prog) if n[0] == 'scope'}
      probed = {n[1] for n in walk(prog) if n[0] == 'probe'}
      if scoped & probed:
        return True
    return False

  def describe(self, case, out):
    h = ['threads:%d' % len(case['threads'])]
    for prog in case['threads']:
      d = depth_of(prog)
      h.append('scope-depth:%d' % d)
      s = size(prog)
      h.append('size:' + ('1-5' if s <= 5 else '6-15' if s <= 15 else '16-40' if s <= 40 else '41+'))
      for n in walk(prog):
        if n[0] == 'scope':
          h.append('scope:' + n[1])
        if n[0] == 'call':
          h.append('call')
        if n[0] in ('make', 'enter', 'stack', 'failenter'):
          h.append(n[0])
      if any(n[0] == 'raise' for n in walk(prog)):
        h.append('has-raise')
    for t in out.get('model', {}).get('threads', []):
      h.append('outcome:' + t['outcome'])
    for blocks in out.get('blocks', []):
      for b in blocks:
        if str(b.get('exit', '')).startswith('exc'):
          h.append('scope-left-by-exception')
          break
    if not self.nontrivial(case, out):
      h.append('trivial')
    return h

  def shrink_candidates(self, case):
    ths = case['threads']
    if len(ths) == 2:
      yield {'threads': [ths[0]]}
      yield {'threads': [ths[1]]}
    for i, prog in enumerate(ths):
      for cand in self._shrink_prog(prog):
        c = list(ths)
        c[i] = cand
        yield {'threads': c}

  def _shrink_prog(self, p):
    op = p[0]
    if op == 'seq':
      yield p[1]
      yield p[2]
      for c in self._shrink_prog(p[1]):
        yield ['seq', c, p[2]]
      for c in self._shrink_prog(p[2]):
        yield ['seq', p[1], c]
    elif op == 'try':
      yield p[1]
      for c in self._shrink_prog(p[1]):
        yield ['try', c]
    elif op == 'scope':
      yield p[3]
      for c in self._shrink_prog(p[3]):
        yield ['scope', p[1], p[2], c]
    elif op == 'enter':
      for c in self._shrink_prog(p[2]):
        yield ['enter', p[1], c] + p[3:]
    elif op == 'stack':
      for c in self._shrink_prog(p[2]):
        yield ['stack', p[1], c]
      if len(p[1]) > 1:
        yield ['stack', p[1][1:], p[2]]
        yield ['stack', p[1][:-1], p[2]]
    elif op == 'failenter':
      yield ['skip']
    elif op == 'call':
      yield p[3]
      yield ['skip']
      for c in self._shrink_prog(p[3]):
        yield ['call', p[1], p[2], c]
    elif op in ('probe', 'raise', 'sync', 'act'):
      yield ['skip']

  # -- translator cross-check ---------------------------------------------------------------
  def extra_checks(self, ctx):
    """T-SCOPE against the harness: every registered manager is driven (or triaged), every driven
    manager is registered with the kind the oracle's nesting rule assumes."""
    try:
      reg = framework.Driver(self.driver).run([{'op': 'tables'}])[0]['registry']
    except framework.InfraError:
      return
    names = {m['name']: m for m in reg}
    missing = [n for n in names if n not in DRIVEN and n not in NOT_DRIVEN]
    extra = [n for n in DRIVEN if n not in names]
    wrong = [n for n in DRIVEN if n in names and names[n]['kind'] != KIND[n]]
    if missing or extra or wrong:
      ctx.broken.append({'kind': 'translator', 'name': 'T-SCOPE vs harness adapters',
                         'detail': 'registered but not driven: %s; driven but not registered: %s; kind differs: %s'
                                   % (missing, extra, wrong)})
    ctx.coverage['registry_managers'] = len(reg)
    ctx.coverage['driven_managers'] = len(DRIVEN)
    ctx.coverage['not_driven'] = NOT_DRIVEN
    ctx.coverage['traces_validated_against_impl'] = sum(
        v for k, v in getattr(ctx, 'stats', {}).get('histogram', {}).items() if k.startswith('threads:2'))


PROP = C17()
