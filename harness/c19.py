"""C19 — permission-gated code execution: generator, implementation runner, oracle.

Case shape:
  {"op": "run", "code": <source text>, "explicit": [flag names] | null,
   "scopes": [[flag names], ...]   # permission scopes entered around the call, outermost first
   "tree": [kind, line, [children]] | null}   # filled in by the harness with the real parser

Implementation observables (public API only): pg.coding.evaluate / permission / get_permission,
CodeError with .cause and .lineno; whether execution was reached is observed by wrapping
builtins.exec / builtins.eval in the harness process (no hook in /repo).
"""

import ast
import warnings
import builtins
import contextlib
import io
import re
import sys
import traceback

from harness.common.framework import Prop
from translate import t_c19

warnings.simplefilter("ignore", SyntaxWarning)

import __future__
FUTURE_MASK = 0
for _n in __future__.all_feature_names:
  FUTURE_MASK |= getattr(__future__, _n).compiler_flag

FLAGS = ['ASSIGN', 'CONDITION', 'LOOP', 'CALL', 'EXCEPTION', 'CLASS_DEFINITION',
         'FUNCTION_DEFINITION', 'IMPORT']

# The oracle's own copy of the specification table (node class -> flag the property names).
REQUIRED = {
    'Assign': 'ASSIGN', 'AugAssign': 'ASSIGN', 'AnnAssign': 'ASSIGN', 'NamedExpr': 'ASSIGN',
    'If': 'CONDITION', 'Match': 'CONDITION',
    'For': 'LOOP', 'While': 'LOOP', 'AsyncFor': 'LOOP',
    'Call': 'CALL',
    'Try': 'EXCEPTION', 'TryStar': 'EXCEPTION', 'Raise': 'EXCEPTION', 'Assert': 'EXCEPTION',
    'ClassDef': 'CLASS_DEFINITION',
    'FunctionDef': 'FUNCTION_DEFINITION', 'AsyncFunctionDef': 'FUNCTION_DEFINITION',
    'Lambda': 'FUNCTION_DEFINITION',
    'Import': 'IMPORT', 'ImportFrom': 'IMPORT',
}
# Debatable rows: reported in the evidence, never a violation.
REQUIRED_STRICT = {
    'IfExp': 'CONDITION', 'ListComp': 'LOOP', 'SetComp': 'LOOP', 'DictComp': 'LOOP',
    'GeneratorExp': 'LOOP', 'With': 'CALL', 'AsyncWith': 'CALL', 'Delete': 'ASSIGN',
}


def tree_of(node):
  return [type(node).__name__, getattr(node, 'lineno', 0) or 0,
          [tree_of(c) for c in ast.iter_child_nodes(node)]]


def kinds_of(tree, acc=None):
  acc = [] if acc is None else acc
  acc.append((tree[0], tree[1]))
  for c in tree[2]:
    kinds_of(c, acc)
  return acc


# ------------------------------------------------------------------------------------------
# Program generator (source text; the real parser builds the trees)
# ------------------------------------------------------------------------------------------

class ProgGen:
  """Grammar-directed generator of small terminating programs."""

  def __init__(self, rng):
    self.rng = rng
    self.n = 0

  def fresh(self):
    self.n += 1
    return 'v%d' % self.n

  def atom(self, names):
    r = self.rng
    k = r.below(6)
    if k == 0 and names:
      return r.choice(names)
    if k == 1:
      return repr(r.choice(['a', 'b', '', 'x y']))
    if k == 2:
      return '[%s]' % ', '.join(str(r.randint(0, 5)) for _ in range(r.below(3)))
    return str(r.randint(-3, 9))

  def expr(self, names, depth):
    r = self.rng
    if depth <= 0:
      return self.atom(names)
    k = r.below(13)
    e = lambda: self.expr(names, depth - 1)
    if k == 0:
      return '(%s, %s)' % (e(), e())
    if k == 1:
      return 'len(%s)' % repr('abc'[:r.below(4)])
    if k == 2:
      return 'str(%s)' % e()
    if k == 3:
      return '(%s if %s else %s)' % (e(), e(), e())
    if k == 4:
      return '[%s for _i in range(%d)]' % (e(), r.below(3))
    if k == 5:
      return '(lambda _q: %s)(%s)' % (e(), e())
    if k == 6:
      return '(%s := %s)' % (self.fresh(), e())
    if k == 7:
      return '{%s: %s}' % (repr(r.choice(['k', 'j'])), e())
    if k == 8:
      return 'SENTINEL.append(%d)' % r.below(9)
    if k == 9:
      return '(%s == %s)' % (e(), e())
    if k == 10:
      return 'repr(%s)' % e()
    if k == 11:
      return '{%s for _j in [1, 2] if _j}' % e()
    return self.atom(names)

  def block(self, names, depth, indent, n=None, in_func=False, in_loop=False):
    r = self.rng
    n = n if n is not None else r.randint(1, 3)
    out = []
    for _ in range(n):
      out += self.stmt(names, depth, indent, in_func, in_loop)
    return out

  def stmt(self, names, depth, indent, in_func=False, in_loop=False):
    r = self.rng
    pad = '  ' * indent
    e = lambda d=1: self.expr(names, d)
    choices = [(6, 'assign'), (3, 'expr'), (2, 'aug'), (2, 'ann'), (2, 'print'), (1, 'pass'),
               (1, 'assert'), (1, 'import'), (1, 'fromimport'), (1, 'del'), (1, 'walrus')]
    if depth > 0:
      choices += [(3, 'if'), (2, 'for'), (2, 'while'), (2, 'try'), (1, 'trystar'), (2, 'def'),
                  (1, 'class'), (1, 'match'), (1, 'with'), (1, 'asyncdef'), (1, 'raise_caught'),
                  (1, 'gen')]
    if in_func:
      choices += [(2, 'return')]
    if in_loop:
      choices += [(1, 'break'), (1, 'continue')]
    k = r.weighted(choices)
    if k == 'assign':
      v = self.fresh()
      names.append(v)
      if r.chance(0.2):
        w = self.fresh()
        names.append(w)
        return ['%s%s = %s = %s' % (pad, v, w, e())]
      return ['%s%s = %s' % (pad, v, e(2))]
    if k == 'expr':
      return ['%s%s' % (pad, e(2))]
    if k == 'aug':
      v = self.fresh()
      names.append(v)
      return ['%s%s = %d' % (pad, v, r.below(5)), '%s%s += %d' % (pad, v, r.randint(1, 4))]
    if k == 'ann':
      v = self.fresh()
      names.append(v)
      ann = r.choice(['int', 'int', 'str(SENTINEL.append(7))', 'print("ann")', 'undefined_ann_name'])
      return ['%s%s: %s = %d' % (pad, v, ann, r.below(7))]
    if k == 'print':
      # output through a bare print, through a host helper handed in with the globals, and
      # through sys.stdout of the builtins namespace (captured output must not depend on the route)
      return ['%s%s(%s)' % (pad, r.choice(['print', 'print', 'EMIT', 'print']), e())]
    if k == 'pass':
      return [pad + 'pass']
    if k == 'assert':
      return ['%sassert %s, "boom"' % (pad, r.choice(['True', '1', 'len("a")', '0 == 0', '1 == 2']))]
    if k == 'import':
      return [pad + r.choice(['import math', 'import math as m2', 'import os.path'])]
    if k == 'fromimport':
      return [pad + r.choice(['from math import floor', 'from os import path as p2'])]
    if k == 'del':
      v = self.fresh()
      return ['%s%s = 1' % (pad, v), '%sdel %s' % (pad, v)]
    if k == 'walrus':
      v = self.fresh()
      names.append(v)
      return ['%s(%s := %s)' % (pad, v, e())]
    if k == 'if':
      out = ['%sif %s:' % (pad, e())]
      out += self.block(list(names), depth - 1, indent + 1, None, in_func, in_loop)
      if r.chance(0.5):
        out += [pad + 'else:'] + self.block(list(names), depth - 1, indent + 1, None, in_func, in_loop)
      return out
    if k == 'for':
      v = self.fresh()
      out = ['%sfor %s in range(%d):' % (pad, v, r.below(3))]
      out += self.block(list(names) + [v], depth - 1, indent + 1, None, in_func, True)
      return out
    if k == 'while':
      v = self.fresh()
      out = ['%s%s = 0' % (pad, v), '%swhile %s < %d:' % (pad, v, r.below(3)),
             '%s  %s = %s + 1' % (pad, v, v)]
      out += self.block(list(names) + [v], depth - 1, indent + 1, 1, in_func, False)
      return out
    if k == 'try':
      out = [pad + 'try:'] + self.block(list(names), depth - 1, indent + 1, None, in_func, in_loop)
      if r.chance(0.3):
        out += ['%s  raise ValueError("x")' % pad]
      out += [pad + 'except ValueError as _e:', '%s  print("caught")' % pad]
      if r.chance(0.4):
        out += [pad + 'finally:', '%s  print("fin")' % pad]
      return out
    if k == 'trystar':
      return [pad + 'try:', '%s  print("t")' % pad, pad + 'except* ValueError:', '%s  pass' % pad]
    if k == 'raise_caught':
      return [pad + 'try:', '%s  raise KeyError("k")' % pad, pad + 'except KeyError:', '%s  pass' % pad]
    if k == 'def':
      f = self.fresh()
      out = ['%sdef %s(a, b%s=2)%s:' % (pad, f, r.choice(['', '', ': print("argann")']), r.choice(['', '', ' -> len("r")']))]
      out += self.block(['a', 'b'], depth - 1, indent + 1, None, True, False)
      out += ['%s  return a' % pad]
      names.append(f)
      if r.chance(0.7):
        out += ['%s%s(1)' % (pad, f)]
      return out
    if k == 'asyncdef':
      f = self.fresh()
      names.append(f)
      body = r.choice(['await a', 'async with a as q:\n%s    pass' % pad,
                       'async for q in a:\n%s    pass' % pad, 'return a'])
      return ['%sasync def %s(a):' % (pad, f), '%s  %s' % (pad, body)]
    if k == 'gen':
      f = self.fresh()
      names.append(f)
      return ['%sdef %s():' % (pad, f), '%s  yield 1' % pad, '%s  yield from [2]' % pad,
              '%sprint(list(%s()))' % (pad, f)]
    if k == 'class':
      c = self.fresh()
      names.append(c)
      out = ['%sclass %s:' % (pad, c), '%s  z = %s' % (pad, e())]
      if r.chance(0.5):
        out += ['%s  def m(self):' % pad, '%s    return 1' % pad]
      return out
    if k == 'match':
      return ['%smatch %s:' % (pad, e()), '%s  case 1:' % pad, '%s    print("one")' % pad,
              '%s  case _:' % pad, '%s    pass' % pad]
    if k == 'with':
      return ['%swith CTX() as _c:' % pad] + self.block(list(names), depth - 1, indent + 1, 1, in_func, in_loop)
    if k == 'return':
      return ['%sreturn %s' % (pad, e())]
    if k == 'break':
      return [pad + 'break']
    if k == 'continue':
      return [pad + 'continue']
    raise AssertionError(k)

  def program(self):
    r = self.rng
    self.n = 0
    names = []
    lines = self.block(names, r.randint(0, 3), 0, r.randint(1, 4))
    # last statement: an expression ~45 % (the result path), otherwise whatever came
    if r.chance(0.45):
      lines.append(self.expr(names, 2))
    if r.chance(0.06):
      lines.append('raise RuntimeError("end")')
    return '\n'.join(lines)


# ------------------------------------------------------------------------------------------
# Slot grid: every syntactic position (outer construct with a hole) x every inner construct
# ------------------------------------------------------------------------------------------

EXPR_SLOTS = [
    '@<E>\ndef f():\n  pass', 'def f(a=<E>):\n  pass', 'def f(*, k=<E>):\n  pass', 'def f(a: <E>):\n  pass',
    'def f() -> <E>:\n  pass', 'class A(<E>):\n  pass', '@<E>\nclass A:\n  pass', 'f"{<E>}"', 'f"{1:{<E>}}"',
    '[1][<E>]', '[1][<E>:<E>]', '[*<E>]', '{**{E}}', '(<E>).real', 'print(<E>)', 'print(end=<E>)', 'print(*<E>)',
    'assert 1, <E>', 'assert <E>', 'raise ValueError(<E>)', 'raise ValueError() from <E>', 'with <E> as c:\n  pass',
    'for i in <E>:\n  break', 'while <E>:\n  break', 'if <E>:\n  pass', 'if 0:\n  pass\nelif <E>:\n  pass',
    'match 1:\n  case 1 if <E>:\n    pass', 'match <E>:\n  case _:\n    pass', 'lambda a=<E>: a', 'lambda: <E>',
    '[<E> for i in [1]]', '[i for i in <E>]', '[i for i in [1] if <E>]', '{i: <E> for i in [1]}', '(i for i in <E>)',
    'x = [0]\ndel x[<E>]', 'def f():\n  return <E>', 'def f():\n  yield <E>', 'def f():\n  yield from <E>',
    'async def f():\n  await <E>', 'x: <E> = 1', 'x: int = <E>', 'x = 1\nx += <E>', '(y := <E>)', 'x = <E>', 'x = y = <E>',
    '1 < <E> < 3', '1 and <E>', 'not <E>', '-<E>', '1 + <E>', '(<E> if 1 else 2)', '(1 if <E> else 2)', '(1 if 0 else <E>)',
    'try:\n  pass\nexcept <E>:\n  pass', '<E>', '[<E>]', '(<E>, 1)', '{1: {E}}', '{{E}}', 'x = [0]\nx[<E>] = 1',
    'x = [0]\nx[0] = <E>', 'for i in [1]:\n  pass\nelse:\n  <E>', 'print(1) if <E> else None', 'type X = <E>',
    # positions AFTER a None placeholder in a list-valued AST field (Dict.keys after `**`,
    # arguments.kw_defaults after a keyword-only parameter without default)
    '{**{}, <E>: 1}', '{**{}, 1: <E>}', '{**{}, **{}, <E>: 1}', 'def f(*, a, b=<E>):\n  pass',
    'def f(*, a, b, c=<E>):\n  pass', 'lambda *, a, b=<E>: 0', 'async def f(*, a, b=<E>):\n  pass',
    'def f(a, /, b=<E>):\n  pass', 'def f(*a, k=<E>, **kw):\n  pass', 'class A(metaclass=<E>):\n  pass',
    'print(*[], <E>)', 'print(**{}, end=<E>)', 'with CTX() as a, <E> as b:\n  pass', 'x = [0]\ndel x[0], x[<E>:]',
    'match 1:\n  case 2:\n    pass\n  case _ if <E>:\n    pass', 'global g\ng = <E>', 'f"{1}{<E>!r:>{<E>}}"',
]
STMT_SLOTS = [
    'if 1:\n<S>', 'if 0:\n  pass\nelse:\n<S>', 'if 0:\n  pass\nelif 1:\n<S>', 'for i in [1]:\n<S>',
    'for i in []:\n  pass\nelse:\n<S>', 'while 1:\n<S>\n  break', 'while 0:\n  pass\nelse:\n<S>',
    'try:\n<S>\nexcept ValueError:\n  pass', 'try:\n  raise ValueError()\nexcept ValueError:\n<S>',
    'try:\n  pass\nexcept ValueError:\n  pass\nelse:\n<S>', 'try:\n  pass\nfinally:\n<S>',
    'try:\n  pass\nexcept* ValueError:\n<S>', 'with CTX():\n<S>', 'def f():\n<S>\nf()', 'class A:\n<S>',
    'match 1:\n  case 1:\n  <S2>', 'async def f():\n<S>', 'def f():\n  def g():\n  <S2>\n  g()\nf()',
    'class A:\n  def m(self):\n  <S2>\nA().m()', 'if 1:\n  if 1:\n  <S2>',
]
INNER_EXPR = ['len("a")', '(lambda: 1)', '(w := 1)', 'NESTED()', 'EMIT("h")']
INNER_STMT = ['x = 1', 'x = 1\nx += 1', 'x: int = 1', '(x := 1)', 'if 1:\n  pass', 'match 1:\n  case _:\n    pass',
              'for i in []:\n  pass', 'while 0:\n  pass', 'len("a")', 'try:\n  pass\nexcept ValueError:\n  pass',
              'try:\n  pass\nexcept* ValueError:\n  pass', 'assert True', 'raise ValueError()', 'class B:\n  pass',
              'def h():\n  pass', 'async def h():\n  pass', 'lambda: 1', 'import math', 'from math import floor']


def _indent(text, n):
  return '\n'.join(' ' * n + l for l in text.split('\n'))


def slot_programs():
  for slot in EXPR_SLOTS:
    for inner in INNER_EXPR:
      yield slot.replace('<E>', inner), inner
  for slot in STMT_SLOTS:
    for inner in INNER_STMT:
      if '<S2>' in slot:
        code = slot.replace('  <S2>', _indent(inner, 4))
      else:
        code = slot.replace('<S>', _indent(inner, 2))
      yield code, inner


MALFORMED = ['x = = 1', 'def f(:\n  pass', 'if 1\n  x = 2', 'print((1)', 'for in x: pass', '1 +', 'class : pass']


def gen_perms(rng, code_kinds):
  """Permission subsets biased towards the interesting boundary: all-but-one of the flags the
  program needs, exactly the needed ones, empty, BASIC, ALL, random."""
  needed = sorted({REQUIRED[k] for k, _ in code_kinds if k in REQUIRED})
  k = rng.below(10)
  if k <= 2 and needed:
    drop = rng.choice(needed)
    return [f for f in FLAGS if f != drop]
  if k == 3:
    return list(needed)
  if k == 4 and needed:
    drop = rng.choice(needed)
    return [f for f in needed if f != drop]
  if k == 5:
    return []
  if k == 6:
    return ['ASSIGN', 'CALL']
  if k == 7:
    return list(FLAGS)
  return [f for f in FLAGS if rng.chance(0.6)]


# ------------------------------------------------------------------------------------------

def _canon_text(t):
  return None if t is None else re.sub(r' at 0x[0-9a-fA-F]+', ' at 0x?', t)   # addresses never cross the protocol


def _canon_value(v):
  if isinstance(v, str):
    return _canon_text(repr(v))
  if isinstance(v, (int, float, bool, type(None))):
    return repr(v)
  if isinstance(v, (list, tuple)):
    return [type(v).__name__] + [_canon_value(x) for x in v]
  if isinstance(v, dict):
    return ['dict'] + [[_canon_value(k), _canon_value(x)] for k, x in v.items()]
  if isinstance(v, (set, frozenset)):
    return ['set'] + sorted(_canon_text(repr(x)) for x in v)
  if isinstance(v, type):
    return '<class %s>' % v.__name__
  if callable(v):
    return '<callable %s>' % getattr(v, '__name__', '?')
  return '<%s>' % type(v).__name__


def _first_code_line(tb):
  for f in traceback.extract_tb(tb):
    if not f.filename or f.filename == '<string>':
      return f.lineno
  return None


def reference_run(code, extra=None):
  """Plain execution of the same text in a fresh namespace (the property's reference)."""
  sentinel = []
  g = {'SENTINEL': sentinel, 'CTX': contextlib.nullcontext}
  g.update(extra or {})
  orig = dict(g)
  tree = ast.parse(code)
  result_expr = False
  if tree.body and isinstance(tree.body[-1], ast.Expr):
    # capture the value of the final expression statement
    last = tree.body[-1]
    tree.body[-1] = ast.copy_location(
        ast.Assign([ast.Name('__result__', ast.Store())], last.value, lineno=last.lineno), last)
    ast.fix_missing_locations(tree)
    result_expr = True
  stdout = io.StringIO()
  try:
    with contextlib.redirect_stdout(stdout):
      exec(compile(tree, '', 'exec'), g)   # pylint: disable=exec-used
  except SyntaxError as e:  # raised by compile(): nothing was executed
    return {'outcome': 'raised', 'error': type(e).__name__, 'line': e.lineno, 'sentinel': list(sentinel)}
  except Exception as e:    # pylint: disable=broad-except
    return {'outcome': 'raised', 'error': type(e).__name__, 'line': _first_code_line(e.__traceback__),
            'sentinel': list(sentinel)}
  inter = {k: _canon_value(v) for k, v in g.items()
           if k not in ('__builtins__', '__result__') and (k not in orig or v is not orig[k])}
  out = {'outcome': 'ok', 'stdout': _canon_text(stdout.getvalue()), 'vars': inter, 'sentinel': list(sentinel)}
  if result_expr:
    out['result'] = _canon_value(g.get('__result__'))
  elif tree.body and isinstance(tree.body[-1], ast.Assign):
    t = tree.body[-1].targets[0]
    if isinstance(t, ast.Name):
      out['result'] = _canon_value(g.get(t.id))
  return out



# ---------------------------------------------------------------------------------------------
# The tail of evaluate on the small statement language of lean/PgModel/CodeTail.lean
# (op 'mini'): the real evaluate and plain exec on the rendered text, the Lean model on the AST.
MINI_NAMES = ['a', 'b', 'c', 'g0', 'g0', '__result__']


def mini_name(rng, defined):
  # mostly names that are bound at this point (a NameError ends the program early)
  if defined and rng.chance(0.9):
    return rng.choice(sorted(defined))
  return rng.choice(MINI_NAMES)


def mini_ex(rng, defined, depth=0):
  r = rng.below(20)
  if depth >= 2 or r < 6:
    return ['lit', rng.below(10)]
  if r < 12:
    return ['var', mini_name(rng, defined)]
  if r < 16:
    return ['add', mini_ex(rng, defined, depth + 1), mini_ex(rng, defined, depth + 1)]
  if r < 19:
    return ['print', mini_ex(rng, defined, depth + 1)]
  return ['none']


def mini_stmt(rng, defined):
  r = rng.below(10)
  if r < 4:
    ts = [rng.choice(MINI_NAMES) for _ in range(1 if rng.chance(0.7) else rng.randint(2, 3))]
    st = ['assign', ts, mini_ex(rng, defined)]
    defined.update(ts)
    return st
  if r < 7:
    return ['expr', mini_ex(rng, defined)]
  if r < 9:
    return ['aug', mini_name(rng, defined), mini_ex(rng, defined)]
  return ['pass']


def mini_render_ex(e):
  k = e[0]
  if k == 'lit':
    return str(e[1])
  if k == 'none':
    return 'None'
  if k == 'var':
    return e[1]
  if k == 'add':
    return '(%s + %s)' % (mini_render_ex(e[1]), mini_render_ex(e[2]))
  return 'print(%s)' % mini_render_ex(e[1])


def mini_render(prog):
  lines = []
  for st in prog:
    if st[0] == 'assign':
      lines.append(' = '.join(st[1]) + ' = ' + mini_render_ex(st[2]))
    elif st[0] == 'expr':
      lines.append(mini_render_ex(st[1]))
    elif st[0] == 'aug':
      lines.append('%s += %s' % (st[1], mini_render_ex(st[2])))
    else:
      lines.append('pass')
  return '\n'.join(lines)


def mini_val(v):
  return v if (v is None or (isinstance(v, int) and not isinstance(v, bool))) else repr(v)


class C19(Prop):
  id = 'C19'
  props_modules = ['PgProps.C19']
  driver = 'drv_c19'
  translators = [t_c19.run]
  case_timeout_s = 3
  rule = ('programs generated as source text from a statement/expression grammar (28 statement '
          'forms, 13 expression forms, nesting depth <= 3) plus a malformed stream, parsed by the '
          'real ast.parse; permission subsets biased to all-but-one-needed / exactly-needed / empty / '
          'BASIC / ALL / random; explicit argument and 0-3 nested scopes. Non-trivial: the program '
          'parses and contains at least one construct named by the property; distinct: by '
          '(code, explicit, scopes).')
  trusted_base = [
      'CPython ast.parse / compile / exec (the second half of the property is differential against them)',
      'harness wrapper around builtins.exec/eval to observe whether execution was reached',
      'hand-written specification table `required` (PgProps/C19.lean) = REQUIRED (harness/c19.py)',
      'modelled, not verified: the visitor, the scope manager and the head of evaluate (tied by '
      'T-AST/T-GATE extraction + correspondence); sandbox_call / run are outside the model',
      'modelled, not verified: the tail of evaluate (PgModel/CodeTail.lean) over the statement language ints/None, '
      'names, +, print, (multi-target) assignment, +=, pass; its plain semantics execAll is a hand-written big-step '
      'semantics of that fragment of Python, tied by running plain exec, pg.coding.evaluate and the model on the same '
      'generated programs (op mini / driver op tail); identity in the outputs filter is value inequality in the model',
  ]
  assumptions = ['NodeVisitor.visit dispatches every node without a visit_<Class> method to generic_visit',
                 'ast.iter_child_nodes enumerates exactly the children generic_visit descends into']

  def generate(self, rng, tier):
    n = 700 if tier == 'quick' else 60000
    pg = ProgGen(rng)
    for i in range(n):
      if rng.chance(0.04):
        code = rng.choice(MALFORMED)
      else:
        code = pg.program()
      try:
        tree = tree_of(ast.parse(code))
        kinds = kinds_of(tree)
      except SyntaxError:
        tree, kinds = None, []
      mode = rng.below(10)
      explicit, scopes = None, []
      if mode < 5:
        explicit = gen_perms(rng, kinds)
      elif mode < 7:
        scopes = [gen_perms(rng, kinds) for _ in range(rng.randint(1, 3))]
      elif mode < 9:
        explicit = gen_perms(rng, kinds)
        scopes = [gen_perms(rng, kinds) for _ in range(rng.randint(1, 2))]
      case = {'op': 'run', 'code': code, 'explicit': explicit, 'scopes': scopes, 'tree': tree}
      if rng.chance(0.3):
        case['pre'] = [gen_perms(rng, kinds) for _ in range(rng.randint(1, 2))]
      if rng.chance(0.3):
        # the other public entry point: pg.coding.run in the current process (sandbox=False), with
        # and without a timeout; it must gate and behave exactly like evaluate
        case['entry'] = rng.choice(['run', 'run_timeout'])
      yield case
    # every single construct x every single-flag-missing subset (small, exhaustive grid)
    singles = ['x = 1', 'x = 1\nx += 1', 'x: int = 1', '(x := 1)', 'if 1:\n  pass', 'match 1:\n  case _:\n    pass',
               'for i in []:\n  pass', 'while 0:\n  pass', 'len("a")', 'try:\n  pass\nexcept ValueError:\n  pass',
               'try:\n  pass\nexcept* ValueError:\n  pass', 'assert True', 'class A:\n  pass',
               'def f():\n  pass', 'async def f():\n  pass', 'lambda: 1', 'import math', 'from math import floor',
               'async def f(a):\n  async for q in a:\n    pass']
    # the slot grid: every inner construct in every syntactic position, with exactly its own flag
    # withdrawn (must be refused) and with everything granted (must behave like plain execution)
    grid = list(slot_programs())
    for code, inner in grid:
      try:
        parsed = ast.parse(code)
      except SyntaxError:
        continue
      tree = tree_of(parsed)
      inner_kinds = [k for k, _ in kinds_of(tree_of(ast.parse(inner))) if k in REQUIRED]
      flag = REQUIRED[inner_kinds[0]] if inner_kinds else 'CALL'
      yield {'op': 'run', 'code': code, 'explicit': [f for f in FLAGS if f != flag], 'scopes': [], 'tree': tree}
      yield {'op': 'run', 'code': code, 'explicit': None, 'scopes': [list(FLAGS)], 'tree': tree}
    for code in singles:
      tree = tree_of(ast.parse(code))
      kinds = [k for k, _ in kinds_of(tree) if k in REQUIRED]
      flag = REQUIRED[kinds[0]] if kinds else 'CALL'
      for entry in ('run', 'run_timeout'):
        # the flag withdrawn by the scope only / by the explicit argument only / by a scope while
        # the explicit argument grants everything
        yield {'op': 'run', 'code': code, 'explicit': None, 'scopes': [[f for f in FLAGS if f != flag]],
               'tree': tree, 'entry': entry}
        yield {'op': 'run', 'code': code, 'explicit': [f for f in FLAGS if f != flag], 'scopes': [],
               'tree': tree, 'entry': entry}
        yield {'op': 'run', 'code': code, 'explicit': list(FLAGS), 'scopes': [[f for f in FLAGS if f != flag]],
               'tree': tree, 'entry': entry}
    for code in singles:
      tree = tree_of(ast.parse(code))
      if tier == 'thorough':      # all 256 permission subsets, as explicit argument and as scope
        for mask in range(256):
          sub = [f for i, f in enumerate(FLAGS) if mask >> i & 1]
          yield {'op': 'run', 'code': code, 'explicit': sub, 'scopes': [], 'tree': tree}
          yield {'op': 'run', 'code': code, 'explicit': None, 'scopes': [sub], 'tree': tree}
      for drop in FLAGS:
        yield {'op': 'run', 'code': code, 'explicit': [f for f in FLAGS if f != drop], 'scopes': [], 'tree': tree}
      yield {'op': 'run', 'code': code, 'explicit': [], 'scopes': [], 'tree': tree}
      yield {'op': 'run', 'code': code, 'explicit': list(FLAGS), 'scopes': [[]], 'tree': tree}
    # the tail of evaluate against the Lean model of it (and against plain exec)
    for i in range(400 if tier == 'quick' else 20000):
      ctx = [['g0', rng.below(10)]]
      if rng.chance(0.3):
        ctx.append(['a', rng.choice([None, rng.below(10)])])
      defined = {k for k, _ in ctx}
      prog = [mini_stmt(rng, defined) for _ in range(rng.randint(1, 6))]
      case = {'op': 'mini', 'prog': prog, 'ctx': ctx, 'code': mini_render(prog)}
      if rng.chance(0.5):
        # head and tail together: an explicit permission and / or an enclosing scope
        def sub():
          k = rng.below(5)
          if k == 0:
            return list(FLAGS)
          if k == 1:
            return [f for f in FLAGS if f != 'ASSIGN']
          if k == 2:
            return [f for f in FLAGS if f != 'CALL']
          if k == 3:
            return ['ASSIGN', 'CALL']
          return [f for f in FLAGS if rng.chance(0.5)]
        m = rng.below(3)
        case['explicit'] = sub() if m != 1 else None
        case['scopes'] = [sub()] if m != 0 else []
      yield case

  def model_request(self, case):
    if case.get('op') == 'mini':
      req = {'op': 'tail', 'prog': case['prog'], 'ctx': case['ctx']}
      if 'scopes' in case:
        req['explicit'], req['scopes'] = case['explicit'], case['scopes']
      return req
    case = self.with_tree(case)
    if case.get('tree') is None:
      return None
    return {'op': 'evaluate', 'explicit': case['explicit'], 'scopes': case['scopes'],
            'pre': case.get('pre', []), 'tree': case['tree']}

  def with_tree(self, case):
    if 'tree' in case:
      return case
    case = dict(case)
    try:
      case['tree'] = tree_of(ast.parse(case['code']))
    except SyntaxError:
      case['tree'] = None
    return case

  def impl_mini(self, case):
    from pyglove.core import coding
    code = mini_render(case['prog'])
    ctx = {k: v for k, v in case['ctx']}

    def run(f):
      g = {'__builtins__': builtins.__dict__}
      g.update(ctx)
      try:
        return f(g)
      except coding.CodeError as e:
        return {'outcome': 'error', 'error': type(e.cause).__name__}
      except Exception as e:   # pylint: disable=broad-except
        return {'outcome': 'error', 'error': type(e).__name__, 'unwrapped': True}

    P = coding.CodePermission

    def perm(names):
      if names is None:
        return None
      p = P(0)
      for n in names:
        p |= P[n]
      return p

    def real(g):
      try:
        with contextlib.ExitStack() as stack:
          for sc_ in case.get('scopes', []):
            stack.enter_context(coding.permission(perm(sc_)))
          out = coding.evaluate(code, global_vars=g, permission=perm(case.get('explicit')),
                                outputs_intermediate=True)
      except coding.CodeError as e:
        if isinstance(e.cause, SyntaxError):
          return {'outcome': 'rejected', 'line': e.lineno}
        raise
      stdout = out.pop('__stdout__')
      result = out.pop('__result__', None)
      return {'outcome': 'ok', 'result': mini_val(result),
              'vars': [[k, mini_val(v)] for k, v in out.items()],
              'stdout': stdout.split('\n')[:-1]}

    def plain(g):
      stdout = io.StringIO()
      with contextlib.redirect_stdout(stdout):
        exec(compile(code, '', 'exec'), g)   # pylint: disable=exec-used
      return {'outcome': 'ok',
              'vars': [[k, mini_val(v)] for k, v in g.items()
                       if k not in ('__builtins__', '__result__') and (k not in ctx or v is not ctx[k])],
              'stdout': stdout.getvalue().split('\n')[:-1]}

    obs, ref = run(real), run(plain)
    if obs.get('outcome') == 'ok':
      obs['vars'] = [kv for kv in obs['vars'] if kv[0] != '__result__']
    return {'obs': obs, 'ref': ref}

  def impl(self, case):
    if case.get('op') == 'mini':
      return self.impl_mini(case)
    case = self.with_tree(case)
    from pyglove.core import coding
    P = coding.CodePermission

    def perm(names):
      if names is None:
        return None
      p = P(0)
      for n in names:
        p |= P[n]
      return p

    def names_of(p):
      return None if p is None else [f for f in FLAGS if p & P[f]]

    code = case['code']
    sentinel = []
    reached = []
    real_exec, real_eval, real_compile = builtins.exec, builtins.eval, builtins.compile

    def compile_w(source, filename, mode, flags=0, dont_inherit=False, *a, **k):
      if isinstance(source, ast.AST):     # evaluate compiles the validated tree: validation is over
        reached.append('compile')
      if not dont_inherit:
        # the builtin inherits the __future__ flags of the CALLING code; a wrapper would hide them
        flags |= sys._getframe(1).f_code.co_flags & FUTURE_MASK
      return real_compile(source, filename, mode, flags, True, *a, **k)

    def exec_w(*a, **k):
      reached.append('exec')
      return real_exec(*a, **k)

    def eval_w(*a, **k):
      reached.append('eval')
      return real_eval(*a, **k)

    def emit(x):
      # a host helper that writes to the process's stdout (not the program's own bare print)
      sys.stdout.write('%s\n' % (x,))

    def nested():
      # a program whose run-time error is itself a CodeError (raised by a nested evaluation on its
      # line 2): the outer error must carry THAT error as its cause and the OUTER position
      return coding.evaluate('1\n2 / 0')

    obs = {}
    slot_inside = None
    # The exception of a refused / failing program PROPAGATES THROUGH the permission scopes (it is
    # caught outside them), so that a scope that only cleans up on normal exit is observed.
    try:
      with contextlib.ExitStack() as stack:
        for s in case['scopes']:
          stack.enter_context(coding.permission(perm(s)))
        for s in case.get('pre', []):          # inner scopes entered and left before the call
          with coding.permission(perm(s)):
            pass
        slot_inside = names_of(coding.get_permission())
        builtins.exec, builtins.eval, builtins.compile = exec_w, eval_w, compile_w
        try:
          entry = case.get('entry', 'evaluate')
          gv = {'SENTINEL': sentinel, 'CTX': contextlib.nullcontext, 'NESTED': nested, 'EMIT': emit}
          if entry == 'evaluate':
            out = coding.evaluate(code, global_vars=gv, permission=perm(case['explicit']),
                                  outputs_intermediate=True)
          else:
            out = coding.run(code, global_vars=gv, permission=perm(case['explicit']),
                             outputs_intermediate=True, sandbox=False,
                             timeout=(30.0 if entry == 'run_timeout' else None))
        finally:
          builtins.exec, builtins.eval, builtins.compile = real_exec, real_eval, real_compile
        obs = {'outcome': 'ok', 'stdout': _canon_text(out.pop('__stdout__', None)),
               'result': _canon_value(out.pop('__result__', None)),
               'vars': {k: _canon_value(v) for k, v in out.items()}}
    except coding.CodeError as e:
      obs = {'outcome': 'code_error', 'cause': type(e.cause).__name__, 'line': e.lineno,
             'cause_is_syntax': isinstance(e.cause, SyntaxError)}
    except Exception as e:   # pylint: disable=broad-except
      obs = {'outcome': 'other_error', 'cause': type(e).__name__}
    slot_after = names_of(coding.get_permission())
    obs['reached'] = bool([r for r in reached if r != 'compile'])   # something was executed
    obs['validated'] = bool(reached)                                 # validation was passed
    obs['sentinel'] = list(sentinel)
    if obs['outcome'] == 'code_error' and not obs['validated']:
      result = {'outcome': 'rejected', 'line': obs['line']}
    else:
      result = {'outcome': 'runs'}
    ref = None
    if case.get('tree') is not None:
      ref = reference_run(code, {'NESTED': nested, 'EMIT': emit})
    return {'model': {'result': result, 'slot_inside': slot_inside, 'slot_after': slot_after},
            'obs': obs, 'ref': ref}

  def compare(self, case, impl_out, model_out):
    if case.get('op') == 'mini':
      a = dict(impl_out['obs'])
      b = dict(model_out)
      if b.get('outcome') == 'ok':
        b['stdout'] = [str(v) for v in b['stdout']]
      if case['prog'] and case['prog'][-1][0] in ('aug', 'pass') and a.get('outcome') == 'ok':
        pass      # the fall-back result (last value of the globals dict) is compared too
      if a != b:
        return 'impl=%s model=%s' % (a, b)
      return None
    a = impl_out['model']
    b = {k: model_out.get(k) for k in ('result', 'slot_inside', 'slot_after')}
    if case.get('tree') is None:
      return None
    if a != b:
      return 'impl=%s model=%s' % (a, b)
    return None

  # -- the property itself ------------------------------------------------------------------
  def granted(self, case):
    """The permission set the property says is in force (None: unrestricted)."""
    e, scopes = case['explicit'], case['scopes']
    if e is None and not scopes:
      return None
    if e is None:
      return set(scopes[0])
    if not scopes:
      return set(e)
    return set(e) & set(scopes[0])

  def oracle_mini(self, case, out):
    obs, ref = out['obs'], out['ref']
    if 'scopes' in case:
      granted = self.granted({'explicit': case['explicit'], 'scopes': case['scopes']})
      if granted is not None:
        def has_call(e):
          return e[0] == 'print' or any(has_call(x) for x in e[1:] if isinstance(x, list) and x and isinstance(x[0], str))
        needs = set()
        for st in case['prog']:
          if st[0] in ('assign', 'aug'):
            needs.add('ASSIGN')
          if st[0] != 'pass' and has_call(st[-1]):
            needs.add('CALL')
        if needs - granted:
          if obs.get('outcome') != 'rejected':
            return {'signature': 'ungated:' + ('Assign' if 'ASSIGN' in needs - granted else 'Call'),
                    'what': 'the program needs %s, granted=%s, but it was not refused: %s' % (
                        sorted(needs - granted), sorted(granted), obs)}
          return None
      if obs.get('outcome') == 'rejected':
        return None      # stricter gating than the property demands: compared with the model, never a violation
    if obs.get('unwrapped'):
      return {'signature': 'error-not-wrapped', 'what': 'evaluate raised a bare %s' % obs['error']}
    if ref['outcome'] == 'error':
      if obs['outcome'] != 'error' or obs['error'] != ref['error']:
        return {'signature': 'error-not-wrapped', 'what': 'plain exec raises %s; evaluate: %s' % (ref['error'], obs)}
      return None
    if obs['outcome'] != 'ok':
      return {'signature': 'spurious-error', 'what': 'plain exec succeeds; evaluate: %s' % obs}
    diffs = []
    if obs['stdout'] != ref['stdout']:
      diffs.append('stdout %r vs %r' % (obs['stdout'], ref['stdout']))
    if obs['vars'] != ref['vars']:
      diffs.append('intermediate variables %r vs %r' % (obs['vars'], ref['vars']))
    if diffs:
      return {'signature': 'differs-from-plain-exec:last=' + case['prog'][-1][0].capitalize(),
              'what': '; '.join(diffs)}
    return None

  def oracle(self, case, out):
    if case.get('op') == 'mini':
      return self.oracle_mini(case, out)
    case = self.with_tree(case)
    obs, ref = out['obs'], out['ref']
    granted = self.granted(case)
    if out['model']['slot_after'] is not None:
      return {'signature': 'scope-not-restored', 'what': 'get_permission() after leaving all scopes = %s'
              % out['model']['slot_after']}
    if case['scopes'] and out['model']['slot_inside'] != [f for f in FLAGS if f in case['scopes'][0]]:
      return {'signature': 'scope-not-outermost',
              'what': 'inside nested scopes get_permission() = %s, outermost = %s' % (
                  out['model']['slot_inside'], case['scopes'][0])}
    if case.get('tree') is None:
      if obs['outcome'] != 'code_error' or obs['reached']:
        return {'signature': 'malformed-not-code-error', 'what': 'unparsable text: %s' % obs}
      return None
    kinds = kinds_of(case['tree'])
    forbidden = []
    if granted is not None:
      forbidden = [(k, l) for k, l in kinds if k in REQUIRED and REQUIRED[k] not in granted]
    if forbidden:
      if obs['outcome'] == 'code_error' and not obs['reached'] and obs['cause_is_syntax']:
        return None
      k = forbidden[0][0]
      e, scopes = case['explicit'], case['scopes']
      if e is not None and not e:
        sig = 'empty-explicit-permission-ignored'
      elif e is not None and scopes and REQUIRED[k] in e and REQUIRED[k] not in scopes[0]:
        sig = 'explicit-argument-widens-scope'
      else:
        sig = 'ungated:' + k
      return {'signature': sig,
              'what': '%s (line %d) needs %s, which is not granted (granted=%s), but the program was not '
                      'refused before execution: %s' % (k, forbidden[0][1], REQUIRED[k], sorted(granted), obs)}
    # Only granted constructs (w.r.t. the property's table).
    if obs['outcome'] == 'code_error' and not obs['validated']:
      return None     # stricter gating than the property demands: reported, never a violation
    if ref['outcome'] == 'raised':
      if obs['outcome'] != 'code_error' or obs['cause'] != ref['error']:
        return {'signature': 'error-not-wrapped', 'what': 'plain exec raises %s at line %s; evaluate: %s'
                % (ref['error'], ref['line'], obs)}
      if obs['line'] != ref['line']:
        return {'signature': 'error-line', 'what': 'plain exec raises at line %s, CodeError.lineno=%s'
                % (ref['line'], obs['line'])}
      return None
    if obs['outcome'] != 'ok':
      return {'signature': 'spurious-error', 'what': 'plain exec succeeds; evaluate: %s' % obs}
    last = case['tree'][2][-1][0] if case['tree'][2] else None
    diffs = []
    if obs['stdout'] != ref['stdout']:
      diffs.append('stdout %r vs %r' % (obs['stdout'], ref['stdout']))
    if obs['sentinel'] != ref['sentinel']:
      diffs.append('side effects %r vs %r' % (obs['sentinel'], ref['sentinel']))
    if obs['vars'] != ref['vars']:
      ks = sorted(k for k in set(obs['vars']) | set(ref['vars']) if obs['vars'].get(k) != ref['vars'].get(k))
      diffs.append('intermediate variables differ at %s: %s vs %s' % (
          ks, {k: obs['vars'].get(k) for k in ks}, {k: ref['vars'].get(k) for k in ks}))
    if 'result' in ref and obs['result'] != ref['result']:
      diffs.append('result %r vs %r' % (obs['result'], ref['result']))
    if diffs:
      return {'signature': 'differs-from-plain-exec:last=' + str(last), 'what': '; '.join(diffs)}
    return None

  def nontrivial(self, case, out):
    if case.get('op') == 'mini':
      return len(case['prog']) >= 2
    return case.get('tree') is not None and any(k in REQUIRED for k, _ in kinds_of(case['tree']))

  def describe(self, case, out):
    if case.get('op') == 'mini':
      return ['mini', 'mini-perm:' + ('none' if 'scopes' not in case else
                                    ('explicit' if case['explicit'] is not None else '') + ('+scope' if case['scopes'] else '')),
            'mini-last:' + case['prog'][-1][0], 'mini-outcome:' + out['obs'].get('outcome', '?') +
              (':' + out['obs']['error'] if out['obs'].get('outcome') == 'error' else '')]
    h = []
    obs = out['obs']
    h.append('outcome:' + out['model']['result']['outcome'])
    h.append('mode:%s%s' % ('explicit' if case['explicit'] is not None else '',
                            '+scopes%d' % len(case['scopes']) if case['scopes'] else ''))
    if case.get('tree') is None:
      h.append('malformed')
      return h
    kinds = kinds_of(case['tree'])
    granted = self.granted(case)
    if granted is not None:
      if any(k in REQUIRED and REQUIRED[k] not in granted for k, _ in kinds):
        h.append('has-forbidden-construct')
      elif obs['outcome'] == 'code_error' and not obs['validated']:
        h.append('strict-reject(not a violation)')
      if any(k in REQUIRED_STRICT and REQUIRED_STRICT[k] not in granted for k, _ in kinds):
        h.append('debatable-construct-ungranted')
    for k in sorted({k for k, _ in kinds if k in REQUIRED}):
      h.append('construct:' + k)
    if out['ref'] and out['ref']['outcome'] == 'raised':
      h.append('program-raises')
    return h

  def shrink_candidates(self, case):
    if case.get('op') == 'mini':
      for i in range(len(case['prog'])):
        if len(case['prog']) > 1:
          c = dict(case)
          c['prog'] = case['prog'][:i] + case['prog'][i + 1:]
          c['code'] = mini_render(c['prog'])
          yield c
      return
    lines = case['code'].split('\n')
    for i in range(len(lines)):
      if lines[i].strip() == 'break' or '+ 1' in lines[i]:
        continue      # never drop what makes a loop terminate
      cand = lines[:i] + lines[i + 1:]
      code = '\n'.join(cand)
      if not code.strip():
        continue
      try:
        tree = tree_of(ast.parse(code))
      except SyntaxError:
        continue
      c = dict(case)
      c['code'], c['tree'] = code, tree
      yield c
    if len(case['scopes']) > 1:
      c = dict(case)
      c['scopes'] = case['scopes'][:1]
      yield c

  def extra_checks(self, ctx):
    """T-GATE cross-check: the extracted table must predict `parse` on single-construct programs
    (done through the ordinary correspondence on the exhaustive grid at the end of generate)."""


PROP = C19()
