"""C09 — change notification contract and freshness of derived state.

Case shape (self-contained JSON):
  {"tree": T, "steps": [STEP, ...]}
  T    = int | str | null | {"k": "dict"|"list"|"obj", "id": n, "sub": bool, "items": [[key, T], ...]}
         (list keys are 0..n-1; obj keys are the fields x, y, z; `sub`: the Dict/List has an
         onchange_callback / the Object's class overrides `_on_change`)
  STEP = {"recv": [key, ...], "notify": bool, "call": {"name": setkey|delkey|append|rebind|update|
          clear|reverse|popitem, ...}}          (notify=false: inside pg.notify_on_change(False))
Protocol: before the first step and after every step *every* derived fact (is_partial,
sym_missing(), sym_nondefault(), sym_puresymbolic, is_deterministic) of *every* symbolic node is read
through the public accessors (so all memoised values are filled) and compared with a recomputation on
`pg.from_json(pg.to_json(root))`. Handlers append (receiver, entries) to a log.
"""

import contextlib
import json

from harness.common.framework import Prop
from translate import t_c09

FIELDS = ['x', 'y', 'z']
DKEYS = ['a', 'b', 'c', 'd']
MISSING = {'missing': True}
NEG_DEL_OK = [True]      # fixes/C09-F112.patch: `del l[-1]` reports the position (before: the key path [-1])
_CLS = {}
LOG = []
BOUND = []      # ids of the objects whose overridden _on_bound ran
OBJ_IDS = {}
_KEEP = []
_EXT = [None]   # forest cases: the second tree (pg.Ref items of the first tree point into it)


def classes():
  if not _CLS:
    import pyglove as pg

    class C09Plain(pg.Object):        # default handler: does not subscribe
      allow_symbolic_assignment = True
      x: pg.typing.Any(default=None)
      y: pg.typing.Any(default=None)
      z: pg.typing.Any(default=None)

    class C09Mid(C09Plain):           # an intermediate class that does not override the handler either
      pass

    class C09Sub(C09Mid):             # only this class of the hierarchy overrides the change handler
      def _on_change(self, field_updates):
        on_event(OBJ_IDS.get(id(self)), field_updates)
        return super()._on_change(field_updates)

      def _on_bound(self):
        BOUND.append(OBJ_IDS.get(id(self)))
        super()._on_bound()

    class C09Req(pg.Object):          # a required field (partial values), for the facts stream
      allow_symbolic_assignment = True
      r: pg.typing.Int()
      x: pg.typing.Any(default=None)

    class C09Pure(pg.PureSymbolic, pg.Object):   # a placeholder value
      pass

    class C09Inner(pg.Object):        # an object used as a field value that has a default
      allow_symbolic_assignment = True
      k: pg.typing.Any(default=1)
      m: pg.typing.Any(default=None)

    class C09Def(pg.Object):          # fields whose defaults are containers: sym_nondefault() diffs against
      allow_symbolic_assignment = True  # them without asking the children for their own memoised facts
      d: pg.typing.Dict([
          ('a', pg.typing.Dict([('k', pg.typing.Any(default=1)), ('j', pg.typing.Any(default=None)),
                                ('e', pg.typing.Dict([('u', pg.typing.Any(default=2)), ('w', pg.typing.Any(default=None))]))])),
          ('b', pg.typing.Any(default=0))])
      o: pg.typing.Object(C09Inner).set_default(C09Inner())
      x: pg.typing.Any(default=None)

    class C09InnerSub(C09Inner):      # typed objects that override the handlers
      def _on_change(self, field_updates):
        on_event(OBJ_IDS.get(id(self)), field_updates)
        return super()._on_change(field_updates)

      def _on_bound(self):
        BOUND.append(OBJ_IDS.get(id(self)))
        super()._on_bound()

    class C09DefSub(C09Def):
      def _on_change(self, field_updates):
        on_event(OBJ_IDS.get(id(self)), field_updates)
        return super()._on_change(field_updates)

      def _on_bound(self):
        BOUND.append(OBJ_IDS.get(id(self)))
        super()._on_bound()

    class C09Chk(pg.Object):          # fields that REJECT values: a fixed nested schema with a bounded Int, an object field
      allow_symbolic_assignment = True
      opt: pg.typing.Dict([('lr', pg.typing.Any(default=1)), ('n', pg.typing.Int(min_value=0, default=0))])
      o: pg.typing.Object(C09Inner).set_default(C09Inner())
      x: pg.typing.Any(default=None)

    class C09ChkSub(C09Chk):
      def _on_change(self, field_updates):
        on_event(OBJ_IDS.get(id(self)), field_updates)
        return super()._on_change(field_updates)

      def _on_bound(self):
        BOUND.append(OBJ_IDS.get(id(self)))
        super()._on_bound()

    _CLS.update(chk=C09Chk, chksub=C09ChkSub)
    _CLS.update(sub=C09Sub, plain=C09Plain, mid=C09Mid, req=C09Req, pure=C09Pure, inner=C09Inner,
                innersub=C09InnerSub, defsub=C09DefSub)
    _CLS['def'] = C09Def
  return _CLS


# ------------------------------------------------------------------------------------------
# JSON tree helpers and a contents-only mirror of the operations (used by the generator only)
# ------------------------------------------------------------------------------------------

def is_node(t):
  return isinstance(t, dict) and 'k' in t


def get_at(t, path):
  for k in path:
    if not is_node(t):
      return None
    for kk, c in t['items']:
      if kk == k:
        t = c
        break
    else:
      return None
  return t


def all_nodes(t, path=()):
  out = []
  if is_node(t):
    out.append((list(path), t))
    for k, c in t['items']:
      out += all_nodes(c, path + (k,))
  return out


def fresh(kind, items):
  if kind == 'list':
    items = [[i, v] for i, v in enumerate(items)]
  return {'k': kind, 'id': 0, 'sub': False, 'items': items}


def obj_free(t):
  return not is_node(t) or (t['k'] != 'obj' and all(obj_free(c) for _, c in t['items']))


def is_missing(v):
  return isinstance(v, dict) and bool(v.get('missing'))


def mirror_write(node, key, v):
  """-> did the write change anything (an update is reported)?"""
  for i, it in enumerate(node['items']):
    if it[0] == key:
      if is_missing(v):
        if node['k'] == 'list':
          if is_missing(it[1]):
            return False
          it[1] = MISSING            # a placeholder, dropped by the list's change handler (if it runs)
        else:
          del node['items'][i]
        return True
      same = (not is_node(it[1]) and not is_node(v) and not is_missing(it[1]) and it[1] == v and type(it[1]) == type(v))
      it[1] = v
      return not same
  if is_missing(v):
    return False
  if node['k'] == 'list':
    key = len(node['items'])
  node['items'].append([key, v])
  return True


def purge_chains(t, paths):
  """What the change handlers of the lists on the way to the updated nodes do: drop MISSING_VALUE
  placeholders and re-index (deepest nodes first: the keys of `paths` are the ones before the purge)."""
  prefixes = {tuple(p[:i]) for p in paths for i in range(len(p) + 1)}
  for pre in sorted(prefixes, key=len, reverse=True):
    n = get_at(t, list(pre))
    if is_node(n) and n['k'] == 'list' and any(is_missing(v) for _, v in n['items']):
      n['items'] = [[i, v] for i, v in enumerate(v for _, v in n['items'] if not is_missing(v))]


def mirror(t, step):
  """Applies the step to the JSON tree (contents only; used to keep later receivers valid)."""
  if 'read' in step:
    return
  node = get_at(t, step['recv'])
  c = step['call']
  n = c['name']
  notified = bool(step.get('notify', True)) and not c.get('skip') and n != 'update'
  if n == 'rebind':
    pairs = c['pairs']
    if node['k'] == 'list':       # List._sym_rebind applies the pairs in descending path order
      pairs = sorted(pairs, key=lambda pv: key_cmp_tuple(pv[0]), reverse=True)
    changed = [mirror_write(get_at(node, p[:-1]), p[-1], v) for p, v in pairs]
    if notified and any(changed):
      purge_chains(t, [step['recv'] + p[:-1] for (p, _), ch in zip(pairs, changed) if ch])
    return
  before = json.dumps(node)
  _mirror_call(node, c, n)
  if notified and json.dumps(node) != before:
    purge_chains(t, [step['recv']])


def _mirror_call(node, c, n):
  if n == 'setkey':
    mirror_write(node, c['key'], c['v'])
  elif n == 'delkey':
    node['items'] = [it for it in node['items'] if it[0] != c['key']]
  elif n == 'append':
    node['items'].append([len(node['items']), c['v']])
  elif n == 'extend':
    for v in c['vs']:
      node['items'].append([len(node['items']), v])
  elif n == 'rebind':
    pairs = c['pairs']
    if node['k'] == 'list':       # List._sym_rebind applies the pairs in descending path order
      pairs = sorted(pairs, key=lambda pv: key_cmp_tuple(pv[0]), reverse=True)
    for p, v in pairs:
      mirror_write(get_at(node, p[:-1]), p[-1], v)
  elif n == 'update':
    for k, v in c['kvs']:
      mirror_write(node, k, v)
  elif n == 'clear':
    node['items'] = []
  elif n == 'reverse':
    vals = [v for _, v in node['items']][::-1]
    node['items'] = [[i, v] for i, v in enumerate(vals)]
  elif n == 'sort':
    vals = sorted(v for _, v in node['items']) if len(node['items']) > 1 else [v for _, v in node['items']]
    node['items'] = [[i, v] for i, v in enumerate(vals)]
  elif n == 'popitem':
    node['items'] = node['items'][:-1]
  elif n in LIST_EDITS:
    r = list_edit([v for _, v in node['items']], c)
    if r is not None:
      node['items'] = [[i, v] for i, v in enumerate(r[0])]


def list_edit(vals, c, is_node=None):
  """Python list semantics of the position-shifting calls on plain values. -> (new values,
  [(position, old, new)] as the contract wants them reported), or None when the call raises.
  MISSING stands for "no value"."""
  is_node = is_node or globals()['is_node']
  def same_atom(a, b):
    """`old is new` for the atoms the generator uses (None, small ints, interned 1-char strs)."""
    return not is_node(a) and not is_node(b) and a == b and type(a) == type(b)
  n = c['name']
  vals = list(vals)
  L = len(vals)
  if n == 'insert':
    i = c['i']
    p = max(0, i + L) if i < 0 else min(i, L)
    return vals[:p] + [c['v']] + vals[p:], [(p, MISSING, c['v'])]
  if n == 'delidx':
    i = c['i']
    if i < -L or i >= L:
      return None
    j = i + L if i < 0 else i
    return vals[:j] + vals[j + 1:], [(j, vals[j], MISSING)]
  if n == 'remove':
    for j, x in enumerate(vals):
      if not is_node(x) and x == c['atom'] and type(x) == type(c['atom']):
        return vals[:j] + vals[j + 1:], [(j, x, MISSING)]
    return None
  if n == 'delslice':
    if c.get('step') == 0:
      return None
    ps = list(range(*slice(c.get('a'), c.get('b'), c.get('step')).indices(L)))
    return [x for j, x in enumerate(vals) if j not in ps], [(p_, vals[p_], MISSING) for p_ in sorted(ps, reverse=True)]
  if n == 'setslice':
    if c.get('step') == 0:
      return None
    start, stop, step = slice(c.get('a'), c.get('b'), c.get('step')).indices(L)
    vs = c['vs']
    if step == 1:
      size = max(0, stop - start)
      ents = []
      for i in range(max(size, len(vs))):
        if i < size and i < len(vs):
          if not same_atom(vals[start + i], vs[i]):
            ents.append((start + i, vals[start + i], vs[i]))
        elif i < len(vs):
          ents.append((start + i, MISSING, vs[i]))
        else:
          ents.append((start + i, vals[start + i], MISSING))
      return vals[:start] + vs + vals[start + size:], ents
    ps = list(range(start, stop, step))
    if len(ps) != len(vs):
      return None
    out = list(vals)
    ents = []
    for p_, v in sorted(zip(ps, vs), key=lambda e: e[0]):
      if not same_atom(vals[p_], v):
        ents.append((p_, vals[p_], v))
      out[p_] = v
    return out, ents
  if n == 'clear' or (n == 'imul' and c['k'] <= 0):
    return [], [(i, x, MISSING) for i, x in enumerate(vals)]
  if n in ('reverse', 'sort'):
    if n == 'reverse':
      new = vals[::-1]
      src = lambda i: L - 1 - i
    else:
      if L > 1 and not all(isinstance(x, int) and not isinstance(x, bool) for x in vals):
        return None
      if L <= 1:
        return list(vals), []
      new = sorted(vals)
      src = lambda i: -1
    return new, [(i, vals[i], new[i]) for i in range(L) if not (src(i) == i or same_atom(vals[i], new[i]))]
  if n == 'imul':
    k = c['k']
    copies = [x for _ in range(k - 1) for x in vals]
    return vals + copies, [(L + i, MISSING, x) for i, x in enumerate(copies)]
  raise AssertionError(n)


LIST_EDITS = ('insert', 'delidx', 'remove', 'delslice', 'setslice', 'imul')
LIST_MOVES = ('reverse', 'sort')


def key_cmp_tuple(path):
  """KeyPath ordering for paths whose first key is a list index (value_location.py)."""
  return [(0, k, '') if isinstance(k, int) else (1, 0, k) for k in path]


# ------------------------------------------------------------------------------------------
# Real-implementation side
# ------------------------------------------------------------------------------------------

def literal(x, ext):
  """`{'from_ext': path}` (the node at that path of the second tree, handed in as it is) -> a copy of that
  sub-tree: what the receiving container ends up holding."""
  if isinstance(x, dict) and 'from_ext' in x:
    return json.loads(json.dumps(get_at(ext, x['from_ext'])))
  if isinstance(x, list):
    return [literal(y, ext) for y in x]
  if isinstance(x, dict):
    return {k: literal(v, ext) for k, v in x.items()}
  return x


def build(t):
  import pyglove as pg
  cls = classes()
  if isinstance(t, dict) and 'from_ext' in t:
    return navigate(_EXT[0], t['from_ext'])      # a node that BELONGS TO THE OTHER TREE, handed in as it is
  if not is_node(t):
    if isinstance(t, dict) and t.get('missing'):
      return pg.MISSING_VALUE
    if isinstance(t, dict) and t.get('pure'):
      return cls['pure']()
    if isinstance(t, dict) and t.get('oneof'):
      return pg.oneof(t['oneof'])
    return t
  nid = t.get('id', 0)
  cb = None
  if t.get('ref') is not None:
    return pg.Ref(navigate(_EXT[0], t['ref']))      # a reference to a node of the OTHER tree
  if t.get('sub') and t['k'] != 'obj':
    cb = lambda updates, _id=nid: on_event(_id, updates)
  if t['k'] == 'list':
    v = pg.List([build(c) for _, c in t['items']], onchange_callback=cb)
  elif t['k'] == 'dict':
    v = pg.Dict({k: build(c) for k, c in t['items']}, onchange_callback=cb)
  elif t['k'] in ('def', 'inner', 'chk'):
    v = cls[t['k'] + ('sub' if t.get('sub') else '')](**{k: build(c) for k, c in t['items']})
    OBJ_IDS[id(v)] = nid
    _KEEP.append(v)        # alive until the case ends: a Python id is never reused within a case
  elif t['k'] == 'req':
    v = cls['req'].partial(**{k: build(c) for k, c in t['items'] if not (isinstance(c, dict) and c.get('missing'))})
  else:
    # non-subscribing objects alternate between the base class and the intermediate class
    v = cls['sub' if t.get('sub') else ('plain' if nid % 2 else 'mid')](**{k: build(c) for k, c in t['items']})
    OBJ_IDS[id(v)] = nid
    _KEEP.append(v)        # alive until the case ends: a Python id is never reused within a case
  return v


def plain(t):
  """A fresh value handed to the API (plain containers; objects are new instances)."""
  if not is_node(t):
    return build(t)
  if t['k'] == 'list':
    return [plain(c) for _, c in t['items']]
  if t['k'] == 'dict':
    return {k: plain(c) for k, c in t['items']}
  return build(t)


def canon(v):
  import pyglove as pg
  if v is pg.MISSING_VALUE or v == pg.MISSING_VALUE and not isinstance(v, (pg.Symbolic, list, dict)):
    return MISSING
  if isinstance(v, pg.List) or type(v) is list:
    items = v.sym_values() if isinstance(v, pg.List) else v
    return ['list', [[i, canon(c)] for i, c in enumerate(items)]]
  if isinstance(v, pg.Dict) or type(v) is dict:
    items = v.sym_items() if isinstance(v, pg.Dict) else v.items()
    return ['dict', [[k, canon(c)] for k, c in items]]
  if isinstance(v, pg.Object):
    return ['obj', [[k, canon(c)] for k, c in v.sym_items()]]
  if v is None or (isinstance(v, (int, str)) and not isinstance(v, bool)):
    return v
  return '<%s>' % type(v).__name__


def sym_nodes(v, path=()):
  import pyglove as pg
  out = []
  if isinstance(v, pg.Symbolic):
    out.append((list(path), v))
    for k, c in v.sym_items():
      out += sym_nodes(c, path + (k,))
  return out


FACTS = ['nondefault', 'missing', 'partial', 'pure', 'deterministic']


def read_flags(names):
  """(sym_nondefault is asked, sym_missing is asked -- is_partial asks it too)."""
  return 'nondefault' in names, ('missing' in names or 'partial' in names)


def facts(n, names=None):
  import pyglove as pg
  def j(x):
    return json.dumps(pg.to_json(x), sort_keys=True, default=str)
  if names is not None:
    getters = {
        'nondefault': lambda: sorted([str(k), j(x)] for k, x in n.sym_nondefault().items()),
        'missing': lambda: sorted([str(k), j(x)] for k, x in n.sym_missing().items()),
        'partial': lambda: bool(n.is_partial),
        'pure': lambda: bool(n.sym_puresymbolic),
        'deterministic': lambda: bool(n.is_deterministic),
    }
    return {k: getters[k]() for k in names}
  return {
      'nondefault': sorted([str(k), j(x)] for k, x in n.sym_nondefault().items()),
      'missing': sorted([str(k), j(x)] for k, x in n.sym_missing().items()),
      'partial': bool(n.is_partial),
      'pure': bool(n.sym_puresymbolic),
      'deterministic': bool(n.is_deterministic),
  }


def has_placeholder(root):
  """Does a pg.List of the tree hold a MISSING_VALUE placeholder (left by a silent rebind that deleted
  an item: known finding C02-F03)? Such a tree does not survive the JSON round trip that serves as the
  reference for "fresh computation"; its reads are still compared with the model."""
  import pyglove as pg
  for _, n in sym_nodes(root):
    if isinstance(n, pg.List) and any(pg.MISSING_VALUE == v and not isinstance(v, pg.Symbolic) for v in n.sym_values()):
      return True
  return False


def read_all(root):
  """Reads every fact of every node (filling the memoised values). -> [(path, facts)]"""
  return [(p, facts(n)) for p, n in sym_nodes(root)]


def recomputed(root):
  import pyglove as pg
  copy = pg.from_json(pg.to_json(root), allow_partial=True)
  return [(p, facts(n)) for p, n in sym_nodes(copy)]


# Value specs of the harness classes, as the model is told them (kept next to `classes()`):
# class number, [[field, {'d': default} | {'req': True}], ...]
_E_DEF = {'k': 'dict', 'c': 0, 'items': [['u', 2], ['w', None]]}
_A_DEF = {'k': 'dict', 'c': 0, 'items': [['k', 1], ['j', None], ['e', _E_DEF]]}
_D_DEF = {'k': 'dict', 'c': 0, 'items': [['a', _A_DEF], ['b', 0]]}
_INNER_DEF = {'k': 'obj', 'c': 2, 'items': [['k', 1], ['m', None]]}
_OPT_DEF = {'k': 'dict', 'c': 0, 'items': [['lr', 1], ['n', 0]]}
# what the fields of the `chk` classes accept (model: `Rules`): [class number, field, type]
_OPT_TY = {'dict': [['lr', 'any'], ['n', {'int': 0}]]}
RULES = [[c_, 'opt', _OPT_TY] for c_ in (5, 15)] + [[c_, 'o', {'obj': [2, 12]}] for c_ in (5, 15)]
CLASS_SPECS = {
    'obj': (1, [['x', {'d': None}], ['y', {'d': None}], ['z', {'d': None}]]),
    'inner': (2, [['k', {'d': 1}], ['m', {'d': None}]]),
    'def': (3, [['d', {'d': _D_DEF}], ['o', {'d': _INNER_DEF}], ['x', {'d': None}]]),
    'req': (4, [['r', {'req': True}], ['x', {'d': None}]]),
    'chk': (5, [['opt', {'d': _OPT_DEF}], ['o', {'d': _INNER_DEF}], ['x', {'d': None}]]),
}


def annotate(t):
  """Case tree -> the tree the model is given: object kinds become `obj` with class number and
  schema; the Dicts below the field `d` of a `def` object are bound to the nested schema."""
  if not is_node(t):
    return t
  out = dict(t)
  out['items'] = [[k, annotate(c)] for k, c in t['items']]
  if t.get('bind') == 'opt':
    out = _bind(out, _OPT_DEF)          # a value for the field `opt`: bound to its schema once accepted
  if t.get('ref') is not None:
    out.pop('ref')
    out.update(k='obj', c=9, sch=[], items=[])      # pg.Ref: an object of a class without symbolic fields
    return out
  if t['k'] in CLASS_SPECS:
    c, sch = CLASS_SPECS[t['k']]
    if t.get('sub') and t['k'] in ('def', 'inner', 'chk'):
      c += 10          # the subscribing variant is a subclass: another class than the one of the default
    out.update(k='obj', c=c, sch=sch)
    if t['k'] == 'def':
      for it in out['items']:
        if it[0] == 'd':
          it[1] = _bind(it[1], _D_DEF)
    if t['k'] == 'chk':
      for it in out['items']:
        if it[0] == 'opt':
          it[1] = _bind(it[1], _OPT_DEF)
  return out


def _bind(node, dv):
  if not is_node(node) or node['k'] != 'dict':
    return node
  node = dict(node)
  node['sch'] = [[k, {'d': v}] for k, v in dv['items']]
  dd = dict((k, v) for k, v in dv['items'])
  node['items'] = [[k, _bind(c, dd[k]) if isinstance(dd.get(k), dict) else c] for k, c in node['items']]
  return node


def keypath_keys(k):
  import pyglove as pg
  return pg.KeyPath.parse(k).keys if isinstance(k, str) else [k]


def read_values(n, nd=True, miss=True):
  """What a read reports: flattened sym_nondefault() as [[relative path, canonical value]] and the
  flattened sym_missing() as paths."""
  a = sorted(([keypath_keys(k), canon(x)] for k, x in n.sym_nondefault().items()), key=json.dumps) if nd else []
  b = sorted((keypath_keys(k) for k in n.sym_missing()), key=json.dumps) if miss else []
  return a, b


def leafmap_reads(root):
  """[path, nondefault, missing] of every symbolic node."""
  out = []
  for p, n in sym_nodes(root):
    a, b = read_values(n)
    out.append([p, a, b])
  return sorted(out, key=lambda e: json.dumps(e))


def _old_leafmap_reads(root):
  """(path, flattened sym_nondefault) of the Dict/List nodes whose subtree holds no pg.Object."""
  import pyglove as pg
  out = []
  for p, n in sym_nodes(root):
    if isinstance(n, pg.Object) or any(isinstance(m, pg.Object) for _, m in sym_nodes(n)):
      continue
    nd = n.sym_nondefault()
    out.append([p, sorted(([pg.KeyPath.parse(k).keys if isinstance(k, str) else [k], x] for k, x in nd.items()),
                          key=lambda e: json.dumps(e))])
  return sorted(out, key=lambda e: json.dumps(e))


def navigate(root, path):
  v = root
  for k in path:
    v = v.sym_getattr(k)
  return v


def do_call(node, c):
  import pyglove as pg
  n = c['name']
  if n == 'setkey':
    if isinstance(node, pg.Object):
      setattr(node, c['key'], plain(c['v']))
    else:
      node[c['key']] = plain(c['v'])
  elif n == 'delkey':
    del node[c['key']]
  elif n == 'append':
    node.append(plain(c['v']))
  elif n == 'extend':
    if c.get('via') == 'iadd':
      import operator
      operator.iadd(node, [plain(v) for v in c['vs']])
    else:
      node.extend([plain(v) for v in c['vs']])
  elif n == 'rebind':
    node.rebind({pg.KeyPath(list(p)): plain(v) for p, v in c['pairs']}, skip_notification=True if c.get('skip') else None)
  elif n == 'update':
    node.update({k: plain(v) for k, v in c['kvs']})
  elif n == 'insert':
    node.insert(c['i'], plain(c['v']))
  elif n == 'delidx':
    if c.get('via') == 'pop':
      node.pop(c['i'])
    else:
      del node[c['i']]
  elif n == 'remove':
    node.remove(c['atom'])
  elif n == 'setslice':
    node[c.get('a'):c.get('b'):c.get('step')] = [plain(v) for v in c['vs']]
  elif n == 'delslice':
    del node[c.get('a'):c.get('b'):c.get('step')]
  elif n == 'imul':
    import operator
    operator.imul(node, c['k'])
  elif n == 'clear':
    node.clear()
  elif n == 'reverse':
    node.reverse()
  elif n == 'sort':
    node.sort()
  elif n == 'popitem':
    node.popitem()
  else:
    raise AssertionError(n)


def canon_log(log):
  return [{'recv': e['recv'], 'entries': e['entries']} for e in log]


# Re-entrant handlers: what the handler of a node does when it is told about a change.
REACT = {}        # node id -> {'recv': path from the root, 'call': call}
RSTATE = {'root': None, 'fuel': 0, 'depth': 0, 'stack': [0], 'next': 1, 'calls': []}


READERS = [False]  # handlers READ derived facts of the written node and all its ancestors while the dispatch is going on
PRE_OBJS = {}      # before the call: absolute path (tuple) -> the symbolic object stored there (all trees of the case)


def snapshot_objects(*roots):
  PRE_OBJS.clear()
  for r in roots:
    if r is None:
      continue
    for p_, n_ in sym_nodes(r):
      PRE_OBJS[(id(r),) + tuple(p_)] = n_


def payload_identity(updates):
  """The payload must be THE objects: `new_value` is what the owning container holds now (a value handed
  in is converted / copied on the way in: the event carries what was stored, never a plain dict / list and
  never a node that lives elsewhere), `old_value` is the object that was stored there before the call."""
  import pyglove as pg
  bad = []
  for k, u in updates.items():
    nv, ov = u.new_value, u.old_value
    tgt = u.target
    holder = getattr(tgt, '_sym_attributes', tgt) if isinstance(tgt, pg.Object) else tgt
    if isinstance(nv, (dict, list)) and not isinstance(nv, pg.Symbolic):
      bad.append([list(k.keys), 'new_value is a plain %s, the container stores a symbolic one' % type(nv).__name__])
    elif isinstance(nv, pg.Symbolic) and isinstance(holder, (pg.List, pg.Dict)):
      if not any(nv is v for v in holder.sym_values()):
        bad.append([list(k.keys), 'new_value (sym_path %s) is not an object held by the container that was written' % nv.sym_path])
    if isinstance(ov, (dict, list)) and not isinstance(ov, pg.Symbolic):
      bad.append([list(k.keys), 'old_value is a plain %s' % type(ov).__name__])
    elif isinstance(ov, pg.Symbolic) and PRE_OBJS:
      root_ = u.target.sym_root
      was = PRE_OBJS.get((id(root_),) + tuple(u.path.keys))
      if was is not None and was is not ov and not any(ov is x for x in PRE_OBJS.values()):
        bad.append([list(k.keys), 'old_value is not an object that was in the tree before the call'])
  return bad


def on_event(rid, updates):
  """Every handler of the harness: log the event (canonicalised at once, tagged with the call it
  belongs to), then -- if the case says so and the nesting bound is not reached -- issue the nested call."""
  LOG.append({'recv': rid, 'call': RSTATE['stack'][-1],
              'entries': [[list(k.keys), canon(u.old_value), canon(u.new_value)] for k, u in updates.items()],
              'ident': payload_identity(updates)})
  if READERS[0]:
    # a handler that looks at derived state of its surroundings (`self.sym_root.is_partial`, ...): what it
    # makes the nodes memoise must not survive the call if the contents still change (placeholders dropped)
    for u in updates.values():
      n_ = u.target
      while n_ is not None:
        try:
          n_.sym_nondefault(); n_.sym_missing(); bool(n_.is_partial); bool(n_.sym_puresymbolic)
        except Exception:    # pylint: disable=broad-except
          pass
        n_ = n_.sym_parent
  r = REACT.get(rid)
  if r is None or RSTATE['depth'] >= RSTATE['fuel']:
    return
  cid = RSTATE['next']
  RSTATE['next'] += 1
  RSTATE['depth'] += 1
  RSTATE['stack'].append(cid)
  rec = {'id': cid, 'parent': RSTATE['stack'][-2], 'by': rid, 'recv': r['recv'], 'call': r['call'],
         'pre': canon(RSTATE['root'])}
  RSTATE['calls'].append(rec)
  try:
    do_call(navigate(RSTATE['root'], r['recv']), r['call'])
  finally:
    RSTATE['stack'].pop()
    RSTATE['depth'] -= 1


def ref_node(path, nid=0):
  return {'k': 'obj', 'ref': list(path), 'id': nid, 'sub': False, 'items': []}


def has_ref(t):
  return any(n.get('ref') is not None for _, n in all_nodes(t))


def bad_links(root):
  """Paths of the symbolic nodes whose sym_parent / sym_path is not what their place in the tree says."""
  import pyglove as pg
  out = []
  def walk(v, path, parent):
    if not isinstance(v, pg.Symbolic):
      return
    if v.sym_parent is not parent or (parent is not None and list(v.sym_path.keys) != list(path)):
      out.append(list(path))
    for k, c in v.sym_items():
      walk(c, path + (k,), v)
  walk(root, (), None)
  return out


def stale_facts(root):
  """Reads every fact of every node and compares with a fresh computation on a copy (JSON round trip;
  a deep clone when the tree holds pg.Ref items, which JSON cannot carry). -> [[path, [fact names]]]"""
  import pyglove as pg
  got = read_all(root)
  if has_placeholder(root):
    return []
  if any(isinstance(n, pg.Ref) for _, n in sym_nodes(root)):
    want = [(p, facts(n)) for p, n in sym_nodes(root.clone(deep=True))]
  else:
    want = recomputed(root)
  wmap = {json.dumps(p): f for p, f in want}
  stale = []
  for p, f in got:
    w = wmap.get(json.dumps(p))
    if w is None:
      stale.append([p, ['<node missing in copy>']])
    else:
      bad = sorted(k for k in f if f[k] != w[k])
      if bad:
        stale.append([p, bad])
  return stale


# ------------------------------------------------------------------------------------------
# Generator
# ------------------------------------------------------------------------------------------

class Gen:
  def __init__(self, rng):
    self.r = rng
    self.next_id = 1
    self.no_obj = False
    self.deletes = False

  def atom(self):
    r = self.r
    k = r.below(8)
    if k == 0:
      return None
    if k == 1:
      return r.choice(['p', 'q', 'rr'])
    return r.randint(-3, 9)

  def tree(self, depth, kind=None, sub_p=0.6):
    r = self.r
    kind = kind or r.choice(['dict', 'list', 'dict'] if self.no_obj else ['dict', 'list', 'obj', 'dict'])
    nid = self.next_id
    self.next_id += 1
    def child():
      if depth <= 0 or r.chance(0.45):
        return self.atom()
      return self.tree(depth - 1, None, sub_p)
    if kind == 'list':
      items = [[i, child()] for i in range(r.randint(0, 3))]
    elif kind == 'dict':
      items = [[k, child()] for k in DKEYS if r.chance(0.55)]
    else:
      items = [[k, child()] for k in FIELDS]
    return {'k': kind, 'id': nid, 'sub': r.chance(sub_p), 'items': items}

  def value(self, old=None):
    r = self.r
    for _ in range(8):
      v = self.atom() if r.chance(0.7) else self.fresh_tree(r.below(2))
      if isinstance(v, str) and v == old:
        continue                 # identity of equal strings is an implementation detail
      return v
    return 100

  def slice_value(self, node, c, i):
    """A value for position i of a slice assignment: never a str equal to the one it replaces."""
    vals = [v for _, v in node['items']]
    try:
      ps = list(range(*slice(c['a'], c['b'], c['step']).indices(len(vals))))
    except ValueError:
      ps = []
    if c['step'] not in (None, 1):
      ps = sorted(ps) if c['step'] and c['step'] > 0 else ps
    old = vals[ps[i]] if i < len(ps) else None
    return self.value(old if isinstance(old, str) else None)

  def fresh_tree(self, depth):
    r = self.r
    kind = r.choice(['dict', 'list'])
    def child():
      return self.atom() if depth <= 0 or r.chance(0.6) else self.fresh_tree(depth - 1)
    if kind == 'list':
      return fresh('list', [child() for _ in range(r.below(3))])
    return fresh('dict', [[k, child()] for k in DKEYS if r.chance(0.4)])

  def target(self, node):
    """A key to write in `node` and the old value there."""
    r = self.r
    keys = [k for k, _ in node['items']]
    if node['k'] == 'list':
      if not keys:
        return None, None
      k = r.choice(keys)
    elif node['k'] == 'obj':
      k = r.choice(FIELDS)
    else:
      k = r.choice(keys) if keys and r.chance(0.6) else r.choice(DKEYS)
    old = get_at(node, [k])
    return k, old

  def call(self, t, path, node):
    r = self.r
    kind = node['k']
    choices = [(5, 'setkey'), (5, 'rebind')]
    if kind == 'dict':
      choices += [(2, 'delkey'), (2, 'update'), (1, 'clear'), (1, 'popitem')]
    if kind == 'list':
      choices += [(2, 'append'), (3, 'extend'), (1, 'clear'), (2, 'reverse'), (1, 'sort'), (2, 'insert'), (2, 'delidx'),
                  (1, 'remove'), (3, 'setslice'), (2, 'delslice'), (1, 'imul')]
    name = r.weighted(choices)
    n = len(node['items'])
    if name == 'insert':
      return {'name': 'insert', 'i': r.randint(-n - 2, n + 2), 'v': self.value()}
    if name == 'delidx':
      via = r.choice(['del', 'pop'])
      i = r.randint(0 if via == 'del' and not NEG_DEL_OK[0] else -n, n - 1) if n and r.chance(0.9) else r.choice([n, -n - 1])
      return {'name': 'delidx', 'via': via, 'i': i}
    if name == 'remove':
      atoms = [x for _, x in node['items'] if not is_node(x)]
      return {'name': 'remove', 'atom': r.choice(atoms) if atoms and r.chance(0.8) else r.choice([77, 'zz'])}
    if name in ('setslice', 'delslice'):
      def bound():
        return None if r.chance(0.25) else r.randint(-n - 2, n + 2)
      step = r.choice([None, 1, 1, 2, -1, -2, 3, 0] if r.chance(0.5) else [None, 1])
      c = {'name': name, 'a': bound(), 'b': bound(), 'step': step}
      if name == 'setslice':
        size = len(range(*slice(c['a'], c['b'], step).indices(n))) if step != 0 else 0
        k = r.below(4)
        if step not in (None, 1, 0) and r.chance(0.85):
          k = size                                   # an extended slice needs exactly as many values
        c['vs'] = [self.slice_value(node, c, i) for i in range(k)]
      return c
    if name == 'imul':
      k = r.choice([0, 1, 2, 3, -1])
      if k >= 2 and any(is_node(x) for _, x in node['items']):
        k = r.choice([0, 1])                         # replication clones symbolic children (C07)
      return {'name': 'imul', 'k': k}
    if name == 'setkey':
      k, old = self.target(node)
      if k is None:
        return {'name': 'append', 'v': self.value()}
      return {'name': 'setkey', 'key': k, 'v': self.value(old)}
    if name == 'delkey':
      keys = [k for k, _ in node['items']]
      return {'name': 'delkey', 'key': r.choice(keys) if keys and r.chance(0.9) else 'zz'}
    if name == 'append':
      return {'name': 'append', 'v': self.value()}
    if name == 'extend':
      return {'name': 'extend', 'via': r.choice(['extend', 'iadd']), 'vs': [self.value() for _ in range(r.randint(0, 3))]}
    if name == 'update':
      ks = r.sample(DKEYS, r.randint(1, 3))
      return {'name': 'update', 'kvs': [[k, self.value(get_at(node, [k]))] for k in ks]}
    if name == 'popitem' and not node['items']:
      name = 'clear'
    if name == 'reverse':
      strs = [c for _, c in node['items'] if isinstance(c, str)]
      if len(set(strs)) != len(strs):
        name = 'clear'            # identity of equal strings at mirrored positions is an implementation detail
    if name == 'sort' and len(node['items']) > 1 and not all(
        isinstance(c, int) and not isinstance(c, bool) for _, c in node['items']):
      name = 'reverse' if not any(isinstance(c, str) for _, c in node['items']) else 'clear'
    if name in ('clear', 'reverse', 'popitem', 'sort'):
      return {'name': name}
    # rebind: 1-4 pairs below the receiver, on pairwise unrelated locations
    parents = [pn for pn in all_nodes(node) if pn[1].get('ref') is None]
    pairs, seen = [], []
    for _ in range(r.choice([1, 1, 2, 2, 3, 4])):
      ppath, p = r.choice(parents)
      k, old = self.target(p)
      if k is None:
        continue
      loc = tuple(ppath) + (k,)
      if any(loc[:len(q)] == q or q[:len(loc)] == loc for q in seen):
        continue
      seen.append(loc)
      if self.deletes and old is not None and p['k'] in ('dict', 'list') and r.chance(0.35):
        pairs.append([list(loc), MISSING])        # rebind(path -> MISSING_VALUE) deletes
      else:
        pairs.append([list(loc), self.value(old)])
    if not pairs:
      k, old = self.target(node)
      if k is None:
        return {'name': 'append', 'v': self.value()}
      pairs = [[[k], self.value(old)]]
    if kind == 'list':
      pairs.sort(key=lambda pv: key_cmp_tuple(pv[0]))     # the order in which List reports its updates
    return {'name': 'rebind', 'pairs': pairs}

  def case(self):
    r = self.r
    self.next_id = 1
    self.no_obj = r.chance(0.4)
    self.deletes = r.chance(0.3)
    t = self.tree(r.randint(1, 3), None, r.choice([0.3, 0.6, 1.0]))
    shadow = json.loads(json.dumps(t))
    steps = []
    for _ in range(r.randint(1, 5)):
      nodes = all_nodes(shadow)
      path, node = r.choice(nodes) if r.chance(0.7) else max(nodes, key=lambda pn: len(pn[0]))
      step = {'recv': path, 'notify': r.chance(0.85), 'call': self.call(shadow, path, node)}
      c = step['call']
      if c['name'] == 'setslice' and c.get('step') in (None, 1):
        size = len(range(*slice(c['a'], c['b'], 1).indices(len(node['items']))))
        if len(c['vs']) < size:
          step['notify'] = True        # notify-off + shrinking slice leaves MISSING placeholders (C02-F03)
      steps.append(step)
      mirror(shadow, json.loads(json.dumps(step)))
      if any(is_node(n_) and n_['k'] == 'list' and any(is_missing(v_) for _, v_ in n_['items']) for _, n_ in all_nodes(shadow)):
        break     # a silent rebind left a placeholder in a list (C02-F03): what other list calls do with it is C02's
    return {'tree': t, 'steps': steps}


def _diff(pre, post, path=()):
  """Maximal changed locations between two canonical values: [(path, old, new)]."""
  if pre == post:
    return []
  if (isinstance(pre, list) and isinstance(post, list) and len(pre) == 2 and len(post) == 2
      and pre[0] == post[0] and pre[0] in ('dict', 'list', 'obj')):
    a, b = dict((json.dumps(k), (k, v)) for k, v in pre[1]), dict((json.dumps(k), (k, v)) for k, v in post[1])
    out = []
    for kk in list(a) + [x for x in b if x not in a]:
      k = (a.get(kk) or b.get(kk))[0]
      out += _diff(a[kk][1] if kk in a else MISSING, b[kk][1] if kk in b else MISSING, path + (k,))
    return out
  return [(list(path), pre, post)]


CLEAR_NOTIFIES = [True]       # fixes/C09-F55.patch: clear / popitem / sort / reverse report what they removed / moved


def canon_json(t):
  """Case-JSON value -> the canonical form `canon` gives to real values."""
  if not is_node(t):
    return t
  return [t['k'], [[k, canon_json(c)] for k, c in t['items']]]


def canon_at(c, path):
  for k in path:
    if not (isinstance(c, list) and len(c) == 2 and c[0] in ('dict', 'list', 'obj')):
      return MISSING
    for kk, v in c[1]:
      if kk == k:
        c = v
        break
    else:
      return MISSING
  return c


class C09(Prop):
  id = 'C09'
  props_modules = ['PgProps.C09']
  driver = 'drv_c09'
  translators = [t_c09.run]
  case_timeout_s = 20
  rule = ('histories of 1-5 calls (accessor writes, del, append, extend / +=, batched rebind with 1-4 unrelated paths, '
          'Dict.update, clear / reverse / sort / popitem, and the position-shifting list calls insert, del l[i] / pop, '
          'remove, slice assignment and del slice with any start / stop / step, *=) on trees of depth <= 3 mixing pg.Dict / pg.List with or without '
          'onchange_callback and pg.Object classes with and without an overridden _on_change; 15 % of the '
          'calls inside notify_on_change(False); every derived fact of every node is read after every call. '
          'A chosen-reads stream (700 histories): derived facts are read only at chosen nodes at chosen moments '
          '(read steps; model: readAt), interleaved with notified and silent writes (notify_on_change(False), '
          'rebind(skip_notification=True), Dict.update) two or more levels below, every history ending with a read of '
          'everything; the same on typed trees (500 histories) whose objects have schema-bound nested '
          'Dict / object fields with defaults and required fields, so that sym_nondefault() is a snapshot memoised at '
          'the object only -- reads (sym_nondefault, sym_missing) are compared with the model on all of them. '
          '300 histories of rebinds that delete List items / Dict keys (path -> MISSING_VALUE), silent and notified, on '
          'lists with callbacks; 400 histories with re-entrant handlers (subscribing nodes that answer every event '
          'with a call of their own on themselves / a descendant / an ancestor, nesting bound 1-3; log entries are '
          'tagged with the call they belong to and every call is judged on its own). '
          '250 histories over TWO trees and 1-2 worker threads besides the harness thread: threads enter / leave '
          'notify_on_change(v) and any thread mutates a node of either tree -- whether the call notifies is decided by '
          'the scopes of the calling thread alone; 350 histories in which Lists / Dicts hold pg.Ref items pointing '
          'into the second tree, the items being removed / replaced (clear, pop, del, popitem, assignment, slice calls, '
          'rebind, update, *= 0, reverse), then the referenced tree is mutated: payloads carry the stored Ref, the '
          'other tree keeps contents, links (sym_parent / sym_path) and fresh memos, its ancestors are notified; '
          '400 histories of writes that a value spec REFUSES (KeyError: key unknown to a nested schema; TypeError: atom / '
          'list / object of another class / str for int; ValueError: int below min_value, None) on fields holding a '
          'schema-bound Dict or an object, by assignment or one-pair rebind from the owner or an ancestor, followed by '
          'mutations inside the value that stayed in place (events at every subscribing ancestor, memo freshness) and '
          'accepted replacements. '
          '300 histories in which EVERY handler reads derived facts (sym_nondefault, sym_missing, is_partial, '
          'sym_puresymbolic) of the written node and all its ancestors during the dispatch, under notified batched '
          'rebinds that delete List items and write inside a later item of the same list; 300 histories in which a node '
          'that belongs to the second tree is written into a List / Dict / object field (append, insert, extend, item / '
          'slice assignment, rebind, update). In ALL streams the handlers check the payload by IDENTITY: new_value is an '
          'object the written container holds (never a plain dict / list, never a node living elsewhere), a symbolic '
          'old_value is an object that was in the tree before the call. '
          'Object classes form the hierarchy Plain -> Mid -> Sub (only Sub overrides _on_change) and are created '
          'afresh for every case. A second, oracle-only stream inserts partial objects, pure-symbolic and non-deterministic values. '
          'Non-trivial: some node on the path from the root to a written location subscribes; distinct by JSON.')
  trusted_base = [
      'harness handlers (_on_change override, onchange_callback) and the canonicalisation of FieldUpdate payloads',
      'JSON round trip pg.from_json(pg.to_json(root)) as the reference for "fresh computation"',
      'modelled, not verified: grouping / ordering / cache reset of _notify_field_updates, the write primitive and '
      'the cache-consulting recomputation of sym_nondefault (tied by correspondence); the three memoised facts are '
      'two memos per node (nondefault, missing) against the value specs of the harness classes (fields with '
      'defaults incl. container / object defaults, required fields, schema-bound nested Dicts); the memo of a '
      'schema-bound node is modelled as a flattened snapshot; _sym_puresymbolic / is_deterministic are oracle-only; '
      'writes whose value a spec would transform are not generated (C03); writes a spec REJECTS are generated for '
      'the fields `opt` (fixed Dict schema with an Int(min_value=0)) and `o` (Object(C09Inner)) of the class C09Chk only: '
      'the model (rejection / stepV) is told what these two fields accept and says which error class results; a nested call issued by a handler '
      'is modelled as running on the tree with the outer call completely applied (memos reset, placeholders dropped): '
      'handlers that react are not combined with deleting rebinds; nested calls put atoms at leaf locations; '
      'notify_parents=False, _on_parent_change / '
      '_on_path_change and value specs are outside the model; a shrinking slice assignment inside '
      'notify_on_change(False) leaves MISSING_VALUE placeholders (known finding C02-F03) and is neither generated '
      'nor modelled',
      'THE MODEL MIRRORS THE TREE WITH fixes/C09-F55.patch (clear / popitem / sort / reverse report what they removed '
      '/ moved) AND fixes/C09-F112.patch (del l[-1] reports the position) APPLIED',
      'two trees / threads: real threading.Thread workers driven one step at a time (deterministic schedule, no '
      'preemption inside a call); the model keeps one stack of notify_on_change scopes per thread; a pg.Ref item is '
      'modelled as a field-less object (class 9), the tree it points into is the second tree of the case; holders of '
      'pg.Ref items and their ancestors are Dicts / Lists (observation F380: the flattened sym_nondefault() of an '
      'OBJECT with a Dict-valued field walks through the references); "fresh computation" for a tree holding pg.Ref '
      'items is a deep clone (JSON cannot carry them)',
      'handlers that read derived facts during dispatch exist on the implementation side only: the model has no '
      'reads inside a dispatch (by C09_fresh its reported values do not depend on which memos are filled); the '
      'identity of payload objects is checked by the harness handlers (FieldUpdate.target / sym_values), the model '
      'carries values, not identities',
      'position-shifting list calls: the contract is read on the edit (removed item -> MISSING at its former position, '
      'MISSING -> inserted item at its new position, old -> new for replaced items)',
  ]
  assumptions = ['believed parent chain = real ancestor chain (C01) for the trees the generator builds',
                 'only fresh plain values are inserted (no relocation / cloning of existing nodes)']

  def generate(self, rng, tier):
    g = Gen(rng)
    n = 1500 if tier == 'quick' else 30000
    for _ in range(n):
      yield g.case()
    for c in self.read_cases(rng, 700 if tier == 'quick' else 14000):
      yield c
    for c in self.typed_read_cases(rng, 500 if tier == 'quick' else 10000):
      yield c
    for c in self.silent_delete_cases(rng, 300 if tier == 'quick' else 6000):
      yield c
    for c in self.reentrant_cases(rng, 400 if tier == 'quick' else 8000):
      yield c
    for c in self.facts_cases(rng, 150 if tier == 'quick' else 3000):
      yield c
    for c in self.detached_cases(rng, 200 if tier == 'quick' else 4000):
      yield c
    for c in self.thread_switch_cases(rng, 250 if tier == 'quick' else 5000):
      yield c
    for c in self.ref_item_cases(rng, 350 if tier == 'quick' else 7000):
      yield c
    for c in self.rejected_write_cases(rng, 400 if tier == 'quick' else 8000):
      yield c
    for c in self.reading_handler_cases(rng, 300 if tier == 'quick' else 6000):
      yield c
    for c in self.foreign_value_cases(rng, 300 if tier == 'quick' else 6000):
      yield c

  def read_cases(self, rng, n):
    """Histories in which the harness READS derived facts only at chosen nodes at chosen moments (so
    that some nodes memoise a fact while the nodes between them and a later write memoise nothing),
    interleaved with notified and silent writes at any depth (accessor write inside
    notify_on_change(False), rebind(skip_notification=True), Dict.update, clear / reverse / sort);
    trees of depth >= 3 with pg.Object nodes (whose sym_nondefault is computed by diffing against the
    defaults, without asking the children). Every history ends with a read of everything."""
    g = Gen(rng)
    made = 0
    for _ in range(n * 5):
      if made >= n:
        break
      g.next_id = 1
      g.no_obj = rng.chance(0.25)
      t = g.tree(rng.randint(2, 4), rng.choice(['dict', 'list']) if g.no_obj else rng.choice(['obj', 'obj', 'dict', 'list']),
                 rng.choice([0.0, 0.3, 0.6]))
      if max(len(p) for p, _ in all_nodes(t)) < 2:
        continue
      shadow = json.loads(json.dumps(t))
      steps = []
      for _ in range(rng.randint(2, 7)):
        nodes = all_nodes(shadow)
        if rng.chance(0.4):
          upper = sorted(nodes, key=lambda pn: len(pn[0]))[:max(1, len(nodes) // 2)]
          picks = [rng.choice(upper if rng.chance(0.7) else nodes) for _ in range(rng.choice([1, 1, 2]))]
          k = rng.below(10)
          names = ['nondefault'] if k < 6 else (list(FACTS) if k < 8 else rng.sample(FACTS, rng.randint(1, 3)))
          steps.append({'read': [[p, names] for p, _ in picks]})
          continue
        deep = [pn for pn in nodes if len(pn[0]) >= 2] or nodes
        path, node = rng.choice(deep if rng.chance(0.7) else nodes)
        call = g.call(shadow, path, node)
        step = {'recv': path, 'notify': rng.chance(0.45), 'call': call}
        if call['name'] == 'rebind' and rng.chance(0.5):
          call['skip'] = True
          step['notify'] = True
        if call['name'] == 'setslice' and call.get('step') in (None, 1):
          size = len(range(*slice(call['a'], call['b'], 1).indices(len(node['items']))))
          if len(call['vs']) < size:
            step['notify'] = True
        steps.append(step)
        mirror(shadow, json.loads(json.dumps(step)))
      if not any('call' in s_ for s_ in steps):
        continue
      steps.append({'read': [[p, list(FACTS)] for p, _ in all_nodes(shadow)]})
      made += 1
      yield {'tree': t, 'steps': steps, 'reads': 'chosen'}

  def typed_read_cases(self, rng, n):
    """The chosen-reads histories of `read_cases` on
    trees that hold objects whose fields are schema-bound nested Dicts / objects with defaults -- their
    sym_nondefault() is a snapshot computed by diffing against the defaults and memoised at the object
    only, so the nodes between it and a later write memoise nothing."""
    g = Gen(rng)
    def tdict(items):
      return {'k': 'dict', 'id': 0, 'sub': False, 'typed': True, 'items': items}
    ctr = [100]
    def nid():
      ctr[0] += 1
      return ctr[0]
    def req_node():
      return {'k': 'req', 'id': 0, 'sub': False, 'typed': True,
              'items': [['r', MISSING if rng.chance(0.5) else rng.randint(0, 5)], ['x', g.atom()]]}
    def tatom(key):
      return rng.randint(0, 9) if key == 'r' else g.atom()      # `r` is an Int field
    def def_node(depth):
      if depth <= 0 or rng.chance(0.4):
        x = g.atom() if rng.chance(0.7) else req_node()
      else:
        k_ = rng.below(3)
        x = def_node(depth - 1) if k_ == 0 else (g.tree(1, None, 0.3) if k_ == 1 else g.tree(1, 'list', 0.5))
      return {'k': 'def', 'id': nid(), 'sub': rng.chance(0.5), 'typed': True, 'items': [
          ['d', tdict([['a', tdict([['k', g.atom()], ['j', g.atom()], ['e', tdict([['u', g.atom()], ['w', g.atom()]])]])],
                       ['b', g.atom()]])],
          ['o', {'k': 'inner', 'id': nid(), 'sub': rng.chance(0.4), 'typed': True,
                 'items': [['k', g.atom()], ['m', g.atom() if rng.chance(0.5) else g.tree(1, 'dict', 0.3)]]}],
          ['x', x]]}
    for _ in range(n):
      g.next_id = 1
      g.no_obj = False
      ctr[0] = 100
      inner = def_node(rng.below(3))
      wrap = rng.below(4)
      if wrap == 0:
        t = inner
      elif wrap == 1:
        t = {'k': 'dict', 'id': 0, 'sub': rng.chance(0.3), 'items': [['h', inner], ['c', g.atom()]]}
      elif wrap == 2:
        t = {'k': 'list', 'id': 0, 'sub': rng.chance(0.3), 'items': [[0, g.atom()], [1, inner]]}
      else:
        t = {'k': 'obj', 'id': 1, 'sub': False, 'items': [['x', inner], ['y', g.atom()], ['z', None]]}
      shadow = json.loads(json.dumps(t))
      steps = []
      for _ in range(rng.randint(2, 7)):
        nodes = all_nodes(shadow)
        if rng.chance(0.4):
          upper = [pn for pn in nodes if pn[1]['k'] in ('def', 'obj', 'inner') or not pn[0]]
          picks = [rng.choice(upper if rng.chance(0.75) else nodes) for _ in range(rng.choice([1, 1, 2]))]
          names = ['nondefault'] if rng.chance(0.7) else list(FACTS)
          steps.append({'read': [[p, names] for p, _ in picks]})
          continue
        typed = [pn for pn in nodes if pn[1].get('typed')]
        path, node = rng.choice(typed if typed and rng.chance(0.8) else nodes)
        if node.get('typed') or any(x.get('typed') for _, x in all_nodes(node)):
          # a value spec governs (part of) what is below: only leaves of typed nodes are written, with
          # values their fields accept (what a spec does to other values is C03's business)
          leaves = [k for k, c in node['items'] if not is_node(c)] if node.get('typed') else []
          below = [(list(p) + [k]) for p, x in all_nodes(node) if x.get('typed') for k, c in x['items'] if not is_node(c)]
          kind = rng.below(3)
          if kind == 0 and leaves:
            k_ = rng.choice(leaves)
            call = {'name': 'setkey', 'key': k_, 'v': tatom(k_)}
          elif kind == 1 and leaves and node['k'] == 'dict':
            call = {'name': 'update', 'kvs': [[k, tatom(k)] for k in rng.sample(leaves, rng.randint(1, len(leaves)))]}
          elif below:
            call = {'name': 'rebind', 'pairs': [[p, tatom(p[-1])] for p in rng.sample(below, rng.randint(1, min(3, len(below))))]}
            if node['k'] == 'list':
              call['pairs'].sort(key=lambda pv: key_cmp_tuple(pv[0]))     # the order in which List reports its updates
            if rng.chance(0.5):
              call['skip'] = True
          else:
            continue
        else:
          call = g.call(shadow, path, node)
        step = {'recv': path, 'notify': True if call.get('skip') else rng.chance(0.4), 'call': call}
        if call['name'] == 'setslice':
          step['notify'] = True
        steps.append(step)
        mirror(shadow, json.loads(json.dumps(step)))
      if not any('call' in s_ for s_ in steps):
        continue
      steps.append({'read': [[p, list(FACTS)] for p, _ in all_nodes(shadow)]})
      yield {'tree': t, 'steps': steps, 'reads': 'chosen'}

  def silent_delete_cases(self, rng, n):
    """Lists WITH an onchange_callback (and subscribing ancestors) under rebinds that delete items
    (path -> MISSING_VALUE), single and batched, issued on the list or on an ancestor: silent
    (skip_notification=True, or inside notify_on_change(False)) -- nobody may hear anything, an
    invocation with an empty dict counts -- and notified ones, followed by further calls."""
    g = Gen(rng)
    made = 0
    for _ in range(n * 6):
      if made >= n:
        break
      g.next_id = 1
      g.no_obj = rng.chance(0.5)
      g.deletes = False
      t = g.tree(rng.randint(1, 3), rng.choice(['dict', 'list', 'obj']), 1.0)
      lists = [(p, x) for p, x in all_nodes(t) if x['k'] == 'list' and x['items']]
      if not lists:
        continue
      shadow = json.loads(json.dumps(t))
      steps = []
      for i in range(rng.randint(1, 3)):
        lists = [(p, x) for p, x in all_nodes(shadow) if x['k'] == 'list' and x['items']]
        if not lists:
          break
        lpath, l = rng.choice(lists)
        cut = rng.randint(0, len(lpath))
        recv, rel = lpath[:cut], lpath[cut:]
        idxs = rng.sample(range(len(l['items'])), rng.randint(1, min(2, len(l['items']))))
        pairs = [[rel + [j], MISSING] for j in sorted(idxs)]
        rnode = get_at(shadow, recv)
        if rng.chance(0.4):
          k, old = g.target(rnode)
          if k is not None and all(([k] != p_[:1]) for p_, _ in pairs):
            pairs.append([[k], g.value(old)])
        if rnode['k'] == 'list':
          pairs.sort(key=lambda pv: key_cmp_tuple(pv[0]))
        mode = rng.below(3)
        call = {'name': 'rebind', 'pairs': pairs}
        step = {'recv': recv, 'notify': mode != 1, 'call': call}
        if mode == 0:
          call['skip'] = True
        steps.append(step)
        mirror(shadow, json.loads(json.dumps(step)))
      if steps:
        made += 1
        yield {'tree': t, 'steps': steps}

  def reentrant_cases(self, rng, n):
    """Handlers that mutate during notification: some subscribing nodes react to every event they
    receive with a call of their own -- on themselves, on a descendant, on an ancestor or elsewhere --
    up to a nesting depth `fuel`. All writes (outer and nested) put atoms at leaf locations, so the
    subscribers stay where they are."""
    g = Gen(rng)
    def atom_locs(node, path=()):
      out = []
      for p_, x in all_nodes(node):
        for k, c in x['items']:
          if not is_node(c):
            out.append(list(p_) + [k])
        if x['k'] == 'dict':
          out.append(list(p_) + [rng.choice(['r1', 'r2'])])
      return out
    made = 0
    for _ in range(n * 5):
      if made >= n:
        break
      g.next_id = 1
      g.no_obj = rng.chance(0.4)
      g.deletes = False
      t = g.tree(rng.randint(2, 3), None, rng.choice([0.7, 1.0]))
      nodes = all_nodes(t)
      subs = [(p_, x) for p_, x in nodes if x['sub']]
      locs = atom_locs(t)
      if not subs or not locs:
        continue
      react = []
      for p_, x in rng.sample(subs, rng.randint(1, min(3, len(subs)))):
        how = rng.below(4)
        if how == 0:
          cands = [l for l in locs if l[:-1] == list(p_)]                         # on itself
        elif how == 1:
          cands = [l for l in locs if l[:len(p_)] == list(p_) and len(l) > len(p_) + 1]   # on a descendant
        elif how == 2:
          cands = [l for l in locs if list(p_)[:len(l) - 1] == l[:-1] and len(l) - 1 < len(p_)]   # on an ancestor
        else:
          cands = locs
        if not cands:
          cands = locs
        loc = rng.choice(cands)
        if rng.chance(0.7):
          call = {'name': 'setkey', 'key': loc[-1], 'v': g.atom()}
          rrecv = loc[:-1]
        else:
          cut = rng.randint(0, len(loc) - 1)
          rrecv, call = loc[:cut], {'name': 'rebind', 'pairs': [[loc[cut:], g.atom()]]}
        react.append([x['id'], rrecv, call])
      steps = []
      for _ in range(rng.randint(1, 3)):
        loc = rng.choice(locs)
        if rng.chance(0.5):
          step = {'recv': loc[:-1], 'notify': rng.chance(0.9), 'call': {'name': 'setkey', 'key': loc[-1], 'v': g.atom()}}
        else:
          cut = rng.randint(0, len(loc) - 1)
          pairs = [[loc[cut:], g.atom()]]
          for l2 in rng.sample(locs, min(2, len(locs))):
            if l2[:cut] == loc[:cut] and all(l2[cut:] != p_ for p_, _ in pairs) and rng.chance(0.5):
              pairs.append([l2[cut:], g.atom()])
          if get_at(t, loc[:cut])['k'] == 'list':
            pairs.sort(key=lambda pv: key_cmp_tuple(pv[0]))
          step = {'recv': loc[:cut], 'notify': rng.chance(0.9), 'call': {'name': 'rebind', 'pairs': pairs}}
        steps.append(step)
      made += 1
      yield {'tree': t, 'steps': steps, 'react': react, 'fuel': rng.choice([1, 1, 2, 3])}

  def facts_cases(self, rng, n):
    g = Gen(rng)
    for _ in range(n):
      g.next_id = 1
      t = g.tree(rng.randint(1, 2), 'dict', 0.5)
      t0 = json.loads(json.dumps(t))
      specials = [{'k': 'req', 'id': 0, 'sub': False, 'items': [['r', MISSING], ['x', g.atom()]]},
                  {'k': 'req', 'id': 0, 'sub': False, 'items': [['r', 3], ['x', g.atom()]]},
                  {'pure': True}, {'oneof': [1, 2]}]
      steps = []
      for _ in range(rng.randint(1, 4)):
        nodes = [(p, x) for p, x in all_nodes(t) if x['k'] == 'dict']
        if not nodes:
          break
        path, node = rng.choice(nodes)
        name = rng.choice(['setkey', 'update', 'rebind', 'delkey'])
        k = rng.choice(DKEYS)
        v = rng.choice(specials) if rng.chance(0.7) else g.atom()
        keys = [kk for kk, _ in node['items']]
        if name == 'delkey':
          if not keys:
            continue
          k = rng.choice(keys)
          c = {'name': 'delkey', 'key': k}
        elif name == 'setkey':
          c = {'name': 'setkey', 'key': k, 'v': v}
        elif name == 'update':
          c = {'name': 'update', 'kvs': [[k, v]]}
        else:
          c = {'name': 'rebind', 'pairs': [[[k], v]]}
        steps.append({'recv': path, 'notify': rng.chance(0.8), 'call': c})
        # shadow: the written location becomes an opaque leaf (never addressed below)
        node['items'] = [it for it in node['items'] if it[0] != k] + ([[k, 0]] if name != 'delkey' else [])
      if steps:
        yield {'tree': t0, 'steps': steps, 'facts_only': True}

  def detached_cases(self, rng, n):
    """Oracle-only: a symbolic child is removed / replaced (del, pop via del, rebind, setkey, list
    setitem), the harness keeps a reference to it and mutates it afterwards: nobody in the tree it
    was removed from may be notified, and the tree's facts stay fresh."""
    g = Gen(rng)
    made = 0
    for _ in range(n * 8):
      if made >= n:
        break
      g.next_id = 1
      g.no_obj = rng.chance(0.5)
      t = g.tree(rng.randint(2, 3), rng.choice(['dict', 'list', 'obj']), 1.0)
      cands = [(p, x) for p, x in all_nodes(t) if p and is_node(x)]
      if not cands:
        continue
      path, child = rng.choice(cands)
      parent = get_at(t, path[:-1])
      k = path[-1]
      how = rng.choice(['delkey', 'setkey', 'rebind'] if parent['k'] == 'dict' else ['setkey', 'rebind'])
      if how == 'delkey':
        c1 = {'name': 'delkey', 'key': k}
      elif how == 'setkey':
        c1 = {'name': 'setkey', 'key': k, 'v': g.atom()}
      else:
        c1 = {'name': 'rebind', 'pairs': [[[k], g.atom()]]}
      inner = all_nodes(child)
      ipath, inode = rng.choice(inner)
      k2, old = g.target(inode)
      if k2 is None:
        c2 = {'name': 'append', 'v': g.atom()}
      else:
        c2 = {'name': 'setkey', 'key': k2, 'v': g.value(old)}
      made += 1
      yield {'tree': t, 'facts_only': True, 'steps': [
          {'recv': path[:-1], 'notify': True, 'call': c1, 'keep': path},
          {'recv': ipath, 'notify': True, 'call': c2, 'detached': 0}]}

  def _forest_call(self, g, rng, shadows, which, path, node, notify_eff, t=None, wrapper=True):
    """One generated call on `node` of tree `which`, mirrored on the shadow. -> step | None"""
    c = g.call(shadows[which], path, node)
    if c['name'] == 'setslice' and c.get('step') in (None, 1) and not notify_eff:
      size = len(range(*slice(c['a'], c['b'], 1).indices(len(node['items']))))
      if len(c['vs']) < size:
        return None          # silent shrinking slice assignment leaves placeholders (C02-F03)
    step = {'recv': path, 'notify': wrapper, 'call': c}
    if t is not None:
      step['t'] = t
    if which == 'ext':
      step['in'] = 'ext'
    mirror(shadows[which], json.loads(json.dumps(dict(step, notify=notify_eff))))
    return step

  def thread_switch_cases(self, rng, n):
    """Two trees, 1-2 worker threads besides the harness thread. Threads enter / leave
    `notify_on_change(v)` (mostly False) and, in between, any thread mutates a node of either tree:
    whether the call notifies is decided by the scopes of the thread that makes it."""
    g = Gen(rng)
    for _ in range(n):
      g.next_id = 1
      g.no_obj = rng.chance(0.4)
      g.deletes = False
      t = g.tree(rng.randint(1, 2), None, rng.choice([0.6, 1.0]))
      e = g.tree(rng.randint(1, 2), None, rng.choice([0.6, 1.0]))
      nthreads = rng.choice([1, 1, 2])
      shadows = {'tree': json.loads(json.dumps(t)), 'ext': json.loads(json.dumps(e))}
      stacks = [[] for _ in range(nthreads + 1)]
      steps = []
      for _ in range(rng.randint(2, 8)):
        ti = rng.below(nthreads + 1)
        if rng.chance(0.4):
          if rng.chance(0.75) or not stacks[ti]:
            v = rng.chance(0.25)
            stacks[ti].append(v)
            steps.append({'scope': 'enter', 't': ti, 'v': v})
          else:
            stacks[ti].pop()
            steps.append({'scope': 'leave', 't': ti})
          continue
        which = rng.choice(['tree', 'ext'])
        path, node = rng.choice(all_nodes(shadows[which]))
        wrapper = rng.chance(0.9)
        eff = wrapper and (stacks[ti][-1] if stacks[ti] else True)
        step = self._forest_call(g, rng, shadows, which, path, node, eff, ti, wrapper)
        if step is not None:
          steps.append(step)
      if not any('call' in s_ for s_ in steps):
        continue
      yield {'tree': t, 'ext': e, 'steps': steps, 'forest': True, 'threads': nthreads}

  def ref_item_cases(self, rng, n):
    """Lists / dicts of the first tree hold pg.Ref items that point at nodes of the second tree. The
    items are removed / replaced (clear, pop, del, popitem, item assignment, slice calls, rebind, ...):
    the events carry the stored Ref, and the referenced tree keeps its links -- what is mutated in it
    afterwards still reaches its own ancestors and leaves no stale memo there."""
    g = Gen(rng)
    made = 0
    while made < n:
      g.next_id = 1
      g.no_obj = rng.chance(0.4)
      g.deletes = False
      e = g.tree(rng.randint(1, 3), rng.choice(['dict', 'list', None]), rng.choice([0.6, 1.0]))
      # the holders and their ancestors are Dicts / Lists: the flattened sym_nondefault() of an OBJECT with a
      # Dict-valued field walks the evaluated items of that Dict, i.e. through the references (observation F380)
      g.no_obj = True
      t = g.tree(rng.randint(1, 2), rng.choice(['dict', 'list']), rng.choice([0.6, 1.0]))
      enodes = all_nodes(e)
      holders = []
      for _ in range(rng.randint(1, 3)):
        cands = [(p_, n_) for p_, n_ in all_nodes(t) if n_['k'] in ('list', 'dict') and n_.get('ref') is None]
        hp, h = rng.choice(cands)
        rp, _ = rng.choice(enodes) if rng.chance(0.3) else rng.choice([pn for pn in enodes if pn[0]] or enodes)
        r_ = ref_node(rp, g.next_id)
        g.next_id += 1
        if h['k'] == 'list':
          vals = [v for _, v in h['items']]
          vals.insert(rng.randint(0, len(vals)), r_)
          h['items'] = [[i, v] for i, v in enumerate(vals)]
        else:
          key = rng.choice(DKEYS)
          h['items'] = [it for it in h['items'] if it[0] != key] + [[key, r_]]
        holders.append(hp)
      shadows = {'tree': json.loads(json.dumps(t)), 'ext': json.loads(json.dumps(e))}
      steps = []
      for _ in range(rng.randint(1, 3)):
        # a call on a container that (still) holds a reference, preferably one that removes / replaces it
        hs = [(p_, n_) for p_, n_ in all_nodes(shadows['tree'])
              if n_.get('ref') is None and any(is_node(c) and c.get('ref') is not None for _, c in n_['items'])]
        if not hs:
          break
        hp, h = rng.choice(hs)
        notify = rng.chance(0.85)
        refs = [k for k, c in h['items'] if is_node(c) and c.get('ref') is not None]
        k = rng.choice(refs)
        newv = rng.choice([g.atom(), g.atom(), ref_node(rng.choice(enodes)[0]), g.fresh_tree(1)])
        if h['k'] == 'list':
          n_ = len(h['items'])
          opts = [{'name': 'clear'}, {'name': 'delidx', 'via': 'pop', 'i': k}, {'name': 'delidx', 'via': 'del', 'i': k - n_},
                  {'name': 'setkey', 'key': k, 'v': newv}, {'name': 'rebind', 'pairs': [[[k], newv]]},
                  {'name': 'delslice', 'a': k, 'b': k + 1, 'step': None}, {'name': 'delslice', 'a': None, 'b': None, 'step': None},
                  {'name': 'setslice', 'a': k, 'b': k + 1, 'step': None, 'vs': [newv]},
                  {'name': 'insert', 'i': 0, 'v': g.atom()}, {'name': 'imul', 'k': 0}]
          if not any(isinstance(c, str) for _, c in h['items']):
            opts.append({'name': 'reverse'})
        else:
          opts = [{'name': 'clear'}, {'name': 'delkey', 'key': k}, {'name': 'setkey', 'key': k, 'v': newv},
                  {'name': 'rebind', 'pairs': [[[k], newv]]}, {'name': 'update', 'kvs': [[k, newv]]}]
          if h['items'][-1][0] == k:
            opts.append({'name': 'popitem'})
        if rng.chance(0.8):
          step = {'recv': hp, 'notify': notify, 'call': rng.choice(opts)}
          mirror(shadows['tree'], json.loads(json.dumps(step)))
        else:
          step = self._forest_call(g, rng, shadows, 'tree', hp, h, notify, None, notify)
        if step is not None:
          steps.append(step)
      # ... then the referenced tree is mutated
      for _ in range(rng.randint(1, 2)):
        path, node = rng.choice(all_nodes(shadows['ext']))
        notify = rng.chance(0.9)
        step = self._forest_call(g, rng, shadows, 'ext', path, node, notify, None, notify)
        if step is not None:
          steps.append(step)
      if not steps:
        continue
      made += 1
      yield {'tree': t, 'ext': e, 'steps': steps, 'forest': True}

  def rejected_write_cases(self, rng, n):
    """Writes that a value spec REFUSES -- KeyError (a key the nested schema does not have), TypeError
    (an atom / a list / an object of another class where a Dict or an object of a class is due, a str
    where an int is due), ValueError (an int below the minimum, None) -- on fields whose current value
    is symbolic (a schema-bound Dict, an object), by attribute assignment or a one-pair rebind from the
    owner or an ancestor, notified or silent; then mutations INSIDE the value that stayed in place: every
    subscribing ancestor hears of them and no memo is stale. Accepted replacements are mixed in."""
    g = Gen(rng)
    ctr = [100]
    def nid():
      ctr[0] += 1
      return ctr[0]
    def opt_val():
      return {'k': 'dict', 'id': 0, 'sub': False, 'typed': True, 'bind': 'opt',
              'items': [['lr', g.atom()], ['n', rng.randint(0, 9)]]}
    def inner_val():
      return {'k': 'inner', 'id': nid(), 'sub': rng.chance(0.5), 'typed': True,
              'items': [['k', g.atom()], ['m', g.atom()]]}
    def bad_opt():
      k_ = rng.below(7)
      d = {'k': 'dict', 'id': 0, 'sub': False, 'items': [['lr', g.atom()], ['n', rng.randint(0, 9)]]}
      if k_ == 0:
        d['items'].append([rng.choice(['zz', 'steps']), g.atom()])
        return d, 'KeyError'
      if k_ == 1:
        d['items'][1] = ['stepz', 5]
        d['items'].append(['n', 1])
        return d, 'KeyError'
      if k_ == 2:
        return rng.choice([5, 'p', fresh('list', [1])]), 'TypeError'
      if k_ == 3:
        d['items'][1][1] = rng.choice(['p', 'q'])
        return d, 'TypeError'
      if k_ == 4:
        d['items'][1][1] = -rng.randint(1, 5)
        return d, 'ValueError'
      if k_ == 5:
        return None, 'ValueError'
      return inner_val(), 'TypeError'
    def bad_o():
      k_ = rng.below(4)
      if k_ == 0:
        return rng.choice([3, 'p']), 'TypeError'
      if k_ == 1:
        return fresh('dict', [['k', 1]]), 'TypeError'
      if k_ == 2:
        return {'k': 'obj', 'id': nid(), 'sub': False, 'items': [['x', 1], ['y', None], ['z', None]]}, 'TypeError'
      return None, 'ValueError'
    for _ in range(n):
      g.next_id = 10
      g.no_obj = False
      ctr[0] = 100
      owner = {'k': 'chk', 'id': nid(), 'sub': rng.chance(0.7), 'typed': True,
               'items': [['opt', dict(opt_val(), bind=None)], ['o', inner_val()],
                         ['x', g.atom() if rng.chance(0.6) else g.tree(1, None, 0.5)]]}
      del owner['items'][0][1]['bind']
      wrap = rng.below(4)
      if wrap == 0:
        t, opath = owner, []
      elif wrap == 1:
        t, opath = {'k': 'dict', 'id': 1, 'sub': rng.chance(0.7), 'items': [['h', owner], ['c', g.atom()]]}, ['h']
      elif wrap == 2:
        t, opath = {'k': 'list', 'id': 1, 'sub': rng.chance(0.7), 'items': [[0, g.atom()], [1, owner]]}, [1]
      else:
        mid = {'k': 'dict', 'id': 2, 'sub': rng.chance(0.5), 'items': [['h', owner]]}
        t, opath = {'k': 'obj', 'id': 1, 'sub': rng.chance(0.7), 'items': [['x', mid], ['y', g.atom()], ['z', None]]}, ['x', 'h']
      shadow = json.loads(json.dumps(t))
      steps = []
      def write(field, v):
        """An attribute assignment on the owner, or a one-pair rebind from the owner / an ancestor."""
        how = rng.below(3)
        if how == 0:
          return {'recv': opath, 'call': {'name': 'setkey', 'key': field, 'v': v}}
        cut = rng.randint(0, len(opath)) if how == 2 else len(opath)
        return {'recv': opath[:cut], 'call': {'name': 'rebind', 'pairs': [[opath[cut:] + [field], v]]}}
      rejected = False
      for _ in range(rng.randint(2, 6)):
        k_ = rng.below(10)
        if k_ < 4 or (not rejected and k_ < 6):
          field = rng.choice(['opt', 'opt', 'o'])
          v, err = bad_opt() if field == 'opt' else bad_o()
          step = dict(write(field, v), notify=rng.chance(0.8), rej=err)
          steps.append(step)
          rejected = True
          continue                      # refused: the shadow stays as it is
        if k_ < 9:
          # a mutation inside a value that is (still) in place
          field = rng.choice(['opt', 'opt', 'o'])
          key = rng.choice(['lr', 'n'] if field == 'opt' else ['k', 'm'])
          v = rng.randint(0, 9) if key == 'n' else g.atom()
          cut = rng.randint(0, len(opath) + 1)
          full = opath + [field]
          if rng.chance(0.5) or cut == len(full):
            step = {'recv': full, 'call': {'name': 'setkey', 'key': key, 'v': v}}
          else:
            step = {'recv': full[:cut], 'call': {'name': 'rebind', 'pairs': [[full[cut:] + [key], v]]}}
          step['notify'] = rng.chance(0.85)
        else:
          field = rng.choice(['opt', 'o'])
          step = dict(write(field, opt_val() if field == 'opt' else inner_val()), notify=rng.chance(0.85))
        steps.append(step)
        mirror(shadow, json.loads(json.dumps(step)))
      if not rejected:
        continue
      yield {'tree': t, 'steps': steps, 'rules': True}

  def reading_handler_cases(self, rng, n):
    """Every handler READS derived facts (sym_nondefault, sym_missing, is_partial, sym_puresymbolic) of the
    node that was written and of all its ancestors while the dispatch is still going on. The calls are
    notified batched rebinds that delete List items (path -> MISSING_VALUE) AND write inside a later
    item of the same list (its handler runs before the list drops the placeholder), plus ordinary
    calls; afterwards every memo must be fresh."""
    g = Gen(rng)
    made = 0
    for _ in range(n * 8):
      if made >= n:
        break
      g.next_id = 1
      g.no_obj = rng.chance(0.3)
      g.deletes = True
      t = g.tree(rng.randint(2, 3), rng.choice(['dict', 'list', 'obj']), 1.0)
      shadow = json.loads(json.dumps(t))
      steps = []
      good = False
      for i in range(rng.randint(1, 3)):
        lists = [(p, x) for p, x in all_nodes(shadow) if x['k'] == 'list' and len(x['items']) >= 2
                 and any(is_node(c) and c.get('ref') is None for _, c in x['items'][1:])]
        if not lists or rng.chance(0.2):
          path, node = rng.choice(all_nodes(shadow))
          step = {'recv': path, 'notify': True, 'call': g.call(shadow, path, node)}
        else:
          lpath, l = rng.choice(lists)
          later = [j for j, c in l['items'] if j >= 1 and is_node(c)]
          j = rng.choice(later)
          dels = rng.sample(range(j), rng.randint(1, min(2, j)))
          item = get_at(l, [j])
          sub_nodes_ = all_nodes(item)
          ipath, inode = rng.choice(sub_nodes_)
          k, old = g.target(inode)
          if k is None:
            continue
          cut = rng.randint(0, len(lpath))
          recv, rel = lpath[:cut], lpath[cut:]
          pairs = [[rel + [d], MISSING] for d in sorted(dels)] + [[rel + [j] + ipath + [k], g.value(old)]]
          if get_at(shadow, recv)['k'] == 'list':
            pairs.sort(key=lambda pv: key_cmp_tuple(pv[0]))
          step = {'recv': recv, 'notify': True, 'call': {'name': 'rebind', 'pairs': pairs}}
          good = True
        steps.append(step)
        mirror(shadow, json.loads(json.dumps(step)))
        if any(is_node(n_) and n_['k'] == 'list' and any(is_missing(v_) for _, v_ in n_['items']) for _, n_ in all_nodes(shadow)):
          break
      if good:
        made += 1
        yield {'tree': t, 'steps': steps, 'readers': True}

  def foreign_value_cases(self, rng, n):
    """A node that BELONGS TO ANOTHER TREE is written into a List / Dict / object field (append, insert,
    extend, item assignment, slice assignment, rebind, update), next to plain dicts / lists: the container
    stores a copy, and the events carry that stored copy (identity), never the node of the other tree."""
    g = Gen(rng)
    made = 0
    while made < n:
      g.next_id = 1
      g.no_obj = rng.chance(0.4)
      g.deletes = False
      e = g.tree(rng.randint(2, 3), rng.choice(['dict', 'list', None]), 0.6)
      enodes = [(p_, n_) for p_, n_ in all_nodes(e) if p_]
      if not enodes:
        continue
      epath, enode = rng.choice(enodes)
      for _, x in all_nodes(enode):
        x['sub'] = False          # a copy of a subscribing Dict / List would share the callback of the original
      t = g.tree(rng.randint(1, 2), None, rng.choice([0.6, 1.0]))
      shadows = {'tree': json.loads(json.dumps(t)), 'ext': json.loads(json.dumps(e))}
      steps = []
      for _ in range(rng.randint(1, 3)):
        path, node = rng.choice(all_nodes(shadows['tree']))
        val = lambda: {'from_ext': epath}
        n_ = len(node['items'])
        if node['k'] == 'list':
          opts = [{'name': 'append', 'v': val()}, {'name': 'insert', 'i': rng.randint(0, n_), 'v': val()},
                  {'name': 'extend', 'via': rng.choice(['extend', 'iadd']), 'vs': [val(), g.value()]},
                  {'name': 'rebind', 'pairs': [[[n_], val()]]},
                  {'name': 'setslice', 'a': 0, 'b': 0, 'step': None, 'vs': [val()]}]
          if n_:
            i = rng.below(n_)
            opts += [{'name': 'setkey', 'key': i, 'v': val()}, {'name': 'rebind', 'pairs': [[[i], val()]]}]
        elif node['k'] == 'dict':
          k = rng.choice(DKEYS)
          opts = [{'name': 'setkey', 'key': k, 'v': val()}, {'name': 'rebind', 'pairs': [[[k], val()]]},
                  {'name': 'update', 'kvs': [[k, val()]]}]
        else:
          k = rng.choice(FIELDS)
          opts = [{'name': 'setkey', 'key': k, 'v': val()}, {'name': 'rebind', 'pairs': [[[k], val()]]}]
        step = {'recv': path, 'notify': rng.chance(0.9), 'call': rng.choice(opts)}
        steps.append(step)
        mirror(shadows['tree'], literal(json.loads(json.dumps(step)), e))
      made += 1
      yield {'tree': t, 'ext': e, 'steps': steps, 'forest': True}

  def model_request(self, case):
    if case.get('facts_only'):
      return None
    steps = []
    for s_ in (literal(case['steps'], case['ext']) if case.get('forest') else case['steps']):
      if 'scope' in s_:
        steps.append(s_)
        continue
      if 'read' in s_:
        steps.append({'read': [[p] + list(read_flags(names)) for p, names in s_['read'] if any(read_flags(names))]})
        continue
      s_ = json.loads(json.dumps(s_))
      c = s_['call']
      for fld in ('v',):
        if fld in c:
          c[fld] = annotate(c[fld])
      if 'vs' in c:
        c['vs'] = [annotate(x) for x in c['vs']]
      if 'pairs' in c:
        c['pairs'] = [[p_, annotate(x)] for p_, x in c['pairs']]
      if 'kvs' in c:
        c['kvs'] = [[k_, annotate(x)] for k_, x in c['kvs']]
      if c.get('skip'):
        s_['notify'] = False                       # rebind(skip_notification=True): nobody is notified
      steps.append(s_)
    req = {'op': 'run', 'tree': annotate(case['tree']), 'steps': steps}
    if case.get('forest'):
      req['ext'] = annotate(case['ext'])
    if case.get('rules'):
      req['rules'] = RULES
    if case.get('react'):
      req['react'] = [[rid, rpath, rcall] for rid, rpath, rcall in case['react']]
      req['fuel'] = case.get('fuel', 0)
    if case.get('reads') == 'chosen':
      req['reads'] = 'chosen'
    return req

  def impl_forest(self, case):
    """Two trees and several threads. Scope steps enter / leave `pg.notify_on_change(v)` on the thread
    they name; a call runs on the thread it names (`t`; default: the harness thread), on a node of
    the tree it names (`in`). After every step every fact of every node of BOTH trees is read."""
    import pyglove as pg
    from harness.c08 import Worker
    class Here:            # the harness thread itself
      def __init__(self):
        self.cms = []
      def run(self, fn):
        return fn()
      def stop(self):
        while self.cms:
          self.cms.pop().__exit__(None, None, None)
    _CLS.clear()
    classes()
    del LOG[:]
    OBJ_IDS.clear()
    del _KEEP[:]
    REACT.clear()
    RSTATE.update(root=None, fuel=0, depth=0)
    READERS[0] = False
    workers = []
    # the harness thread starts from "notifications enabled", whatever an earlier case left behind
    with pg.notify_on_change(True):
      try:
        ext = build(case['ext'])
        _EXT[0] = ext
        root = build(case['tree'])
        trees = {'tree': root, 'ext': ext}
        workers = [Worker() for _ in range(case.get('threads', 0))] + [Here()]
        for w in workers[:-1]:
          def base(w=w):
            cm = pg.notify_on_change(True)
            cm.__enter__()
            w.cms.append(cm)
          w.run(base)
        depth = [0] * len(workers)
        read_all(root)
        read_all(ext)
        outs = []
        for step in case['steps']:
          ti = step.get('t', len(workers) - 1)
          ti = ti if 0 <= ti < len(workers) - 1 else len(workers) - 1
          worker = workers[ti]
          which = 'ext' if step.get('in') == 'ext' else 'tree'
          other = 'tree' if which == 'ext' else 'ext'
          pre, pre_other = canon(trees[which]), canon(trees[other])
          del LOG[:]
          del BOUND[:]
          RSTATE.update(depth=0, stack=[0], next=1, calls=[])
          if 'scope' in step:
            def scope_action(step=step, worker=worker, ti=ti):
              if step['scope'] == 'enter':
                cm = pg.notify_on_change(bool(step['v']))
                cm.__enter__()
                worker.cms.append(cm)
                depth[ti] += 1
              elif depth[ti] > 0:
                worker.cms.pop().__exit__(None, None, None)
                depth[ti] -= 1
            worker.run(scope_action)
            outs.append({'ok': True, 'err': None, 'events': [], 'reads': [], 'value': canon(root), 'pre': pre,
                         'other': canon(trees[other]), 'pre_other': pre_other, 'stale': [], 'stale_other': [],
                         'links': [], 'tagged': [], 'nested': [], 'bound': []})
            continue
          def call(step=step, which=which):
            with contextlib.ExitStack() as stack:
              if not step['notify']:
                stack.enter_context(pg.notify_on_change(False))
              try:
                do_call(navigate(trees[which], step['recv']), step['call'])
                return True, None
              except Exception as e:    # pylint: disable=broad-except
                return False, type(e).__name__
          snapshot_objects(root, ext)
          ok, err = worker.run(call)
          ident = [[e['recv']] + b_ for e in LOG for b_ in e.get('ident', [])]
          PRE_OBJS.clear()
          events = canon_log(LOG)
          bound = [b_ for b_ in BOUND if b_ is not None]      # None: the _on_bound of a value under construction
          outs.append({'ok': ok, 'err': err, 'events': events, 'bound': bound,
                       'stale': stale_facts(trees[which]), 'stale_other': stale_facts(trees[other]),
                       'reads': leafmap_reads(trees[which]),
                       'value': canon(trees[which]), 'pre': pre, 'other': canon(trees[other]), 'pre_other': pre_other,
                       'links': [[w_, p_] for w_ in ('tree', 'ext') for p_ in bad_links(trees[w_])],
                       'tagged': [], 'nested': [], 'ident': ident})
        model = {'steps': [{'ok': o['ok'], 'events': o['events'], 'reads': o['reads'], 'value': o['value']} for o in outs]}
        return {'model': model, 'steps': outs}
      finally:
        for w in workers:
          w.stop()
        _EXT[0] = None

  def impl(self, case):
    import pyglove as pg
    if case.get('forest'):
      return self.impl_forest(case)
    _CLS.clear()          # fresh classes for every case: whatever a class remembers starts empty
    classes()
    del LOG[:]
    OBJ_IDS.clear()
    del _KEEP[:]
    root = build(case['tree'])
    REACT.clear()
    for rid, rpath, rcall in case.get('react', []):
      REACT[rid] = {'recv': rpath, 'call': rcall}
    RSTATE.update(root=root, fuel=case.get('fuel', 0), depth=0)
    READERS[0] = bool(case.get('readers'))
    chosen = case.get('reads') == 'chosen'
    if not chosen:
      read_all(root)
    outs = []
    kept = []
    for step in case['steps']:
      pre = canon(root)
      del LOG[:]
      del BOUND[:]
      RSTATE.update(depth=0, stack=[0], next=1, calls=[])
      if 'read' in step:
        outs.append(self.impl_read(case, root, step, pre))
        continue
      ok = True
      err = None
      if 'keep' in step:
        kept.append(navigate(root, step['keep']))
      base_node = kept[step['detached']] if 'detached' in step else root
      snapshot_objects(root, *kept)
      with contextlib.ExitStack() as stack:
        if not step['notify']:
          stack.enter_context(pg.notify_on_change(False))
        try:
          do_call(navigate(base_node, step['recv']), step['call'])
        except Exception as e:    # pylint: disable=broad-except
          ok = False
          err = type(e).__name__
      events = canon_log(LOG)
      tagged = [dict(e) for e in LOG]
      ident = [[e['recv']] + b_ for e in LOG for b_ in e.get('ident', [])]
      PRE_OBJS.clear()
      nested = list(RSTATE['calls'])
      bound = [b_ for b_ in BOUND if b_ is not None]      # None: the _on_bound of a value under construction
      if chosen:
        outs.append({'ok': ok, 'err': err, 'events': events, 'reads': [], 'value': canon(root), 'pre': pre, 'stale': [],
                     'bound': bound, 'tagged': tagged, 'nested': nested, 'ident': ident})
        continue
      got = read_all(root)
      placeholders = has_placeholder(root)
      want = [] if placeholders else recomputed(root)
      stale = []
      wmap = {json.dumps(p): f for p, f in want}
      for p, f in ([] if placeholders else got):
        w = wmap.get(json.dumps(p))
        if w is None:
          stale.append([p, ['<node missing in copy>']])
        else:
          bad = sorted(k for k in f if f[k] != w[k])
          if bad:
            stale.append([p, bad])
      with_reads = not case.get('facts_only')
      outs.append({'ok': ok, 'err': err, 'events': events, 'reads': leafmap_reads(root) if with_reads else [],
                   'value': canon(root), 'pre': pre, 'stale': stale, 'bound': bound, 'tagged': tagged,
                   'nested': nested, 'ident': ident})
    model = {'steps': [{'ok': o['ok'], 'events': o['events'], 'reads': o['reads'], 'value': o['value'],
                        'err': o.get('err')} for o in outs]}
    return {'model': model, 'steps': outs}

  def impl_read(self, case, root, step, pre):
    """A `read` step: the chosen facts of the chosen nodes, through the public accessors, compared with
    the same facts of a JSON round-tripped copy (a fresh computation on the current contents)."""
    import pyglove as pg
    placeholders = has_placeholder(root)
    copy = root if placeholders else pg.from_json(pg.to_json(root), allow_partial=True)
    stale, reads = [], []
    for path, names in step['read']:
      try:
        n, c = navigate(root, path), navigate(copy, path)
      except Exception:    # pylint: disable=broad-except
        continue
      if not isinstance(n, pg.Symbolic):
        continue
      got = facts(n, names)
      want = got if placeholders else facts(c, names)
      bad = sorted(k for k in got if got[k] != want[k])
      if bad:
        stale.append([path, bad])
      nd_, ms_ = read_flags(names)
      if (nd_ or ms_) and not case.get('facts_only'):
        a, b = read_values(n, nd_, ms_)
        reads.append([path, a, b])
    reads = sorted(reads, key=lambda e: json.dumps(e))
    return {'ok': True, 'err': None, 'events': [], 'reads': reads, 'value': canon(root), 'pre': pre, 'stale': stale}

  def compare(self, case, impl_out, model_out):
    a = impl_out['model']['steps']
    b = model_out.get('steps') or []
    for i, (x, y) in enumerate(zip(a, b)):
      y = dict(y)
      y['reads'] = sorted([[p, sorted(m, key=lambda e: json.dumps(e)), sorted(ms, key=lambda e: json.dumps(e))]
                           for p, m, ms in y['reads']], key=lambda e: json.dumps(e))
      if y.get('rej') and x.get('err') != y['rej']:
        return 'step %d (%s): the model says the write is refused with %s, impl: %s' % (
            i, json.dumps(case['steps'][i])[:200], y['rej'], x.get('err'))
      for fld in ('ok', 'value', 'events', 'reads'):
        if x[fld] != y[fld]:
          return 'step %d (%s) field %s: impl=%s model=%s' % (
              i, json.dumps(case['steps'][i])[:200], fld, json.dumps(x[fld])[:300], json.dumps(y[fld])[:300])
    if len(a) != len(b):
      return 'step count'
    return None

  # -- the property itself ------------------------------------------------------------------
  def oracle_forest(self, case, out):
    """Per call: the contract of the single-tree streams on the ADDRESSED tree, with `notify` = the
    innermost scope of the CALLING thread (enabled when it is inside none) and the call's own wrapper;
    nothing of the other tree changes, no node of it hears of the call, the memoised facts of both
    trees are fresh, and every node of both trees still has the parent / path of its place."""
    trees = {'tree': json.loads(json.dumps(case['tree'])), 'ext': json.loads(json.dumps(case['ext']))}
    stacks = {}
    nthreads = case.get('threads', 0)
    for step, o in zip(case['steps'], out['steps']):
      ti = step.get('t', nthreads)
      ti = ti if 0 <= ti < nthreads else nthreads
      if 'scope' in step:
        st = stacks.setdefault(ti, [])
        if step['scope'] == 'enter':
          st.append(bool(step['v']))
        elif st:
          st.pop()
        if o['value'] != o['pre'] or o['other'] != o['pre_other']:
          return {'signature': 'scope-changed-tree', 'what': 'entering / leaving notify_on_change changed a tree'}
        continue
      which = 'ext' if step.get('in') == 'ext' else 'tree'
      st = stacks.get(ti, [])
      eff = literal(dict(step, notify=bool(step['notify']) and (st[-1] if st else True)), case['ext'])
      name = step['call']['name']
      if o['other'] != o['pre_other']:
        return {'signature': 'changed-other-tree:' + name,
                'what': '%s on a node of %s changed the other tree: %s -> %s' % (
                    json.dumps(step['call'])[:150], which, json.dumps(o['pre_other'])[:200], json.dumps(o['other'])[:200])}
      if o['links']:
        return {'signature': 'links-broken:' + name,
                'what': 'after %s on a node of %s the nodes %s do not have the parent / path of their place any more' % (
                    json.dumps(step['call'])[:150], which, o['links'][:4])}
      if o['stale_other']:
        return {'signature': 'stale-other-tree:' + name,
                'what': 'after %s on a node of %s the memoised facts %s of the OTHER tree differ from a fresh '
                        'computation' % (json.dumps(step['call'])[:150], which, o['stale_other'][:3])}
      others_scope = any(st_ and i != ti for i, st_ in stacks.items())
      f = self.oracle_step(case, trees[which], eff, o)
      if f:
        if others_scope and eff['notify'] and f['signature'].split(':')[0] in ('missing-event', 'no-event', 'event-while-silent'):
          f = dict(f, signature='other-thread-scope:' + f['signature'])
        return f
      if o['ok']:
        mirror(trees[which], json.loads(json.dumps(eff)))
    return None

  def oracle(self, case, out):
    if case.get('forest'):
      return self.oracle_forest(case, out)
    tree = json.loads(json.dumps(case['tree']))
    last = None
    for step, o in zip(case['steps'], out['steps']):
      if 'read' in step:
        if o['stale']:
          how = 'read'
          if last is not None:
            silent = (not last['notify']) or last['call'].get('skip') or last['call']['name'] == 'update'
            how = ('notify-off:' if silent else '') + last['call']['name']
          return {'signature': 'stale:' + how,
                  'what': 'facts read at %s after %s differ from a fresh computation on the JSON round-tripped '
                          'copy: %s' % ([p for p, _ in step['read']][:4],
                                        json.dumps(last['call'])[:160] if last else 'construction', o['stale'][:3])}
        continue
      last = step
      if case.get('react'):
        f = self.oracle_react(case, step, o)
        if f:
          return f
        continue
      f = self.oracle_step(case, tree, step, o)
      if f:
        return f
      if o['ok'] and not case.get('facts_only'):
        mirror(tree, json.loads(json.dumps(step)))
    return None

  def oracle_step(self, case, tree, step, o):
    name = step['call']['name']
    # freshness -----------------------------------------------------------------------------
    if o['stale']:
      if name in ('clear', 'reverse', 'popitem'):
        sig = 'stale:' + name
      elif not step['notify'] and name in ('setkey', 'delkey', 'append'):
        sig = 'stale:notify-off:accessor'
      else:
        sig = 'stale:%s%s' % ('' if step['notify'] else 'notify-off:', name)
      return {'signature': sig,
              'what': 'after %s (notify=%s) the memoised facts %s differ from a fresh computation on the '
                      'JSON round-tripped copy' % (json.dumps(step['call'])[:200], step['notify'], o['stale'][:3])}
    if 'detached' in step:
      kept_step = [s for s in case['steps'] if 'keep' in s][step['detached']]
      sub = get_at(case['tree'], kept_step['keep'])
      inside = {n['id'] for _, n in all_nodes(sub)}
      outsiders = [e['recv'] for e in o['events'] if e['recv'] not in inside]
      if outsiders:
        return {'signature': 'event-from-detached-subtree',
                'what': 'a value removed from the tree by %s was mutated afterwards (%s) and nodes %s of its '
                        'former tree were notified' % (json.dumps(kept_step['call'])[:120],
                                                       json.dumps(step['call'])[:120], outsiders)}
      return None
    if case.get('facts_only'):
      return None
    # contract ------------------------------------------------------------------------------
    events = o['events']
    silent = (not step['notify']) or name in ('update',) or bool(step['call'].get('skip'))
    if not o['ok'] or silent:
      if events:
        return {'signature': 'event-while-silent:' + name,
                'what': 'events %s delivered although notification is disabled / skipped / the call failed' % events[:2]}
      return None
    if name in ('clear', 'reverse', 'popitem', 'sort'):
      changed = _diff(o['pre'], o['value'])
      subs = self.subscribing_ancestors(tree, step['recv'])
      if changed and subs and not events:
        return {'signature': 'no-event:' + name,
                'what': '%s changed %s but no event reached the subscribing nodes %s' % (name, changed[:2], subs)}
      if not CLEAR_NOTIFIES[0]:
        return None
    if o.get('ident'):
      return {'signature': 'payload-not-the-stored-object:' + name,
              'what': 'after %s the events carry values that are not the objects of the tree: %s' % (
                  json.dumps(step['call'])[:150], o['ident'][:3])}
    ids = [e['recv'] for e in events]
    bound = o.get('bound')
    if bound is not None:
      objs = {n['id'] for _, n in all_nodes(tree) if n['sub'] and n['k'] not in ('dict', 'list')}
      want = sorted(i for i in ids if i in objs)
      if sorted(bound) != want:
        return {'signature': 'on-bound-count',
                'what': 'objects %s received a change event, _on_bound ran for %s (once per event is expected)' % (
                    want, sorted(bound))}
    if len(set(ids)) != len(ids):
      return {'signature': 'duplicate-event', 'what': 'a receiver got more than one event: %s' % ids}
    sub_nodes = {n['id']: p for p, n in all_nodes(tree) if n['sub']}
    for e in events:
      if e['recv'] not in sub_nodes:
        return {'signature': 'event-to-stranger', 'what': 'receiver %s is not a subscribing node of the tree' % e['recv']}
    if name in LIST_EDITS or name in LIST_MOVES or (name == 'clear' and get_at(tree, step['recv'])['k'] == 'list'):
      f = self.oracle_list_edit(tree, step, o, events, sub_nodes)
      return f or self.oracle_order(events, sub_nodes)
    # rebind(path -> MISSING_VALUE) on List items: the items behind a deleted one move up when the list's
    # handler drops the placeholder; the report names the position the item had before the call
    deleted = []
    if name == 'rebind':
      for p_, v_ in step['call']['pairs']:
        par = get_at(tree, step['recv'] + p_[:-1])
        if is_missing(v_) and is_node(par) and par['k'] == 'list':
          deleted.append(step['recv'] + p_)
    # ... and so do the items behind a placeholder that an earlier silent rebind left in a list on the way
    moved = bool(deleted)
    for i in range(len(step['recv']) + 1):
      n_ = get_at(tree, step['recv'][:i])
      if is_node(n_) and n_['k'] == 'list' and any(is_missing(v_) for _, v_ in n_['items']):
        moved = True
    if name == 'rebind':
      for p_, _ in step['call']['pairs']:
        for i in range(len(p_)):
          n_ = get_at(tree, step['recv'] + p_[:i])
          if is_node(n_) and n_['k'] == 'list' and any(is_missing(v_) for _, v_ in n_['items']):
            moved = True
    if moved:
      want_tree = json.loads(json.dumps(tree))
      mirror(want_tree, json.loads(json.dumps(step)))
      if canon_json(want_tree) != o['value']:
        return {'signature': 'rebind-delete-result',
                'what': '%s left %s, expected %s' % (json.dumps(step['call'])[:150], json.dumps(o['value'])[:250],
                                                     json.dumps(canon_json(want_tree))[:250])}
    # payload: true old / new values at the reported locations
    reported = {}
    for e in events:
      rp = sub_nodes[e['recv']]
      locs = []
      for rel, old, new in e['entries']:
        loc = rp + rel
        locs.append(loc)
        if loc in deleted:
          ok_new = new == MISSING
        elif moved:
          ok_new = True          # positions behind a deleted item have moved: the result is checked as a whole
        else:
          ok_new = canon_at(o['value'], loc) == new
        if not ok_new or canon_at(o['pre'], loc) != old:
          return {'signature': 'wrong-payload',
                  'what': 'receiver %s at %s got (%s: %s -> %s) but the tree has %s -> %s there' % (
                      e['recv'], rp, rel, old, new, canon_at(o['pre'], loc), canon_at(o['value'], loc))}
      reported[e['recv']] = locs
    # exactly the affected subscribing ancestors, each with exactly the changed locations below it
    changed = [c[0] for c in _diff(o['pre'], o['value'])]
    written = self.written_locations(tree, step, o)
    for nid, rp in sub_nodes.items():
      below = [l for l in written if l[:len(rp)] == rp and len(l) > len(rp) and self.really_written(o, l, tree, step, deleted, moved)]
      got = reported.get(nid)
      if below and got is None:
        return {'signature': 'missing-event', 'what': 'subscribing node %s at %s got no event for %s' % (nid, rp, below)}
      if got is not None:
        if sorted(map(json.dumps, got)) != sorted(map(json.dumps, below)):
          return {'signature': 'wrong-locations',
                  'what': 'node %s at %s was told %s, written locations below it: %s' % (nid, rp, got, below)}
    for c in ([] if moved else changed):
      if not any(c[:len(w)] == w for w in written):
        return {'signature': 'unreported-change', 'what': 'location %s changed but was not written by the call' % c}
    return self.oracle_order(events, sub_nodes)

  def oracle_react(self, case, step, o):
    """Re-entrant handlers: every call of the nesting -- the outer one and each call issued by a
    handler -- is judged on its own: each subscribing ancestor-or-self of what THAT call wrote gets
    exactly one event of it (the node whose handler issued the call included), with exactly the
    locations below it and their old / new values, children before parents; nobody else hears of it."""
    subs = {n['id']: p for p, n in all_nodes(case['tree']) if n['sub']}
    tagged = o.get('tagged', [])
    if not step['notify'] or not o['ok']:
      if tagged:
        return {'signature': 'event-while-silent:' + step['call']['name'],
                'what': 'events %s delivered although notification is disabled / the call failed' % tagged[:2]}
      return None
    calls = [{'id': 0, 'recv': step['recv'], 'call': step['call'], 'pre': o['pre'], 'by': None}] + o.get('nested', [])
    known = {c['id'] for c in calls}
    for e in tagged:
      if e['call'] not in known or e['recv'] not in subs:
        return {'signature': 'event-to-stranger', 'what': 'event %s belongs to no call / receiver of the case' % e}
    for c in calls:
      tag = 'nested-' if c['id'] else ''
      cc = c['call']
      if cc['name'] == 'setkey':
        writes = [(c['recv'] + [cc['key']], cc['v'])]
      else:
        writes = [(c['recv'] + p_, v_) for p_, v_ in cc['pairs']]
      really = [(l, canon_at(c['pre'], l), v) for l, v in writes if canon_at(c['pre'], l) != v]
      mine = [e for e in tagged if e['call'] == c['id']]
      ids = [e['recv'] for e in mine]
      if len(set(ids)) != len(ids):
        return {'signature': tag + 'duplicate-event', 'what': 'call %s (issued by the handler of %s): receivers %s' % (
            json.dumps(cc)[:100], c['by'], ids)}
      for nid, rp in subs.items():
        below = [(l, a, b) for l, a, b in really if l[:len(rp)] == rp and len(l) > len(rp)]
        got = [e for e in mine if e['recv'] == nid]
        if below and not got:
          return {'signature': tag + 'missing-event',
                  'what': 'the call %s at %s%s wrote %s below the subscribing node %s at %s, which got no event for it' % (
                      json.dumps(cc)[:100], c['recv'], ' (issued by the handler of node %s)' % c['by'] if c['id'] else '',
                      [l for l, _, _ in below], nid, rp)}
        if got:
          want = sorted(json.dumps([l[len(rp):], a, b]) for l, a, b in below)
          if sorted(json.dumps(x) for x in got[0]['entries']) != want:
            return {'signature': tag + ('wrong-payload' if below else 'event-to-bystander'),
                    'what': 'call %s at %s: node %s at %s was told %s, expected %s' % (
                        json.dumps(cc)[:100], c['recv'], nid, rp, got[0]['entries'], want)}
      pos = {e['recv']: i for i, e in enumerate(mine)}
      for a in pos:
        for b in pos:
          pa, pb = subs[a], subs[b]
          if len(pb) > len(pa) and pb[:len(pa)] == pa and pos[b] > pos[a]:
            return {'signature': tag + 'parent-before-child', 'what': 'call %s: %s before %s' % (json.dumps(cc)[:80], a, b)}
    objs = {n['id'] for _, n in all_nodes(case['tree']) if n['sub'] and n['k'] not in ('dict', 'list')}
    want = sorted(e['recv'] for e in tagged if e['recv'] in objs)
    if sorted(o.get('bound', [])) != want:
      return {'signature': 'on-bound-count', 'what': 'events to objects %s, _on_bound ran for %s' % (want, sorted(o.get('bound', [])))}
    return None

  def oracle_order(self, events, sub_nodes):
    # order: a receiver after all receivers below it
    pos = {e['recv']: i for i, e in enumerate(events)}
    for a in pos:
      for b in pos:
        pa, pb = sub_nodes[a], sub_nodes[b]
        if len(pb) > len(pa) and pb[:len(pa)] == pa and pos[b] > pos[a]:
          return {'signature': 'parent-before-child',
                  'what': 'node %s (at %s) was notified before its descendant %s (at %s)' % (a, pa, b, pb)}
    return None

  def oracle_list_edit(self, tree, step, o, events, sub_nodes):
    """Position-shifting list calls: the contract is read on the *edit*: every subscribing
    ancestor-or-self of the list gets one event with exactly the removed items (item -> MISSING, at the
    position the item had before the call), the inserted items (MISSING -> item, at the position it has
    after the insertion) and the replaced items (old -> new), relative to the receiver."""
    c = step['call']
    recv = step['recv']
    pre_list = canon_at(o['pre'], recv)
    vals = [v for _, v in pre_list[1]]              # canonical forms of the real values before the call
    c = dict(c)
    if 'v' in c:
      c['v'] = canon_json(c['v'])
    if 'vs' in c:
      c['vs'] = [canon_json(x) for x in c['vs']]
    r = list_edit(vals, c, is_node=lambda x: isinstance(x, list))
    if r is None:
      return None                       # the call raises on a plain list as well (C02's business)
    newvals, ents = r
    post = canon_at(o['value'], recv)
    want_post = ['list', [[i, v] for i, v in enumerate(newvals)]]
    if post != want_post:
      return {'signature': 'list-edit-result:' + c['name'],
              'what': '%s left %s, list semantics give %s' % (json.dumps(c)[:150], json.dumps(post)[:200], json.dumps(want_post)[:200])}
    want = [[[pos_], old, new] for pos_, old, new in ents]
    got = {e['recv']: e['entries'] for e in events}
    for nid, rp in sub_nodes.items():
      on_path = rp == recv[:len(rp)]
      mine = got.get(nid)
      if not on_path or not want:
        if mine is not None:
          return {'signature': 'event-to-bystander', 'what': 'node %s at %s got %s for %s at %s' % (
              nid, rp, mine[:2], c['name'], recv)}
        continue
      if mine is None:
        return {'signature': 'missing-event', 'what': 'subscribing node %s at %s got no event for %s at %s' % (
            nid, rp, c['name'], recv)}
      rel = recv[len(rp):]
      exp = sorted(json.dumps([rel + p_, a, b]) for p_, a, b in want)
      if sorted(json.dumps(x) for x in mine) != exp:
        return {'signature': 'wrong-payload',
                'what': '%s at %s: node %s at %s was told %s, the edit is %s' % (
                    json.dumps(c)[:120], recv, nid, rp, json.dumps(mine)[:300], exp[:6])}
    return None

  def really_written(self, o, loc, tree=None, step=None, deleted=(), moved=False):
    """A write of an identical atom (`old is new`) produces no update."""
    if moved and step['call']['name'] == 'rebind':
      # decided on the values handed in (the positions of the result have moved)
      old = canon_at(o['pre'], loc)
      v = [v_ for p_, v_ in step['call']['pairs'] if step['recv'] + p_ == loc][0]
      if is_missing(v):
        return old != MISSING
      new = canon_json(v)
      return not (old == new and not isinstance(new, list))
    old, new = canon_at(o['pre'], loc), canon_at(o['value'], loc)
    return not (old == new and not isinstance(new, list))

  def written_locations(self, tree, step, o=None):
    c = step['call']
    r = step['recv']
    if c['name'] in ('setkey', 'delkey'):
      return [r + [c['key']]]
    if c['name'] == 'append':
      return [r + [len(get_at(tree, r)['items'])]]
    if c['name'] == 'extend':
      n0 = len(get_at(tree, r)['items'])
      return [r + [n0 + i] for i in range(len(c['vs']))]
    if c['name'] == 'rebind':
      return [r + p for p, _ in c['pairs']]
    if c['name'] == 'update':
      return [r + [k] for k, _ in c['kvs']]
    if c['name'] == 'clear':
      return [r + [k] for k, _ in get_at(tree, r)['items']]
    if c['name'] == 'popitem':
      items = canon_at(o['pre'], r)[1] if o is not None else get_at(tree, r)['items']
      return [r + [items[-1][0]]] if items else []
    return []

  def subscribing_ancestors(self, tree, path):
    out = []
    for i in range(len(path) + 1):
      n = get_at(tree, path[:i])
      if is_node(n) and n['sub']:
        out.append(n['id'])
    return out

  def nontrivial(self, case, out):
    t = case['tree']
    for s in case['steps']:
      if 'scope' in s:
        continue
      if 'read' in s:
        if case.get('reads') == 'chosen' and len(s['read']) < len(all_nodes(t)):
          return True            # a partial read: some memos are filled, others are not
        continue
      if self.subscribing_ancestors(case['ext'] if s.get('in') == 'ext' else t, s['recv']):
        return True
    return False

  def describe(self, case, out):
    h = ['steps:%d' % len(case['steps']), 'stream:' + ('facts' if case.get('facts_only') else 'modelled')]
    if case.get('reads') == 'chosen':
      h.append('reads:chosen')
    if case.get('react'):
      h.append('re-entrant handlers: fuel %d' % case.get('fuel', 0))
      for o in out['steps']:
        h.append('nested-calls:%d' % min(len(o.get('nested', [])), 6))
    if case.get('readers'):
      h.append('handlers-read-derived-facts')
    if case.get('forest'):
      h.append('forest:threads=%d' % case.get('threads', 0))
      if has_ref(case['tree']):
        h.append('forest:ref-items')
    for s, o in zip(case['steps'], out['steps']):
      if 'scope' in s:
        h.append('op:scope-%s(%s)' % (s['scope'], s.get('v')))
        continue
      if s.get('rej'):
        h.append('refused-write:' + s['rej'])
      if s.get('in') == 'ext':
        h.append('in:ext')
      if 't' in s:
        h.append('by-thread:%s' % ('harness' if s['t'] >= case.get('threads', 0) else 'worker'))
      if 'read' in s:
        h.append('op:read')
        h.append('read-nodes:%d' % min(len(s['read']), 5))
        for _, names in s['read'][:1]:
          h.append('read-facts:' + ('all' if len(names) == len(FACTS) else '+'.join(names)))
        if o['stale']:
          h.append('stale-at-read')
        continue
      if s['call'].get('skip'):
        h.append('rebind:skip_notification')
      h.append('op:' + s['call']['name'])
      h.append('notify:%s' % s['notify'])
      h.append('events:%d' % min(len(o['events']), 4))
      if not o['ok']:
        h.append('error:' + str(o['err']))
      if o['stale']:
        h.append('stale-after:' + s['call']['name'])
      if s['call']['name'] == 'rebind':
        h.append('rebind-pairs:%d' % len(s['call']['pairs']))
      if s['call']['name'] in ('setslice', 'delslice'):
        h.append('slice-step:%s' % s['call'].get('step'))
      if s['call']['name'] == 'delidx':
        h.append('delidx-via:' + s['call'].get('via', 'del'))
      h.append('recv-depth:%d' % len(s['recv']))
    if not self.nontrivial(case, out):
      h.append('trivial(no subscriber on the path)')
    return h

  def shrink_candidates(self, case):
    steps = case['steps']
    for i in range(len(steps) - 1, -1, -1):
      if len(steps) > 1:
        c = dict(case)
        c['steps'] = steps[:i] + steps[i + 1:]
        yield c
    for i, s in enumerate(steps):
      if 'scope' in s:
        continue
      if 'read' in s:
        if len(s['read']) > 1:
          for j in range(len(s['read'])):
            c = dict(case)
            c['steps'] = steps[:i] + [{'read': s['read'][:j] + s['read'][j + 1:]}] + steps[i + 1:]
            yield c
        continue
      if s['call']['name'] == 'rebind' and len(s['call']['pairs']) > 1:
        for j in range(len(s['call']['pairs'])):
          s2 = json.loads(json.dumps(s))
          del s2['call']['pairs'][j]
          c = dict(case)
          c['steps'] = steps[:i] + [s2] + steps[i + 1:]
          yield c


PROP = C09()
