"""C15 — search algorithms recover their state from history at every crash point.

Case shape (everything JSON):
  {"algo": <cfg>, "dims": [3, 2], "events": [["p"] | ["f", i, r], ...], "m": 3}
<cfg> :=
    {"kind": "sweeping"}
  | {"kind": "random", "seed": 7, "seeded": true|false}      # unseeded: the harness reseeds the global
                                                             #   `random` module with `seed` at every setup
  | {"kind": "dedup", "inner": <cfg>, "hash": 0|k,           # 0: default hash (symbolic hash of the DNA)
     "max_dup": 1, "max_att": 4, "auto": false}              #   k>0: hash_fn = index(dna) % k
  | {"kind": "evo", "init": <cfg>, "init_size": n|null,
     "repro": [name, c], "update": ["none"] | ["last", n] | ["top", n]}
  | {"kind": "real", "name": "regularized_evolution"|"hill_climb"|"nsga2", ...}   # oracle only

A run is executed on a live instance; at every crash point k (prefix of k events) the history
`[(dna, reward | None)]` (DNA objects with the metadata the live algorithm wrote) is serialised with
`pg.to_json_str`, loaded back, and a fresh instance set up on the same space recovers from it.
`observe` of both (plus the next m proposals of both) is what the model must predict and what the
oracle compares.  DNA identity on the wire = index in `list(spec.iter_dna())`.
"""

import json
import os

from harness.common.framework import Prop, VERIF
from translate import t_c15

GLOBAL_SEED = 77

ERRS = ('StopIteration', 'ValueError', 'TypeError', 'AssertionError', 'KeyError', 'RuntimeError',
        'ZeroDivisionError', 'IndexError')


# ------------------------------------------------------------------------------------------
# Building the real objects
# ------------------------------------------------------------------------------------------

class World:
  """The search space of a case and the index <-> DNA mapping."""

  def __init__(self, dims):
    import pyglove as pg
    self.pg = pg
    self.dims = list(dims)
    self.spec = pg.dna_spec(pg.Dict(**{'d%d' % i: pg.oneof(list(range(n))) for i, n in enumerate(dims)}))
    self.dnas = list(self.spec.iter_dna())
    self.index = {tuple(d.to_numbers()): i for i, d in enumerate(self.dnas)}
    # default hash (pg.hash of a metadata-free DNA) -> index: symbolic hashes never cross the protocol
    self.keymap = {pg.hash(d): 1000000 + i for i, d in enumerate(self.dnas)}

  def key(self, k):
    return self.keymap.get(k, k)

  def idx(self, dna):
    return self.index[tuple(dna.to_numbers())]

  def fresh(self, i):
    """A new DNA object (no metadata) for the i-th point of the space."""
    return self.pg.DNA(self.dnas[i % len(self.dnas)].to_numbers()).use_spec(self.spec)


_WORLDS = {}


def world_of(dims):
  """Worlds are immutable: one per space and process."""
  key = tuple(dims)
  if key not in _WORLDS:
    _WORLDS[key] = World(dims)
  return _WORLDS[key]


_STREAMS = {}


def stream_of(world, seed, n):
  """First n DNAs (as indices) a fresh random.Random(seed) draws on this space; cached, extended on demand."""
  import random
  key = (tuple(world.dims), seed)
  if key not in _STREAMS:
    _STREAMS[key] = (random.Random(seed), [])
  r, xs = _STREAMS[key]
  while len(xs) < n:
    xs.append(world.idx(world.pg.random_dna(world.spec, r)))
  return xs[:n]


def fitness_of(dna):
  return dna.metadata.get('reward')


def make_repro(world, spec):
  """Deterministic reproduction operations (mirrored by `Pg.C15.reproOf` in the Lean driver)."""
  name, c = spec
  n = len(world.dnas)

  def best(pop):
    b = None
    for d in pop:                                  # first element of maximal fitness
      if b is None or fitness_of(d) > fitness_of(b):
        b = d
    return b

  if name == 'best_next':      # children = the c successors (cyclic, shifted by step) of the best individual
    def op(pop, global_state, step):
      if not pop:
        return []
      b = world.idx(best(pop))
      return [world.fresh(b + 1 + step + j) for j in range(c)]
    return op
  if name == 'last_gen':       # children depend on the generation counter and the newest individual
    def op(pop, global_state, step):
      if not pop:
        return []
      b = world.idx(pop[-1])
      return [world.fresh(b + global_state.num_generations + j * 2) for j in range(c)]
    return op
  raise ValueError(name)


def make_update(world, spec):
  kind = spec[0]
  if kind == 'none':
    return None
  n = spec[1]
  if kind == 'last':
    return lambda pop, global_state, step: pop[-n:]
  if kind == 'duel':           # NOT batch-equivalent: while too long, the two oldest fight, the fitter stays
    def op(pop, global_state, step):   # (ties: the older one goes); one duel per call
      pop = list(pop)
      if len(pop) > n and len(pop) >= 2:
        if fitness_of(pop[0]) > fitness_of(pop[1]):
          del pop[1]
        else:
          del pop[0]
      return pop
    return op
  if kind == 'step':           # NOT batch-equivalent: depends on the feedback step it is called with
    def op(pop, global_state, step):
      pop = list(pop)
      if len(pop) > n:
        del pop[step % len(pop)]
      return pop
    return op
  if kind == 'top':            # stable: the n fittest, ties broken by position
    def op(pop, global_state, step):
      order = sorted(range(len(pop)), key=lambda i: (-fitness_of(pop[i]), i))
      keep = sorted(order[:n])
      return [pop[i] for i in keep]
    return op
  raise ValueError(kind)


def build(world, cfg):
  """A fresh, not yet set-up instance for cfg."""
  pg = world.pg
  k = cfg['kind']
  if k == 'sweeping':
    return pg.geno.Sweeping()
  if k == 'random':
    return pg.geno.Random(seed=cfg['seed'] if cfg['seeded'] else None)
  if k == 'dedup':
    inner = build(world, cfg['inner'])
    h = cfg['hash']
    hash_fn = None if h == 0 else (lambda dna: world.idx(dna) % h)
    auto = (lambda rs: float(sum(rs))) if cfg['auto'] else None
    return pg.geno.Deduping(inner, hash_fn=hash_fn, auto_reward_fn=auto,
                            max_duplicates=cfg['max_dup'], max_proposal_attempts=cfg['max_att'])
  if k == 'evo':
    from pyglove.ext import evolution
    init = build(world, cfg['init'])
    pinit = init if cfg['init_size'] is None else (init, cfg['init_size'])
    return evolution.Evolution(make_repro(world, cfg['repro']), population_init=pinit,
                               population_update=make_update(world, cfg['update']))
  if k == 'real':
    from pyglove.ext import evolution
    name = cfg['name']
    mut = evolution.mutators.Uniform(seed=cfg.get('seed'))
    if name == 'regularized_evolution':
      return evolution.regularized_evolution(mut, population_size=cfg['population_size'],
                                             tournament_size=cfg['tournament_size'], seed=cfg['seed'])
    if name == 'hill_climb':
      return evolution.hill_climb(mut, batch_size=cfg['batch_size'],
                                  init_population_size=cfg['init_population_size'], seed=cfg['seed'])
    if name == 'nsga2':
      return evolution.nsga2(mut, population_size=cfg['population_size'], seed=cfg['seed'])
    if name == 'neat':
      return evolution.neat(mut, population_size=cfg['population_size'], seed=cfg['seed'])
    if name == 'dedup':
      inner = build(world, cfg['inner'])
      return pg.geno.Deduping(inner, hash_fn=lambda dna: world.idx(dna),
                              max_duplicates=cfg.get('max_dup', 1), max_proposal_attempts=cfg.get('max_att', 20))
  raise ValueError(k)


def unseeded_seeds(cfg):
  k = cfg['kind']
  if k == 'random':
    return [] if cfg['seeded'] else [cfg['seed']]
  if k == 'dedup':
    return unseeded_seeds(cfg['inner'])
  if k == 'evo':
    return unseeded_seeds(cfg['init'])
  if k == 'real' and cfg['name'] == 'dedup':
    return unseeded_seeds(cfg['inner'])
  if k == 'real' and cfg.get('seed') is None:
    return [GLOBAL_SEED]        # seed=None: every operator draws from the global `random` module
  return []


def setup(world, cfg, record=None):
  import random
  g = unseeded_seeds(cfg)
  # Global `random` state at setup time: position 0 of the stream named by the (single) unseeded Random.
  random.seed(g[0] if g else 12345)
  algo = build(world, cfg)
  if record is not None:
    # record what the real reproduction returns (step -> children) and every PRNG draw it makes
    # (step -> log entries of harness.c14.RecRandom): the oracle tables of the model
    target = algo.generator if cfg['kind'] == 'real' and cfg['name'] == 'dedup' else algo
    orig = target.reproduction
    log = []
    install_recorders(orig, log)

    def recording(pop, global_state, step):
      before = len(log)
      out = orig(pop, global_state=global_state, step=step)
      # a call is identified by its step and by what it is applied to: population + elites / living species
      items = list(pop) + list(global_state.get('elites', []))
      for sp in global_state.get('living_species', []):
        items += [sp._representative] + list(sp.members)      # pylint: disable=protected-access
      key = '%d:%d:%d' % (step, sum(d.metadata.get('feedback_sequence_number', 0) for d in items), len(items))
      record.setdefault('table', {})[key] = [world.idx(d) for d in out]
      record.setdefault('events', {})[key] = list(log[before:])
      return out
    target.rebind(reproduction=recording)
  algo.setup(world.spec)
  return algo


_REC_CLASS = []


def rec_random_class():
  """harness.c14.RecRandom (logs every public PRNG call as index events) with `getrandbits` overridden
  too, so that random.Random keeps its getrandbits-based `_randbelow`: the recorded instance draws exactly
  what a plain random.Random(seed) draws, and recorded and unrecorded runs of an algorithm coincide."""
  if not _REC_CLASS:
    from harness import c14

    class RecRandomSameStream(c14.RecRandom):
      def getrandbits(self, k):
        return super().getrandbits(k)
    _REC_CLASS.append(RecRandomSameStream)
  return _REC_CLASS[0]


def install_recorders(op, log):
  """Replaces the seeded `random.Random` of every operation reachable from `op` by a recording one."""
  import random
  import pyglove as pg
  cls = rec_random_class()
  seen = set()

  def walk(o):
    if isinstance(o, (list, tuple)):
      for x in o:
        walk(x)
      return
    if not isinstance(o, pg.Object) or id(o) in seen:
      return
    seen.add(id(o))
    r = getattr(o, '_random', None)
    if r is not None and r is not random and o.sym_hasattr('seed') and o.sym_getattr('seed') is not None:
      o._random = cls(o.sym_getattr('seed'), log)     # pylint: disable=protected-access
    for _, v in o.sym_items():
      walk(v)
  walk(op)


def nsga2_objectives(r):
  """Objective values from {0, 1, 2}: every crowding-distance quotient is dyadic, so the float arithmetic
  of the implementation is exact (the model computes with exact rationals)."""
  return (float(r % 3), float((r // 3) % 3))


def is_multi(cfg):
  if cfg['kind'] == 'real':
    if cfg['name'] == 'nsga2':
      return True
    if cfg['name'] == 'dedup':
      return is_multi(cfg['inner'])
  return False


# ------------------------------------------------------------------------------------------
# Running, persisting, observing
# ------------------------------------------------------------------------------------------

def try_propose(world, algo):
  try:
    return algo.propose(), None
  except StopIteration:
    return None, 'StopIteration'
  except (ValueError, TypeError, AssertionError, KeyError, RuntimeError, ZeroDivisionError, IndexError) as e:
    return None, type(e).__name__


def run_live(world, cfg, events, record=None):
  """Runs the events on a fresh live instance. Returns (algo, history, log)."""
  algo = setup(world, cfg, record)
  multi = is_multi(cfg)
  hist, log = [], []
  for e in events:
    if e[0] == 'p':
      dna, err = try_propose(world, algo)
      if err:
        log.append(err)
      else:
        hist.append([dna, None])
        log.append(world.idx(dna))
    else:
      i, r = e[1], e[2]
      if i < len(hist) and hist[i][1] is None:
        dna = hist[i][0]
        reward = float(r)
        if 'reward' in dna.metadata:          # automatic reward of Deduping: what pg.sample feeds back
          reward = dna.metadata['reward']
        if multi:
          reward = nsga2_objectives(r)
        try:
          algo.feedback(dna, reward)
          hist[i][1] = reward
          log.append('f')
        except (ValueError, TypeError, AssertionError, KeyError, RuntimeError, ZeroDivisionError, IndexError) as ex:
          log.append(type(ex).__name__)
      else:
        log.append('skip')
  return algo, hist, log


def persist(world, hist):
  pg = world.pg
  text = pg.to_json_str([[d, r] for d, r in hist])
  return [(d, r) for d, r in pg.from_json_str(text)]


def jreward(r):
  if r is None:
    return None
  if isinstance(r, tuple):
    return [jreward(x) for x in r]
  if float(r) == int(r):
    return int(r)
  return ['float', repr(float(r))]


def item_obs(world, dna):
  m = dna.metadata
  return {'dna': world.idx(dna), 'reward': jreward(m.get('reward')), 'pid': m.get('proposal_id'),
          'gid': m.get('generation_id'), 'initial': m.get('initial_population'),
          'fbseq': m.get('feedback_sequence_number'),
          'key': world.key(m.get('dedup_key'))}


def observe(world, cfg, algo):
  k = cfg['kind']
  o = {'np': algo.num_proposals, 'nf': algo.num_feedbacks}
  if k == 'dedup' or (k == 'real' and cfg['name'] == 'dedup'):
    cache = algo._cache      # no public accessor for the de-duplication memory   # pylint: disable=protected-access
    ents = [[world.key(key), [jreward(r) for r in rewards]] for key, rewards in cache.items()]
    ents.sort(key=lambda e: e[0])         # a dict: order is not part of the observation
    o['cache'] = ents
    o['feedback_driven'] = bool(algo.needs_feedback)
    o['inner'] = observe(world, cfg['inner'], algo.generator)
  elif k in ('evo', 'real'):
    o['gen'] = algo.num_generations
    o['pop'] = [item_obs(world, d) for d in algo.population]
    if k == 'real':
      # what the operations keep next to the population (NSGA2: elites, cursor; NEAT: living species)
      o['gstate'] = {str(key): canon_state(world, v) for key, v in algo.global_state.items()
                     if key != 'num_generations'}
  return o


def canon_state(world, v):
  pg = world.pg
  if isinstance(v, pg.DNA):
    return ['dna', world.idx(v), jreward(v.metadata.get('reward'))]
  if isinstance(v, (list, tuple)):
    return [canon_state(world, x) for x in v]
  if isinstance(v, dict):
    return {str(k): canon_state(world, x) for k, x in v.items()}
  if hasattr(v, 'representative') and hasattr(v, 'members'):      # neat.Species
    return {'species': canon_state(world, v._representative),     # pylint: disable=protected-access
            'members': canon_state(world, v.members)}
  if isinstance(v, bool) or v is None or isinstance(v, (int, str)):
    return v
  if isinstance(v, float):
    return jreward(v)
  return '<%s>' % type(v).__name__


def next_proposals(world, algo, m):
  out = []
  for _ in range(m):
    dna, err = try_propose(world, algo)
    if err:
      out.append(err)
    else:
      o = item_obs(world, dna)
      out.append({'dna': o['dna'], 'initial': o['initial'], 'gid': o['gid'], 'pid': o['pid'],
                  'auto': o['reward']})
  return out


def chunks_of(items, cuts):
  """The history split at floor(len * c / 100) for the (ascending) percentages in cuts: the history
  reaches the fresh instance in len(cuts)+1 consecutive recover() calls (some may be empty)."""
  n = len(items)
  out, start = [], 0
  for c in list(cuts) + [100]:
    end = max(start, n * c // 100)
    out.append(items[start:end])
    start = end
  return out


def feed_of(chunk, feed):
  """`recover` takes an Iterable: a list, a one-shot iterator or a generator."""
  if feed == 'iter':
    return iter(chunk)
  if feed == 'gen':
    return (x for x in chunk)
  if feed == 'tuple':
    return tuple(chunk)
  return chunk


def recover_fresh(world, cfg, hist, feed='list', cuts=()):
  algo = setup(world, cfg)
  try:
    for chunk in chunks_of(persist(world, hist), cuts):
      algo.recover(feed_of(chunk, feed))
  except (ValueError, TypeError, AssertionError, KeyError, RuntimeError, ZeroDivisionError, IndexError) as e:
    return None, type(e).__name__
  return algo, None


def crash_points(world, cfg, events, m, feed='list', cuts=()):
  """For every k: observe + next proposals of the live instance stopped after k events and of a fresh
  instance recovered from the persisted history."""
  out = []
  log = None
  for k in range(len(events) + 1):
    live, hist, lg = run_live(world, cfg, events[:k])
    if k == len(events):
      log = lg
    import random
    g_live = random.getstate()      # the global PRNG is shared by all unseeded Random instances:
    rec, err = recover_fresh(world, cfg, hist, feed, cuts)   # (setup reseeds the global PRNG: position 0)
    ent = {'live': observe(world, cfg, live)}
    ent['rec'] = {'error': err} if err else observe(world, cfg, rec)
    ent['rec_next'] = [] if err else next_proposals(world, rec, m)
    random.setstate(g_live)         # the live instance continues where *it* had left the stream
    ent['live_next'] = next_proposals(world, live, m)
    ent['hist'] = [[world.idx(d), jreward(r)] for d, r in hist]
    out.append(ent)
  return out, log


def streams(world, cfg, n):
  """The oracle streams the model needs: for every Random in cfg, the first n DNAs a fresh PRNG with
  that seed draws on this space (recorded from the real random.Random)."""
  import random
  out = {}

  def visit(c):
    k = c['kind']
    if k == 'random':
      key = str(c['seed'])
      if key not in out:
        out[key] = stream_of(world, c['seed'], n)
    elif k == 'dedup':
      visit(c['inner'])
    elif k == 'evo':
      visit(c['init'])
  visit(cfg)
  return out


# ------------------------------------------------------------------------------------------
# The property
# ------------------------------------------------------------------------------------------

def modelled_nsga2(cfg):
  return cfg['kind'] == 'real' and cfg['name'] == 'nsga2'


def modelled_real(cfg):
  if cfg['kind'] != 'real':
    return False
  if cfg['name'] == 'dedup':      # Deduping over the instantiated single-objective algorithms
    return cfg['inner']['kind'] == 'real' and cfg['inner']['name'] in ('regularized_evolution', 'hill_climb',
                                                                         'nsga2')
  return cfg['name'] in ('nsga2', 'regularized_evolution', 'hill_climb', 'neat')


def modelled_algo(cfg):
  """The model configuration of a real algorithm, as built by pyglove/ext/evolution (pipeline texts
  checked by translate/t_c15.py)."""
  if cfg['name'] == 'dedup':
    # hash_fn = index of the DNA: `d % H` with H beyond the space is the identity
    return {'kind': 'dedup', 'inner': modelled_algo(cfg['inner']), 'hash': 1000003,
            'max_dup': cfg.get('max_dup', 1), 'max_att': cfg.get('max_att', 20), 'auto': False}
  init = {'kind': 'random', 'seed': cfg['seed'], 'seeded': True}
  if cfg['seed'] is None:
    # unseeded: the initialiser draws from the global PRNG (reseeded at setup); the draws of the operators
    # are not recordable per object, their children are an oracle table
    init = {'kind': 'random', 'seed': GLOBAL_SEED, 'seeded': False}
    if cfg['name'] == 'regularized_evolution':
      return {'kind': 'evo', 'init': init, 'init_size': cfg['population_size'],
              'repro': ['table', 1], 'update': ['c14last', cfg['population_size']]}
    if cfg['name'] == 'hill_climb':
      return {'kind': 'evo', 'init': init, 'init_size': cfg['init_population_size'],
              'repro': ['table', 1], 'update': ['c14top', 1]}
  if cfg['name'] == 'nsga2':
    return {'kind': 'evo', 'init': init, 'init_size': cfg['population_size'] * nsga2_init_factor(),
            'repro': ['table', 1], 'update': ['nsga2', cfg['population_size']]}
  if cfg['name'] == 'neat':
    return {'kind': 'evo', 'init': init, 'init_size': cfg['population_size'],
            'repro': ['table', 1], 'update': ['neat', 0]}
  if cfg['name'] == 'regularized_evolution':
    return {'kind': 'evo', 'init': init, 'init_size': cfg['population_size'],
            'repro': ['c14reg', cfg['tournament_size']], 'update': ['c14last', cfg['population_size']]}
  if cfg['name'] == 'hill_climb':
    return {'kind': 'evo', 'init': init, 'init_size': cfg['init_population_size'],
            'repro': ['c14hill', cfg['batch_size']], 'update': ['c14top', 1]}
  raise ValueError(cfg['name'])


def neat_view(obs):
  """What the model predicts of a NEAT instance: counters, generation, population, living species."""
  if 'error' in obs:
    return obs
  sp = (obs.get('gstate') or {}).get('living_species')
  dr = lambda x: None if x is None else [x[1], x[2]]
  return {'np': obs['np'], 'nf': obs['nf'], 'gen': obs['gen'], 'pop': obs['pop'],
          'species': None if sp is None else [[dr(s['species']), [dr(m) for m in s['members']]] for s in sp]}


def model_view(cfg, obs):
  """The part of an observation the model predicts, for the real algorithms."""
  if 'error' in obs:
    return obs
  if cfg['name'] == 'dedup':
    return {'np': obs['np'], 'nf': obs['nf'], 'cache': obs['cache'], 'feedback_driven': obs['feedback_driven'],
            'inner': model_view(cfg['inner'], obs['inner'])}
  if cfg['name'] == 'nsga2':
    return nsga2_view(obs)
  if cfg['name'] == 'neat':
    return neat_view(obs)
  return real_view(obs)


def sidecar_fact(name):
  with open(os.path.join(VERIF, 'lean', 'PgGen', 'C15Quirks.json')) as f:
    return json.load(f)[name]


def real_view(obs):
  """What the model predicts of regularized_evolution / hill_climb (and of Deduping over them): counters,
  generation, population, de-duplication memory."""
  if 'error' in obs:
    return obs
  if 'cache' in obs:
    return {'np': obs['np'], 'nf': obs['nf'], 'cache': obs['cache'], 'feedback_driven': obs['feedback_driven'],
            'inner': real_view(obs['inner'])}
  return {'np': obs['np'], 'nf': obs['nf'], 'gen': obs['gen'], 'pop': obs['pop']}


_NSGA2_FACTOR = []


def nsga2_init_factor():
  """population_init size / population_size, as extracted from nsga2.py by translate/t_c15.py."""
  if not _NSGA2_FACTOR:
    with open(os.path.join(VERIF, 'lean', 'PgGen', 'C15Quirks.json')) as f:
      _NSGA2_FACTOR.append(json.load(f)['nsga2']['initFactor'])
  return _NSGA2_FACTOR[0]


def nsga2_view(obs):
  """What the model predicts of an NSGA2 instance: counters, generation, population, elites."""
  if 'error' in obs:
    return obs
  el = (obs.get('gstate') or {}).get('elites')
  return {'np': obs['np'], 'nf': obs['nf'], 'gen': obs['gen'], 'pop': obs['pop'],
          'elites': None if el is None else [[x[1], x[2]] for x in el]}


def has_real(cfg):
  k = cfg['kind']
  if k == 'real':
    return True
  if k == 'dedup':
    return has_real(cfg['inner'])
  if k == 'evo':
    return has_real(cfg['init'])
  return False


def attempts_bound(cfg):
  k = cfg['kind']
  if k == 'dedup':
    return cfg['max_att'] * attempts_bound(cfg['inner'])
  if k == 'evo':
    return attempts_bound(cfg['init'])
  return 1


def continuation_claimed(cfg):
  """Algorithms whose proposals are a function of history and seed: sweeping, seeded random,
  de-duplication over them."""
  k = cfg['kind']
  if k == 'sweeping':
    return True
  if k == 'random':
    return cfg['seeded']
  if k == 'dedup':
    return continuation_claimed(cfg['inner'])
  return False


def kind_name(cfg):
  k = cfg['kind']
  if k == 'sched':
    return 'sched'
  if k == 'dedup':
    return 'dedup(%s)' % kind_name(cfg['inner'])
  if k == 'evo':
    return 'evo'
  if k == 'real':
    if cfg['name'] == 'dedup':
      return 'dedup(%s)' % kind_name(cfg['inner'])
    return cfg['name']
  if k == 'random':
    return 'random' if cfg['seeded'] else 'random-unseeded'
  return k


def multiset(xs):
  return sorted(json.dumps(x, sort_keys=True) for x in xs)


def pop_view(pop):
  return [[d['dna'], d['reward']] for d in pop]


def diff_state(cfg, live, rec, path=''):
  """All differences between the observable states the property names. Yields (signature, text)."""
  name = kind_name(cfg)
  if 'error' in rec:
    yield ('%s:recover-raises:%s' % (name, rec['error']), 'recover raised %s' % rec['error'])
    return
  is_inner = bool(path)
  if not is_inner:
    if live['np'] != rec['np']:
      yield ('%s:num_proposals' % name, 'num_proposals live=%s recovered=%s' % (live['np'], rec['np']))
    if live['nf'] != rec['nf']:
      yield ('%s:num_feedbacks' % name, 'num_feedbacks live=%s recovered=%s' % (live['nf'], rec['nf']))
  if 'cache' in live:
    if live['feedback_driven']:
      a = {json.dumps(k): multiset(v) for k, v in live['cache']}
      b = {json.dumps(k): multiset(v) for k, v in rec['cache']}
    else:     # only the number of entries per key can influence later de-duplication
      a = {json.dumps(k): len(v) for k, v in live['cache']}
      b = {json.dumps(k): len(v) for k, v in rec['cache']}
    if a != b:
      if live['feedback_driven']:
        strip = {k: [x for x in v if x != 'null'] for k, v in b.items()}
        strip = {k: v for k, v in strip.items() if v}
        sig = 'none-reward-cached' if strip == a else 'cache'
      else:
        sig = 'cache-count'
      yield ('%s:%s' % (name, sig), 'de-duplication memory live=%s recovered=%s' % (a, b))
    icfg = cfg['inner']
    if icfg['kind'] in ('evo', 'real'):
      # the wrapped evolution: the state the property names (population with fitness) and the
      # counters its behaviour depends on
      li, ri = live['inner'], rec['inner']
      if pop_view(li['pop']) != pop_view(ri['pop']):
        yield ('%s:inner-population' % name, 'population of the wrapped algorithm live=%s recovered=%s'
               % (pop_view(li['pop']), pop_view(ri['pop'])))
      if (li['np'], li['nf']) != (ri['np'], ri['nf']) and len(live['hist_dnas']) == li['np']:
        # (only when no duplicate was dropped: otherwise the history cannot tell the count)
        yield ('%s:inner-counts' % name, 'wrapped algorithm proposals/feedbacks live=%s/%s recovered=%s/%s'
               % (li['np'], li['nf'], ri['np'], ri['nf']))
  if 'pop' in live:
    lp, rp = pop_view(live['pop']), pop_view(rec['pop'])
    if lp != rp:
      if multiset(lp) == multiset(rp):
        yield ('%s:population-order' % name, 'population order live=%s recovered=%s' % (lp, rp))
      else:
        yield ('%s:population' % name, 'population live=%s recovered=%s' % (lp, rp))
    lg, rg = live.get('gstate') or {}, rec.get('gstate') or {}
    for key in sorted(set(lg) | set(rg)):
      if lg.get(key) != rg.get(key):
        yield ('%s:global-state:%s' % (name, key),
               'global state %r live=%s recovered=%s' % (key, lg.get(key), rg.get(key)))
    if live['gen'] != rec['gen']:
      phase = 'init-phase' if live['gen'] == 0 else 'evolving'
      if phase == 'init-phase' and (cfg.get('init_size') == 0 or cfg.get('init_population_size') == 0):
        phase = 'init-size-0'       # degenerate configuration: an initial population of size 0
      yield ('%s:num_generations:%s' % (name, phase),
             'num_generations live=%s recovered=%s' % (live['gen'], rec['gen']))


def next_view(xs):
  return [x if isinstance(x, str) else [x['dna'], x['auto']] for x in xs]


def known_signatures():
  sigs = set()
  for name in ('known_findings.json', 'C15.json'):
    path = os.path.join(VERIF, 'findings', name)
    if os.path.exists(path):
      with open(path) as f:
        for e in json.load(f)['findings']:
          if e['property'] == 'C15' and e.get('status') == 'known':
            sigs.update(e['signature'].split('|'))
  return sigs


class C15(Prop):
  id = 'C15'
  props_modules = ['PgProps.C15']
  driver = 'drv_c15'
  translators = [t_c15.run]
  case_timeout_s = 600      # a case replays O(N^2) events; the machine may be heavily shared
  jobs_quick = 6
  jobs_thorough = 6
  rule = ('algorithm configuration drawn from {Sweeping, Random(seed), Random(), Deduping over them (default '
          'hash / index mod k, max_duplicates 1-3, max attempts 1-6, auto reward on/off), nested Deduping (one '
          'hash function), Evolution with a deterministic reproduction (1-3 children per generation) and '
          'population update (none / last n / top n) over a Sweeping / Random / Deduping initialiser with or '
          'without initial size, Deduping over Evolution, and the real regularized_evolution / hill_climb / '
          'nsga2 (+ Deduping over them; oracle only)}; spaces of 3-24 points; runs of 0-40 (thorough: 60) events '
          'produced like a tuning backend with 1-5 parallel workers (feedback in proposal order or shuffled, '
          'last proposals in flight); the persisted history is handed to recover() as a list / tuple / one-shot '
          'iterator / generator, in 1-3 consecutive recover() calls (cut at random percentages); Evolution updates '
          'also include two operations that are NOT equivalent to one batch application (duel, step); real '
          'algorithms include NEAT, and their global state (elites, elite_cursor, living_species) is observed; '
          'seeds of every seeded algorithm and operator are drawn from {0, non-zero, None}, and the falsy members '
          'of the numeric parameter domains (initial size 0, 0 children, keep 0, batch size 0, reward 0, empty '
          'first/last recover() call, empty run) are generated next to the ordinary values; Deduping also wraps '
          'NSGA2; EVERY crash point k in 0..N is checked inside a case. Non-trivial: some '
          'crash point has a proposal in flight and some has a reward; distinct by (algo, space, events).')
  trusted_base = [
      'random.Random bit streams (the oracle stream fed to the model is recorded from the real PRNG)',
      'reproduction / population-update operations of Evolution are parameters of the model; they are tied for '
      'the deterministic operations of the harness, for regularized_evolution / hill_climb (and Deduping over '
      'them) through the C14 operator model PgModel/Evo.lean evaluated over the recorded PRNG draws of every '
      '_evolve call, for the NSGA2 update (PgModel/Nsga2.lean; objective values from {0,1,2} so that the float '
      'arithmetic of the code is exact) and the NEAT update (PgModel/Neat.lean; flat spaces) with the children '
      'of their reproduction recorded as an oracle table; pipeline texts are translator facts',
      'recorded PRNG draws: harness.c14.RecRandom with getrandbits overridden (same bit stream as random.Random)',
      'pg.to_json_str / pg.from_json_str of the history (C05); DNA identity = index in spec.iter_dna() (C11)',
      'Deduping._cache is read directly (no public accessor for the de-duplication memory)',
      'modelled, not verified: the generator state machines of PgModel/Gen.lean (tied by correspondence at '
      'every crash point + translate/t_c15.py for the structural variant of recover/_replay)',
  ]
  assumptions = ['the client feeds a proposal back at most once, with the DNA object it was handed',
                 'operations passed to Evolution are pure functions of (population, num_generations, step)',
                 'generator scope: nested Deduping wrappers use one hash function (they share the metadata key '
                 "'dedup_key'); Evolution initial size >= 1 (or none: until the initialiser is exhausted)",
                 'oracle scope: continuation is demanded only after prefixes in which no propose() raised; the '
                 'proposal counter of a generator wrapped by Deduping is compared only when no duplicate was '
                 'dropped (dropped proposals leave no trace in the history); the private cache of an inner '
                 'Deduping of a nested wrapper is not compared; the de-duplication memory is compared per key as '
                 'a multiset of rewards (feedback-driven) or as a count (generators that take no feedback)']


  # -- generation ---------------------------------------------------------------------------
  @staticmethod
  def gen_seed(rng, allow_none=False):
    """Seeds: 0 is a first-class value (falsy but a seed), next to non-zero seeds and None."""
    ws = [(3, 0), (5, rng.randint(1, 99))] + ([(2, None)] if allow_none else [])
    return rng.weighted(ws)

  def gen_base(self, rng):
    k = rng.weighted([(3, 'sweeping'), (3, 'seeded'), (1, 'unseeded')])
    if k == 'sweeping':
      return {'kind': 'sweeping'}
    return {'kind': 'random', 'seed': self.gen_seed(rng), 'seeded': k == 'seeded'}

  def gen_evo(self, rng, size):
    init = self.gen_base(rng)
    if rng.chance(0.2):
      init = {'kind': 'dedup', 'inner': init, 'hash': 0, 'max_dup': 1, 'max_att': rng.randint(2, 5), 'auto': False}
    if init['kind'] == 'sweeping' and rng.chance(0.4):
      init_size = None                     # initial phase ends when the initialiser is exhausted
    else:
      init_size = rng.weighted([(1, 0), (9, rng.randint(1, 5))])    # 0: falsy member of the domain
    keep = lambda: rng.weighted([(1, 0), (9, rng.randint(1, 4))])
    upd = rng.weighted([(2, ['none']), (3, ['last', keep()]), (3, ['top', keep()]),
                        (3, ['duel', keep()]), (3, ['step', keep()])])
    repro = [rng.choice(['best_next', 'last_gen']), rng.weighted([(1, 0), (6, 1), (4, 2), (2, 3)])]
    return {'kind': 'evo', 'init': init, 'init_size': init_size, 'repro': repro, 'update': upd}

  def gen_dedup(self, rng, inner, size):
    return {'kind': 'dedup', 'inner': inner,
            'hash': rng.weighted([(2, 0), (3, rng.randint(2, max(2, size - 1))), (1, 1)]) if inner['kind'] != 'evo'
                    else rng.randint(2, max(2, size)),
            'max_dup': rng.weighted([(4, 1), (2, 2), (1, 3)]),
            'max_att': rng.randint(1, 6), 'auto': rng.chance(0.35)}

  def gen_algo(self, rng, size):
    k = rng.weighted([(2, 'base'), (5, 'dedup-base'), (1, 'dedup-dedup'), (6, 'evo'), (3, 'dedup-evo'), (5, 'real')])
    if k == 'base':
      return self.gen_base(rng)
    if k == 'dedup-base':
      return self.gen_dedup(rng, self.gen_base(rng), size)
    if k == 'dedup-dedup':
      # nested wrappers share the metadata key 'dedup_key': only meaningful with one hash function
      inner = self.gen_dedup(rng, self.gen_base(rng), size)
      inner['hash'] = max(1, inner['hash'])
      outer = self.gen_dedup(rng, inner, size)
      outer['hash'] = inner['hash']
      return outer
    if k == 'evo':
      return self.gen_evo(rng, size)
    if k == 'dedup-evo':
      return self.gen_dedup(rng, self.gen_evo(rng, size), size)
    name = rng.weighted([(2, 'regularized_evolution'), (2, 'hill_climb'), (3, 'nsga2'), (3, 'neat'), (2, 'dedup')])
    seed = self.gen_seed(rng, allow_none=True)
    if name == 'regularized_evolution':
      ps = rng.randint(2, 5)
      return {'kind': 'real', 'name': name, 'population_size': ps, 'tournament_size': rng.randint(2, ps), 'seed': seed}
    if name == 'hill_climb':
      return {'kind': 'real', 'name': name, 'batch_size': rng.weighted([(1, 0), (9, rng.randint(1, 3))]),
              'init_population_size': rng.weighted([(1, 0), (9, rng.randint(1, 3))]), 'seed': seed}
    if name == 'nsga2':
      return {'kind': 'real', 'name': name, 'population_size': rng.randint(1, 3), 'seed': seed}
    if name == 'neat':
      return {'kind': 'real', 'name': name, 'population_size': rng.randint(2, 4), 'seed': seed}
    ps = rng.randint(2, 4)
    inner = rng.choice([
        {'kind': 'real', 'name': 'regularized_evolution', 'population_size': ps, 'tournament_size': 2, 'seed': seed},
        {'kind': 'real', 'name': 'hill_climb', 'batch_size': rng.randint(1, 2), 'init_population_size': rng.randint(1, 3),
         'seed': seed},
        {'kind': 'real', 'name': 'nsga2', 'population_size': rng.randint(1, 3), 'seed': seed}])
    return {'kind': 'real', 'name': 'dedup', 'inner': inner, 'max_dup': rng.randint(1, 3), 'max_att': rng.randint(3, 20)}

  def gen_events(self, rng, n):
    """Runs as a tuning backend produces them: proposals by up to w parallel workers; feedback mostly in
    proposal order, sometimes out of order; the last in-flight proposals never fed back."""
    style = rng.weighted([(2, 'sequential'), (3, 'window'), (5, 'shuffled')])
    w = 1 if style == 'sequential' else rng.randint(2, 5)
    events, pending, np_ = [], [], 0
    while len(events) < n:
      if pending and (len(pending) >= w or rng.chance(0.45)):
        if style == 'shuffled' and rng.chance(0.5):
          i = pending.pop(rng.below(len(pending)))
        else:
          i = pending.pop(0)
        events.append(['f', i, rng.randint(0, 9)])
      else:
        events.append(['p'])
        pending.append(np_)
        np_ += 1
    return events

  DIMS = [[2], [3], [4], [5], [7], [2, 2], [3, 2], [2, 3], [2, 2, 2], [4, 3], [3, 3], [5, 4], [6, 4],
          [2, 2, 2, 2, 2, 2, 2, 2]]      # 8 decisions: NEAT species tolerate one differing decision

  def gen_init_phase(self, rng):
    """An Evolution over an order-sensitive initialiser that crashes INSIDE its initial phase: batches of
    initial proposals, each batch evaluated completely but in shuffled order (3rd before 2nd …)."""
    init = rng.choice([{'kind': 'sweeping'}, {'kind': 'random', 'seed': self.gen_seed(rng), 'seeded': True}])
    init_size = rng.randint(4, 9)
    algo = {'kind': 'evo', 'init': init, 'init_size': init_size,
            'repro': [rng.choice(['best_next', 'last_gen']), rng.randint(1, 2)],
            'update': rng.choice([['none'], ['last', rng.randint(1, 4)], ['top', rng.randint(1, 4)]])}
    events, done = [], 0
    while done < init_size + 1:
      b = rng.randint(2, 4)
      events += [['p']] * b
      for i in rng.shuffle(list(range(done, done + b))):
        events.append(['f', i, rng.randint(0, 9)])
      done += b
    return {'algo': algo, 'dims': rng.choice([[3, 3], [4, 3], [5, 4], [6, 4]]), 'events': events, 'm': 3,
            'feed': rng.choice(['list', 'iter', 'gen']), 'cuts': rng.choice([[], [], [50]])}

  def gen_sched(self, rng):
    phases = [[rng.randint(1, 5), rng.choice([['const', rng.randint(0, 4)], ['step']])]
              for _ in range(rng.randint(1, 4))]
    total = sum(p[0] for p in phases)
    n = total + rng.randint(0, 4)
    return {'algo': {'kind': 'sched', 'phases': phases}, 'dims': [1], 'events': [], 'n': n,
            'k': rng.randint(0, n), 'stride': rng.weighted([(3, 1), (1, 2), (1, 3)])}

  def generate(self, rng, tier):
    n_cases = 85 if tier == 'quick' else 800
    for _ in range(12 if tier == 'quick' else 150):
      yield self.gen_sched(rng.fork())
    for _ in range(10 if tier == 'quick' else 80):
      yield self.gen_init_phase(rng.fork())
    for _ in range(n_cases):
      dims = rng.choice(self.DIMS)
      size = 1
      for d in dims:
        size *= d
      algo = self.gen_algo(rng, size)
      if tier == 'quick':
        n = rng.weighted([(1, rng.randint(0, 5)), (6, rng.randint(6, 14)), (2, rng.randint(15, 30)),
                          (1, rng.randint(31, 40))])
      else:
        n = rng.weighted([(1, rng.randint(0, 5)), (5, rng.randint(6, 16)), (3, rng.randint(17, 40)),
                          (1, rng.randint(41, 60))])
      if algo['kind'] == 'real' and n < 12 and rng.chance(0.7):
        n += 12          # NSGA2 / NEAT updates only bite after a few generations
      # how the backend hands the history over: container kind, and in how many recover() calls
      feed = rng.weighted([(3, 'list'), (2, 'iter'), (2, 'gen'), (1, 'tuple')])
      cuts = rng.weighted([(4, []), (2, [rng.randint(50, 90)]), (2, [rng.randint(10, 50)]),
                           (2, sorted([rng.randint(20, 60), rng.randint(50, 95)])),
                           (1, [0]), (1, [100]), (1, [0, 100])])     # empty first / last recover() calls
      yield {'algo': algo, 'dims': dims, 'events': self.gen_events(rng, n), 'm': 3, 'feed': feed, 'cuts': cuts}

  def search_cases(self, rng, tier, broken):
    # every case already checks all its crash points: one more batch is a 40x bigger search
    yield from self.generate(rng.fork(), tier)

  def model_request(self, case):
    if is_sched(case):
      live, rec = sched_steps(case)
      return {'op': 'sched', 'phases': case['algo']['phases'], 'live': live, 'rec': rec}
    cfg = case['algo']
    self.setup_impl()          # the recorded run below must import pyglove from VERIF_REPO, like the workers
    world = world_of(case['dims'])
    if modelled_real(cfg):
      # the real operators are in the model (NSGA2: PgModel/Nsga2.lean with the mutator's children as an
      # oracle table; regularized_evolution / hill_climb: the C14 operator model PgModel/Evo.lean over the
      # recorded PRNG draws of every _evolve call)
      rec = {}
      run_live(world, cfg, case['events'], record=rec)
      algo = modelled_algo(cfg)
      events = case['events']
      if cfg['name'] == 'dedup' and is_multi(cfg) and not sidecar_fact('dedupForwardsMultiObjective'):
        # F395: `Deduping.multi_objective` is False, so `feedback` raises ValueError on every tuple reward
        # before anything changes: the run the model sees has no feedback
        events = [e if e[0] == 'p' else ['f', 10 ** 6, 0] for e in events]
      n = sum(1 for e in case['events'] if e[0] == 'p') + 4
      n = min(4000, n * attempts_bound(algo) + 4)
      return {'algo': algo, 'space': list(range(len(world.dnas))), 'streams': streams(world, algo, n),
              'events': events, 'm': 0, 'cuts': list(case.get('cuts', [])), 'dims': list(case['dims']),
              'table': {str(k): v for k, v in rec.get('table', {}).items()},
              'events_by_step': {str(k): v for k, v in rec.get('events', {}).items()}}
    if has_real(cfg):
      return None            # real reproduction operators: oracle only
    m = case.get('m', 3)
    n = sum(1 for e in case['events'] if e[0] == 'p') + m
    n = min(4000, n * attempts_bound(cfg) + 4)
    return {'algo': cfg, 'space': list(range(len(world.dnas))), 'streams': streams(world, cfg, n),
            'events': case['events'], 'm': m, 'cuts': list(case.get('cuts', []))}

  def project_impl(self, case, impl_out):
    if is_sched(case):
      return impl_out['model']
    if modelled_real(case['algo']) and 'model' in impl_out:
      view = lambda o: model_view(case['algo'], o)
      return {'ks': [{'live': view(e['live']), 'rec': view(e['rec']), 'hist': e['hist'],
                      'live_next': [], 'rec_next': []} for e in impl_out['model']['ks']]}
    return Prop.project_impl(self, case, impl_out)

  def impl(self, case):
    if is_sched(case):
      return {'model': run_sched(case), 'log': [], 'n': 0}
    world = world_of(case['dims'])
    cfg = case['algo']
    ks, log = crash_points(world, cfg, case['events'], case.get('m', 3), case.get('feed', 'list'),
                           case.get('cuts', []))
    return {'model': {'ks': ks}, 'log': log, 'n': len(world.dnas)}

  def oracle(self, case, out):
    if is_sched(case):
      m = out['model']
      tail = m['live'][len(m['live']) - len(m['rec']):]
      if tail != m['rec']:
        live_steps, rec_steps = sched_steps(case)
        i = next(j for j, (x, y) in enumerate(zip(tail, m['rec'])) if x != y)
        return {'signature': 'stepwise:phase-not-in-history',
                'what': 'StepWise%s: at step %d the uninterrupted schedule gives %s, the schedule of an instance '
                        'recovered at step %d gives %s' % (case['algo']['phases'], rec_steps[i], tail[i],
                                                           case['k'], m['rec'][i])}
      return None
    cfg = case['algo']
    fails = []
    log = out['log']
    for j, e in enumerate(case['events']):
      if e[0] == 'f' and j < len(log) and log[j] in ERRS:
        # a well-formed reward for a proposal in flight must be accepted
        fails.append({'signature': '%s:feedback-raises:%s' % (kind_name(cfg), log[j]), 'k': j + 1,
                      'what': 'event %d: feedback(proposal %d, reward) raised %s' % (j, e[1], log[j])})
        break
    for k, ent in enumerate(out['model']['ks']):
      live, rec = dict(ent['live']), dict(ent['rec'])
      live['hist_dnas'] = [h[0] for h in ent['hist']]
      failed_propose = any(isinstance(x, str) and x in ERRS for x in log[:k])
      suffix = ':after-failed-propose' if failed_propose else ''
      straddle = feedback_straddles_chunks(case, log, k, len(ent['hist']))
      for sig, text in diff_state(cfg, live, rec):
        if straddle and ('population' in sig or ':global-state:' in sig):
          # feedbacks arrived in an order that crosses the boundaries of the recover() calls: one
          # signature for every evolution-based algorithm and every part of its state
          text = '%s: %s' % (sig, text)
          sig = 'evolution:feedback-order-across-recover-calls'
        elif suffix:
          sig += suffix
        fails.append({'signature': sig, 'what': 'crash point k=%d: %s' % (k, text), 'k': k})
      # Continuation: claimed for sweeping / seeded random / de-duplication over them, after a run of
      # proposals and feedbacks (a `propose` that raised is not a proposal: such prefixes are skipped).
      if 'error' not in rec and continuation_claimed(cfg) and not failed_propose:
        a, b = next_view(ent['live_next']), next_view(ent['rec_next'])
        if a != b:
          rejected = innermost(live)['np'] > live['np']
          fails.append({'signature': '%s:continuation%s' % (
                            kind_name(cfg), ':after-rejected-duplicate' if rejected else ''),
                        'what': 'crash point k=%d: next proposals live=%s recovered=%s' % (k, a, b), 'k': k})
      # Continuation of an Evolution that is still building its initial population: its proposals are
      # those of its initialiser; when that is a function of history and seed (Sweeping, seeded Random)
      # and every proposal so far has been evaluated, the recovered instance must continue like the live one.
      if ('error' not in rec and cfg['kind'] == 'evo' and cfg.get('init_size') and not failed_propose
          and cfg['init']['kind'] in ('sweeping', 'random') and continuation_claimed(cfg['init'])
          and all(h[1] is not None for h in ent['hist'])
          and all(isinstance(x, dict) and x.get('initial') for x in ent['live_next'])):
        a = [[x['dna'], x['initial']] for x in ent['live_next']]
        b = [x if isinstance(x, str) else [x['dna'], x['initial']] for x in ent['rec_next']]
        if a != b:
          fails.append({'signature': 'evo:init-phase-continuation:%s' % kind_name(cfg['init']), 'k': k,
                        'what': 'crash point k=%d (initial phase, every proposal evaluated): next proposals '
                                'live=%s recovered=%s' % (k, a, b)})
    if not fails:
      return None
    known = known_signatures()
    for f in fails:
      if f['signature'] not in known:
        return f
    return fails[0]

  def nontrivial(self, case, out):
    """At least one crash point with a proposal still in flight and at least one with a reward."""
    if 'model' not in out:
      return False
    if is_sched(case):
      return case['k'] > 0 and len(case['algo']['phases']) > 1
    ks = out['model']['ks']
    return (any(any(h[1] is None for h in e['hist']) for e in ks)
            and any(any(h[1] is not None for h in e['hist']) for e in ks))

  def describe(self, case, out):
    cfg = case['algo']
    if is_sched(case):
      return ['algo:sched', 'sched-phases:%d' % len(cfg['phases']), 'sched-stride:%d' % case.get('stride', 1)]
    h = ['algo:' + kind_name(cfg)]
    if 'model' not in out:
      return h + ['timeout']
    ev = case['events']
    h.append('events:%s' % ('0-5' if len(ev) <= 5 else '6-16' if len(ev) <= 16 else '17-40' if len(ev) <= 40 else '41+'))
    h.append('feed:' + case.get('feed', 'list'))
    h.append('recover-calls:%d' % (len(case.get('cuts', [])) + 1))
    fed = [e[1] for e in ev if e[0] == 'f']
    h.append('feedback:' + ('none' if not fed else 'in-order' if fed == sorted(fed) else 'out-of-order'))
    log = out['log']
    for x in sorted({x for x in log if isinstance(x, str) and x in ERRS}):
      h.append('propose-raises:' + x)
    last = out['model']['ks'][-1]
    if any(x[1] is None for x in last['hist']):
      h.append('in-flight-at-end')
    if 'cache' in last['live'] and innermost(last['live'])['np'] > last['live']['np']:
      h.append('duplicates-rejected')
    if c15_auto(cfg) and last['live'].get('feedback_driven'):
      h.append('auto-reward-enabled')
      if any(isinstance(x, dict) and x.get('auto') is not None for e in out['model']['ks'] for x in e['live_next']):
        h.append('auto-reward-issued')
    if cfg['kind'] == 'evo':
      h.append('evo-init:' + kind_name(cfg['init']) + ('/sized' if cfg['init_size'] is not None else '/exhaust'))
      h.append('evo-children:%d' % cfg['repro'][1])
      h.append('evo-phase-at-end:' + ('evolving' if last['live']['gen'] > 0 else 'initialising'))
    if not self.nontrivial(case, out):
      h.append('trivial')
    return h

  def shrink_candidates(self, case):
    if is_sched(case):
      return
    ev = case['events']
    # shorter prefixes first (the failing crash point is usually early), then single-event removal
    for n in range(0, len(ev)):
      c = dict(case)
      c['events'] = ev[:n]
      yield c
    for i in range(len(ev)):
      c = dict(case)
      c['events'] = ev[:i] + ev[i + 1:]
      yield c
    cfg = case['algo']
    if cfg['kind'] == 'dedup' and cfg['inner']['kind'] == 'dedup':
      c = dict(case)
      c['algo'] = cfg['inner']
      yield c


def feedback_straddles_chunks(case, log, k, n_hist):
  """Is some proposal of a later recover() call fed back before a proposal of an earlier call?"""
  cuts = case.get('cuts') or []
  if not cuts:
    return False
  bounds, start = [], 0
  for c in list(cuts) + [100]:
    start = max(start, n_hist * c // 100)
    bounds.append(start)
  chunk = lambda i: next(j for j, b in enumerate(bounds) if i < b)
  order = [case['events'][j][1] for j in range(k) if log[j] == 'f']
  hi = -1
  for i in order:
    c = chunk(i)
    if c < hi:
      return True
    hi = max(hi, c)
  return False


def is_sched(case):
  return case['algo'].get('kind') == 'sched'


def sched_steps(case):
  live = list(range(0, case['n'], case.get('stride', 1)))
  return live, [x for x in live if x >= case['k']]


def run_sched(case):
  """A scheduled hyper-parameter (`scalars.StepWise`) as the operators of an Evolution use it: evaluated
  with the step of the current call.  live: one object called at every step of the run; rec: the fresh
  object of an instance recovered at step k, first called at step k."""
  from pyglove.ext import scalars

  def build():
    return scalars.StepWise([(l, scalars.STEP if pv[0] == 'step' else pv[1]) for l, pv in case['algo']['phases']])
  live_steps, rec_steps = sched_steps(case)
  a, b = build(), build()
  return {'live': [a(x) for x in live_steps], 'rec': [b(x) for x in rec_steps]}


def c15_auto(cfg):
  return cfg['kind'] == 'dedup' and cfg.get('auto', False)


def innermost(obs):
  while 'inner' in obs and 'cache' in obs['inner']:
    obs = obs['inner']
  return obs['inner'] if 'inner' in obs else obs


PROP = C15()
