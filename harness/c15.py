"""C15 — search algorithms recover their state from history at every crash point.

Case shape (everything JSON):
  {"algo": <cfg>, "dims": [3, 2], "events": [["p"] | ["f", i, r], ...], "m": 3}
<cfg> :=
    {"kind": "sweeping"}
  | {"kind": "random", "seed": 7, "seeded": true|false}      # unseeded: the harness reseeds the global
                                                             #   `random` module with `seed` at every setup
  | {"kind": "dedup", "inner": <cfg>, "hash": 0|k,           # 0: default hash (symbolic hash of the DNA)
     "max_dup": 1, "max_att": 4, "auto": false}              #   k>0: hash_fn = index(dna) % k
  | {"kind": "evo", "init": <cfg>, "init_size": n|null,
     "repro": [name, c], "update": ["none"] | ["last", n] | ["top", n]}
  | {"kind": "real", "name": "regularized_evolution"|"hill_climb"|"nsga2", ...}   # oracle only

A run is executed on a live instance; at every crash point k (prefix of k events) the history
`[(dna, reward | None)]` (DNA objects with the metadata the live algorithm wrote) is serialised with
`pg.to_json_str`, loaded back, and a fresh instance set up on the same space recovers from it.
`observe` of both (plus the next m proposals of both) is what the model must predict and what the
oracle compares.  DNA identity on the wire = index in `list(spec.iter_dna())`.
"""

import json
import os

from harness.common.framework import Prop, VERIF

ERRS = ('StopIteration', 'ValueError', 'TypeError', 'AssertionError', 'KeyError')


# ------------------------------------------------------------------------------------------
# Building the real objects
# ------------------------------------------------------------------------------------------

class World:
  """The search space of a case and the index <-> DNA mapping."""

  def __init__(self, dims):
    import pyglove as pg
    self.pg = pg
    self.dims = list(dims)
    self.spec = pg.dna_spec(pg.Dict(**{'d%d' % i: pg.oneof(list(range(n))) for i, n in enumerate(dims)}))
    self.dnas = list(self.spec.iter_dna())
    self.index = {tuple(d.to_numbers()): i for i, d in enumerate(self.dnas)}

  def idx(self, dna):
    return self.index[tuple(dna.to_numbers())]

  def fresh(self, i):
    """A new DNA object (no metadata) for the i-th point of the space."""
    return self.pg.DNA(self.dnas[i % len(self.dnas)].to_numbers()).use_spec(self.spec)


def fitness_of(dna):
  return dna.metadata.get('reward')


def make_repro(world, spec):
  """Deterministic reproduction operations (mirrored by `Pg.C15.reproOf` in the Lean driver)."""
  name, c = spec
  n = len(world.dnas)

  def best(pop):
    b = None
    for d in pop:                                  # first element of maximal fitness
      if b is None or fitness_of(d) > fitness_of(b):
        b = d
    return b

  if name == 'best_next':      # children = the c successors (cyclic, shifted by step) of the best individual
    def op(pop, global_state, step):
      if not pop:
        return []
      b = world.idx(best(pop))
      return [world.fresh(b + 1 + step + j) for j in range(c)]
    return op
  if name == 'last_gen':       # children depend on the generation counter and the newest individual
    def op(pop, global_state, step):
      if not pop:
        return []
      b = world.idx(pop[-1])
      return [world.fresh(b + global_state.num_generations + j * 2) for j in range(c)]
    return op
  raise ValueError(name)


def make_update(world, spec):
  kind = spec[0]
  if kind == 'none':
    return None
  n = spec[1]
  if kind == 'last':
    return lambda pop, global_state, step: pop[-n:]
  if kind == 'top':            # stable: the n fittest, ties broken by position
    def op(pop, global_state, step):
      order = sorted(range(len(pop)), key=lambda i: (-fitness_of(pop[i]), i))
      keep = sorted(order[:n])
      return [pop[i] for i in keep]
    return op
  raise ValueError(kind)


def build(world, cfg):
  """A fresh, not yet set-up instance for cfg."""
  pg = world.pg
  k = cfg['kind']
  if k == 'sweeping':
    return pg.geno.Sweeping()
  if k == 'random':
    return pg.geno.Random(seed=cfg['seed'] if cfg['seeded'] else None)
  if k == 'dedup':
    inner = build(world, cfg['inner'])
    h = cfg['hash']
    hash_fn = None if h == 0 else (lambda dna: world.idx(dna) % h)
    auto = (lambda rs: float(sum(rs))) if cfg['auto'] else None
    return pg.geno.Deduping(inner, hash_fn=hash_fn, auto_reward_fn=auto,
                            max_duplicates=cfg['max_dup'], max_proposal_attempts=cfg['max_att'])
  if k == 'evo':
    from pyglove.ext import evolution
    init = build(world, cfg['init'])
    pinit = init if cfg['init_size'] is None else (init, cfg['init_size'])
    return evolution.Evolution(make_repro(world, cfg['repro']), population_init=pinit,
                               population_update=make_update(world, cfg['update']))
  if k == 'real':
    from pyglove.ext import evolution
    name = cfg['name']
    if name == 'regularized_evolution':
      return evolution.regularized_evolution(population_size=cfg['population_size'],
                                             tournament_size=cfg['tournament_size'], seed=cfg['seed'])
    if name == 'hill_climb':
      return evolution.hill_climb(batch_size=cfg['batch_size'],
                                  init_population_size=cfg['init_population_size'], seed=cfg['seed'])
    if name == 'nsga2':
      return evolution.nsga2(population_size=cfg['population_size'], seed=cfg['seed'])
    if name == 'dedup':
      inner = build(world, cfg['inner'])
      return pg.geno.Deduping(inner, hash_fn=lambda dna: world.idx(dna),
                              max_duplicates=cfg.get('max_dup', 1), max_proposal_attempts=cfg.get('max_att', 20))
  raise ValueError(k)


def unseeded_seeds(cfg):
  k = cfg['kind']
  if k == 'random':
    return [] if cfg['seeded'] else [cfg['seed']]
  if k == 'dedup':
    return unseeded_seeds(cfg['inner'])
  if k == 'evo':
    return unseeded_seeds(cfg['init'])
  if k == 'real' and cfg['name'] == 'dedup':
    return unseeded_seeds(cfg['inner'])
  return []


def setup(world, cfg):
  import random
  g = unseeded_seeds(cfg)
  # Global `random` state at setup time: position 0 of the stream named by the (single) unseeded Random.
  random.seed(g[0] if g else 12345)
  algo = build(world, cfg)
  algo.setup(world.spec)
  return algo


def is_multi(cfg):
  if cfg['kind'] == 'real':
    if cfg['name'] == 'nsga2':
      return True
    if cfg['name'] == 'dedup':
      return is_multi(cfg['inner'])
  return False


# ------------------------------------------------------------------------------------------
# Running, persisting, observing
# ------------------------------------------------------------------------------------------

def try_propose(world, algo):
  try:
    return algo.propose(), None
  except StopIteration:
    return None, 'StopIteration'
  except (ValueError, TypeError, AssertionError, KeyError) as e:
    return None, type(e).__name__


def run_live(world, cfg, events):
  """Runs the events on a fresh live instance. Returns (algo, history, log)."""
  algo = setup(world, cfg)
  multi = is_multi(cfg)
  hist, log = [], []
  for e in events:
    if e[0] == 'p':
      dna, err = try_propose(world, algo)
      if err:
        log.append(err)
      else:
        hist.append([dna, None])
        log.append(world.idx(dna))
    else:
      i, r = e[1], e[2]
      if i < len(hist) and hist[i][1] is None:
        dna = hist[i][0]
        reward = float(r)
        if 'reward' in dna.metadata:          # automatic reward of Deduping: what pg.sample feeds back
          reward = dna.metadata['reward']
        if multi:
          reward = (float(r), float((r * 7 + i) % 5))
        try:
          algo.feedback(dna, reward)
          hist[i][1] = reward
          log.append('f')
        except (ValueError, TypeError, AssertionError, KeyError) as ex:
          log.append(type(ex).__name__)
      else:
        log.append('skip')
  return algo, hist, log


def persist(world, hist):
  pg = world.pg
  text = pg.to_json_str([[d, r] for d, r in hist])
  return [(d, r) for d, r in pg.from_json_str(text)]


def jreward(r):
  if r is None:
    return None
  if isinstance(r, tuple):
    return [jreward(x) for x in r]
  if float(r) == int(r):
    return int(r)
  return ['float', repr(float(r))]


def item_obs(world, dna):
  m = dna.metadata
  return {'dna': world.idx(dna), 'reward': jreward(m.get('reward')), 'pid': m.get('proposal_id'),
          'gid': m.get('generation_id'), 'initial': m.get('initial_population'),
          'fbseq': m.get('feedback_sequence_number'),
          'key': (m.get('dedup_key') if not isinstance(m.get('dedup_key'), int) or abs(m.get('dedup_key')) < 10**6 else 'h')}


def observe(world, cfg, algo):
  k = cfg['kind']
  o = {'np': algo.num_proposals, 'nf': algo.num_feedbacks}
  if k == 'dedup' or (k == 'real' and cfg['name'] == 'dedup'):
    cache = algo._cache      # no public accessor for the de-duplication memory   # pylint: disable=protected-access
    default_hash = (k == 'dedup' and cfg['hash'] == 0)
    ents = []
    for key, rewards in cache.items():
      ents.append([key, [jreward(r) for r in rewards]])
    if default_hash:
      # symbolic hashes are opaque numbers: canonicalise by renaming keys in order of first insertion
      ents = [[i, rs] for i, (_, rs) in enumerate(ents)]
    else:
      ents.sort(key=lambda e: e[0])
    o['cache'] = ents
    o['feedback_driven'] = bool(algo.needs_feedback)
    o['inner'] = observe(world, cfg['inner'], algo.generator)
  elif k in ('evo', 'real'):
    o['gen'] = algo.num_generations
    o['pop'] = [item_obs(world, d) for d in algo.population]
  return o


def next_proposals(world, algo, m):
  out = []
  for _ in range(m):
    dna, err = try_propose(world, algo)
    if err:
      out.append(err)
    else:
      o = item_obs(world, dna)
      out.append({'dna': o['dna'], 'initial': o['initial'], 'gid': o['gid'], 'pid': o['pid'],
                  'auto': o['reward']})
  return out


def recover_fresh(world, cfg, hist):
  algo = setup(world, cfg)
  try:
    algo.recover(persist(world, hist))
  except (ValueError, TypeError, AssertionError, KeyError) as e:
    return None, type(e).__name__
  return algo, None


def crash_points(world, cfg, events, m):
  """For every k: observe + next proposals of the live instance stopped after k events and of a fresh
  instance recovered from the persisted history."""
  out = []
  log = None
  for k in range(len(events) + 1):
    live, hist, lg = run_live(world, cfg, events[:k])
    if k == len(events):
      log = lg
    rec, err = recover_fresh(world, cfg, hist)
    ent = {'live': observe(world, cfg, live)}
    ent['rec'] = {'error': err} if err else observe(world, cfg, rec)
    ent['live_next'] = next_proposals(world, live, m)
    ent['rec_next'] = [] if err else next_proposals(world, rec, m)
    ent['hist'] = [[world.idx(d), jreward(r)] for d, r in hist]
    out.append(ent)
  return out, log


def streams(world, cfg, n):
  """The oracle streams the model needs: for every Random in cfg, the first n DNAs a fresh PRNG with
  that seed draws on this space (recorded from the real random.Random)."""
  import random
  out = {}

  def visit(c):
    k = c['kind']
    if k == 'random':
      key = str(c['seed'])
      if key not in out:
        r = random.Random(c['seed'])
        out[key] = [world.idx(world.pg.random_dna(world.spec, r)) for _ in range(n)]
    elif k == 'dedup':
      visit(c['inner'])
    elif k == 'evo':
      visit(c['init'])
  visit(cfg)
  return out


# ------------------------------------------------------------------------------------------
# The property
# ------------------------------------------------------------------------------------------

def continuation_claimed(cfg):
  """Algorithms whose proposals are a function of history and seed: sweeping, seeded random,
  de-duplication over them."""
  k = cfg['kind']
  if k == 'sweeping':
    return True
  if k == 'random':
    return cfg['seeded']
  if k == 'dedup':
    return continuation_claimed(cfg['inner'])
  return False


def kind_name(cfg):
  k = cfg['kind']
  if k == 'dedup':
    return 'dedup(%s)' % kind_name(cfg['inner'])
  if k == 'evo':
    return 'evo'
  if k == 'real':
    if cfg['name'] == 'dedup':
      return 'dedup(%s)' % kind_name(cfg['inner'])
    return cfg['name']
  if k == 'random':
    return 'random' if cfg['seeded'] else 'random-unseeded'
  return k


def multiset(xs):
  return sorted(json.dumps(x, sort_keys=True) for x in xs)


def pop_view(pop):
  return [[d['dna'], d['reward']] for d in pop]


def diff_state(cfg, live, rec, path=''):
  """All differences between the observable states the property names. Yields (signature, text)."""
  name = kind_name(cfg)
  if 'error' in rec:
    yield ('%s:recover-raises:%s' % (name, rec['error']), 'recover raised %s' % rec['error'])
    return
  is_inner = bool(path)
  if not is_inner:
    if live['np'] != rec['np']:
      yield ('%s:num_proposals' % name, 'num_proposals live=%s recovered=%s' % (live['np'], rec['np']))
    if live['nf'] != rec['nf']:
      yield ('%s:num_feedbacks' % name, 'num_feedbacks live=%s recovered=%s' % (live['nf'], rec['nf']))
  if 'cache' in live:
    if live['feedback_driven']:
      a = {json.dumps(k): multiset(v) for k, v in live['cache']}
      b = {json.dumps(k): multiset(v) for k, v in rec['cache']}
    else:     # only the number of entries per key can influence later de-duplication
      a = {json.dumps(k): len(v) for k, v in live['cache']}
      b = {json.dumps(k): len(v) for k, v in rec['cache']}
    if a != b:
      if live['feedback_driven']:
        strip = {k: [x for x in v if x != 'null'] for k, v in b.items()}
        strip = {k: v for k, v in strip.items() if v}
        sig = 'none-reward-cached' if strip == a else 'cache'
      else:
        sig = 'cache-count'
      yield ('%s:%s' % (name, sig), 'de-duplication memory live=%s recovered=%s' % (a, b))
    icfg = cfg['inner']
    if icfg['kind'] in ('evo', 'real'):
      # the wrapped evolution: the state the property names (population with fitness) and the
      # counters its behaviour depends on
      li, ri = live['inner'], rec['inner']
      if pop_view(li['pop']) != pop_view(ri['pop']):
        yield ('%s:inner-population' % name, 'population of the wrapped algorithm live=%s recovered=%s'
               % (pop_view(li['pop']), pop_view(ri['pop'])))
      if (li['np'], li['nf']) != (ri['np'], ri['nf']) and len(live['hist_dnas']) == li['np']:
        # (only when no duplicate was dropped: otherwise the history cannot tell the count)
        yield ('%s:inner-counts' % name, 'wrapped algorithm proposals/feedbacks live=%s/%s recovered=%s/%s'
               % (li['np'], li['nf'], ri['np'], ri['nf']))
    elif icfg['kind'] == 'dedup':
      l2, r2 = dict(live['inner']), dict(rec['inner'])
      l2['hist_dnas'] = r2['hist_dnas'] = live['hist_dnas']
      yield from diff_state(icfg, l2, r2, path + '/inner')
  if 'pop' in live:
    lp, rp = pop_view(live['pop']), pop_view(rec['pop'])
    if lp != rp:
      if multiset(lp) == multiset(rp):
        yield ('%s:population-order' % name, 'population order live=%s recovered=%s' % (lp, rp))
      else:
        yield ('%s:population' % name, 'population live=%s recovered=%s' % (lp, rp))
    if live['gen'] != rec['gen']:
      phase = 'init-phase' if live['gen'] == 0 else 'evolving'
      yield ('%s:num_generations:%s' % (name, phase),
             'num_generations live=%s recovered=%s' % (live['gen'], rec['gen']))


def next_view(xs):
  return [x if isinstance(x, str) else [x['dna'], x['auto']] for x in xs]


def known_signatures():
  sigs = set()
  for name in ('known_findings.json', 'C15.json'):
    path = os.path.join(VERIF, 'findings', name)
    if os.path.exists(path):
      with open(path) as f:
        for e in json.load(f)['findings']:
          if e['property'] == 'C15' and e.get('status') == 'known':
            sigs.update(e['signature'].split('|'))
  return sigs


class C15(Prop):
  id = 'C15'
  props_modules = ['PgProps.C15']
  driver = 'drv_c15'
  translators = []
  case_timeout_s = 60
  jobs_quick = 4
  jobs_thorough = 6
  rule = ''
  trusted_base = []
  assumptions = []


  # -- generation ---------------------------------------------------------------------------
  def gen_base(self, rng):
    k = rng.weighted([(3, 'sweeping'), (3, 'seeded'), (1, 'unseeded')])
    if k == 'sweeping':
      return {'kind': 'sweeping'}
    return {'kind': 'random', 'seed': rng.randint(0, 50), 'seeded': k == 'seeded'}

  def gen_evo(self, rng, size):
    init = self.gen_base(rng)
    if rng.chance(0.2):
      init = {'kind': 'dedup', 'inner': init, 'hash': 0, 'max_dup': 1, 'max_att': rng.randint(2, 5), 'auto': False}
    if init['kind'] == 'sweeping' and rng.chance(0.4):
      init_size = None                     # initial phase ends when the initialiser is exhausted
    else:
      init_size = rng.randint(0, 5)
    upd = rng.weighted([(2, ['none']), (3, ['last', rng.randint(1, 4)]), (3, ['top', rng.randint(1, 4)])])
    repro = [rng.choice(['best_next', 'last_gen']), rng.weighted([(3, 1), (2, 2), (1, 3)])]
    return {'kind': 'evo', 'init': init, 'init_size': init_size, 'repro': repro, 'update': upd}

  def gen_dedup(self, rng, inner, size):
    return {'kind': 'dedup', 'inner': inner,
            'hash': rng.weighted([(2, 0), (3, rng.randint(2, max(2, size - 1))), (1, 1)]) if inner['kind'] != 'evo'
                    else rng.randint(2, max(2, size)),
            'max_dup': rng.weighted([(4, 1), (2, 2), (1, 3)]),
            'max_att': rng.randint(1, 6), 'auto': rng.chance(0.35)}

  def gen_algo(self, rng, size):
    k = rng.weighted([(2, 'base'), (5, 'dedup-base'), (1, 'dedup-dedup'), (6, 'evo'), (3, 'dedup-evo'), (3, 'real')])
    if k == 'base':
      return self.gen_base(rng)
    if k == 'dedup-base':
      return self.gen_dedup(rng, self.gen_base(rng), size)
    if k == 'dedup-dedup':
      return self.gen_dedup(rng, self.gen_dedup(rng, self.gen_base(rng), size), size)
    if k == 'evo':
      return self.gen_evo(rng, size)
    if k == 'dedup-evo':
      return self.gen_dedup(rng, self.gen_evo(rng, size), size)
    name = rng.choice(['regularized_evolution', 'hill_climb', 'nsga2', 'dedup'])
    seed = rng.randint(0, 99)
    if name == 'regularized_evolution':
      ps = rng.randint(2, 5)
      return {'kind': 'real', 'name': name, 'population_size': ps, 'tournament_size': rng.randint(2, ps), 'seed': seed}
    if name == 'hill_climb':
      return {'kind': 'real', 'name': name, 'batch_size': rng.randint(1, 3),
              'init_population_size': rng.randint(1, 3), 'seed': seed}
    if name == 'nsga2':
      return {'kind': 'real', 'name': name, 'population_size': rng.randint(1, 3), 'seed': seed}
    ps = rng.randint(2, 4)
    inner = rng.choice([
        {'kind': 'real', 'name': 'regularized_evolution', 'population_size': ps, 'tournament_size': 2, 'seed': seed},
        {'kind': 'real', 'name': 'hill_climb', 'batch_size': rng.randint(1, 2), 'init_population_size': rng.randint(1, 3),
         'seed': seed}])
    return {'kind': 'real', 'name': 'dedup', 'inner': inner, 'max_dup': rng.randint(1, 3), 'max_att': rng.randint(3, 20)}

  def gen_events(self, rng, n):
    """Runs as a tuning backend produces them: proposals by up to w parallel workers; feedback mostly in
    proposal order, sometimes out of order; the last in-flight proposals never fed back."""
    style = rng.weighted([(3, 'sequential'), (4, 'window'), (3, 'shuffled')])
    w = 1 if style == 'sequential' else rng.randint(2, 5)
    events, pending, np_ = [], [], 0
    while len(events) < n:
      if pending and (len(pending) >= w or rng.chance(0.45)):
        if style == 'shuffled' and rng.chance(0.5):
          i = pending.pop(rng.below(len(pending)))
        else:
          i = pending.pop(0)
        events.append(['f', i, rng.randint(0, 9)])
      else:
        events.append(['p'])
        pending.append(np_)
        np_ += 1
    return events

  DIMS = [[3], [4], [5], [7], [2, 2], [3, 2], [2, 3], [2, 2, 2], [4, 3], [3, 3], [5, 4], [6, 4]]

  def generate(self, rng, tier):
    n_cases = 150 if tier == 'quick' else 2500
    for _ in range(n_cases):
      dims = rng.choice(self.DIMS)
      size = 1
      for d in dims:
        size *= d
      algo = self.gen_algo(rng, size)
      hi = 40 if tier == 'quick' else rng.choice([40, 40, 80])
      n = rng.weighted([(1, rng.randint(0, 5)), (5, rng.randint(6, 20)), (3, rng.randint(21, hi))])
      yield {'algo': algo, 'dims': dims, 'events': self.gen_events(rng, n), 'm': 3}

  def model_request(self, case):
    return None

  def impl(self, case):
    world = World(case['dims'])
    cfg = case['algo']
    ks, log = crash_points(world, cfg, case['events'], case.get('m', 3))
    n_prop = sum(1 for e in case['events'] if e[0] == 'p') + case.get('m', 3)
    return {'ks': ks, 'log': log, 'n': len(world.dnas)}

  def oracle(self, case, out):
    cfg = case['algo']
    fails = []
    for k, ent in enumerate(out['ks']):
      live, rec = dict(ent['live']), dict(ent['rec'])
      live['hist_dnas'] = [h[0] for h in ent['hist']]
      for sig, text in diff_state(cfg, live, rec):
        fails.append({'signature': sig, 'what': 'crash point k=%d: %s' % (k, text), 'k': k})
      if 'error' not in rec and continuation_claimed(cfg):
        a, b = next_view(ent['live_next']), next_view(ent['rec_next'])
        if a != b:
          fails.append({'signature': '%s:continuation' % kind_name(cfg),
                        'what': 'crash point k=%d: next proposals live=%s recovered=%s' % (k, a, b), 'k': k})
    if not fails:
      return None
    known = known_signatures()
    for f in fails:
      if f['signature'] not in known:
        return f
    return fails[0]


PROP = C15()
