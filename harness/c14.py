"""C14 — evolution operators are closed over valid DNA and never corrupt their inputs.

Case shape (self-contained, JSON):
  {"spec": S, "pop": [{"nums": [...], "fit": int|null}, ...], "expr": E, "seed": int}
  S := ["space", [S...]] | ["choices", k, [S...], distinct, sorted] | ["float", [m, e], [m, e]]
       (candidates of a choices node are always ["space", ...]; floats are exact m / 2**e)
  nums: the DNA as its flat list of decisions (`DNA.to_numbers()` order; floats as [m, e])
  fit:  the reward of the individual times 4 (metadata 'reward' = fit / 4.0), null = no reward
  E := ["prim", name, args...] | ["identity"] | ["seq", E, E] | ["concat", E, E] | ["union", E, E]
     | ["inter", E, E] | ["diff", E, E] | ["symdiff", E, E] | ["inv", E]
     | ["slice", E, ["index", i] | ["range", start|null, stop|null, step]]
     | ["repeat", E, k] | ["power", E, k] | ["choice", [[E, [m, e]], ...], limit|null]
     | ["cond", pred, E, E] | ["until", E, n]            pred := ["lenGt", k] | ["always"] | ["never"]
  prims in the Lean model: mutUniform mutSwap selRandom selSample selTop selBottom selFirst selLast
     recUniform recSample recKPoint recSegmented recOrder recPartiallyMapped recCycle recAverage recWeightedAverage selProportional; oracle-only prims (run on the real code, property
     oracle only, no model prediction): see ORACLE_ONLY.

Recorded-oracle technique: every `random.Random` owned by an operator of the expression is replaced
by a `RecRandom` (same seed, same bit stream) that logs every call (kind, argument size, result as
indices / exact rationals). The log is the oracle stream fed to the Lean model, which checks kind
and size of every draw it makes, so the *sequence of PRNG calls* is part of the correspondence.
"""

import json
import random as _pyrandom
from fractions import Fraction

from harness.common.framework import Prop

MODEL_PRIMS = ['mutUniform', 'mutSwap', 'selRandom', 'selSample', 'selTop', 'selBottom', 'selFirst',
               'selLast', 'recUniform', 'recSample', 'recKPoint', 'recSegmented', 'recOrder', 'recAverage',
               'recWeightedAverage', 'selProportional', 'recPartiallyMapped', 'recCycle',
               'selTopCluster', 'selBottomCluster']
ORACLE_ONLY = ['nsga2SortPipeline',
               'lambdaDrop1', 'lambdaReverse', 'forEachFlatten']
SELECTORS = {'Random', 'Sample', 'Proportional', 'Top', 'Bottom', 'First', 'Last'}


def ratio(x):
  m, d = float(x).as_integer_ratio()
  return [m, d.bit_length() - 1]


def unratio(q):
  return q[0] / float(1 << q[1])


# ------------------------------------------------------------------------------------------
# Generators (no pyglove here)
# ------------------------------------------------------------------------------------------

def gen_space(rng, depth, n_elems=None, in_cand=False):
  n = n_elems if n_elems is not None else rng.weighted([(3, 1), (4, 2), (3, 3), (1, 4)])
  return ['space', [gen_point(rng, depth) for _ in range(n)]]


def gen_root(rng, depth):
  """A root space of bounded size (the real DNASpec of a k-fold multi-choice holds k copies of every
  candidate, so construction cost grows quickly with nesting)."""
  while True:
    s = gen_space(rng, depth)
    if spec_size(s) <= 22:
      return s


def spec_size(s):
  if s[0] == 'space':
    return sum(spec_size(e) for e in s[1])
  if s[0] == 'float':
    return 1
  return s[1] * (1 + sum(spec_size(c) for c in s[2]))


def gen_point(rng, depth):
  kind = rng.weighted([(2, 'float'), (4, 'one'), (5, 'many')])
  if kind == 'float':
    lo = rng.choice([-4, -1, 0, 1])
    hi = lo + rng.choice([1, 2, 8])
    return ['float', [lo, 0], [hi, 0]]
  ncand = rng.randint(2, 5)

  def cand():
    if depth <= 0 or rng.chance(0.55):
      return ['space', []]
    if rng.chance(0.3):
      # a float decision that is only active under this candidate (cf. pg.oneof([pg.floatv(..), 'off']))
      lo, hi = rng.choice([([1, 1], [1, 0]), ([0, 0], [1, 0]), ([-3, 1], [1, 1]), ([1, 0], [3, 0])])
      return ['space', [['float', lo, hi]]]
    return gen_space(rng, depth - 1, rng.weighted([(5, 1), (3, 2)]), True)
  cands = [cand() for _ in range(ncand)]
  if kind == 'one':
    return ['choices', 1, cands, rng.chance(0.8), False]
  distinct = rng.chance(0.6)
  srt = rng.chance(0.4)
  k = rng.randint(2, ncand) if distinct else rng.randint(2, 4)
  if distinct and rng.chance(0.25):
    k = ncand                      # permutation point
  return ['choices', k, cands, distinct, srt]


def gen_dna(rng, spec):
  """A valid DNA of `spec` as flat numbers."""
  if spec[0] == 'space':
    out = []
    for e in spec[1]:
      out += gen_dna(rng, e)
    return out
  if spec[0] == 'float':
    from fractions import Fraction
    lo, hi = Fraction(spec[1][0], 1 << spec[1][1]), Fraction(spec[2][0], 1 << spec[2][1])
    v = lo + (hi - lo) * Fraction(rng.randint(0, 8), 8) if rng.chance(0.8) else rng.choice([lo, hi])
    return [[v.numerator, v.denominator.bit_length() - 1]]
  _, k, cands, distinct, srt = spec
  n = len(cands)
  vals = rng.sample(list(range(n)), k) if distinct else [rng.below(n) for _ in range(k)]
  if srt:
    vals = sorted(vals)
  out = []
  for v in vals:
    out.append(v)
    out += gen_dna(rng, cands[v])
  return out


def norm_q(q):
  m, e = q
  while e > 0 and m % 2 == 0:
    m //= 2
    e -= 1
  return [m, e]


def spec_stats(spec):
  """(#decision points, has nested, has multi, has float, has perm point, max depth)."""
  st = {'points': 0, 'nested': False, 'multi': False, 'float': False, 'perm': False, 'sortedmulti': False,
        'distinctmulti': False}

  def walk(s, d):
    if s[0] == 'space':
      for e in s[1]:
        walk(e, d)
    elif s[0] == 'float':
      st['points'] += 1
      st['float'] = True
    else:
      st['points'] += s[1]
      if s[1] > 1:
        st['multi'] = True
        st['sortedmulti'] |= s[4]
        st['distinctmulti'] |= s[3]
        if s[3] and not s[4] and s[1] == len(s[2]):
          st['perm'] = True
      for c in s[2]:
        if c[1]:
          st['nested'] = True
        walk(c, d + 1)
  walk(spec, 0)
  return st


WEIGHT_POOL = [[0, 0], [0, 0], [1, 0], [1, 0], [1, 0], [2, 0], [1, 6], [1, 3], [5, 2], [3, 1],
               ratio(0.1), ratio(0.02), ratio(0.7), [7, 0]]


def gen_weights(rng):
  """Weights for Proportional (applied cyclically to the inputs): tiny, zero, equal and ordinary ones."""
  k = rng.below(6)
  n = rng.randint(1, 7)
  if k == 0:
    return [rng.choice([[1, 0], [1, 0], [5, 2]])] * n                   # all equal
  if k == 1:
    return rng.shuffle([rng.choice([ratio(0.1), ratio(0.02), [1, 6]])] + [[1, 0]] * (n - 1))   # one tiny among equals
  if k == 2:
    return rng.shuffle([[0, 0]] * rng.randint(1, 2) + [rng.choice(WEIGHT_POOL) for _ in range(n)])
  return [rng.choice(WEIGHT_POOL) for _ in range(n)]


def gen_where(rng, prim):
  """A `where` filter of the modelled family (what a filter can see of a node: kind 0 float / 1 single
  choice / 2 multi-choice node / 3 subchoice; the chosen candidate; the subchoice index)."""
  if prim == 'mutSwap':
    return rng.choice([['any'], ['kinds', [2]], ['kinds', [0, 1, 3]], ['not', ['kinds', [2]]], ['kinds', [2, 3]]])

  def atom():
    k = rng.below(6)
    if k == 0:
      return ['kinds', rng.sample([0, 1, 2, 3], rng.randint(1, 3))]
    if k == 1:
      return ['kinds', [rng.choice([0, 1, 2, 3])]]
    if k == 2:
      return ['valueLt', rng.randint(1, 3)]
    if k == 3:
      return ['valueEq', rng.below(3)]
    if k == 4:
      return ['indexEq', rng.below(3)]
    return ['any']
  k = rng.below(5)
  if k == 0:
    return ['not', atom()]
  if k == 1:
    return ['and', atom(), atom()]
  return atom()


def make_sched(sj, top=False):
  """The pg.evolution.scalars object for a schedule of the family."""
  from pyglove.ext import scalars
  h = sj[0]
  if h == 'c':
    return scalars.Constant(sj[1]) if top else sj[1]
  if h == 'step':
    return scalars.STEP
  if h == 'stepwise':
    return scalars.StepWise([(ph[0], make_sched(ph[1])) for ph in sj[1]])
  a, b = make_sched(sj[1]), make_sched(sj[2])
  if isinstance(a, int) and isinstance(b, int):
    a = scalars.Constant(a)
  if h == 'add':
    return a + b
  if h == 'sub':
    return a - b
  if h == 'mul':
    return a * b
  if h == 'floordiv':
    return a // b
  if h == 'mod':
    return a % b
  raise ValueError(sj)


def make_where(f):
  """The Python callable for a filter of the family (robust on nodes without a decision point)."""
  def info(d):
    import pyglove as pg
    sp = d.spec
    if isinstance(sp, pg.geno.Float):
      return (0, 0, 0)
    if isinstance(sp, pg.geno.Choices):
      if sp.is_subchoice:
        return (3, d.value, sp.subchoice_index)
      if sp.num_choices == 1:
        return (1, d.value, 0)
      return (2, 0, 0)
    return None

  def ev(f, n):
    h = f[0]
    if h == 'any':
      return True
    if h == 'kinds':
      return n[0] in f[1]
    if h == 'valueLt':
      return n[1] < f[1]
    if h == 'valueEq':
      return n[1] == f[1]
    if h == 'indexEq':
      return n[2] == f[1]
    if h == 'not':
      return not ev(f[1], n)
    if h == 'and':
      return ev(f[1], n) and ev(f[2], n)
    raise ValueError(f)

  def where(d):
    n = info(d)
    return True if n is None else bool(ev(f, n))
  return where


class ExprGen:
  """Operator expressions from the combinator grammar (depth <= 4), mostly well-typed:
  `fit` tracks whether every element still carries a reward (Top/Bottom need it), segment-wise
  recombinators are fed exactly two parents."""

  def __init__(self, rng, npop, sloppy=False, oracle_only=False):
    self.rng, self.npop, self.sloppy, self.oo = rng, npop, sloppy, oracle_only

  def sched01(self):
    """A probability schedule with values 0 / 1."""
    r = self.rng
    if r.chance(0.5):
      return ['sched', ['mod', ['step'], ['c', 2]]]
    return ['sched', ['stepwise', [[r.randint(0, 4), ['c', r.below(2)]], [r.randint(1, 4), ['c', r.below(2)]],
                                   [r.randint(0, 3), ['c', 1]]]]]

  def sched(self, nonneg=True):
    """A step-driven integer schedule (pg.evolution.scalars): STEP, constants, + - * // %."""
    r = self.rng
    k = r.below(7 if nonneg else 8)
    st = ['step']
    if k == 0:
      return ['sched', ['mod', st, ['c', r.randint(2, 4)]]]
    if k == 1:
      return ['sched', ['floordiv', st, ['c', r.randint(2, 3)]]]
    if k == 2:
      return ['sched', ['add', ['mod', st, ['c', 2]], ['c', r.randint(0, 2)]]]
    if k == 3:
      return ['sched', ['mul', ['mod', st, ['c', 3]], ['c', r.randint(1, 2)]]]
    if k == 4:
      return ['sched', ['c', r.randint(0, 3)]]
    if k == 5:
      return ['sched', ['floordiv', ['add', st, ['c', 1]], ['c', 2]]]
    if k == 6:
      if r.chance(0.5):
        # scalars.StepWise: phases of 0-4 steps, each a constant or a phase-local schedule
        return ['sched', ['stepwise', [[r.randint(0, 4), r.choice([['c', r.randint(0, 3)], st, ['mod', st, ['c', 2]]])]
                                       for _ in range(r.randint(1, 4))]]]
      return ['sched', ['mod', ['mul', st, ['c', 3]], ['c', 4]]]
    return ['sched', ['sub', ['c', r.randint(1, 3)], st]]            # may go negative

  def nspec(self):
    r = self.rng
    k = r.below(10)
    if k == 0:
      return None
    if r.chance(0.1):
      return self.sched()
    if k <= 2:
      return ['frac', r.choice([1, 2, 3, 4]), 2]
    return r.choice([0, 1, 1, 2, 2, 3, 4, self.npop, self.npop + 2])

  def selector(self, fit):
    r = self.rng
    names = ['selRandom', 'selRandom', 'selSample', 'selFirst', 'selLast', 'selProportional']
    if fit or self.sloppy:
      names += ['selTop', 'selTop', 'selBottom', 'selTopCluster', 'selBottomCluster']
    n = r.choice(names)
    if n == 'selRandom':
      return ['prim', n, self.nspec(), r.chance(0.35)]
    if n == 'selProportional':
      return ['prim', n, self.nspec(), gen_weights(r)]
    return ['prim', n, self.nspec()]

  def two_parents(self, fit):
    r = self.rng
    k = r.below(4)
    if k == 0:
      return ['prim', 'selFirst', 2]
    if k == 1:
      return ['prim', 'selRandom', 2, False]
    if k == 2 and fit:
      return ['prim', 'selTop', 2]
    return ['prim', 'selLast', 2]

  def generator(self, fit):
    """An operation that creates new DNA."""
    r = self.rng
    k = r.weighted([(5, 'mutUniform'), (3, 'mutSwap'), (3, 'recUniform'), (2, 'recSample'),
                    (3, 'recKPoint'), (2, 'recSegmented'), (2, 'recOrder'), (2, 'recPartiallyMapped'),
                    (2, 'recCycle'), (3, 'recAverage'), (2, 'recWeightedAverage')])
    if k in ('recOrder', 'recPartiallyMapped', 'recCycle'):
      e = ['prim', k] + ([r.choice([0, 1, 2, 2, 3, 9])] if r.chance(0.3) else [])     # where.Any(k)
      return e if self.sloppy and r.chance(0.3) else ['seq', self.two_parents(fit), e]
    if k == 'recKPoint':
      e = ['prim', k, ['sched', ['add', ['mod', ['step'], ['c', 3]], ['c', 1]]] if r.chance(0.2) else r.randint(1, 3)]
      return e if self.sloppy and r.chance(0.3) else ['seq', self.two_parents(fit), e]
    if k == 'recSegmented':
      cuts = sorted(r.sample(list(range(0, 6)), r.randint(0, 3)))
      if r.chance(0.15):
        cuts = r.shuffle(cuts + [r.below(7)])
      return ['seq', self.two_parents(fit), ['prim', k, cuts]]
    if k in ('mutUniform', 'mutSwap') and r.chance(0.35):
      return ['prim', k, gen_where(r, k)]
    return ['prim', k]

  def expr(self, depth, fit=True):
    """returns (expr, fit_out)"""
    r = self.rng
    if depth <= 0:
      if r.chance(0.5):
        return self.selector(fit), fit
      if r.chance(0.1):
        return ['identity'], fit
      return self.generator(fit), False
    k = r.weighted([(8, 'seq'), (2, 'concat'), (2, 'union'), (2, 'inter'), (2, 'diff'), (1, 'symdiff'),
                    (1, 'inv'), (2, 'slice'), (2, 'repeat'), (2, 'power'), (2, 'choice'), (2, 'cond'),
                    (1, 'until'), (3, 'leaf')] + ([(5, 'oo')] if self.oo else []))
    if k == 'leaf':
      return self.expr(0, fit)
    if k == 'oo':
      n = r.choice(['selTopCluster', 'selBottomCluster', 'nsga2SortPipeline',
                    'lambdaDrop1', 'lambdaReverse', 'forEachFlatten'])
      if n in ('selTopCluster', 'selBottomCluster'):
        if not fit:
          return ['prim', 'selFirst', 2], fit
        return ['prim', n, self.nspec()], fit
      if n.startswith('nsga2') and not fit:
        return ['prim', 'lambdaReverse'], fit
      return ['prim', n], fit
    if k == 'seq':
      a, fa = self.expr(depth - 1, fit)
      b, fb = self.expr(depth - 1, fa)
      return ['seq', a, b], fb
    if k in ('concat', 'union', 'symdiff'):
      a, fa = self.expr(depth - 1, fit)
      b, fb = self.expr(depth - 1, fit)
      return [k, a, b], fa and fb
    if k in ('inter', 'diff'):
      a, fa = self.expr(depth - 1, fit)
      b, _ = self.expr(depth - 1, fit)
      return [k, a, b], fa
    if k == 'inv':
      a, _ = self.expr(depth - 1, fit)
      return ['inv', a], fit
    if k == 'slice':
      a, fa = self.expr(depth - 1, fit)
      if r.chance(0.3):
        s = ['index', self.sched(nonneg=False) if r.chance(0.25) else r.choice([0, 0, 1, -1, -2, 2, 5])]
      else:
        s = ['range', r.choice([None, 0, 1, 2]), r.choice([None, None, 1, 2, 3, 9]), r.choice([1, 1, 1, 2, 3])]
      return ['slice', a, s], fa
    if k in ('repeat', 'power'):
      a, fa = self.expr(depth - 1, fit)
      n = r.choice([0, 1, 2, 2, 3])
      if k == 'power' and not fa:
        # the body must accept its own output: avoid reward-hungry selectors inside
        a, fa = self.expr_nofit(depth - 1)
      if r.chance(0.25):
        return [k, a, self.sched(nonneg=False)], (fa if k == 'repeat' else fa and fit)
      return [k, a, n], (fa if n > 0 or k == 'repeat' else fit)
    if k == 'choice':
      items = []
      f = fit
      for _ in range(r.randint(1, 3)):
        a, fa = (self.expr(depth - 1, f) if f else self.expr_nofit(depth - 1))
        f = f and fa
        items.append([a, self.sched01() if r.chance(0.15) else norm_q([r.choice([0, 2, 4, 4, 6, 8]), 3])])
      return ['choice', items, r.choice([None, None, 1, 2])], f
    if k == 'cond':
      t, ft = self.expr(depth - 1, fit)
      f_, ff = (self.expr(depth - 1, fit) if r.chance(0.5) else (['identity'], fit))
      pred = r.choice([['lenGt', r.choice([0, 1, 2, 3, 5])], ['lenGt', 2], ['always'], ['never']])
      return ['cond', pred, t, f_], ft and ff
    if k == 'until':
      a, fa = self.expr(depth - 1, fit)
      return ['until', a, r.randint(1, 3)], fa
    raise AssertionError(k)

  def expr_nofit(self, depth):
    save = self.sloppy
    e, f = self.expr(depth, False)
    self.sloppy = save
    return e, f


def expr_prims(e, acc=None):
  acc = [] if acc is None else acc
  if e[0] == 'prim':
    acc.append(e[1])
  elif e[0] == 'choice':
    for it in e[1]:
      expr_prims(it[0], acc)
  else:
    for x in e[1:]:
      if isinstance(x, list) and x and isinstance(x[0], str) and x[0] in EXPR_HEADS:
        expr_prims(x, acc)
  return acc


def has_inexact_weights(e):
  """Proportional computes `int(n * w / sum + 0.5)` in floating point; the model computes it exactly.
  With weights such as 0.7 an exact tie (x.5) is missed by the float computation, so expressions with
  weights that are not small dyadic numbers have no model part (the count law is still checked)."""
  if e[0] == 'prim':
    return e[1] == 'selProportional' and any(q[1] > 8 for q in e[3])
  return any(has_inexact_weights(x) for x in sub_exprs(e))


def all_prims(case):
  """primitive names of a case (ordinary expression, or the operations inside the stages of a nested case)."""
  if 'stages' in case:
    acc = []
    for st in case['stages']:
      if st[0] in ('flat', 'forEach'):
        expr_prims(st[1], acc)
    return acc
  return expr_prims(case['expr'])


EXPR_HEADS = {'prim', 'identity', 'seq', 'concat', 'union', 'inter', 'diff', 'symdiff', 'inv', 'slice',
              'repeat', 'power', 'choice', 'cond', 'until'}


def expr_heads(e, acc=None):
  acc = [] if acc is None else acc
  acc.append(e[0])
  if e[0] == 'choice':
    for it in e[1]:
      expr_heads(it[0], acc)
  else:
    for x in e[1:]:
      if isinstance(x, list) and x and isinstance(x[0], str) and x[0] in EXPR_HEADS:
        expr_heads(x, acc)
  return acc


def expr_depth(e):
  if e[0] in ('prim', 'identity'):
    return 0
  subs = [it[0] for it in e[1]] if e[0] == 'choice' else [
      x for x in e[1:] if isinstance(x, list) and x and isinstance(x[0], str) and x[0] in EXPR_HEADS]
  return 1 + max([expr_depth(s) for s in subs] or [0])


def sub_exprs(e):
  if e[0] == 'choice':
    return [it[0] for it in e[1]]
  return [x for x in e[1:] if isinstance(x, list) and x and isinstance(x[0], str) and x[0] in EXPR_HEADS]


# ------------------------------------------------------------------------------------------
# Recording PRNG
# ------------------------------------------------------------------------------------------

class RecRandom(_pyrandom.Random):
  """random.Random with the same bit stream that logs every public call made on it.
  Sequence arguments are replaced by index ranges of the same length (the algorithms of
  choice / sample / choices / shuffle only depend on the length), results are logged as indices."""

  def __init__(self, seed, log):
    super().__init__(seed)
    self._log = log
    self._busy = 0

  def choice(self, seq):
    n = len(seq)
    self._busy += 1
    try:
      i = super().choice(range(n))
    finally:
      self._busy -= 1
    self._log.append(['idx', 'choice', n, i])
    return seq[i]

  def randint(self, a, b):
    self._busy += 1
    try:
      r = super().randint(a, b)
    finally:
      self._busy -= 1
    self._log.append(['idx', 'randint', b - a + 1, r - a])
    return r

  def sample(self, population, k, **kw):
    n = len(population)
    self._busy += 1
    try:
      idx = super().sample(range(n), k, **kw)
    finally:
      self._busy -= 1
    self._log.append(['idxs', 'sample', n, k, list(idx)])
    return [population[i] for i in idx]

  def choices(self, population, weights=None, *, cum_weights=None, k=1):
    n = len(population)
    self._busy += 1
    try:
      idx = super().choices(range(n), weights, cum_weights=cum_weights, k=k)
    finally:
      self._busy -= 1
    self._log.append(['idxs', 'choices', n, k, list(idx)])
    return [population[i] for i in idx]

  def shuffle(self, x):
    perm = list(range(len(x)))
    self._busy += 1
    try:
      super().shuffle(perm)
    finally:
      self._busy -= 1
    self._log.append(['idxs', 'shuffle', len(x), len(x), perm])
    x[:] = [x[i] for i in perm]

  def random(self):
    r = super().random()
    if not self._busy:
      self._log.append(['real', 'random', ratio(r)])
    return r

  def uniform(self, a, b):
    self._busy += 1
    try:
      r = super().uniform(a, b)
    finally:
      self._busy -= 1
    self._log.append(['real', 'uniform', ratio(r)])
    return r


# ------------------------------------------------------------------------------------------
# The property
# ------------------------------------------------------------------------------------------

ERR_NAMES = {'IndexError', 'KeyError', 'ValueError', 'RuntimeError', 'TypeError'}


class C14(Prop):
  id = 'C14'
  props_modules = ['PgProps.C14']
  driver = 'drv_c14'
  translators = []
  case_timeout_s = 20
  jobs_quick = 4
  jobs_thorough = 6
  rule = ('specs generated from a grammar (1-4 root points; float / single choice / multi-choice with '
          'distinct x sorted flags, permutation points, conditional sub-spaces to depth 2), populations of '
          '0-7 valid DNAs with rewards (ties included), operator expressions from the combinator grammar '
          'to depth 4 (mostly well-typed: reward-hungry selectors only where rewards survive, segment-wise '
          'recombinators fed two parents; ~12 % sloppy expressions for the error paths; ~15 % expressions '
          'with oracle-only primitives, which have no model part); a stream of constrained multi-choices with 4-7 '
          'conflicting parents (retry / last-resort paths of _merge_multi_choice, measured per run); Proportional '
          'with tiny / zero / equal weights and fractional n; a driver-level stream (Evolution, regularized_evolution, '
          'hill_climb, nsga2 for 8-14 propose/feedback rounds with pass-through, scheduled (`with_prob(schedule)`, '
          '`mutator * schedule`) and sometimes empty reproduction stages: no evaluated DNA object may change or be '
          'proposed again; all but nsga2 also compared round by round - DNA, proposal id, generation, initial flag, '
          'counters, error - with the Lean driver model fed the recorded draws of the init generator and every stage); '
          'seed=None (documented: the global `random` module) for ~6 % of the expressions and ~10 % of the algorithms: '
          'no model part, two runs after the same `random.seed` must agree; '
          'seed 0 is a first-class seed: about a third of the seeded objects of an expression and a quarter of the '
          'driver-level algorithms are constructed with seed=0, and every case is run twice under different global '
          '`random` states; permutation points of size 4-7 for Order / PartiallyMapped / '
          'Cycle; `where` filters of a closed family on Uniform / Swap; step-driven scalars (STEP, + - * // %) in '
          'the integer parameters, in `with_prob` and `KPoint.k`, incl. scalars.StepWise; `where.Any(k)`, k in 0-9, for '
          'the permutation recombinators; each case run at a step 0-9, schedule cases also after a warm-up at the '
          'earlier steps; nested populations (grouping lambda, `.for_each(op)`, `.for_each(lambda)`, `.flatten(max_level)`); '
          'populations with several individuals sharing a DNA value. Non-trivial: the expression returns '
          'normally, the population is non-empty and at least one primitive of the expression made a PRNG '
          'draw or produced a new DNA; distinct: by (spec, population, expression, seed).')
  trusted_base = [
      'random.Random: that choice/sample/choices/shuffle/randint/uniform return what their documentation '
      'says for any bit stream (the model takes the recorded results; kind, size, range and distinctness of '
      'every recorded draw are re-checked by the model)',
      'harness RecRandom wrapper (index-level logging with unchanged bit stream) and the hook around '
      'Operation.__call__ that snapshots inputs/outputs of every primitive call',
      'modelled, not verified: every primitive and combinator is a hand-written Lean function tied by '
      'correspondence; `where` filters other than ALL, user Lambda operations, global state, step-dependent '
      'scalars and custom decision points are outside the model; the driver-level model covers '
      'population_init=(pg.geno.Random(seed), n) with alternating propose/feedback (no parallel proposals, '
      'no recover(), no StopIteration from the initializer)',
      'oracle_only (run on the real code under the property oracle, not in the Lean model): '
      + ', '.join(ORACLE_ONLY),
  ]
  assumptions = ['set(DNA) iteration order is irrelevant for point-wise recombination with where=ALL '
                 '(all parent dicts coincide, one child)',
                 'list(set(range(n)) - used) enumerates the free candidates in increasing order (small ints)',
                 'the iteration order of set(DNA) in the permutation recombinators is taken from the recorded run '
                 '(the model checks that it is a rearrangement of its own deduplicated children)']

  def __init__(self):
    self._memo = {}
    self._specs = {}

  # -- generation -----------------------------------------------------------------------
  def generate(self, rng, tier):
    n = 420 if tier == "quick" else 6000
    for i in range(n):
      yield self.gen_case(rng)
    # nested populations: grouping, `.for_each(op)`, `.flatten(max_level)`
    for i in range(60 if tier == 'quick' else 600):
      yield self.gen_nested_case(rng.fork())
    # the driver level: Evolution and the shipped algorithms with pass-through reproduction stages
    for i in range(40 if tier == 'quick' else 400):
      yield self.gen_evolve_case(rng.fork())
    # permutation points of size 4-7 (pg.permutate): long re-mapping chains of PMX, several cycles of CX
    for i in range(75 if tier == 'quick' else 750):
      r = rng.fork()
      size = r.randint(4, 7)
      if r.chance(0.5):
        cands = [_C0] * size
      else:
        # candidates that carry decision points of their own (pg.permutate([pg.oneof([..]), 'x', pg.floatv(..), 'y']))
        size = min(size, 5)
        cands = [r.choice([_C0, _C0, ['space', [['choices', 1, [_C0, _C0, _C0], True, False]]],
                           ['space', [['float', [0, 0], [1, 0]]]],
                           ['space', [['choices', 2, [_C0, _C0, _C0], r.chance(0.5), False]]],
                           ['space', [['choices', 1, [_C0, ['space', [['float', [0, 0], [2, 0]]]]], True, False],
                                      ['float', [-1, 0], [1, 0]]]]]) for _ in range(size)]
      perm = ['choices', size, cands, True, False]
      spec = ['space', [perm] + ([gen_point(r, 0)] if r.chance(0.3) else []) + ([perm] if r.chance(0.2) else [])]
      pop = [{'nums': gen_dna(r, spec), 'fit': r.randint(-3, 6)} for _ in range(2)]
      prim = ['prim', r.choice(['recPartiallyMapped', 'recPartiallyMapped', 'recCycle', 'recOrder'])]
      if r.chance(0.25):
        prim = prim + [r.choice([0, 2, 3])]
      e = r.choice([prim, prim, ['repeat', prim, 2], ['seq', prim, ['seq', ['prim', 'selFirst', 2], prim]]])
      yield {'spec': spec, 'pop': pop, 'expr': e, 'seed': r.below(1 << 30), 'step': 0}
    # constrained multi-choices with many conflicting parents: the retry and last-resort paths of
    # `_merge_multi_choice` (about one case in eight exhausts the 8 attempts)
    for i in range(90 if tier == 'quick' else 900):
      r = rng.fork()
      ncand = r.randint(4, 6)
      k = r.randint(3, min(4, ncand))
      distinct, srt = r.choice([(True, True), (True, True), (True, False), (False, True)])
      multi = ['choices', k, [_C0] * ncand, distinct, srt]
      spec = ['space', [multi] + ([gen_point(r, 0)] if r.chance(0.3) else [])]
      if r.chance(0.25):
        spec = ['space', [['choices', 1, [['space', [multi]], _C0], True, False]]]
      pop = [{'nums': gen_dna(r, spec), 'fit': r.randint(-3, 6)} for _ in range(r.randint(4, 7))]
      e = r.choice([['prim', 'recUniform'], ['prim', 'recSample'],
                    ['repeat', ['prim', 'recUniform'], 2], ['seq', ['prim', 'recSample'], ['prim', 'mutUniform']]])
      yield {'spec': spec, 'pop': pop, 'expr': e, 'seed': r.below(1 << 30)}
    # every modelled primitive alone on a small fixed family
    for spec in FIXED_SPECS:
      for prim in FIXED_PRIMS:
        r = rng.fork()
        pop = [{'nums': gen_dna(r, spec), 'fit': r.randint(-3, 6)} for _ in range(r.choice([2, 2, 3, 4]))]
        if prim[1] in ('recKPoint', 'recSegmented', 'recOrder', 'recPartiallyMapped', 'recCycle'):
          pop = pop[:2]
        yield {'spec': spec, 'pop': pop, 'expr': prim, 'seed': r.below(1 << 30)}

  def gen_nested_case(self, r):
    spec = gen_root(r, r.weighted([(3, 0), (4, 1)]))
    pop = [{'nums': gen_dna(r, spec), 'fit': r.randint(-3, 6)} for _ in range(r.randint(0, 7))]
    inner = lambda: r.choice([['prim', 'recKPoint', r.randint(1, 2)], ['prim', 'recUniform'], ['prim', 'recSample'],
                              ['prim', 'mutUniform'], ['prim', 'mutSwap'], ['prim', 'selTop', 1],
                              ['prim', 'selRandom', 1, False], ['prim', 'recOrder'], ['identity'],
                              ['seq', ['prim', 'selFirst', 2], ['prim', 'recKPoint', 1]],
                              ['repeat', ['prim', 'mutUniform'], 2]])
    flat = lambda: r.choice([['prim', 'selRandom', r.randint(2, 5), r.chance(0.3)], ['prim', 'selLast', r.randint(1, 4)],
                             ['prim', 'mutUniform'], ['identity'], ['prim', 'selTop', r.randint(1, 4)]])
    m = lambda: r.choice([None, None, 1, 2, 3])
    k = r.weighted([(4, 'group'), (2, 'wrap'), (2, 'roundtrip'), (2, 'deep'), (1, 'bad')])
    if k == 'group':
      stages = [['flat', flat()], ['chunk', r.randint(1, 3)], ['forEach', inner()], ['flatten', m()]]
      if r.chance(0.4):
        stages.append(['flat', flat()])
    elif k == 'wrap':
      stages = [['flat', flat()], ['forEachWrap'], ['flatten', m()]]
      if r.chance(0.5):
        stages.append(['flatten', m()])
    elif k == 'roundtrip':
      stages = [['chunk', r.randint(1, 4)], ['flatten', m()], ['flat', flat()]]
    elif k == 'deep':
      stages = [['chunk', r.randint(1, 3)], ['forEachWrap'], ['flatten', r.choice([1, 2])], ['flatten', m()]]
    else:
      stages = [['chunk', 2], ['flat', flat()]]           # an ordinary operation handed a nested population
    return {'kind': 'nested', 'spec': spec, 'pop': pop, 'stages': stages, 'expr': ['identity'],
            'seed': r.below(1 << 30), 'step': r.below(10)}

  def gen_evolve_case(self, r):
    spec = gen_root(r, r.weighted([(3, 0), (3, 1)]))

    def stage():
      k = r.weighted([(3, 'mut'), (2, 'swap'), (2, 'identity'), (3, 'prob0'), (2, 'never'), (2, 'prob-half'),
                      (1, 'if-len'), (2, 'prob-sched'), (1, 'repeat-sched'), (1, 'empty'), (2, 'twice')])
      mut = ['prim', 'mutUniform']
      if k == 'prob-sched':
        # the probability is a schedule of the step the driver passes (num_proposals)
        return ['choice', [[mut, ExprGen(r, 0).sched01()]], None]
      if k == 'repeat-sched':
        # `mutator * schedule`: no child at all on some steps ('There is no child reproduced')
        return ['repeat', mut, ['sched', ['mod', ['step'], ['c', r.randint(3, 5)]]]]
      if k == 'twice':
        # the pipeline returns each new child twice (`op >> (Identity() + Identity())`): F390
        return ['seq', mut, ['concat', ['identity'], ['identity']]]
      if k == 'empty':
        return ['cond', ['lenGt', r.randint(0, 2)], ['prim', 'selFirst', 0], mut]
      if k == 'mut':
        return mut
      if k == 'swap':
        return ['prim', 'mutSwap']
      if k == 'identity':
        return ['identity']
      if k == 'prob0':
        return ['choice', [[mut, [0, 0]]], None]                 # Uniform().with_prob(0.0)
      if k == 'prob-half':
        return ['choice', [[mut, [1, 1]]], None]
      if k == 'never':
        return ['cond', ['never'], mut, ['identity']]            # Uniform().if_true(lambda x: False)
      return ['cond', ['lenGt', r.choice([0, 1, 3])], mut, ['identity']]
    kind = r.weighted([(3, 'evolution'), (3, 'regularized'), (2, 'hill_climb'), (4, 'nsga2')])
    if kind == 'evolution':
      n0 = r.randint(2, 4)
      sel = r.choice([['prim', 'selRandom', 2, False], ['prim', 'selTop', 1], ['prim', 'selLast', 2],
                      ['seq', ['prim', 'selRandom', 3, False], ['prim', 'selTop', 1]]])
      rep = ['seq', sel, stage()]
      if r.chance(0.3):
        rep = ['seq', ['seq', ['prim', 'selTop', 2], ['prim', 'recUniform']], stage()]
      elif r.chance(0.15):
        # a reproduction that hands back the population list itself (F421)
        rep = r.choice([['identity'], ['choice', [[['prim', 'mutUniform'], [0, 0]]], None],
                        ['cond', ['never'], ['prim', 'mutUniform'], ['identity']]])
      upd = r.choice([None, ['prim', 'selLast', n0 + 1], ['prim', 'selTop', n0]])
      algo = ['evolution', rep, n0, upd]
    elif kind == 'regularized':
      p = r.randint(2, 4)
      algo = ['regularized', stage(), p, r.randint(2, p)]
    elif kind == 'hill_climb':
      algo = ['hill_climb', stage(), r.randint(1, 2), r.randint(1, 2)]
    else:
      algo = ['nsga2', stage(), r.randint(2, 3)]
    case = {'kind': 'evolve', 'spec': spec, 'algo': algo, 'rounds': r.randint(8, 14),
            'rewards': [r.randint(-3, 6) for _ in range(7)], 'seed': r.below(1 << 30),
            'pop': [], 'expr': ['identity']}
    if r.chance(0.1):
      case['noseed'] = True
    return case

  def gen_case(self, rng):
    r = rng.fork()
    spec = gen_root(r, r.weighted([(3, 0), (5, 1), (3, 2)]))
    npop = r.weighted([(1, 0), (1, 1), (3, 2), (4, 3), (4, 4), (3, 5), (2, 7)])
    pop = []
    for _ in range(npop):
      pop.append({'nums': gen_dna(r, spec), 'fit': r.randint(-3, 6)})
    if pop and r.chance(0.3):
      # the same point evaluated twice: equal DNA values in two different objects, other rewards
      for _ in range(r.randint(1, 2)):
        src = pop[r.below(len(pop))]
        pop.insert(r.below(len(pop) + 1), {'nums': list(src['nums']), 'fit': r.randint(-3, 6)})
    if len(pop) >= 2 and r.chance(0.25):
      # a leading (or trailing) cluster with several members: the best / worst reward is shared
      fits = [ind['fit'] for ind in pop]
      m = max(fits) if r.chance(0.6) else min(fits)
      for _ in range(r.randint(1, 2)):
        pop[r.below(len(pop))]['fit'] = m
    mode = r.weighted([(73, 'typed'), (12, 'sloppy'), (15, 'oracle_only')])
    g = ExprGen(r, len(pop), sloppy=(mode == 'sloppy'), oracle_only=(mode == 'oracle_only'))
    e, _ = g.expr(r.weighted([(1, 0), (3, 1), (5, 2), (5, 3), (4, 4)]))
    if mode == 'sloppy' and r.chance(0.3) and pop:
      pop[r.below(len(pop))]['fit'] = None
    case = {'spec': spec, 'pop': pop, 'expr': e, 'seed': r.below(1 << 30), 'step': r.below(10)}
    if r.chance(0.06):
      case['noseed'] = True      # every seed is None: the operators share the global `random` module
    return case

  # -- real objects ------------------------------------------------------------------------
  def cached_spec(self, s):
    key = json.dumps(s)
    if key not in self._specs:
      if len(self._specs) > 64:
        self._specs.clear()
      self._specs[key] = self.build_spec(s)
    return self._specs[key]

  def build_spec(self, s, loc=''):
    import pyglove as pg
    g = pg.geno
    if s[0] == 'space':
      return g.space([self.build_spec(e, 'e%d' % j) for j, e in enumerate(s[1])])
    if s[0] == 'float':
      return g.floatv(unratio(s[1]), unratio(s[2]), location=loc)
    _, k, cands, distinct, srt = s
    return g.manyof(k, [self.build_spec(c) for c in cands], distinct=distinct, sorted=srt, location=loc)

  def build_dna(self, spec, ind):
    import pyglove as pg
    from pyglove.ext.evolution import base
    nums = [unratio(x) if isinstance(x, list) else x for x in ind['nums']]
    d = pg.DNA.from_numbers(nums, spec)
    if ind.get('fit') is not None:
      base.set_fitness(d, ind['fit'] / 4.0)
    return d

  def build_expr(self, e, ctx):
    """ctx: {'seed': int counter base, 'log': [...], 'n': counter}"""
    import pyglove as pg
    from pyglove.ext.evolution import base, mutators, selectors, recombinators
    h = e[0]

    def seed():
      # 0 is a seed like any other: about a third of the seeded objects of an expression get it
      ctx['n'] += 1
      if ctx.get('noseed'):
        return None       # seed=None: the operator is documented to draw from the global `random` module
      if (ctx['seed'] // 7 + ctx['n']) % 3 == 0:
        ctx['zero'] = ctx.get('zero', 0) + 1
        return 0
      return (ctx['seed'] * 1000003 + ctx['n'] * 7919) % (1 << 31)

    def nval(n):
      if isinstance(n, list) and n[0] == 'sched':
        return make_sched(n[1], top=True)
      if isinstance(n, list):
        return n[1] / float(1 << n[2])
      return n

    def weights(xs):
      return [1.0 + (i % 3) for i in range(len(xs))]

    if h == 'prim':
      name = e[1]
      if name == 'mutUniform':
        return mutators.Uniform(where=make_where(e[2]) if len(e) > 2 else None, seed=seed())
      if name == 'mutSwap':
        return mutators.Swap(where=make_where(e[2]) if len(e) > 2 else None, seed=seed())
      if name == 'selRandom':
        return selectors.Random(nval(e[2]), replacement=e[3], seed=seed())
      if name == 'selSample':
        return selectors.Sample(nval(e[2]), weights=weights, seed=seed())
      if name == 'selTop':
        return selectors.Top(nval(e[2]))
      if name == 'selBottom':
        return selectors.Bottom(nval(e[2]))
      if name == 'selFirst':
        return selectors.First(nval(e[2]))
      if name == 'selLast':
        return selectors.Last(nval(e[2]))
      if name == 'recUniform':
        return recombinators.Uniform(seed=seed())
      if name == 'recSample':
        return recombinators.Sample(weights=weights, seed=seed())
      if name == 'recKPoint':
        return recombinators.KPoint(nval(e[2]), seed=seed())
      if name == 'recSegmented':
        cuts = list(e[2])
        return recombinators.Segmented(lambda dps: list(cuts))
      if name == 'recAverage':
        return recombinators.Average()
      if name == 'recWeightedAverage':
        return recombinators.WeightedAverage(weights=weights)
      # ---- oracle-only primitives (recOrder is modelled) ----
      if name in ('recPartiallyMapped', 'recOrder', 'recCycle'):
        cls = {'recPartiallyMapped': recombinators.PartiallyMapped, 'recOrder': recombinators.Order,
               'recCycle': recombinators.Cycle}[name]
        from pyglove.ext.evolution import where
        return cls(where=where.Any(k=e[2]) if len(e) > 2 else where.Any(), seed=seed())
      if name == 'selProportional':
        ws = [unratio(q) for q in e[3]]
        return selectors.Proportional(nval(e[2]), weights=lambda xs: [ws[i % len(ws)] for i in range(len(xs))])
      if name == 'selTopCluster':
        return selectors.Top(nval(e[2]), cluster=True)
      if name == 'selBottomCluster':
        return selectors.Bottom(nval(e[2]), cluster=True)
      if name == 'nsga2SortPipeline':
        import importlib
        m = importlib.import_module('pyglove.ext.evolution.nsga2')
        # the sorting stage of nsga2.nsga2(): non-dominated sort, crowding-distance sort per frontier
        return (base.Lambda(_with_tuple_fitness)
                >> base.Lambda(m.nondominated_sort()).for_each(m.crowding_distance_sort()).flatten())
      if name == 'lambdaDrop1':
        return base.Lambda(lambda xs: xs[1:])
      if name == 'lambdaReverse':
        return base.Lambda(lambda xs: list(reversed(xs)))
      if name == 'forEachFlatten':
        return base.Identity().for_each(lambda x: [x, [x]]).flatten()
      raise ValueError('unknown primitive %r' % name)
    if h == 'identity':
      return base.Identity()
    if h == 'seq':
      return self.build_expr(e[1], ctx) >> self.build_expr(e[2], ctx)
    if h == 'concat':
      return self.build_expr(e[1], ctx) + self.build_expr(e[2], ctx)
    if h == 'union':
      return self.build_expr(e[1], ctx) | self.build_expr(e[2], ctx)
    if h == 'inter':
      return self.build_expr(e[1], ctx) & self.build_expr(e[2], ctx)
    if h == 'diff':
      return self.build_expr(e[1], ctx) - self.build_expr(e[2], ctx)
    if h == 'symdiff':
      return self.build_expr(e[1], ctx) ^ self.build_expr(e[2], ctx)
    if h == 'inv':
      return ~self.build_expr(e[1], ctx)
    if h == 'slice':
      s = e[2]
      a = self.build_expr(e[1], ctx)
      if s[0] == 'index':
        return a[nval(s[1])]
      return a[slice(s[1], s[2], s[3])]
    if h == 'repeat':
      return self.build_expr(e[1], ctx) * nval(e[2])
    if h == 'power':
      return self.build_expr(e[1], ctx) ** nval(e[2])
    if h == 'choice':
      items = [(self.build_expr(it[0], ctx),
                make_sched(it[1][1], top=True) if it[1][0] == 'sched' else unratio(it[1])) for it in e[1]]
      if len(items) == 1 and e[2] is None:
        return items[0][0].with_prob(items[0][1], seed=seed())
      return base.Choice(items, limit=e[2], seed=seed())
    if h == 'cond':
      p = e[1]
      if p[0] == 'lenGt':
        k = p[1]
        pred = lambda xs: len(xs) > k
      elif p[0] == 'always':
        pred = lambda xs: True
      else:
        pred = lambda xs: False
      t = self.build_expr(e[2], ctx)
      if e[3] == ['identity']:
        return t.if_true(pred)
      return base.Conditional(pred, t, self.build_expr(e[3], ctx))
    if h == 'until':
      return self.build_expr(e[1], ctx).until_change(e[2])
    raise ValueError('unknown expression head %r' % h)

  def build_case_op(self, case, ctx):
    """The operation of a case: its expression, or (nested cases) the stages chained with the fluent API:
    `>>`, `Lambda`, `.for_each(op)`, `.flatten(max_level)`."""
    if 'stages' not in case:
      return self.build_expr(case['expr'], ctx)
    from pyglove.ext.evolution import base
    op = base.Identity()
    for st in case['stages']:
      h = st[0]
      if h == 'flat':
        op = op >> self.build_expr(st[1], ctx)
      elif h == 'chunk':
        k = st[1]
        op = op >> base.Lambda(lambda xs, k=k: [xs[i:i + k] for i in range(0, len(xs), k)])
      elif h == 'forEach':
        op = op.for_each(self.build_expr(st[1], ctx))
      elif h == 'forEachWrap':
        op = op.for_each(lambda x: [x, [x]])
      elif h == 'flatten':
        op = op.flatten(st[1])
      else:
        raise ValueError('unknown stage %r' % (st,))
    return op

  def install_recorders(self, op, log, allow_none=False):
    """Replaces the `random.Random(seed)` of every operation reachable from `op` (symbolic fields and
    the private `_invert_op` of Inversion, which holds a *copy* of the operand) by a RecRandom with
    the same seed."""
    import pyglove as pg
    from pyglove.ext.evolution import base
    seen = set()
    unseeded = []

    def walk(o):
      if isinstance(o, (list, tuple)):
        for x in o:
          walk(x)
        return
      if not isinstance(o, pg.Object) or id(o) in seen:
        return
      seen.add(id(o))
      if getattr(o, '_random', None) is not None and o.sym_hasattr('seed'):
        sd = o.sym_getattr('seed')
        if sd is None and allow_none:
          pass             # seed=None: draws from the global module, nothing to record
        elif sd is None:
          raise ValueError('unseeded operator %r' % o)
        elif o._random is _pyrandom:         # pylint: disable=protected-access
          # a seed was given but the object draws from the global `random` module (F90): left as
          # it is, so that the determinism check (two runs, different global seeds) can see it
          unseeded.append(type(o).__name__)
        else:
          o._random = RecRandom(sd, log)   # pylint: disable=protected-access
      if isinstance(o, base.Inversion):
        walk(o._invert_op)                 # pylint: disable=protected-access
        return
      for _, v in o.sym_items():
        walk(v)
    walk(op)
    return unseeded

  # -- observation of real DNA ---------------------------------------------------------------
  @staticmethod
  def flat(dna):
    nums, bel = [], []

    def walk(n):
      v = n.value
      if v is not None:
        if isinstance(v, float):
          nums.append(ratio(v))
          bel.append(0)
        else:
          nums.append(int(v))
          sp = n.spec
          b = 0
          if sp is not None and sp.is_categorical and sp.is_subchoice:
            b = sp.subchoice_index
          bel.append(b)
      for c in n.children:
        walk(c)
    walk(dna)
    return nums, bel

  def run_once(self, case, hook, gseed=1, warmup=False):
    """Builds fresh objects and runs the expression once. Returns a dict of observations."""
    import pyglove as pg
    from pyglove.ext.evolution import base
    spec = self.cached_spec(case['spec'])
    pop = [self.build_dna(spec, ind) for ind in case['pop']]
    log = []
    ctx = {'seed': case.get('seed', 0), 'log': log, 'n': 0, 'noseed': bool(case.get('noseed'))}
    op = self.build_case_op(case, ctx)
    unseeded = self.install_recorders(op, log, allow_none=ctx['noseed'])
    _pyrandom.seed(1000003 * gseed + 17)      # a seeded operator must not depend on this
    before = [pg.to_json_str(d) for d in pop]
    ids = {id(d): i for i, d in enumerate(pop)}
    pop_arg = list(pop)
    calls = []
    combos = []
    out, err = None, None
    orig_call = base.Operation.__call__

    def snap_after(rec, inputs):
      rec['in_after'] = list(inputs)
      rec['json_after'] = [pg.to_json_str(d) if isinstance(d, pg.DNA) else None for d in inputs]
      rec['parent_after'] = [getattr(d, 'sym_parent', None) for d in inputs]

    def note_set_order(self_op, inputs, res):
      # `list(set(outputs))` of the permutation recombinators: the iteration order of the set is
      # part of the oracle stream (the model checks that it is a rearrangement of its own children)
      from pyglove.ext.evolution import recombinators
      if isinstance(self_op, (recombinators.Permutation, recombinators.Numeric)) and isinstance(res, list) \
          and res is not inputs \
          and len(res) > 1:
        items = []
        for d in res:
          nums, bel = self.flat(d)
          items.append({'nums': nums, 'beliefs': bel})
        log.append(['order', items])

    stack = []

    def spy(self_op, inputs, *a, **k):
      cls = type(self_op).__name__
      mod = type(self_op).__module__.rsplit('.', 1)[-1]
      prim = mod in ('mutators', 'selectors', 'recombinators', 'nsga2')
      if hook and not prim and isinstance(inputs, list):
        # a combinator: remember what each direct operand returned (for the set-algebra oracle)
        node = {'op': self_op, 'cls': cls, 'in': list(inputs), 'kids': []}
        if stack:
          stack[-1]['kids'].append(node)
        stack.append(node)
        try:
          res = orig_call(self_op, inputs, *a, **k)
          node['out'] = list(res) if isinstance(res, list) else None
          return res
        finally:
          stack.pop()
          if cls in ('Difference', 'Intersection', 'Union', 'SymmetricDifference', 'Concatenation'):
            combos.append(node)
      if not prim or not isinstance(inputs, list):
        return orig_call(self_op, inputs, *a, **k)
      if not hook:
        res = orig_call(self_op, inputs, *a, **k)
        note_set_order(self_op, inputs, res)
        return res
      rec = {'cls': cls, 'mod': mod, 'op': self_op, 'in': list(inputs), 'kids': [],
             'in_parent': [getattr(d, 'sym_parent', None) for d in inputs],
             'in_json': [pg.to_json_str(d) if isinstance(d, pg.DNA) else None for d in inputs]}
      calls.append(rec)
      if stack:
        stack[-1]['kids'].append(rec)
      try:
        res = orig_call(self_op, inputs, *a, **k)
      except Exception as ex:   # pylint: disable=broad-except
        rec['err'] = type(ex).__name__
        snap_after(rec, inputs)
        raise
      rec['out'] = list(res) if isinstance(res, list) else res
      snap_after(rec, inputs)
      note_set_order(self_op, inputs, res)
      return res

    base.Operation.__call__ = spy
    from pyglove.ext.evolution import recombinators as _rec
    orig_mm = _rec._merge_multi_choice            # pylint: disable=protected-access
    mm_paths = []

    def mm_spy(decision_point, parent_decisions, weights, rand, max_rearrange_attempts=8):
      # which path of `_merge_multi_choice` is taken: every subchoice accepted at once ('direct'),
      # after rejected draws ('retry'), or the last resort after 8 rejected draws ('fallback')
      draws = []

      class Proxy:
        def choices(self, population, weights=None, *, cum_weights=None, k=1):    # pylint: disable=redefined-outer-name
          r = rand.choices(population, weights=weights, cum_weights=cum_weights, k=k)
          draws.append(r[0])
          return r
      res = orig_mm(decision_point, parent_decisions, weights, Proxy(), max_rearrange_attempts)
      index, attempts, results = 0, 0, []
      for d in draws:
        if index == decision_point.num_choices or attempts >= max_rearrange_attempts:
          break
        if ((not decision_point.distinct or d not in results)
            and (not decision_point.sorted or not results or d >= results[-1])):
          results.append(d)
          index += 1
        else:
          attempts += 1
      mm_paths.append('fallback' if attempts >= max_rearrange_attempts else 'retry' if attempts else 'direct')
      return res
    _rec._merge_multi_choice = mm_spy             # pylint: disable=protected-access
    try:
      try:
        if warmup:
          for t in range(case.get('step', 0)):
            try:
              op(list(pop_arg), step=t)
            except Exception:     # pylint: disable=broad-except
              pass
        out = op(pop_arg, step=case.get('step', 0))
      except Exception as ex:     # pylint: disable=broad-except
        err = type(ex).__name__
    finally:
      base.Operation.__call__ = orig_call
      _rec._merge_multi_choice = orig_mm          # pylint: disable=protected-access
    return {'spec': spec, 'pop': pop, 'pop_arg': pop_arg, 'before': before, 'ids': ids, 'log': log,
            'calls': calls, 'out': out, 'err': err, 'unseeded': unseeded, 'mm_paths': mm_paths,
            'zero_seeds': ctx.get('zero', 0),
            'combos': combos}

  def canon_out(self, run):
    if run['err'] is not None:
      e = run['err']
      return {'outcome': 'err', 'err': e if e in ERR_NAMES else 'Other:' + e}
    fresh = {}
    import pyglove as pg

    def canon(d):
      if isinstance(d, list):
        return {'list': [canon(x) for x in d]}
      if not isinstance(d, pg.DNA):
        return {'id': ['other', type(d).__name__]}
      if id(d) in run['ids']:
        ident = ['in', run['ids'][id(d)]]
      else:
        if id(d) not in fresh:
          fresh[id(d)] = len(fresh)
        ident = ['new', fresh[id(d)]]
      nums, bel = self.flat(d)
      fit = d.metadata.get('reward')
      return {'id': ident, 'nums': nums, 'beliefs': bel,
              'fit': None if fit is None else (int(round(fit * 4)) if isinstance(fit, (int, float))
                                                  else repr(fit))}
    items = [canon(d) for d in run['out']]
    return {'outcome': 'ok', 'out': items}

  def is_valid(self, spec, d):
    key = ('v', id(d))
    if key not in self._verdicts:
      self._verdicts[key] = self._is_valid(spec, d)
    return self._verdicts[key]

  def is_aligned(self, spec, d):
    key = ('a', id(d))
    if key not in self._verdicts:
      self._verdicts[key] = self._is_aligned(spec, d)
    return self._verdicts[key]

  def bound_ok(self, spec_json, d):
    try:
      nums, bel = self.flat(d)
      return bel == self.positional_beliefs(spec_json, nums)
    except Exception:     # pylint: disable=broad-except
      return False

  def _is_valid(self, spec, d):
    try:
      spec.validate(d)
      return True
    except Exception:     # pylint: disable=broad-except
      return False

  def _is_aligned(self, spec, d):
    import pyglove as pg
    try:
      rebuilt = pg.DNA.from_numbers(d.to_numbers(), spec)
      return d.to_dict() == rebuilt.to_dict()
    except Exception:     # pylint: disable=broad-except
      return False

  def impl(self, case):
    import pyglove as pg
    from pyglove.ext.evolution import base
    if case.get('kind') == 'evolve':
      return self.impl_evolve(case)
    self._verdicts = {}      # per run; the objects are kept alive by `run`
    run = self.run_once(case, hook=True)
    spec = run['spec']
    model = self.canon_out(run)
    checks = []

    def fail(sig, what):
      checks.append({'signature': sig, 'what': what})

    pop_ok = all(self.is_valid(spec, d) for d in run['pop'])
    # --- per primitive call ---
    tainted = False
    for c in run['calls']:
      ins = c['in']
      if len(c['in_after']) != len(ins) or any(a is not b for a, b in zip(ins, c['in_after'])):
        fail('input-list-modified:' + c['cls'], '%s changed the list object passed in' % c['cls'])
      after = c['json_after']
      if after != c['in_json']:
        fail('input-modified:' + c['cls'], '%s modified a DNA passed in: %s -> %s' % (
            c['cls'], c['in_json'], after))
      if any(a is not p for a, p in zip(c['parent_after'], c['in_parent'])):
        fail('input-adopted:' + c['cls'],
             '%s changed the sym_parent of a DNA passed in (the input object was moved into another '
             'symbolic tree; a later use of the same object behaves differently)' % c['cls'])
      if 'err' in c and c['mod'] in ('mutators', 'recombinators') and all(isinstance(d, pg.DNA) for d in ins):
        # closedness: a shipped operator maps valid parents to children, it does not raise on them
        # (documented preconditions: the number of parents of 2-parent recombinators, user-supplied
        # cutting points that leave a decision point unassigned, a DNA without decision points)
        num_parents = getattr(type(c['op']), 'NUM_PARENTS', None)
        excused = (num_parents is not None and len(ins) != num_parents) or (
            c['cls'] == 'Segmented' and self.bad_cuts(c['op'], case['spec'])) or (
                c['cls'] == 'Uniform' and c['mod'] == 'mutators' and c['err'] == 'RuntimeError'
                and (spec_stats(case['spec'])['points'] == 0 or c['op'].where is not None))
        if not excused and all(self.is_valid(spec, d) and self.is_aligned(spec, d) for d in ins):
          fail('raises-on-valid-parents:%s:%s' % (c['cls'], c['err']),
               '%s raised %s on valid parents %r' % (c['cls'], c['err'], ins))
      if 'out' not in c or not isinstance(c['out'], list):
        continue
      outs = c['out']
      dna_in = all(isinstance(d, pg.DNA) for d in ins)
      if c['mod'] == 'selectors':
        in_ids = {id(d) for d in ins}
        if any(id(d) not in in_ids for d in outs):
          fail('selector-nonmember:' + c['cls'], '%s returned an object that is not in its input' % c['cls'])
        if c['cls'] in ('Top', 'Bottom') and c['op'].cluster and dna_in and all(
            'reward' in d.metadata for d in ins):
          # documented: "returns top/bottom N clusters; individuals that produce the same key form a cluster"
          from pyglove.ext.evolution import selectors as _sel
          n_ = _sel.compute_num_output(c['op'].n, len(ins), case.get('step', 0))
          keys = [base.get_fitness(d) for d in ins]
          best = set(sorted(set(keys), reverse=(c['cls'] == 'Top'))[:n_])
          want_ids = sorted(id(d) for d, k in zip(ins, keys) if k in best)
          if sorted(id(d) for d in outs) != want_ids:
            fail('selector-cluster:' + c['cls'],
                 '%s(%r, cluster=True) on keys %s returned keys %s: not the members of the %d best distinct keys %s' % (
                     c['cls'], n_, keys, [base.get_fitness(d) for d in outs], n_, sorted(best)))
        want = self.documented_count(c['op'], len(ins))
        if want is not None and len(outs) != want:
          fail('selector-count:' + c['cls'], '%s returned %d items from %d inputs, documented: %d' % (
              c['cls'], len(outs), len(ins), want))
        if c['cls'] in ('Top', 'Bottom', 'First', 'Last') or (
            c['cls'] == 'Random' and not c['op'].replacement):
          counts = {}
          for d in outs:
            counts[id(d)] = counts.get(id(d), 0) + 1
          incounts = {}
          for d in ins:
            incounts[id(d)] = incounts.get(id(d), 0) + 1
          if any(v > incounts.get(k, 0) for k, v in counts.items()):
            fail('selector-duplicates:' + c['cls'], '%s returned an input more often than it was given' % c['cls'])
      elif c['mod'] in ('mutators', 'recombinators') and dna_in:
        if all(self.is_valid(spec, d) and self.is_aligned(spec, d) for d in ins):
          for d in outs:
            if not isinstance(d, pg.DNA) or not self.is_valid(spec, d):
              fail('invalid-child:' + c['cls'], '%s produced %r, not valid for the spec, from valid parents %r' % (
                  c['cls'], d, ins))
            elif not self.is_aligned(spec, d):
              tainted = True
              sig = 'swap-misaligned' if c['cls'] == 'Swap' else 'misaligned-child:' + c['cls']
              fail(sig, '%s produced %r whose to_dict() %s differs from that of the DNA rebuilt from its '
                        'numbers %s' % (c['cls'], d, d.to_dict(),
                                        pg.DNA.from_numbers(d.to_numbers(), spec).to_dict()))
        in_ids = {id(d) for d in ins}
        if c['mod'] == 'mutators' and any(id(d) in in_ids for d in outs):
          fail('mutator-returns-input:' + c['cls'], '%s returned one of its input objects' % c['cls'])
    # --- set algebra, as documented: on object identities (`x - y` drops exactly the objects `y` returned) ---
    for c in run['combos']:
      f = self.set_algebra_failure(c)
      if f:
        fail('set-algebra:' + c['cls'], f)
    # --- whole expression ---
    if [pg.to_json_str(d) for d in run['pop']] != run['before']:
      fail('population-modified', 'the population passed to the expression was modified')
    if len(run['pop_arg']) != len(run['pop']) or any(a is not b for a, b in zip(run['pop_arg'], run['pop'])):
      fail('population-list-modified', 'the list passed to the expression was modified')
    prims = all_prims(case)
    if run['out'] is not None and pop_ok and not tainted and all(
        p not in ('lambdaDrop1', 'lambdaReverse', 'forEachFlatten') or True for p in prims):
      for d in run['out']:
        if isinstance(d, pg.DNA) and not self.is_valid(spec, d):
          fail('invalid-output', 'expression returned %r, not valid for the spec' % d)
    if run['out'] is not None and all(p.startswith('sel') for p in prims) and all(
        isinstance(d, pg.DNA) for d in run['out']):
      ids = run['ids']
      if any(id(d) not in ids for d in run['out']):
        fail('pipeline-nonmember', 'a composition of selectors returned a non-member')
    # --- determinism: same seeds, fresh objects ---
    noseed = bool(case.get('noseed'))
    run2 = self.run_once(case, hook=False, gseed=1 if noseed else 2)
    model2 = self.canon_out(run2)
    if noseed:
      # seed=None is documented as "the global `random` module": `random.seed(s)` then reproduces a run
      if model2 != model:
        fail('unseeded-op-ignores-global-random-state',
             'every seed is None and `random.seed` was given the same value, yet two runs differ: %s vs %s' % (
                 json.dumps(model)[:300], json.dumps(model2)[:300]))
    elif model2 != model or run2['log'] != run['log']:
      sig = 'nondeterministic'
      if run['unseeded']:
        sig = 'seeded-op-draws-from-global-random:' + '+'.join(sorted(set(run['unseeded'])))
      fail(sig, 'two runs with equal seeds and inputs (and different states of the global `random` module) '
                'differ: %s vs %s' % (json.dumps(model)[:300], json.dumps(model2)[:300]))
    # --- a scheduled hyper-parameter is a function of the step, not of the calls made before ---
    if '"sched"' in json.dumps(case['expr']) and not run['log'] and case.get('step', 0) > 0 and not noseed:
      run3 = self.run_once(case, hook=False, warmup=True)
      model3 = self.canon_out(run3)
      if model3 != model:
        fail('schedule-depends-on-call-history',
             'at step %d a fresh operator returns %s, the same operator after calls at steps 0..%d returns %s' % (
                 case['step'], json.dumps(model)[:300], case['step'] - 1, json.dumps(model3)[:300]))
    has_oo = noseed or any(p not in MODEL_PRIMS for p in prims) or any(
        f['signature'] in ('raises-on-valid-parents:Average:ValueError',
                           'raises-on-valid-parents:WeightedAverage:ValueError') for f in checks)
    return {'model': None if has_oo else model, 'obs': model, 'oracle': run['log'], 'checks': checks,
            'tainted': tainted, 'n_calls': len(run['calls']), 'n_draws': len(run['log']),
            'mm_paths': run['mm_paths'], 'zero_seeds': run.get('zero_seeds', 0)}

  # -- the driver level: pg.evolution.Evolution and the shipped algorithms ----------------------
  def build_algo(self, case, log):
    import importlib
    from pyglove.ext.evolution import base
    import pyglove as pg
    a = case['algo']
    ctx = {'seed': case.get('seed', 0), 'log': log, 'n': 0, 'noseed': bool(case.get('noseed'))}
    sd = 0 if case.get('seed', 0) % 4 == 0 else case.get('seed', 0) % (1 << 30)      # seed 0 is first class
    if ctx['noseed']:
      sd = None
    if a[0] == 'evolution':
      rep = self.build_expr(a[1], ctx)
      upd = None if a[3] is None else self.build_expr(a[3], ctx)
      algo = base.Evolution(rep, population_init=(pg.geno.Random(seed=sd), a[2]), population_update=upd)
    elif a[0] == 'regularized':
      m = importlib.import_module('pyglove.ext.evolution.regularized_evolution')
      algo = m.regularized_evolution(self.build_expr(a[1], ctx), population_size=a[2], tournament_size=a[3], seed=sd)
    elif a[0] == 'hill_climb':
      m = importlib.import_module('pyglove.ext.evolution.hill_climb')
      algo = m.hill_climb(self.build_expr(a[1], ctx), batch_size=a[2], init_population_size=a[3], seed=sd)
    elif a[0] == 'nsga2':
      m = importlib.import_module('pyglove.ext.evolution.nsga2')
      algo = m.nsga2(self.build_expr(a[1], ctx), population_size=a[2], seed=sd)
    else:
      raise ValueError('unknown algorithm %r' % (a,))
    return algo

  def run_evolve(self, case, gseed):
    """propose / feedback rounds. Returns (observations, failures)."""
    import pyglove as pg
    log = []
    spec = self.cached_spec(case['spec'])
    algo = self.build_algo(case, log)
    for name in ('reproduction', 'population_update'):
      op = algo.sym_getattr(name)
      if op is not None:
        self.install_recorders(op, log, allow_none=bool(case.get('noseed')))
    _pyrandom.seed(1000003 * gseed + 29)
    algo.setup(spec)
    # the initial population comes from `pg.geno.Random(seed)`: its generator exists after setup
    gen0 = getattr(algo, '_init_population_generator', None)
    sd0 = gen0.sym_getattr('seed') if gen0 is not None and gen0.sym_hasattr('seed') else None
    if sd0 is not None and getattr(gen0, '_random', None) is not None and gen0._random is not _pyrandom:   # pylint: disable=protected-access
      gen0._random = RecRandom(sd0, log)       # pylint: disable=protected-access
    multi = case['algo'][0] == 'nsga2'
    fails = []
    proposed = []          # every DNA object ever proposed (kept alive: identities stay unique)
    evaluated = []         # (object, JSON with metadata right after its feedback)
    trace = []
    err = None

    def check_evaluated(when):
      for i, (obj, snap) in enumerate(evaluated):
        now = pg.to_json_str(obj)
        if now != snap:
          fails.append({'signature': 'evolve:evaluated-dna-modified',
                        'what': '%s: the DNA evaluated as trial %d was modified afterwards: %s -> %s' % (
                            when, i + 1, snap, now)})
          evaluated[i] = (obj, now)
    def check_population(when):
      # with no update, Last(n) or Top(n) as population update the population is made of evaluated DNA objects
      if multi:
        return
      known_ = [e for e, _ in evaluated] + proposed
      lost = [x for x in algo.population if not any(x is e for e in known_)]
      if lost and not any(f['signature'] == 'evolve:population-holds-unevaluated-object' for f in fails):
        fails.append({'signature': 'evolve:population-holds-unevaluated-object',
                      'what': '%s: the population holds %d object(s) that were never proposed or fed back '
                              '(metadata %s): evaluated individuals were replaced' % (
                                  when, len(lost), [dict(x.metadata) for x in lost][:3])})
    try:
      for t in range(case['rounds']):
        dna = algo.propose()
        check_evaluated('propose #%d' % (t + 1))
        if any(dna is d for d in proposed):
          fails.append({'signature': 'evolve:re-proposed-object',
                        'what': 'propose #%d returned the very object of an earlier proposal (%r)' % (t + 1, dna)})
        proposed.append(dna)
        try:
          spec.validate(dna)
        except Exception as ex:     # pylint: disable=broad-except
          fails.append({'signature': 'evolve:invalid-proposal', 'what': 'proposal %r: %s' % (dna, ex)})
        r = case['rewards'][t % len(case['rewards'])]
        reward = (r / 4.0, -((r * 7 + t) % 5) / 2.0) if multi else r / 4.0
        algo.feedback(dna, reward)
        check_evaluated('feedback #%d' % (t + 1))
        evaluated.append((dna, pg.to_json_str(dna)))
        check_population('feedback #%d' % (t + 1))
        nums, bel = self.flat(dna)
        trace.append({'nums': nums, 'beliefs': bel, 'pid': dna.metadata.get('proposal_id'),
                      'gen': dna.metadata.get('generation_id'),
                      'initial': bool(dna.metadata.get('initial_population'))})
    except Exception as ex:       # pylint: disable=broad-except
      err = type(ex).__name__
      check_population('when %s was raised' % err)
    counters = None
    if err is None:
      counters = [algo.num_proposals, algo.num_feedbacks, algo.num_generations, len(algo.population)]
    return {'trace': trace, 'err': err, 'draws': len(log), 'counters': counters}, fails, log

  def impl_evolve(self, case):
    obs, fails, log = self.run_evolve(case, 1)
    obs2, _, _ = self.run_evolve(case, 1 if case.get('noseed') else 2)
    if obs2 != obs:
      fails.append({'signature': 'evolve:nondeterministic',
                    'what': 'two runs of the %s differ: %s vs %s' % (
                        'algorithm with seed=None under the same `random.seed`' if case.get('noseed')
                        else 'seeded algorithm under different states of the global `random` module',
                        json.dumps(obs)[:300], json.dumps(obs2)[:300])})
    # a polluted population (F421) explains whatever else goes wrong later in the same run: reported first
    fails.sort(key=lambda f: f['signature'] != 'evolve:population-holds-unevaluated-object')
    seen, checks = set(), []
    for f in fails:
      if f['signature'] not in seen:
        seen.add(f['signature'])
        checks.append(f)
    model = None
    if self.evolve_request(case) is not None and not any(
        f['signature'] in ('evolve:re-proposed-object', 'evolve:population-holds-unevaluated-object') for f in checks):
      model = {'outcome': 'ok' if obs['err'] is None else 'err', 'err': obs['err'], 'trace': obs['trace'],
               'counters': obs['counters']}
    return {'model': model, 'obs': {'outcome': 'ok' if obs['err'] is None else 'err', 'err': obs['err'],
                                   'trace': obs['trace']},
            'oracle': log if model is not None else [], 'checks': checks, 'tainted': False, 'n_calls': 0, 'n_draws': obs['draws'],
            'mm_paths': []}

  @staticmethod
  def set_algebra_failure(c):
    """Difference / Intersection / Union / SymmetricDifference / Concatenation against their documented
    meaning on object identities, from what the operands returned in this very call."""
    ops = list(getattr(c['op'], '_ops', []))
    outs = []
    for o in ops:
      k = [r for r in c['kids'] if r['op'] is o]
      if len(k) != 1 or k[0].get('out') is None:
        return None                      # an operand raised or is not an Operation: nothing to compare
      outs.append(k[0]['out'])
    if c.get('out') is None or len(outs) < 1:
      return None
    got = [id(x) for x in c['out']]
    ids = [[id(x) for x in o] for o in outs]
    cls = c['cls']
    if cls == 'Difference':
      excl = set(i for o in ids[1:] for i in o)
      want = [i for i in ids[0] if i not in excl]
      law = '|x - y| = |x| - |{d in x : d is in y}|'
    elif cls == 'Intersection':
      n = len(ids) - 1
      cnt = {}
      for o in ids[1:]:
        for i in o:
          cnt[i] = cnt.get(i, 0) + 1
      want = [i for i in ids[0] if cnt.get(i, 0) == n]
      law = 'x & y keeps the objects of x that y returned'
    elif cls == 'Union':
      want, seen = [], set()
      for o in ids:
        for i in o:
          if i not in seen:
            seen.add(i)
            want.append(i)
      law = 'x | y is x followed by the objects of y that x did not return'
    elif cls == 'SymmetricDifference':
      where_ = {}
      for n_, o in enumerate(ids):
        for i in o:
          where_.setdefault(i, set()).add(n_)
      want = [i for o in ids for i in o if len(where_[i]) == 1]
      law = 'x ^ y keeps the objects returned by exactly one operand'
    else:
      want = [i for o in ids for i in o]
      law = 'x + y is the concatenation'
    if got != want:
      pos = {}
      for o in outs + [c['out']]:
        for x in o:
          pos.setdefault(id(x), repr(x))
      return '%s (by object identity): expected %d objects, got %d; operands returned %s, result %s' % (
          law, len(want), len(got), [[pos[i] for i in o] for o in ids], [pos[i] for i in got])
    return None

  @staticmethod
  def bad_cuts(op, spec_json):
    try:
      cuts = list(op.cutting_points([]))
    except Exception:     # pylint: disable=broad-except
      return True
    return cuts != sorted(cuts)

  @staticmethod
  def documented_count(op, n_in):
    import math
    cls = type(op).__name__
    n = op.n
    if callable(n):
      return None
    if isinstance(n, float):
      n = math.ceil(n * n_in)
    elif n is None:
      n = n_in
    if cls == 'Random':
      return n if op.replacement else min(n, n_in)
    if cls in ('Sample', 'Proportional'):
      return n
    if cls in ('Top', 'Bottom'):
      if op.cluster:
        return None
      return min(n, n_in)
    if cls in ('First', 'Last'):
      return min(n, n_in)
    return None

  # -- model side ----------------------------------------------------------------------------
  def _impl_memo(self, case):
    key = json.dumps(case, sort_keys=True)
    if key not in self._memo:
      if len(self._memo) > 20000:
        self._memo.clear()
      self.setup_impl()
      self._memo[key] = self.impl(case)
    return self._memo[key]

  def model_request(self, case):
    if case.get('kind') == 'evolve':
      return None
    prims = all_prims(case)
    if any(p not in MODEL_PRIMS for p in prims):
      return None
    return self.model_request_with_impl(case, self._impl_memo(case))

  def model_request_with_impl(self, case, out):
    """The oracle stream fed to the model is the PRNG log recorded by the implementation run."""
    if case.get('kind') == 'evolve':
      req = self.evolve_request(case)
      if req is None or out.get('model') is None:
        return None        # nsga2 (global state, multi-objective): property oracle only
      req['oracle'] = out['oracle']
      return req
    prims = all_prims(case)
    if case.get('noseed') or out.get('model') is None:
      return None
    if any(p not in MODEL_PRIMS for p in prims) or ('stages' not in case and has_inexact_weights(case['expr'])):
      return None
    pop = []
    for ind in case['pop']:
      pop.append({'nums': ind['nums'], 'beliefs': self.positional_beliefs(case['spec'], ind['nums']),
                  'fit': ind.get('fit')})
    req = {'spec': case['spec'], 'pop': pop, 'oracle': out['oracle'], 'step': case.get('step', 0)}
    if 'stages' in case:
      req['stages'] = case['stages']
    else:
      req['expr'] = case['expr']
    return req

  @staticmethod
  def evolve_request(case):
    """`Evolution(reproduction, population_init=(pg.geno.Random(seed), n0), population_update)` as the
    model's driver level sees it; the packaged algorithms are their documented pipelines."""
    a = case['algo']
    if case.get('noseed'):
      return None
    if a[0] == 'evolution':
      ev = {'rep': a[1], 'upd': a[3], 'n0': a[2]}
    elif a[0] == 'regularized':
      # Random(tournament) >> Top(1) >> mutator; init = population size; update = Last(population size)
      ev = {'rep': ['seq', ['seq', ['prim', 'selRandom', a[3], False], ['prim', 'selTop', 1]], a[1]],
            'upd': ['prim', 'selLast', a[2]], 'n0': a[2]}
    elif a[0] == 'hill_climb':
      # Top(1) >> (mutator * batch); update = Top(1)
      ev = {'rep': ['seq', ['prim', 'selTop', 1], ['repeat', a[1], a[2]]], 'upd': ['prim', 'selTop', 1],
            'n0': a[3]}
    else:
      return None
    rounds = case['rounds']
    rewards = [case['rewards'][t % len(case['rewards'])] for t in range(rounds)]
    return {'spec': case['spec'], 'evolve': ev, 'rewards': rewards}

  @staticmethod
  def positional_beliefs(spec, nums):
    bel = []
    pos = [0]

    def walk(s):
      if s[0] == 'space':
        for e in s[1]:
          walk(e)
      elif s[0] == 'float':
        bel.append(0)
        pos[0] += 1
      else:
        for i in range(s[1]):
          v = nums[pos[0]]
          pos[0] += 1
          bel.append(i)
          walk(s[2][v])
    walk(spec)
    return bel

  def compare(self, case, impl_out, model_out):
    a = impl_out.get('model')
    if a is None:
      return None
    if 'err' in model_out:
      if model_out['err'] == 'unmodelled':
        return None
      if case.get('kind') == 'evolve':
        e = a['err'] if a['err'] in ERR_NAMES or a['err'] is None else 'Other:' + a['err']
        if a['outcome'] == 'err' and e == model_out['err']:
          return None
        return 'impl %s (after %d rounds), model raises %s' % (
            'raised ' + str(a['err']) if a['outcome'] == 'err' else 'completed', len(a['trace']), model_out['err'])
      b = {'outcome': 'err', 'err': model_out['err']}
    elif case.get('kind') == 'evolve':
      def fr(x):
        if isinstance(x, list):
          return str(Fraction(x[1], x[2]) if x[0] == 'q' else Fraction(x[0], 1 << x[1]))
        return x
      if a['outcome'] != 'ok':
        return 'impl raised %s after %d rounds, the model completed %d rounds' % (
            a['err'], len(a['trace']), len(model_out.get('trace', [])))
      if model_out.get('left'):
        return 'model left %d recorded draws unused' % model_out['left']
      ta = [{'nums': [fr(x) for x in t['nums']], 'beliefs': t['beliefs'], 'pid': t['pid'], 'gen': t['gen'],
             'initial': t['initial']} for t in a['trace']]
      tb = [{'nums': [fr(x) for x in t['nums']], 'beliefs': t['beliefs'], 'pid': t['pid'], 'gen': t['gen'],
             'initial': t['initial']} for t in model_out['trace']]
      for i, (x, y) in enumerate(zip(ta, tb)):
        if x != y:
          return 'round %d: impl proposed %s, model %s' % (i + 1, json.dumps(x), json.dumps(y))
      if len(ta) != len(tb):
        return 'impl ran %d rounds, model %d' % (len(ta), len(tb))
      if a['counters'] != model_out.get('nums'):
        return 'counters (proposals, feedbacks, generations, |population|): impl %s model %s' % (
            a['counters'], model_out.get('nums'))
      bad = [i + 1 for i, t in enumerate(model_out['trace']) if not t.get('valid')]
      if bad:
        return 'model proposals %s are not valid for the space' % bad
      return None
    elif 'stages' in case:
      def norm(o):
        if 'list' in o:
          return {'list': [norm(x) for x in o['list']]}
        return {'id': o.get('id'), 'beliefs': o.get('beliefs'), 'fit': o.get('fit'),
                'nums': [str(Fraction(x[1], x[2]) if x[0] == 'q' else Fraction(x[0], 1 << x[1]))
                         if isinstance(x, list) else x for x in o.get('nums', [])]}
      if model_out.get('left'):
        return 'model left %d recorded draws unused' % model_out['left']
      if a['outcome'] != 'ok':
        return 'impl=%s model=ok' % json.dumps(a)[:300]
      na, nb = [norm(o) for o in a['out']], [norm(o) for o in model_out['ok']]
      if na != nb:
        return 'impl=%s model=%s' % (json.dumps(na)[:500], json.dumps(nb)[:500])
      return None
    else:
      b = {'outcome': 'ok', 'out': [{k: o[k] for k in ('id', 'nums', 'beliefs', 'fit')} for o in model_out['ok']]}
      if model_out.get('left'):
        return 'model left %d recorded draws unused; impl=%s model=%s' % (
            model_out['left'], json.dumps(a)[:300], json.dumps(b)[:300])
    if a['outcome'] == 'ok' and b['outcome'] == 'ok':
      a, b, near = self.numbers_agree(a, b)
      if not near:
        return 'float decisions differ: impl=%s model=%s' % (json.dumps(a)[:500], json.dumps(b)[:500])
    if a != b:
      return 'impl=%s model=%s' % (json.dumps(a, sort_keys=True)[:500], json.dumps(b, sort_keys=True)[:500])
    if 'ok' in model_out:
      # the model's own validity / alignment verdicts against the real ones are covered by the oracle
      pass
    return None

  @staticmethod
  def numbers_agree(a, b):
    """Replaces every float decision by a token after checking that implementation (a dyadic
    `[m, e]`) and model (an exact rational `['q', num, den]`) agree up to 2**-40 (the model computes
    means exactly, the code rounds them)."""
    def frac(x):
      if x[0] == 'q':
        return Fraction(x[1], x[2])
      return Fraction(x[0], 1 << x[1])
    near = True

    def strip(side, other):
      nonlocal near
      out = []
      for i, o in enumerate(side['out']):
        if 'nums' not in o:
          out.append(o)
          continue
        nums = []
        for j, x in enumerate(o['nums']):
          if isinstance(x, list):
            try:
              y = other['out'][i]['nums'][j]
              if not isinstance(y, list) or abs(frac(x) - frac(y)) > Fraction(1, 1 << 40):
                near = False
            except (IndexError, KeyError):
              near = False
            nums.append('float')
          else:
            nums.append(x)
        out.append(dict(o, nums=nums))
      return {'outcome': 'ok', 'out': out}
    return strip(a, b), strip(b, a), near

  def oracle(self, case, out):
    checks = out.get('checks') or []
    for c in checks:
      if c['signature'] != 'swap-misaligned':
        return c
    return checks[0] if checks else None

  def nontrivial(self, case, out):
    if case.get('kind') == 'evolve':
      return out['obs']['outcome'] == 'ok' and len(out['obs']['trace']) > case['algo'][2 if case['algo'][0] != 'hill_climb' else 3]
    return bool(case['pop']) and out['obs']['outcome'] == 'ok' and (out['n_draws'] > 0 or any(
        o.get('id', [''])[0] == 'new' for o in out['obs'].get('out', [])))

  def describe(self, case, out):
    if case.get('kind') == 'evolve':
      a = case['algo']
      h = ['evolve:' + a[0], 'evolve-outcome:' + (out['obs']['outcome'] if out['obs']['outcome'] == 'ok'
                                                    else 'err:' + str(out['obs']['err'])),
           'evolve-rounds:%d' % len(out['obs']['trace']),
           'oracle-only(no model part)' if out.get('model') is None else 'evolve:compared-with-driver-model']
      if case.get('noseed'):
        h.append('seed=None(global random)')
      elif case.get('seed', 0) % 4 == 0:
        h.append('operator-with-seed-0')
      for pname in sorted(set(expr_prims(a[1]))):
        h.append('evolve-stage-prim:' + pname)
      if not set(expr_prims(a[1])) & {'mutUniform', 'mutSwap', 'recUniform', 'recSample', 'recKPoint', 'recOrder',
                                      'recAverage', 'recWeightedAverage', 'recSegmented'} or any(
                                          x in json.dumps(a[1]) for x in ('"never"', '[0, 0]')):
        h.append('evolve:pass-through-stage')
      return h
    h = []
    obs = out['obs']
    h.append('outcome:' + (obs['outcome'] if obs['outcome'] == 'ok' else 'err:' + obs['err']))
    h.append('pop:%d' % len(case['pop']))
    h.append('depth:%d' % expr_depth(case['expr']))
    st = spec_stats(case['spec'])
    h.append('points:%s' % (st['points'] if st['points'] < 8 else '8+'))
    for k in ('nested', 'multi', 'float', 'perm', 'sortedmulti', 'distinctmulti'):
      if st[k]:
        h.append('spec:' + k)
    for p in sorted(set(all_prims(case))):
      h.append('prim:' + p)
    if out.get('zero_seeds'):
      h.append('operator-with-seed-0')
    if case.get('noseed'):
      h.append('seed=None(global random)')
    if '"kinds"' in json.dumps(case['expr']) or '"valueLt"' in json.dumps(case['expr']) or '"indexEq"' in json.dumps(case['expr']) or '"valueEq"' in json.dumps(case['expr']):
      h.append('mutator-with-where-filter')
    for st in case.get('stages', []):
      h.append('nested-stage:' + st[0])
    if '"sched"' in json.dumps(case['expr']):
      h.append('scheduled-scalar(step=%d)' % case.get('step', 0))
    for p in sorted(set(expr_heads(case['expr']))):
      if p != 'prim':
        h.append('comb:' + p)
    if out.get('model') is None or has_inexact_weights(case['expr']):
      h.append('oracle-only(no model part)')
    if out.get('tainted'):
      h.append('tainted-by-F21')
    nums_ = [json.dumps(ind['nums']) for ind in case['pop']]
    if len(set(nums_)) < len(nums_):
      h.append('pop:equal-dna-values-in-distinct-individuals')
    if obs['outcome'] == 'ok':
      n = len(obs['out'])
      h.append('out:%s' % (n if n < 6 else '6+'))
      if any(o.get('id', [''])[0] == 'new' for o in obs['out']):
        h.append('new-dna')
    for pth in sorted(set(out.get('mm_paths', []))):
      h.append('merge_multi_choice:' + pth)
    h.append('draws:%s' % ('0' if out['n_draws'] == 0 else '1-5' if out['n_draws'] <= 5 else '6+'))
    if not self.nontrivial(case, out):
      h.append('trivial')
    return h

  def shrink_candidates(self, case):
    if case.get('kind') == 'evolve':
      if case['rounds'] > 2:
        yield dict(case, rounds=case['rounds'] - 1)
        yield dict(case, rounds=max(2, case['rounds'] // 2))
      for s in sub_exprs(case['algo'][1]):
        a = list(case['algo'])
        a[1] = s
        yield dict(case, algo=a)
      return
    if 'stages' in case:
      for i in range(len(case['stages'])):
        yield dict(case, stages=case['stages'][:i] + case['stages'][i + 1:])
      for i in range(len(case['pop'])):
        yield dict(case, pop=case['pop'][:i] + case['pop'][i + 1:])
      return
    e = case['expr']
    for s in sub_exprs(e):
      c = dict(case)
      c['expr'] = s
      yield c
    # replace one sub-expression by a smaller one, keeping the head
    if e[0] in ('seq', 'concat', 'union', 'inter', 'diff', 'symdiff'):
      for i in (1, 2):
        for s in sub_exprs(e[i]):
          c = dict(case)
          ne = list(e)
          ne[i] = s
          c['expr'] = ne
          yield c
    for i in range(len(case['pop'])):
      c = dict(case)
      c['pop'] = case['pop'][:i] + case['pop'][i + 1:]
      yield c
    if case['spec'][0] == 'space' and len(case['spec'][1]) > 1:
      # drop one root element (and its numbers)
      for j in range(len(case['spec'][1])):
        try:
          c = drop_root_elem(case, j)
        except Exception:     # pylint: disable=broad-except
          continue
        yield c

  def extra_checks(self, ctx):
    ctx.coverage['modelled_primitives'] = list(MODEL_PRIMS)
    ctx.coverage['oracle_only'] = list(ORACLE_ONLY)
    ctx.coverage['modelled_rather_than_verified'] = (
        'all primitives and combinators are hand-written Lean functions tied by the recorded-oracle '
        'correspondence; the oracle_only primitives are exercised on the real code under the property '
        'oracle only')

  def search_cases(self, rng, tier, broken):
    for _ in range(3 if tier == 'quick' else 2):
      yield from self.generate(rng.fork(), tier)


def flat_len(spec, nums, pos):
  """number of entries of `nums` (from pos) that `spec` consumes."""
  if spec[0] == 'space':
    n = 0
    for e in spec[1]:
      n += flat_len(e, nums, pos + n)
    return n
  if spec[0] == 'float':
    return 1
  n = 0
  for _ in range(spec[1]):
    v = nums[pos + n]
    n += 1
    n += flat_len(spec[2][v], nums, pos + n)
  return n


def drop_root_elem(case, j):
  spec = case['spec']
  c = dict(case)
  c['spec'] = ['space', spec[1][:j] + spec[1][j + 1:]]
  pop = []
  for ind in case['pop']:
    pos = 0
    for i, e in enumerate(spec[1]):
      n = flat_len(e, ind['nums'], pos)
      if i == j:
        pop.append(dict(ind, nums=ind['nums'][:pos] + ind['nums'][pos + n:]))
        break
      pos += n
  c['pop'] = pop
  return c


def _with_tuple_fitness(xs):
  """NSGA2 needs tuple fitness; derive one from the scalar reward without touching the inputs."""
  from pyglove.ext.evolution import base
  out = []
  for x in xs:
    y = x.clone(deep=True)
    f = x.metadata.get('reward', 0.0)
    base.set_fitness(y, (f, -f * f))
    out.append(y)
  return out


_C0 = ['space', []]
FIXED_SPECS = [
    ['space', [['choices', 1, [_C0, _C0, _C0], True, False]]],
    ['space', [['float', [0, 0], [1, 0]]]],
    ['space', [['choices', 3, [_C0, _C0, _C0, _C0], True, False]]],
    ['space', [['choices', 3, [_C0, _C0, _C0, _C0], True, True]]],
    ['space', [['choices', 3, [_C0, _C0, _C0], False, True]]],
    ['space', [['choices', 3, [_C0, _C0, _C0], False, False], ['float', [-1, 0], [1, 0]]]],
    ['space', [['choices', 3, [_C0, _C0, _C0], True, False]]],
    ['space', [['choices', 1, [_C0, ['space', [['choices', 2, [_C0, _C0, _C0], True, True]]],
                                ['space', [['float', [0, 0], [2, 0]], ['choices', 1, [_C0, _C0], True, False]]]],
                True, False],
               ['choices', 2, [_C0, ['space', [['choices', 1, [_C0, _C0], True, False]]], _C0], True, False],
               ['float', [0, 0], [1, 0]]]],
]
FIXED_SPECS += [
    # a float that is active under one candidate only: pg.oneof([pg.floatv(0.5, 1.0), 'off'])
    ['space', [['choices', 1, [['space', [['float', [1, 1], [1, 0]]]], _C0], True, False]]],
    ['space', [['choices', 2, [['space', [['float', [1, 1], [1, 0]]]], _C0, ['space', [['float', [0, 0], [4, 0]]]]],
                False, False], ['float', [-1, 0], [1, 0]]]],
]
FIXED_PRIMS = [['prim', 'mutUniform'], ['prim', 'mutSwap'], ['prim', 'recUniform'], ['prim', 'recSample'],
               ['prim', 'recKPoint', 1], ['prim', 'recKPoint', 2], ['prim', 'recSegmented', [1]], ['prim', 'recOrder'], ['prim', 'recPartiallyMapped'], ['prim', 'recCycle'],
               ['prim', 'recAverage'], ['prim', 'recWeightedAverage'], ['power', ['prim', 'recAverage'], 2],
               ['prim', 'selRandom', 2, False], ['prim', 'selRandom', 3, True], ['prim', 'selSample', 2],
               ['prim', 'selTop', 1], ['prim', 'selBottom', ['frac', 1, 1]], ['prim', 'selFirst', 1],
               ['prim', 'selLast', 1], ['power', ['prim', 'mutUniform'], 3],
               ['prim', 'selProportional', 2, [ratio(0.1), [1, 0], [1, 0], [1, 0]]],
               ['prim', 'selProportional', ['frac', 1, 1], [[1, 0], ratio(0.02), [1, 0], [0, 0]]],
               ['prim', 'selProportional', 3, [[1, 0], [1, 0], [1, 0]]],
               ['seq', ['prim', 'mutSwap'], ['prim', 'mutUniform']]]

PROP = C14()
