"""Self-test of the C13 check: every stored seeded regression seeded/C13-*/patch.diff is applied to a scratch
worktree of /repo HEAD and `./check C13 --tier quick` is run with seeds 0 and 1; prints which ones are caught.

  /venv/bin/python -m harness.c13_selftest            (from the root of the verification repo)
"""
import glob
import json
import os
import re
import subprocess
import sys

VERIF = os.path.dirname(os.path.dirname(os.path.abspath(__file__)))
SCRATCH = '/work/repo-c13-selftest'


def sh(cmd, **kw):
  return subprocess.run(cmd, shell=True, capture_output=True, text=True, **kw)


def main():
  seeds = [int(x) for x in (sys.argv[1:] or ['0', '1'])]
  sh('git -C /repo worktree remove --force %s' % SCRATCH)
  r = sh('git -C /repo worktree add %s HEAD' % SCRATCH)
  if r.returncode:
    print(r.stderr)
    return 2
  rows = []
  try:
    dirs = sorted(glob.glob(os.path.join(VERIF, 'seeded', 'C13-*')), key=lambda d: int(d.rsplit('-', 1)[1]))
    for d in dirs:
      name = os.path.basename(d)
      sh('git checkout -q . && git clean -fdq', cwd=SCRATCH)
      a = sh('git apply %s' % os.path.join(d, 'patch.diff'), cwd=SCRATCH)
      if a.returncode:
        rows.append((name, 'patch does not apply', ''))
        continue
      outcome = []
      sigs = set()
      for seed in seeds:
        for f in glob.glob(os.path.join(VERIF, 'replays', 'C13-%d-*.json' % seed)):
          os.remove(f)
        c = sh('./check C13 --tier quick', cwd=VERIF, env=dict(os.environ, VERIF_REPO=SCRATCH, VERIF_SEED=str(seed)))
        outcome.append('seed %d: %s' % (seed, 'CAUGHT (exit %d)' % c.returncode if c.returncode == 1
                                        else 'missed (exit %d)' % c.returncode))
        for f in glob.glob(os.path.join(VERIF, 'replays', 'C13-%d-*.json' % seed)):
          rep = json.load(open(f))
          sigs.add(rep.get('signature') or rep.get('kind'))
      rows.append((name, '; '.join(outcome), ', '.join(sorted(x for x in sigs if x))))
      print('%-8s %-52s %s' % rows[-1], flush=True)
  finally:
    sh('git -C /repo worktree remove --force %s' % SCRATCH)
  missed = [r for r in rows if 'missed' in r[1] or 'apply' in r[1]]
  print('%d seeded regressions, %d not caught on every seed' % (len(rows), len(missed)))
  return 1 if missed else 0


if __name__ == '__main__':
  sys.exit(main())
