"""C11 — search-space enumeration is exact: generator, implementation runner, oracle.

Case shape:
  {"op": "space", "spec": <spec>, "fuel": int,         # fuel > 0: finite spec, enumerate (size < fuel)
   "dnas": [{"kind": str, "tree": <raw DNA tree>}, ...], # members and one-step corruptions
   "scripts": [[draw, ...], ...],                        # oracle scripts for random_dna
   "seeds": [int, ...],                                  # seeds for random_dna with random.Random
   "cmps": [[tree, tree], ...]}

Implementation observables (public API only): spec.space_size, list(spec.iter_dna()),
spec.first_dna(), spec.next_dna(d), spec.validate(d), DNA(...).use_spec(spec), spec.random_dna(r),
pg.geno.Sweeping proposals, DNA comparison operators.
"""

import json
import random as _random

from harness.common.framework import Prop, CaseTimeout
from harness import c11_geno as G
from translate import t_c11

ENUM_CAP = {'quick': 160, 'thorough': 600}
SWEEP_CAP = 80


# ------------------------------------------------------------------------------------------
# pyglove side helpers (imported lazily)
# ------------------------------------------------------------------------------------------

def build_spec(j, touch=False):
  from pyglove.core import geno
  from pyglove.core import utils

  def loc(p):
    return utils.KeyPath(list(p.get('loc') or []))

  def lit(v):
    if isinstance(v, dict):
      return v['f'][0] / v['f'][1]
    return v

  def touched(x):
    # a spec built in steps: the part is inspected (ids, look-up by id) while it still stands alone,
    # then composed into the larger space, where its ids change
    if touch:
      ids = x.decision_ids
      if ids:
        x.get(ids[0])
    return x

  def point(p):
    return touched(point_(p))

  def point_(p):
    if p['t'] == 'c':
      cands = [touched(geno.Space(elements=[point(q) for q in c])) for c in p['cands']]
      lits = None if p.get('lits') is None else [lit(v) for v in p['lits']]
      return geno.Choices(num_choices=p['k'], candidates=cands, distinct=p['d'], sorted=p['s'],
                          literal_values=lits, name=p.get('name'), location=loc(p))
    if p['t'] == 'f':
      return geno.Float(min_value=p['lo'][0] / p['lo'][1], max_value=p['hi'][0] / p['hi'][1],
                        scale=p.get('scale'), name=p.get('name'), location=loc(p))
    if p['t'] == 'u':
      if p.get('hook'):
        # a user hook that enumerates the strings of `hook` in order (contract `HookContract` of the model)
        seq = list(p['hook'])

        def next_fn(dna, seq=seq):
          if dna is None:
            return geno.DNA(seq[0])
          i = seq.index(dna.value)      # anything else: the hook raises
          return geno.DNA(seq[i + 1]) if i + 1 < len(seq) else None

        def random_fn(r, prev, seq=seq):
          del prev
          return geno.DNA(r.choice(seq))

        return geno.CustomDecisionPoint(next_dna_fn=next_fn, random_dna_fn=random_fn,
                                        name=p.get('name'), location=loc(p))
      return geno.CustomDecisionPoint(name=p.get('name'), location=loc(p))
    raise ValueError(p)

  if j['t'] == 's':
    return geno.Space(elements=[point(p) for p in j['elems']])
  return point(j)


def to_val(v):
  if isinstance(v, dict):
    return v['f'][0] / v['f'][1]
  return v


def mk_dna(tree):
  """DNA(value, [children]) bottom-up, exactly as a user would write it."""
  from pyglove.core import geno
  return geno.DNA(to_val(tree[0]), [mk_dna(c) for c in tree[1]])


def tree_of(dna):
  v = dna.value
  if isinstance(v, float):
    v = {'f': list(v.as_integer_ratio())}
  return [v, [tree_of(c) for c in dna.children]]


def verdict(fn):
  try:
    fn()
    return 'ok'
  except CaseTimeout:
    raise
  except Exception as e:    # pylint: disable=broad-except
    return type(e).__name__


class ScriptMismatch(Exception):
  pass


class ScriptedRandom:
  """Replays a recorded oracle script; a call of another kind than recorded is a mismatch."""

  def __init__(self, script):
    self.script = list(script)
    self.pos = 0

  def _next(self, kind):
    if self.pos >= len(self.script) or kind not in self.script[self.pos]:
      raise ScriptMismatch('%s at %d of %s' % (kind, self.pos, self.script))
    v = self.script[self.pos][kind]
    self.pos += 1
    return v

  def sample(self, population, k):
    xs = self._next('sample')
    if len(xs) != k or any(x not in population for x in xs):
      raise ScriptMismatch('sample(%s, %s) vs %s' % (population, k, xs))
    return list(xs)

  def randint(self, a, b):
    v = self._next('randint')
    if not a <= v <= b:
      raise ScriptMismatch('randint(%s, %s) vs %s' % (a, b, v))
    return v

  def uniform(self, a, b):
    n, d = self._next('uniform')
    return n / d

  def __getattr__(self, name):
    raise ScriptMismatch('unexpected call random.%s' % name)


def cmp3(a, b):
  """-1 / 0 / 1 from the public comparison operators, 'error' if they raise."""
  try:
    if a == b:
      return 0
    return -1 if a < b else 1
  except CaseTimeout:
    raise
  except Exception:   # pylint: disable=broad-except
    return 'error'


# ------------------------------------------------------------------------------------------

class C11(Prop):
  id = 'C11'
  props_modules = ['PgProps.C11']
  driver = 'drv_c11'
  translators = [t_c11.run]
  case_timeout_s = 240
  jobs_quick = 8
  rule = ('specs: random trees of spaces / single and multi choices (k<=4, n<=5, all distinct x sorted '
          'modes, nesting depth<=3, conditional sub-spaces of 1-3 elements), a non-finite stream with '
          'float and custom points (~25 %), and the exhaustive depth-1 family (k<=3, n<=4, candidates '
          'from {constant, oneof(2), manyof(2 of 3), space of two}; quick: a slice stratified by k x distinct x '
          'sorted x position of the conditional candidates, thorough: all). '
          'Per spec: full enumeration when the size bound is <= 2000, members (first/last/random), '
          '8-24 one-step corruptions of members (index +-1, -1, n, swap, duplicate, drop/add child, type '
          'change, stray value), scripted and seeded random_dna (also with previous_dna), DNA comparisons; '
          'plus specs whose custom decision points carry list-enumerating user hooks (root, space element first / '
          'middle / last, inside conditional candidates of single and multi-choices): first_dna, next_dna with '
          'attach_spec True and False, iter_dna, next_dna on members and on DNAs the hook rejects; float points with every '
          'scale hint (None / linear / log / rlog); use_spec is called twice on the same DNA object. Non-trivial: the spec '
          'has at least 2 DNAs or is non-finite; distinct: by case JSON.')
  trusted_base = [
      'translator translate/t_c11.py: shape tables of _space_size, next_value_for_choice, min_remaining_choices and '
      'the _next_dna loop (obligations C11_shape_*: syntactic identity with the tables the model was written from)',
      'harness/c11_geno.py: independent brute-force reference of the member set (itertools.product + filter) '
      'and structural membership test, used by the oracle',
      'random.Random is replaced by a scripted oracle for the model comparison; seeded random.Random runs '
      'are checked by the oracle only',
      'modelled, not verified: validate / use_spec / space_size / first_dna / next_dna / random_dna / __cmp__ '
      '(hand-written Lean mirror tied by correspondence); custom decision points\' next_dna_fn hooks are PARAMETERS of the '
      'model (PgModel/Geno/Hooks.lean, contract HookContract; the harness installs list-enumerating hooks), their '
      'random_dna_fn and hints are outside the model; next_dna is compared on members AND on the one-step corruptions (tree / None / raises, '
      'after the binding that next_dna applies to its result)',
      'every clause of the property is a Lean theorem about the model (PgProps/C11.lean); the driver-internal '
      'checks iter == allValid and size == |allValid| on every enumerated spec are now redundant sanity checks',
  ]
  assumptions = ['DNA objects are only built through the DNA constructor (hereditarily normalised trees)',
                 'random.Random.sample returns k distinct members of the population, randint a value in range, '
                 'uniform a value in [lo, hi]']

  # -- generation -------------------------------------------------------------------------
  def make_case(self, spec, rng, n_members=3, n_corrupt=10, n_random=2, cap=250):
    finite = G.is_finite(spec)
    custom = G.has_custom(spec)
    case = {'op': 'space', 'spec': spec, 'fuel': 0, 'dnas': [], 'scripts': [], 'seeds': [], 'cmps': []}
    members = []
    if finite and G.size_bound(spec) <= cap:
      allm = G.ref_all(spec)
      case['fuel'] = len(allm) + 2
      if allm:
        srt = sorted(allm, key=lambda t: repr(G.freeze(t)))
        members += [srt[0], srt[-1]]
    for _ in range(n_members):
      members.append(G.ref_member(spec, rng))
    seen = set()
    for m in members:
      key = G.freeze(m)
      if key in seen:
        continue
      seen.add(key)
      case['dnas'].append({'kind': 'member', 'tree': m})
    for m in members[:3]:
      for kind, t in G.corruptions(spec, m, rng, max(1, n_corrupt // 3)):
        case['dnas'].append({'kind': kind, 'tree': t})
    if not custom:
      for _ in range(n_random):
        _, script = G.ref_random(spec, rng)
        case['scripts'].append(script)
        case['seeds'].append(rng.below(1 << 30))
    case['prevs'] = []
    if not custom and case['scripts']:
      # random_dna(previous_dna=…): a member, and a one-step corruption of it
      cand = [d for d in case['dnas'] if d['kind'] == 'member'][:1] + [d for d in case['dnas'] if d['kind'] != 'member'][:1]
      for d in cand:
        case['prevs'].append({'prev': d['tree'], 'script': case['scripts'][0], 'member': d['kind'] == 'member'})
    trees = [d['tree'] for d in case['dnas']]
    for _ in range(min(4, len(trees))):
      case['cmps'].append([rng.choice(trees), rng.choice(trees)])
    return case

  def generate(self, rng, tier):
    cap = ENUM_CAP[tier]
    n_rand = 120 if tier == 'quick' else 2000
    n_inf = 60 if tier == 'quick' else 700
    for _ in range(n_rand):
      yield self.make_case(G.gen_spec(rng, False, cap), rng, cap=cap)
    for _ in range(n_inf):
      spec = G.gen_spec(rng, True, cap)
      for _ in range(8):
        if not G.is_finite(spec):
          break
        spec = G.gen_spec(rng, True, cap)
      yield self.make_case(spec, rng, cap=cap)
    # float points with every scale hint, stand-alone and inside a conditional (random generation)
    for scale in (None, 'linear', 'log', 'rlog'):
      lo, hi = rng.randint(1, 3), rng.randint(4, 9)
      yield self.make_case(G.F([lo, 2], [hi, 1], scale=scale), rng, n_members=1, n_corrupt=2, n_random=3, cap=cap)
      yield self.make_case(G.S([G.C(1, [[], [G.F([lo, 1], [hi, 1], scale=scale)]], True, False),
                                G.F([lo, 4], [lo, 1], scale=scale)]), rng, n_members=1, n_corrupt=2, n_random=3, cap=cap)
    # custom decision points with user hooks (first_dna / next_dna / iter_dna go through the hooks)
    for _ in range(24 if tier == 'quick' else 400):
      yield self.hooked_case(rng)
    # the exhaustive depth-1 family (and a slice of depth 2 built on top of it)
    fam = list(G.family_points())
    if tier == 'quick':
      # stratified slice: every (k, distinct, sorted) mode x position of the conditional candidates
      # (none / first / last / elsewhere), so that k = 3 with a nested LAST candidate is always present
      cells = {}
      for p in fam:
        if G.size_bound(p) > 160:
          continue
        nonconst = [bool(c) for c in p['cands']]
        pos = ('none' if not any(nonconst) else 'last' if nonconst[-1] else
               'first' if nonconst[0] else 'mid')
        cells.setdefault((p['k'], p['d'], p['s'], pos), []).append(p)
      picked = []
      for key in sorted(cells, key=repr):
        group = cells[key]
        picked += rng.sample(group, min(len(group), 3 if key[0] > 1 else 2))
    else:
      picked = fam      # all 3012; fully enumerated when the size bound is <= cap (1844 of them)
    for p in picked:
      yield self.make_case(p, rng, n_members=2, n_corrupt=6, n_random=1, cap=cap)
    # spaces of two family points, family points as conditional candidates (depth 2)
    pool = [p for p in G.family_points(max_n=3, max_k=2) if G.size_bound(p) <= 12]
    n2 = 30 if tier == 'quick' else 1500
    for _ in range(n2):
      a, b = rng.choice(pool), rng.choice(pool)
      if rng.chance(0.5):
        spec = G.S([a, b])
      else:
        n = rng.randint(2, 3)
        k = rng.randint(1, 3)
        d, s = rng.chance(0.5), rng.chance(0.5)
        if d and k > n:
          d = False
        cands = [rng.choice([[], [a], [b], [a, b]]) for _ in range(n)]
        spec = G.C(k, cands, d, s)
      if G.size_bound(spec) <= cap:
        yield self.make_case(spec, rng, n_members=2, n_corrupt=6, n_random=1, cap=cap)

  def hooked_case(self, rng):
    """A small spec whose custom decision points have list-enumerating hooks, in every position: the
    root itself, an element of the root space (first / last / middle), inside a conditional candidate of
    a single or multi-choice."""
    counter = [0]

    def hook_point():
      counter[0] += 1
      n = rng.randint(1, 3)
      base = ['a', 'b', 'c', 'dd', 'e'][:]
      rng.shuffle(base)
      return dict(G.U(name='h%d' % counter[0], loc=['u%d' % counter[0]]), hook=base[:n])

    def small_choice():
      n = rng.randint(2, 3)
      k = rng.randint(1, 2)
      d = rng.chance(0.5)
      return G.C(k, [[] for _ in range(n)], d and k <= n, rng.chance(0.5), loc=['c%d' % rng.below(1000)])

    shape = rng.below(6)
    if shape == 0:
      spec = hook_point()
    elif shape == 1:
      spec = G.S([hook_point(), small_choice()])
    elif shape == 2:
      spec = G.S([small_choice(), hook_point()])
    elif shape == 3:
      spec = G.S([small_choice(), hook_point(), hook_point()])
    elif shape == 4:
      spec = G.C(1, [[hook_point()], [], [small_choice(), hook_point()]], True, False, loc=['top'])
    else:
      k = 2
      d, srt = rng.chance(0.5), rng.chance(0.5)
      spec = G.C(k, [[hook_point()], [], [hook_point()]], d, srt, loc=['top'])
    plain = json.loads(json.dumps(spec))

    def strip(p):
      if isinstance(p, dict):
        p.pop('hook', None)
        for v in p.values():
          strip(v)
      elif isinstance(p, list):
        for v in p:
          strip(v)
    strip(plain)
    case = self.make_case(plain, rng, n_members=1, n_corrupt=3, n_random=0, cap=10)
    members = G.ref_all(spec)
    picks = [rng.choice(members) for _ in range(min(3, len(members)))]

    def foreign(t):
      # the same tree with every string the hooks know replaced by one they do not know
      return ['zz' if isinstance(t[0], str) else t[0], [foreign(c) for c in t[1]]]
    case['hooked'] = {'spec': spec, 'fuel': 120, 'dnas': picks + [foreign(picks[0])] if picks else []}
    return case

  def model_request(self, case):
    if case.get('hooked'):
      r = self.model_request(dict(case, hooked=None))
      r['hooked'] = dict(case['hooked'], dnas=case['hooked'].get('dnas', []))
      return r
    return {'op': 'space', 'spec': case['spec'], 'fuel': case['fuel'], 'sweep_cap': SWEEP_CAP,
            'want_first': not G.has_custom(case['spec']),
            'dnas': [d['tree'] for d in case['dnas']],
            'draws': case['scripts'], 'cmps': case['cmps'],
            'prev_draws': [{'prev': p['prev'], 'draws': p['script']} for p in case.get('prevs', [])]}

  # -- implementation ---------------------------------------------------------------------
  def sweep(self, geno, spec, fuel):
    try:
      sw = geno.Sweeping()
      sw.setup(spec)
      props = []
      ended = False
      for _ in range(fuel):
        try:
          props.append(tree_of(sw.propose()))
        except StopIteration:
          ended = True
          break
      after = []
      if ended:
        # a second worker / a second loop keeps asking: the end must be absorbing
        for _ in range(4):
          try:
            after.append(tree_of(sw.propose()))
          except StopIteration:
            after.append('stop')
      return {'props': props, 'ended': ended, 'after_end': after}
    except CaseTimeout:
      raise
    except Exception as e:   # pylint: disable=broad-except
      return type(e).__name__

  def run_hooked(self, h):
    """first_dna / iter via next_dna (attach_spec True and False) / next_dna on given DNAs of a spec whose
    custom points have hooks."""
    spec = build_spec(h['spec'])
    out, obs = {}, {}
    try:
      out['first'] = tree_of(spec.first_dna())
    except CaseTimeout:
      raise
    except Exception as e:   # pylint: disable=broad-except
      out['first'] = type(e).__name__

    def run(attach):
      dnas, ended = [], False
      try:
        d = None
        for _ in range(h['fuel']):
          d = spec.next_dna(d, attach_spec=attach)
          if d is None:
            ended = True
            break
          dnas.append(d)
      except CaseTimeout:
        raise
      except Exception as e:   # pylint: disable=broad-except
        return 'error', type(e).__name__, []
      return {'dnas': [tree_of(d) for d in dnas], 'ended': ended}, None, dnas

    out['iter'], obs['iter_error'], dnas = run(True)
    obs['iter_unattached'], _, raw = run(False)
    obs['bound'] = all(d.spec is not None for d in dnas)
    obs['unbound'] = all(d.spec is None for d in raw)
    obs['iter_dna'] = None
    try:
      obs['iter_dna'] = [tree_of(d) for _, d in zip(range(h['fuel']), spec.iter_dna())]
    except CaseTimeout:
      raise
    except Exception as e:   # pylint: disable=broad-except
      obs['iter_dna'] = type(e).__name__
    nexts = []
    for t in h.get('dnas', []):
      try:
        n = spec.next_dna(mk_dna(t))
        nexts.append(None if n is None else tree_of(n))
      except CaseTimeout:
        raise
      except Exception:   # pylint: disable=broad-except
        nexts.append('error')
    out['nexts'] = nexts
    return out, obs

  def impl(self, case):
    from pyglove.core import geno
    spec_j = case['spec']
    finite = G.is_finite(spec_j)
    spec = build_spec(spec_j)
    out = {'size': spec.space_size}
    obs = {}
    if case['fuel'] > 0:
      try:
        out['first'] = tree_of(spec.first_dna())
      except CaseTimeout:
        raise
      except Exception as e:   # pylint: disable=broad-except
        out['first'] = type(e).__name__
      dnas, ended, err = [], False, None
      try:
        d = None
        for _ in range(case['fuel']):
          d = spec.next_dna(d)
          if d is None:
            ended = True
            break
          dnas.append(d)
      except CaseTimeout:
        raise
      except Exception as e:   # pylint: disable=broad-except
        err = type(e).__name__
      out['iter'] = err if err else {'dnas': [tree_of(d) for d in dnas], 'ended': ended}
      obs['increasing'] = [cmp3(a, b) for a, b in zip(dnas, dnas[1:])]
      obs['bound'] = all(d.spec is not None for d in dnas)
      # the Sweeping generator
      obs['sweeping'] = self.sweep(geno, spec, case['fuel']) if len(dnas) <= SWEEP_CAP else None
      if isinstance(obs['sweeping'], dict):
        out['sweep'] = obs['sweeping']
    elif not G.has_custom(spec_j):
      try:
        out['first'] = tree_of(spec.first_dna())
      except CaseTimeout:
        raise
      except Exception as e:   # pylint: disable=broad-except
        out['first'] = type(e).__name__
    if case.get('hooked'):
      out['hooked'], obs['hooked'] = self.run_hooked(case['hooked'])
    checks = []
    for d in case['dnas']:
      c = {}
      try:
        dna = mk_dna(d['tree'])
      except CaseTimeout:
        raise
      except Exception as e:   # pylint: disable=broad-except
        checks.append({'construct': type(e).__name__})
        continue
      c['norm'] = tree_of(dna)
      c['validate'] = verdict(lambda: spec.validate(dna))
      fresh = mk_dna(d['tree'])
      c['bind'] = verdict(lambda: fresh.use_spec(spec))
      # a history on ONE object: the same DNA is bound a second time (a caller that retries, a later hand-off)
      c['bind_again'] = verdict(lambda: fresh.use_spec(spec))
      if finite:
        try:
          nxt = spec.next_dna(mk_dna(d['tree']))
          c['next'] = None if nxt is None else tree_of(nxt)
        except CaseTimeout:
          raise
        except Exception as e:   # pylint: disable=broad-except
          c['next'] = 'error'
          c['next_error'] = type(e).__name__
      checks.append(c)
    out['checks'] = checks
    randoms = []
    for script in case['scripts']:
      r = ScriptedRandom(script)
      try:
        d = spec.random_dna(r)
        randoms.append({'dna': tree_of(d), 'left': len(script) - r.pos})
      except ScriptMismatch as e:
        randoms.append({'mismatch': str(e)[:200]})
      except CaseTimeout:
        raise
      except Exception as e:   # pylint: disable=broad-except
        randoms.append({'error': type(e).__name__})
    out['randoms'] = randoms
    prev_randoms = []
    for p in case.get('prevs', []):
      r = ScriptedRandom(p['script'])
      try:
        prev = mk_dna(p['prev'])
        if p['member']:
          prev.use_spec(spec)
        d = spec.random_dna(r, previous_dna=prev)
        prev_randoms.append({'dna': tree_of(d), 'left': len(p['script']) - r.pos})
      except CaseTimeout:
        raise
      except ScriptMismatch as e:
        prev_randoms.append({'mismatch': str(e)[:200]})
      except Exception as e:   # pylint: disable=broad-except
        prev_randoms.append(None)
        obs.setdefault('prev_errors', []).append([p['member'], type(e).__name__])
    out['prev_randoms'] = prev_randoms
    # iteration without attaching the spec
    if case['fuel'] > 0:
      try:
        raw, d = [], None
        for _ in range(case['fuel']):
          d = spec.next_dna(d, attach_spec=False)
          if d is None:
            break
          raw.append(d)
        obs['iter_unattached'] = [tree_of(x) for x in raw]
        obs['unattached_unbound'] = all(x.spec is None for x in raw)
        obs['first_unattached'] = tree_of(spec.first_dna(attach_spec=False))
      except CaseTimeout:
        raise
      except Exception as e:   # pylint: disable=broad-except
        obs['iter_unattached'] = type(e).__name__
    seeded = []
    for seed in case['seeds']:
      try:
        seeded.append(tree_of(spec.random_dna(_random.Random(seed))))
      except CaseTimeout:
        raise
      except Exception as e:   # pylint: disable=broad-except
        seeded.append(type(e).__name__)
    obs['seeded'] = seeded
    cmps = []
    for a, b in case['cmps']:
      try:
        cmps.append(cmp3(mk_dna(a), mk_dna(b)))
      except CaseTimeout:
        raise
      except Exception as e:   # pylint: disable=broad-except
        cmps.append('construct-' + type(e).__name__)
    out['cmps'] = cmps
    return {'model': out, 'obs': obs}

  def compare(self, case, impl_out, model_out):
    a, b = impl_out['model'], model_out
    diffs = []
    def chk(name, x, y):
      if x != y:
        diffs.append('%s: impl=%s model=%s' % (name, str(x)[:300], str(y)[:300]))
    chk('size', a['size'], b['size'])
    if 'sweep' in a:
      chk('sweeping', a['sweep'], b.get('sweep'))
    if 'first' in a:
      chk('first', a['first'], b.get('first'))
    if 'iter' in a:
      ia, ib = a['iter'], b.get('iter')
      if isinstance(ia, str):
        chk('iter', 'error', ib)
      else:
        chk('iter', ia, ib)
    if 'all' in b and isinstance(b.get('iter'), dict):
      # exhaustive small-scope evidence for the theorems still staged (C11_next_Full, C11_size_Full):
      # the model's own iteration / size against the specification `allValid`
      chk('model iter vs allValid (spec)', b['iter']['dnas'], b['all'])
      chk('model size vs |allValid|', b['size'], len(b['all']))
    for i, (ca, cb) in enumerate(zip(a['checks'], b['checks'])):
      if 'construct' in ca:
        continue
      kind = case['dnas'][i]['kind']
      chk('norm[%d,%s]' % (i, kind), ca['norm'], cb['norm'])
      chk('validate[%d,%s]' % (i, kind), ca['validate'] == 'ok', cb['validate'])
      chk('bind[%d,%s]' % (i, kind), ca['bind'] == 'ok', cb['bind'])
      chk('bind twice[%d,%s]' % (i, kind), ca.get('bind_again', ca['bind']) == 'ok', cb['bind'])
      chk('valid(spec) vs reference[%d,%s]' % (i, kind), G.ref_valid(case['spec'], cb['norm']), cb['valid'])
      if 'next' in ca or 'next' in cb:
        chk('next[%d,%s]' % (i, kind), ca.get('next', 'absent'), cb.get('next', 'absent'))
    for i, (ra, rb) in enumerate(zip(a['randoms'], b['randoms'])):
      if 'dna' in ra:
        chk('random[%d]' % i, (ra['dna'], ra['left']), (rb and rb.get('dna'), rb and rb.get('left')))
      else:
        chk('random[%d]' % i, ra, rb)
    if 'hooked' in a:
      chk('hooked', a['hooked'], b.get('hooked'))
    chk('cmps', a['cmps'], b['cmps'])
    chk('random_dna(previous_dna)', a.get('prev_randoms', []), b.get('prev_randoms', []))
    chk('lens', (len(a['checks']), len(a['randoms'])), (len(b['checks']), len(b['randoms'])))
    return '; '.join(diffs) if diffs else None

  # -- the property itself ------------------------------------------------------------------
  def oracle(self, case, out):
    spec = case['spec']
    m, obs = out['model'], out['obs']
    if case.get('hooked'):
      # exact enumeration with user hooks under contract: every member once, in both attach modes, then the end
      hm, ho = m['hooked'], obs['hooked']
      ref = {G.freeze(t) for t in G.ref_all(case['hooked']['spec'])}
      it = hm['iter']
      if isinstance(it, str):
        return {'signature': 'hooked-iter-raises', 'what': 'next_dna raised %s on %s' % (ho.get('iter_error'), case['hooked']['spec'])}
      got = [G.freeze(t) for t in it['dnas']]
      if not it['ended'] or len(set(got)) != len(got) or set(got) != ref:
        return {'signature': 'hooked-iter-not-exact',
                'what': 'with hooks: %d DNAs (ended=%s, distinct=%d), members=%d; spec %s' % (
                    len(got), it['ended'], len(set(got)), len(ref), case['hooked']['spec'])}
      if ho['iter_unattached'] != it or ho['iter_dna'] != it['dnas']:
        return {'signature': 'attach-spec-false-differs',
                'what': 'hooked spec: next_dna(attach_spec=False) / iter_dna differ from next_dna()'}
      if not ho['bound'] or not ho['unbound']:
        return {'signature': 'attach-spec-binding', 'what': 'attach_spec=True left a DNA unbound or attach_spec=False bound one'}
      if hm['first'] != (it['dnas'][0] if it['dnas'] else None):
        return {'signature': 'first-not-first-of-iter', 'what': 'hooked first_dna %s' % hm['first']}
    finite = G.is_finite(spec)
    if finite and case['fuel'] > 0:
      ref = G.ref_all(spec)
      refset = {G.freeze(t) for t in ref}
      if m['size'] != len(ref):
        return {'signature': 'size-differs-from-member-count',
                'what': 'space_size=%s, number of DNAs satisfying the constraints=%d' % (m['size'], len(ref))}
      it = m['iter']
      if isinstance(it, str):
        return {'signature': 'iter-raises', 'what': 'iter_dna raised %s' % it}
      got = [G.freeze(t) for t in it['dnas']]
      if len(got) != m['size']:
        return {'signature': 'iter-count-differs-from-size',
                'what': 'iter_dna yields %d DNAs (ended=%s), space_size=%s' % (len(got), it['ended'], m['size'])}
      if len(set(got)) != len(got):
        return {'signature': 'iter-repeats', 'what': 'iter_dna yields a DNA twice'}
      if any(c != -1 for c in obs['increasing']):
        i = [c != -1 for c in obs['increasing']].index(True)
        return {'signature': 'iter-not-increasing',
                'what': 'DNA %d !< DNA %d: %s, %s' % (i, i + 1, it['dnas'][i], it['dnas'][i + 1])}
      if not it['ended']:
        return {'signature': 'iter-no-end', 'what': 'the last DNA still has a successor'}
      if set(got) != refset:
        extra = [t for t in got if t not in refset][:2]
        missing = [t for t in refset if t not in set(got)][:2]
        return {'signature': 'iter-set-differs-from-members',
                'what': 'iterated set != member set; extra=%s missing=%s' % (extra, missing)}
      if m.get('first') != (it['dnas'][0] if it['dnas'] else None):
        return {'signature': 'first-differs', 'what': 'first_dna=%s, iteration starts with %s' % (
            m.get('first'), it['dnas'][:1])}
      sw = obs.get('sweeping')
      if sw is not None and (not isinstance(sw, dict) or sw['props'] != it['dnas'] or not sw['ended']):
        return {'signature': 'sweeping-differs', 'what': 'Sweeping proposals differ from iter_dna: %s'
                % str(sw)[:300]}
      if sw is not None and any(x != 'stop' for x in sw['after_end']):
        return {'signature': 'sweeping-restarts-after-end',
                'what': 'after StopIteration further propose() calls returned %s instead of raising StopIteration '
                        'again' % str(sw['after_end'])[:300]}
      if not obs['bound']:
        return {'signature': 'iter-unbound', 'what': 'iter_dna returned a DNA without spec'}
    elif finite is False and m['size'] != -1:
      return {'signature': 'infinite-space-with-size', 'what': 'space_size=%s for a spec with float/custom points' % m['size']}
    if finite and case['fuel'] > 0 and 'iter_unattached' in obs:
      if obs['iter_unattached'] != m['iter']['dnas'] or not obs.get('unattached_unbound') or \
          obs.get('first_unattached') != m.get('first'):
        return {'signature': 'attach-spec-false-differs',
                'what': 'next_dna / first_dna with attach_spec=False differ from the bound iteration or return '
                        'bound DNAs: %s' % str(obs['iter_unattached'])[:300]}
    for (was_member, err) in obs.get('prev_errors', []):
      if was_member:
        return {'signature': 'random-previous-raises', 'what': 'random_dna(previous_dna=<member>) raised %s' % err}
    for r, p in zip(m.get('prev_randoms', []), case.get('prevs', [])):
      if r and 'dna' in r and not G.ref_valid(spec, r['dna']):
        return {'signature': 'random-not-a-member', 'what': 'random_dna(previous_dna=%s) returned %s' % (p['prev'], r['dna'])}
    # validation and binding accept exactly the members
    for d, c in zip(case['dnas'], m['checks']):
      if 'construct' in c:
        continue
      member = G.ref_valid(spec, c['norm'])
      if finite and case['fuel'] > 0 and member != (G.freeze(c['norm']) in refset):
        return {'signature': 'reference-inconsistent', 'what': 'harness bug: ref_valid vs ref_all on %s' % c['norm']}
      for api in ('validate', 'bind'):
        ok = c[api] == 'ok'
        if ok and not member:
          return {'signature': '%s-accepts-nonmember:%s' % (api, self.why_nonmember(spec, c['norm'])),
                  'what': '%s accepts %s (%s), which violates the constraints of %s' % (
                      api, c['norm'], d['kind'], G.spec_key(spec)[:300])}
        if member and not ok:
          return {'signature': '%s-rejects-member' % api,
                  'what': '%s raises %s on the member %s' % (api, c[api], c['norm'])}
      if 'bind_again' in c and (c['bind_again'] == 'ok') != (c['bind'] == 'ok'):
        return {'signature': 'bind-twice-differs',
                'what': 'use_spec on %s (%s): first call %s, second call on the same object %s; spec %s' % (
                    c['norm'], d['kind'], c['bind'], c['bind_again'], G.spec_key(spec)[:300])}
      if member and 'next' in c and c['next'] not in (None, 'error'):
        if not G.ref_valid(spec, c['next']):
          return {'signature': 'next-not-a-member', 'what': 'next_dna(%s) = %s' % (c['norm'], c['next'])}
      if member and c.get('next') == 'error':
        return {'signature': 'next-raises-on-member', 'what': 'next_dna(%s) raised %s' % (c['norm'], c.get('next_error'))}
    # random generation returns members
    for r in m['randoms']:
      if 'dna' in r and not G.ref_valid(spec, r['dna']):
        return {'signature': 'random-not-a-member', 'what': 'random_dna (scripted) returned %s' % r['dna']}
      if 'error' in r:
        return {'signature': 'random-raises', 'what': 'random_dna raised %s' % r['error']}
    for t in obs.get('seeded', []):
      if isinstance(t, str):
        return {'signature': 'random-raises', 'what': 'random_dna(Random(seed)) raised %s' % t}
      if not G.ref_valid(spec, t):
        return {'signature': 'random-not-a-member', 'what': 'random_dna(Random(seed)) returned %s' % t}
    return None

  def why_nonmember(self, spec, tree):
    """A narrow class of the reason a DNA is not a member (for finding signatures)."""
    pts = [p for p in G.points(spec)]
    def neg(t):
      return (isinstance(t[0], int) and not isinstance(t[0], bool) and t[0] < 0) or any(neg(c) for c in t[1])
    def float_kids(t):
      return (isinstance(t[0], dict) and bool(t[1])) or any(float_kids(c) for c in t[1])
    if float_kids(tree) and any(p['t'] == 'f' for p in pts):
      return 'float-with-children'
    if neg(tree):
      return 'negative-index'
    if tree[0] is not None and len(tree[1]) >= 2:
      return 'stray-value'
    return 'other'

  def nontrivial(self, case, out):
    if 'model' not in out:
      return False
    return (not G.is_finite(case['spec'])) or (case['fuel'] > 3)

  def describe(self, case, out):
    if 'model' not in out:
      return ['timeout']
    spec = case['spec']
    h = []
    pts = G.points(spec)
    h.append('root:' + ('space%d' % len(spec['elems']) if spec['t'] == 's' else 'point'))
    h.append('finite' if G.is_finite(spec) else 'non-finite')
    h.append('depth:%d' % G.depth(spec))
    size = out['model']['size']
    h.append('size:' + ('inf' if size < 0 else '1' if size == 1 else '2-9' if size < 10 else
                        '10-99' if size < 100 else '100-999' if size < 1000 else '>=1000'))
    h.append('enumerated' if case['fuel'] > 0 else 'not-enumerated')
    for p in pts:
      if p['t'] == 'c':
        if p['k'] == 1:
          h.append('point:single')
        else:
          h.append('point:multi k=%d %s%s' % (min(p['k'], 4), 'distinct ' if p['d'] else '', 'sorted' if p['s'] else ''))
        if any(c for c in p['cands']):
          h.append('point:conditional')
      else:
        h.append('point:' + ('float' if p['t'] == 'f' else 'custom'))
    for d, c in zip(case['dnas'], out['model']['checks']):
      h.append('dna:' + d['kind'])
      if 'validate' in c:
        h.append('validate:' + c['validate'])
        h.append('bind:' + c['bind'])
    for r in out['model']['randoms']:
      h.append('random:' + ('ok' if 'dna' in r else 'mismatch' if 'mismatch' in r else 'error'))
    return h

  def shrink_candidates(self, case):
    if len(case['dnas']) > 1:
      for d in case['dnas']:
        c = dict(case)
        c['dnas'] = [d]
        c['cmps'] = []
        yield c
    if case['scripts'] or case['cmps']:
      c = dict(case)
      c['scripts'], c['seeds'], c['cmps'] = [], [], []
      yield c
    if len(case['scripts']) > 1:
      for s, seed in zip(case['scripts'], case['seeds']):
        c = dict(case)
        c['scripts'], c['seeds'] = [s], [seed]
        yield c

  def search_cases(self, rng, tier, broken):
    # quick: one more pass of the (light) quick generator, so that the search ends within about a minute
    for _ in range(1 if tier == 'quick' else 2):
      yield from self.generate(rng.fork(), tier)


PROP = C11()
